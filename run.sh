#!/bin/bash
# Single entry point: ./run.sh setup | ./run.sh <property> quick|thorough | ./run.sh <property> replay <file> | ./run.sh selftest
set -u
cd "$(dirname "$0")"
VERIF="$(pwd)"
export GOPROXY=off GOSUMDB=off GOTOOLCHAIN=local GOFLAGS=-mod=mod CGO_ENABLED=0
unset GOWORK
BIN="$VERIF/.bin/vcheck"
build() {
  mkdir -p "$VERIF/.bin"
  if [ ! -x "$BIN" ] || [ -n "$(find "$VERIF/checker" -newer "$BIN" -name '*.go' -not -path '*/vendor/*' -print -quit)" ]; then
    (cd "$VERIF/checker" && GOFLAGS=-mod=vendor go build -o "$BIN" ./cmd/vcheck) || { echo "BUILD-FAILED vcheck" >&2; exit 2; }
  fi
}
case "${1:-}" in
  setup) build; exit 0;;
  "") echo "usage: run.sh setup | <property> quick|thorough | <property> replay <file> | selftest" >&2; exit 2;;
esac
build
exec "$BIN" -verif "$VERIF" -repo "${VERIF_REPO:-/repo}" "$@"
