package main

import (
	"fmt"

	"github.com/crate-crypto/go-ipa/bandersnatch/fr"
	"github.com/crate-crypto/go-ipa/banderwagon"
)

func main() {
	var s fr.Element
	s.SetUint64(1234567891234567)
	s.Square(&s)
	s.Square(&s)
	id := banderwagon.Identity
	var r banderwagon.Element
	r.ScalarMul(&id, &s)
	fmt.Println("id*s == id:", r.Equal(&banderwagon.Identity), r.Bytes())
	var d banderwagon.Element
	d.Sub(&banderwagon.Generator, &banderwagon.Generator) // (0,k,k)
	r.ScalarMul(&d, &s)
	fmt.Println("(G-G)*s == id:", r.Equal(&banderwagon.Identity), r.Bytes())
	var chk banderwagon.Element
	chk.Add(&r, &banderwagon.Generator)
	fmt.Println("(G-G)*s + G == G:", chk.Equal(&banderwagon.Generator))
}
