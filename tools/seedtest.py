#!/usr/bin/env python3
"""Re-run every kept seeded change (seeded/*/patch.diff) against its property's check on a scratch copy of /repo:
a seed recorded as detected must make the check report a violation, a seed recorded as not detected is listed.
Scratch copies live under a mktemp dir that is removed.  usage: seedtest.py [filter-substring] [--jobs=N]"""
import sys, os, subprocess, tempfile, shutil, glob, concurrent.futures, json
V = os.path.dirname(os.path.dirname(os.path.abspath(__file__)))
REPO = os.environ.get("VERIF_REPO", "/repo")
BIN = os.path.join(V, ".bin", "vcheck")
subprocess.run([os.path.join(V, "run.sh"), "setup"], check=True)
flt = [a for a in sys.argv[1:] if not a.startswith("--")]
jobs = 6
for a in sys.argv[1:]:
    if a.startswith("--jobs="):
        jobs = int(a.split("=")[1])
env = dict(os.environ, GOFLAGS="-mod=mod", GOPROXY="off", GOSUMDB="off", GOTOOLCHAIN="local")
env.pop("GOWORK", None)

def run(d):
    meta = json.load(open(os.path.join(d, "meta.json")))
    prop = meta["property"]
    tmp = tempfile.mkdtemp(prefix="vseed-")
    try:
        subprocess.run(["rsync", "-a", "--exclude", ".git", REPO + "/", tmp + "/"], check=True)
        r = subprocess.run(["patch", "-p1", "-s", "-d", tmp, "-i", os.path.join(d, "patch.diff")], capture_output=True, text=True)
        if r.returncode != 0:
            return (False, d, "patch does not apply: " + r.stdout[:200])
        r = subprocess.run([BIN, "-verif", V, "-repo", tmp, prop, "dump"], capture_output=True, text=True, env=env)
        bad = [l for l in r.stdout.splitlines() if l.startswith("violated") or l.startswith("undecided")]
        rules = sorted({l.split()[1] for l in bad})
        want = meta["detected_by_checks"]
        if want and not bad:
            return (False, d, f"{prop}: recorded as detected, but the check is silent")
        if not want and bad:
            return (True, d, f"{prop}: recorded as NOT detected, but now reported by {rules} - update meta.json")
        if not want:
            return (True, d, f"{prop}: not detected (as recorded)")
        return (True, d, f"{prop}: reported by {', '.join(rules)}")
    finally:
        shutil.rmtree(tmp, ignore_errors=True)

dirs = sorted(d for d in glob.glob(os.path.join(V, "seeded", "*")) if os.path.isdir(d) and (not flt or any(f in d for f in flt)))
fails = 0
with concurrent.futures.ThreadPoolExecutor(max_workers=jobs) as ex:
    for ok, d, msg in ex.map(run, dirs):
        print(("OK  " if ok else "FAIL"), os.path.basename(d) + ":", msg)
        fails += 0 if ok else 1
print(f"{len(dirs)} seeds, {fails} failures")
sys.exit(1 if fails else 0)
