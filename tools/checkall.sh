#!/bin/bash
# Runs every registered check (quick and thorough) on the unchanged tree and the mutant corpus; prints only problems.
cd "$(dirname "$0")/.."
./run.sh setup || exit 2
bad=0
for p in $(seq -f 'C%02g' 1 20); do
  for t in quick thorough; do
    out=$(./run.sh $p $t 2>&1); rc=$?
    if [ $rc -ne 0 ] || echo "$out" | grep -q '^VIOLATION\|KNOWN-FINDING'; then echo "PROBLEM $p $t (exit $rc)"; echo "$out" | grep -v '^VIOLATION' | head -5 | cut -c1-300; bad=1; fi
  done
done
# leave quick evidence in place (that is what gets committed)
for p in $(seq -f 'C%02g' 1 20); do ./run.sh $p quick >/dev/null 2>&1; done
python3 tools/manifest.py >/dev/null
tools/selftest.py --jobs=12 | tail -1
tools/seedtest.py --jobs=6 2>&1 | tail -1
exit $bad
