#!/bin/bash
# prep_seed.sh <id> : scratch worktree /tmp/wt-<id>, /tmp/out-<id>/property.json and /tmp/prompt-<id>.txt (avoid list = summaries of the seeds already kept for that property)
id=$1
git -C /repo worktree add --detach /tmp/wt-$id HEAD >/dev/null 2>&1 || { echo "worktree exists?"; }
mkdir -p /tmp/out-$id
python3 - "$id" <<'P'
import json,sys,glob,subprocess
pid=sys.argv[1]
for l in open('/verif/properties.jsonl'):
    p=json.loads(l)
    if p['id']==pid: json.dump(p,open(f'/tmp/out-{pid}/property.json','w'))
av=[]
for m in sorted(glob.glob(f'/verif/seeded/{pid}-*/meta.json')):
    s=json.load(open(m)).get('summary') or ''
    av.append(s.strip().replace('\n',' ')[:260])
avoid=' ; '.join(f'({i+1}) {a}' for i,a in enumerate(av))
out=subprocess.run(['python3','/verif/tools/seed_prompt.py',pid,avoid],capture_output=True,text=True).stdout
open(f'/tmp/prompt-{pid}.txt','w').write(out)
print(pid, len(av), 'avoided;', len(out), 'chars')
P
