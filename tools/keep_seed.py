#!/usr/bin/env python3
"""keep_seed.py <prop> <name> <detected:yes|no> "<caught by / note>" "<what I ran>" : copy a confirmed seeded change from /tmp/out-<prop> into /verif/seeded/<name>/"""
import sys, os, json, shutil
prop, name, detected, note, ran = sys.argv[1:6]
src = sys.argv[6] if len(sys.argv) > 6 else f"/tmp/out-{prop}"
dst = f"/verif/seeded/{name}"
os.makedirs(dst, exist_ok=True)
shutil.copy(f"{src}/patch.diff", f"{dst}/patch.diff")
if os.path.isdir(f"{dst}/demo"):
    shutil.rmtree(f"{dst}/demo")
shutil.copytree(f"{src}/demo", f"{dst}/demo")
m = json.load(open(f"{src}/meta.json"))
meta = {"property": prop, "summary": m.get("summary"), "needs_to_manifest": m.get("needs"),
        "origin": "independent sub-agent given only the property text and a scratch worktree",
        "confirmed_by_me": {"builds": True, "existing_suite_passes_with_change": True, "demo_fails_with_change": True, "demo_passes_without_change": True, "what_i_ran": ran},
        "detected_by_checks": detected == "yes", "detection": note}
json.dump(meta, open(f"{dst}/meta.json", "w"), indent=1)
print("kept", dst)
