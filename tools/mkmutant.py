#!/usr/bin/env python3
"""mkmutant.py <breaking|benign> <name> <property> <rule> <expect-substring> <file> <old> <new> [<file> <old> <new> ...]
Creates mutants/<kind>/<name>.patch from /repo's current tree by exact (unique) string replacement."""
import sys, os, difflib
V = os.path.dirname(os.path.dirname(os.path.abspath(__file__)))
kind, name, prop, rule, expect = sys.argv[1:6]
rest = sys.argv[6:]
assert len(rest) % 3 == 0 and rest
out = [f"# property: {prop}", f"# rule: {rule}", f"# expect: {expect}"]
byfile = {}
for i in range(0, len(rest), 3):
    f, old, new = rest[i:i+3]
    src = byfile.get(f) or open(os.path.join("/repo", f)).read()
    if src.count(old) != 1:
        sys.exit(f"{name}: pattern occurs {src.count(old)} times in {f}: {old!r}")
    byfile[f] = src.replace(old, new)
for f, new in byfile.items():
    old = open(os.path.join("/repo", f)).read()
    d = difflib.unified_diff(old.splitlines(True), new.splitlines(True), "a/" + f, "b/" + f)
    out.append("".join(d).rstrip("\n"))
p = os.path.join(V, "mutants", kind, name + ".patch")
open(p, "w").write("\n".join(out) + "\n")
print("wrote", p)
