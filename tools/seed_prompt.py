import json,sys
pid=sys.argv[1]
avoid=sys.argv[2] if len(sys.argv)>2 else ""
p=json.load(open(f"/tmp/out-{pid}/property.json"))
print(f"""You are helping test a verification effort for the Go library crate-crypto/go-ipa (Verkle-tree cryptography: Bandersnatch/Banderwagon group, Pedersen commitments, IPA and multiproof prover/verifier).

You have your own scratch git worktree of the repository at /tmp/wt-{pid} (work ONLY there; never touch /repo or /verif, and do not read anything under /verif). Write your results to /tmp/out-{pid}/.

Environment: no network. For every shell command first run:
  export GOFLAGS=-mod=mod GOPROXY=off GOSUMDB=off GOTOOLCHAIN=local; unset GOWORK
The existing test suite is run with:  cd /tmp/wt-{pid} && go test -vet=off -count=1 -timeout 25m ./...   (about 1-2 minutes; all tests pass on the unchanged tree).

Here is a semantic property the library is supposed to satisfy:

  id: {p['id']}
  title: {p['title']}
  statement: {p['statement']}
  quantified over: {p['quantifier']['text']}
  why the existing tests cannot settle it: {p['why_tests_cant']}
  code it is anchored in: {json.dumps(p['anchors']['files'])}
  mechanisms meant to make it hold: {json.dumps(p['anchors']['mechanism'])}

Your task: produce ONE realistic change to the library source (non-test .go or .s files under /tmp/wt-{pid}) that BREAKS this property while the code still compiles and the whole existing test suite still passes. Prefer a change that needs something specific to manifest — a particular interleaving, a fault at a particular point, a multi-step sequence of operations, an unusual input, or two cooperating sites that each look fine alone — NOT one that ordinary use would expose at once. It should look like something a developer could plausibly write (a refactor gone slightly wrong, an optimisation, a dropped check, an off-by-one, a swapped argument), not sabotage with dead giveaway names. Do not reuse the examples mentioned in the property text above; find a different one.{(" Also do NOT base your change on any of the following, which have already been explored: " + avoid + ". Pick a different function and a different kind of mistake.") if avoid else ""}

Also write a demonstration: a small Go test file or program (kept OUTSIDE the patch, e.g. a _test.go file you add only for the demo, or a main package in a scratch module using `replace github.com/crate-crypto/go-ipa => /tmp/wt-{pid}` and a copy of /tmp/wt-{pid}/go.sum) that FAILS (or visibly shows the violation) with your change applied and PASSES on the unchanged code. Verify both directions yourself. IMPORTANT: do NOT use `git stash` (the stash is shared between all worktrees of this repository and other people are working in sibling worktrees); to compare, save your change with `git -C /tmp/wt-{pid} diff > /tmp/out-{pid}/patch.diff`, remove it with `git -C /tmp/wt-{pid} apply -R /tmp/out-{pid}/patch.diff`, and put it back with `git -C /tmp/wt-{pid} apply /tmp/out-{pid}/patch.diff`.

Deliver in /tmp/out-{pid}/:
  - patch.diff   : output of `git -C /tmp/wt-{pid} diff` containing ONLY the library change (not the demo)
  - demo/        : the demonstration files, plus demo/RUN.md with the exact commands to run it and the output observed with and without the change
  - meta.json    : {{"property": "{pid}", "summary": "...what the change does...", "needs": "...what is needed for it to manifest...", "suite_passes_with_change": true/false, "demo_fails_with_change": true/false, "demo_passes_without_change": true/false}}

Before finishing, confirm: (1) `go build ./...` succeeds with the change, (2) the full existing test suite passes with the change, (3) the demo fails with the change and passes without. Leave the worktree with ONLY the library change applied (remove demo files from the worktree if you put any there, after copying them to demo/). Keep your final answer short: one paragraph describing the change.""")
