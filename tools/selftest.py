#!/usr/bin/env python3
"""Self-test of the checker: every mutants/breaking/*.patch must make the named rule report the named construct;
every mutants/benign/*.patch must leave the named property's check silent. Scratch copies live under a mktemp dir that is removed.
usage: selftest.py [filter-substring] [--jobs N]"""
import sys, os, subprocess, tempfile, shutil, glob, concurrent.futures, json
V = os.path.dirname(os.path.dirname(os.path.abspath(__file__)))
REPO = os.environ.get("VERIF_REPO", "/repo")
BIN = os.path.join(V, ".bin", "vcheck")
subprocess.run([os.path.join(V, "run.sh"), "setup"], check=True)  # rebuild the checker if its sources changed
flt = [a for a in sys.argv[1:] if not a.startswith("--")]
jobs = 8
for a in sys.argv[1:]:
    if a.startswith("--jobs="):
        jobs = int(a.split("=")[1])

def header(path):
    h = {}
    for l in open(path):
        if l.startswith("# ") and ":" in l:
            k, v = l[2:].split(":", 1)
            h[k.strip()] = v.strip()
    return h

def run_one(path):
    kind = os.path.basename(os.path.dirname(path))
    h = header(path)
    tmp = tempfile.mkdtemp(prefix="vmut-")
    try:
        subprocess.run(["rsync", "-a", "--exclude", ".git", REPO + "/", tmp + "/"], check=True)
        r = subprocess.run(["patch", "-p1", "-s", "-d", tmp, "-i", path], capture_output=True, text=True)
        if r.returncode != 0:
            return (path, "SKIP", "patch does not apply: " + r.stdout.strip()[:200])
        env = dict(os.environ, GOFLAGS="-mod=mod", GOPROXY="off", GOSUMDB="off", GOTOOLCHAIN="local")
        props = h["property"].split(",")
        if props == ["ALL"]:
            props = ["C%02d" % i for i in range(1, 21)]
        msgs = []
        ok = True
        allout = None
        if len(props) == 20:
            ra = subprocess.run([BIN, "-verif", V, "-repo", tmp, "ALL", "dump"], capture_output=True, text=True, env=env)
            if ra.returncode != 0 and not ra.stdout:
                return (path, "FAIL", "checker failed: " + ra.stderr[-300:])
            allout = {}
            for l in ra.stdout.splitlines():
                if "\t" in l:
                    pid, rest = l.split("\t", 1)
                    allout.setdefault(pid, []).append(rest)
        for prop in props:
            if allout is not None:
                open_obs = [l for l in allout.get(prop, []) if l.startswith(("violated", "undecided"))]
            else:
                r = subprocess.run([BIN, "-verif", V, "-repo", tmp, prop, "dump"], capture_output=True, text=True, env=env)
                open_obs = [l for l in r.stdout.splitlines() if l.startswith(("violated", "undecided"))]
                if r.returncode != 0 and not r.stdout:
                    return (path, "FAIL", "checker failed: " + r.stderr[-300:])
            if kind == "breaking":
                hit = [l for l in open_obs if l.split()[1] == h["rule"] and h["expect"] in l]
                if not hit:
                    ok = False
                    msgs.append(f"{prop}: rule {h['rule']} did not report a construct containing {h['expect']!r}; open: " + "; ".join(o[:140] for o in open_obs[:4]))
                else:
                    msgs.append(f"{prop}: " + hit[0][:160])
            else:
                if open_obs:
                    ok = False
                    msgs.append(f"{prop}: false alarm: " + "; ".join(o[:200] for o in open_obs[:4]))
                else:
                    msgs.append(f"{prop}: silent")
        return (path, "OK" if ok else "FAIL", " | ".join(msgs))
    finally:
        shutil.rmtree(tmp, ignore_errors=True)

# mutants/limits: behaviour-preserving rewrites the checks are KNOWN to alarm on (DESIGN 10.6). They are run like benign
# ones and reported as LIMIT (still alarming) or NOWOK (no longer alarming: move the patch to benign/); never a failure.
paths = sorted(glob.glob(os.path.join(V, "mutants", "breaking", "*.patch")) + glob.glob(os.path.join(V, "mutants", "benign", "*.patch")) + glob.glob(os.path.join(V, "mutants", "limits", "*.patch")))
if flt:
    paths = [p for p in paths if any(f in p for f in flt)]
fails = 0
with concurrent.futures.ThreadPoolExecutor(jobs) as ex:
    for path, st, msg in ex.map(run_one, paths):
        if os.path.basename(os.path.dirname(path)) == "limits":
            st = {"FAIL": "LIMIT", "OK": "NOWOK"}.get(st, st)
        if st == "FAIL":
            fails += 1
        print(f"{st:4} {os.path.relpath(path, V)}: {msg}")
print(f"{len(paths)} mutants, {fails} failures")
sys.exit(3 if fails else 0)
