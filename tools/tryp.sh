#!/bin/bash
# tryp.sh <patch-substring> <prop> : apply one mutant to the scratch worktree /tmp/wk and show the open obligations of <prop>
f=$(ls /verif/mutants/*/*$1*.patch | head -1); [ -z "$f" ] && { echo "no patch"; exit 1; }
[ -d /tmp/wk ] || git -C /repo worktree add --detach /tmp/wk HEAD >/dev/null 2>&1
cd /tmp/wk && git checkout -- . && git clean -fdq && patch -p1 -s < $f || exit 1
cd /verif && ./run.sh setup
rm -rf /tmp/wk-norm; .bin/vcheck -repo /tmp/wk normalise /tmp/wk-norm | cut -c1-700
VERIF_REPO=/tmp/wk ./run.sh $2 quick 2>&1 | grep -E "\[(violated|UNDECIDED)|obligations" | cut -c1-${3:-600}
