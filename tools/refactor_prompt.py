import sys
k=sys.argv[1]; files=sys.argv[2]
done=sys.argv[3] if len(sys.argv)>3 else ""
n=int(sys.argv[4]) if len(sys.argv)>4 else 8
style=sys.argv[5] if len(sys.argv)>5 else ""
print(f"""You are helping test a static-analysis effort for the Go library crate-crypto/go-ipa (Verkle-tree cryptography: Bandersnatch/Banderwagon group, Pedersen commitments, IPA and multiproof prover/verifier). The analysers must NOT raise alarms on behaviour-preserving rewrites, so we need a set of realistic, genuinely behaviour-preserving refactors to try them on.

You have your own scratch git worktree of the repository at /tmp/wr-{k} (work ONLY there; never touch /repo or /verif, and do not read anything under /verif). Write results to /tmp/outr-{k}/.

Environment: no network. For every shell command first run:
  export GOFLAGS=-mod=mod GOPROXY=off GOSUMDB=off GOTOOLCHAIN=local; unset GOWORK
Full test suite:  cd /tmp/wr-{k} && go test -vet=off -count=1 -timeout 25m ./...   (1-2 minutes, all pass on the unchanged tree). Do NOT use `git stash` (it is shared with sibling worktrees); to start over use `git -C /tmp/wr-{k} checkout -- .`.

Your files: {files}

Task: produce {n} INDEPENDENT refactors of NON-TEST code in those files, each one a separate patch against the unchanged HEAD (reset the worktree between them). Each must be the kind of rewrite a maintainer would do and a reviewer would accept as "no functional change", for example:
  - rename local variables / unexported helpers; reorder independent statements or declarations
  - extract a block into a new unexported helper function or method, or inline a small helper into its caller
  - change loop form (index loop <-> range loop, counting up <-> an equivalent formulation), hoist a loop-invariant expression into a local
  - if/else <-> early return, if-chain <-> switch, flip a condition and swap the branches, merge or split conditions with identical meaning
  - introduce a temporary for a sub-expression, or remove one; replace a literal by the equivalent named constant (or the reverse)
  - use an equivalent standard-library call (e.g. io.ReadFull for io.ReadAtLeast with the full length, new(T) for &T{{}}, copy() for an element loop, append-in-loop <-> preallocated slice)
  - move a variable declaration closer to / further from its use; change a closure into a named function (passing what it captured) or the reverse
  - wrap/unwrap errors with the same message text; add comments
{style} Vary the kinds across the patches, and spread them over different functions (prefer the functions that carry the library's core logic: proof creation/verification, transcript, (de)serialisation, decoding/validation, multi-scalar multiplication, table construction, field comparisons/encodings, parallel executor, batch normalisation). Make each patch reasonably substantial (touching 5-40 lines), not a one-token edit.{(" An earlier batch already produced the following refactors (names only; rN = file group): " + done + ". Choose DIFFERENT functions and/or different kinds of rewrite than those.") if done else ""}

HARD REQUIREMENTS for every patch: the observable behaviour must be IDENTICAL for every input (not just the tested ones): same results, same errors returned in the same situations (error message wording may stay the same; do not add or remove checks), same mutation/non-mutation of arguments, same aliasing safety, same concurrency structure guarantees (no new shared mutable state, no removed synchronisation), same bytes written/read, same transcript contents. Do not change exported signatures. Do not "fix" or "optimise" anything. If you are not sure a rewrite preserves behaviour in every case, pick another one.

For each patch NN (01..{n:02d}): apply it to a clean worktree, run `go build ./... && go vet ./...` and the FULL test suite, then save `git -C /tmp/wr-{k} diff > /tmp/outr-{k}/NN-short-name.diff`, then `git -C /tmp/wr-{k} checkout -- .` before starting the next. Also write /tmp/outr-{k}/README.md with one line per patch: file/function touched, kind of refactor, and why behaviour is unchanged. Leave the worktree clean at the end. Keep your final answer to a few lines.""")
