#!/usr/bin/env python3
"""Regenerates /verif/MANIFEST.json from the table below (kept next to the checks so the two stay in step)."""
import json, os, subprocess
V = os.path.dirname(os.path.dirname(os.path.abspath(__file__)))
props = [json.loads(l)["id"] for l in open(os.path.join(V, "properties.jsonl"))]

NOTE = ("Trusted base: Go type checker + go/ssa (x/tools v0.29.0, vendored), the hand-written analyser, the trust table of "
        "stdlib/gnark contracts (rules/wfx_trust.go; gnark part recomputed from source in the thorough tier), frozen tables under /verif/tables. "
        "Decides structural clauses only; value-level clauses (numeric results) are not decided - see DESIGN.md section 4.")

# id -> (technique, level text, design ref)
CLAIMED = {
 "C13": ("interprocedural may-write (mod) analysis over SSA with a purity policy table (W1-W4)",
         "Static decision, for all inputs/paths/histories, that no function of the module may write configuration, package variables or caller inputs outside tables/purity.tsv; commitments written only through BatchNormalize. Over-approximating may-write analysis, so 'no write' holds on every path. Value-level clause (Cs stay Equal) not decided.",
         "4 C13, 3.1, 9.3"),
 "C02": ("dominance / must-pass-through on the verifier CFGs, def-use binding, Fiat-Shamir schedule extraction vs spec table, exhaustive outcome evaluation of the Equal guard (F1-F6, E1, E4)",
         "Static decision, for all inputs and paths, of the structural soundness clauses: 'true' can only come from the group-equation comparison; wrong shapes reach an error return, never acceptance or an unguarded index; every statement/proof component is absorbed with its own index before acceptance; schedules match the specification; Equal rejects the all-zero pseudo-point on all 16 outcomes. Agreement with a reference verifier on arbitrary inputs (the equation itself) is not decided.",
         "4 C02, 3.2"),
 "C14": ("post-dominance and ordering of calls in the transcript methods' CFGs, value-identity dataflow, write-effect analysis (F7, W1)",
         "Static decision, for all call sequences, of: appends unconditional and complete; challenge = hash of everything pending, digest before reset, buffer cleared after hashing, same little-endian-reduced scalar re-absorbed and returned; canonical encodings absorbed; protocol label first; labels/messages never modified. SHA-256, the reduction arithmetic and collision resistance are not decided.",
         "4 C14, 3.2 F7"),
 "C06": ("call-graph who-may-call, must-pass-through on the CFG specialised to trusted=false and on the exported validating wrapper, canonical-only decoder rule, finite-outcome evaluation of the Legendre decision, loop-exit discipline of the square-root code (D1-D4, D7, D12, R1, W1)",
         "Static decision, for all inputs and paths, that untrusted decoding can succeed only after: exact length, canonical decoding of x with its error propagated, on-curve test, subgroup test on that same x accepting exactly Legendre=+1 of 1-a*x^2, and (uncompressed) byte equality of the recomputed canonical y; that no untrusted entry point reaches an unchecked/reducing decoder; that decoders leave their buffer alone. Found and fixed DEF-1. Square-root/Legendre arithmetic not decided.",
         "4 C06, 3.3"),
 "C10": ("writer/reader layout extraction and comparison, EOF-probe rule, error-discipline must-pass rule, who-may-call, finite-outcome evaluation of the canonical-scalar decision, word coverage of setBigInt on both word sizes (D1, D4-D7, K10, W1)",
         "Static decision, for all inputs, reader chunkings and writer fault points, of: reader and writer agree on field order/count/encoding and with the spec order and log2(VectorLength); every point via the validating decoder, the scalar via the canonical one accepting exactly < r; trailing data rejected for every conforming reader (count constrained at the EOF probe); every error on read and write paths tested and propagated; Write does not modify the proof. Found and fixed DEF-3. Value-level round trip not decided.",
         "4 C10, 3.3"),
 "C16": ("write-effect analysis of every scalar decoder, finite-outcome evaluation of the canonical and SetBigInt decisions, no package variable written outside initialisers (W1, W2, D4)",
         "Static decision, for all byte strings, that no decoder writes the slice it is given (found and fixed DEF-2), that the canonical decoder accepts exactly Cmp(value,r) = -1 on the integer built from the input, and that SetBigInt's zero/direct shortcuts are taken only where they agree with reduction (all 9 outcomes). Mod/Montgomery arithmetic and byte-order tables (K4, pending) not decided here.",
         "4 C16, 3.1, 3.3 D4"),
 "C15": ("finite-outcome walk of the Euler criterion of Sqrt (K9), constant derivation with math/big from the modulus string, limb-alignment and carry-chain shape rules over the typed AST, write-effect analysis, finite evaluation of the limb-wise comparisons on all 81 limb orderings, and of the guard of every final subtraction of q on the same 81 (K1, K2, K11, W1, O1; Z1/W5/asm rules added as built)",
         "Static decision that every modulus-derived constant in package fr (limbs of q, R, R^2, (q-1)/2+1, -q^-1, exponents, the Sqrt generator) equals the value computed from the decimal modulus in the role its context implies, that limb k meets limb k with the same operands in the same order in every carry chain, comparison cascade and Montgomery round, and that operands are never written. These are necessary conditions; the numeric correctness of CIOS, inversion, Tonelli-Shanks and of the assembly is not decided.",
         "4 C15, 3.5"),
 "C12": ("goroutine/channel/pool discipline over SSA: per-goroutine slot classification of every write of every spawned function, join-before-use must-pass, channel capacity/count agreement, commutative fan-in, captured-cell stores, pool use-after-Put; plus write-effect immutability of shared state (G1-G7, W2, W3)",
         "Static decision, for all schedules, that (1) state shared between API calls is written only during construction/initialisation; (2) inside a call every goroutine writes only its own slots (or a channel / sync object), (3) parents read those slots and return only after the join of each child, (4) sends fit capacities or are matched one-to-one by receives with the same bound, close follows the join, so no call blocks forever on its own channels, (5) pooled integers are never used after Put. 'Returns exactly what it returns alone' as a value-level statement and races inside dependencies are not decided.",
         "4 C12, 3.6"),
 "C20": ("CFG post-dominance/ordering and per-iteration-cell analysis of the executor, difference-bound analysis of the ranges, symbolic execution of one loop iteration with polynomial identities for the partition (G7, G5, G3, I1, I2, S2)",
         "Static decision of the synchronisation clauses ONLY: Execute returns only after every invocation returned (Add before each spawn, Done after work on every path of the child, Wait on every path to return), each child calls work exactly once with the two values computed for its own iteration, one spawn per iteration; callers size result channels by the value they pass as the worker limit. NOT decided: the range arithmetic (disjoint contiguous cover of [0,n), at most min(n,m) invocations, no empty/out-of-bounds range) - it quantifies over integer values of n and m and needs enumeration or a solver, both outside this technique family; a remainder-distribution bug is not detected.",
         "4 C20, 3.6 G7"),
 "C03": ("Fiat-Shamir schedule extraction vs frozen spec table, layout extraction, commutativity of fan-in combiners, write-effect immutability, constant folding of the domain quotient for every index, completeness of the passes over the domain (F1,F2,F4,F7,D5,G2-G4,W2,W3,Q5,Q7)",
         "Static decision that labels, absorb order and loop structure equal the specification for prover and verifier, that openings are absorbed with their own index, that canonical encodings are what is hashed and serialised in the order D|L|R|a, that every merge in goroutine-completion order uses a commutative-associative combiner and takes each worker result exactly once, and that no call writes state a later call reads. Byte-for-byte equality with an independent implementation on concrete inputs and independence from the MSM window choice (group-law correctness) are not decided.",
         "4 C03, 3.2, 3.3 D5, 3.6 G4"),
 "C09": ("aligned-pair dataflow at call sites, dispatch/constant evaluation, chunk-coverage enumeration over constant-trip loops and the split branches, guarded-decrement dominance, length-guard dominance, loop-progress idiom, goroutine discipline, write effects (M1-M5, LG, T1, G1-G5, W1)",
         "Static decision, for every size, task count and schedule, that points/scalars stay paired through all wrappers/splits/chunks, flags reach the inner routine, every selectable width has an implementation with consistent constants, every chunk is processed and consumed exactly once (chunk j via channel j), v-1 indexes are guarded, length mismatch errors before slicing, the sizing loop makes progress, goroutines are joined and channels fit (so the call cannot block on its own channels). That bucket accumulation/reduction and digit recoding compute sum s_i P_i is not decided.",
         "4 C09, 3.4, 3.6"),
 "C01": ("schedule extraction vs spec, parallel-index agreement, shape-check dominance, worker-split idiom recognition, join/channel agreement, index-domain type inference incl. compacted positions, constant folding of the domain quotient for every index, completeness of the passes over the domain (F1,F2,F4,F6,S1,G2,G3,M6,Q5,Q7)",
         "Static decision, for every number of openings, evaluation-point pattern and CPU count, of the structural completeness clauses: prover and verifier replay the specified schedule; openings handled as aligned triples; every array indexed by an index of its own domain - in particular the inverse denominators by compacted position; the worker split is a ceil-division cover with clipped ranges and one receive per worker. The protocol algebra (that an honest proof satisfies the final equation) is not decided.",
         "4 C01, 3.2, 3.4 M6"),
 "C04": ("finite-outcome evaluation of the domain switch, initialiser/immutability of the bound, call/argument identity of the b-vector, verifier dominance rules, index/range rules on the IPA vector helpers, table write coverage, 81-ordering evaluation of Cmp, zero-skips confined to vanishing terms (D4,B1,W2,F5,F6,V1-V4,Z3,M7,O1)",
         "Static decision that the in-domain/out-of-domain switch happens exactly between 255 and 256 (barycentric branch iff Cmp = +1, bound = VectorLength-1, never written), that prover and verifier derive b from the same function of the same evaluation point with the unit vector at the regular-form index, and the IPA verifier's acceptance/shape structure. That the coefficients interpolate and wrong results are rejected is not decided.",
         "4 C04"),
 "C05": ("value-identity dataflow in the constructor, index agreement, guarded-decrement dominance, constant evaluation of window parameters, write-effect immutability, dependency analysis of the mixed addition formula (P1,M1,M5,M9,K6,K7,W1,W3)",
         "Narrow structural claim: the tables Commit uses are built from the published SRS, table i from point i, scalar i meets table i; every table index w-1 is guarded by w != 0 on the same value; window sizes divide 64 and the top window plus carry stays below half range; tables and configuration are immutable after construction. NOT decided: everything numeric - table contents, that the signed recoding sums to the scalar, mixed addition being the group law, linearity.",
         "4 C05"),
 "C07": ("folding of Normalize on a generic projective point (N3), exhaustive outcome evaluation of the Equal guard, operand identity of the cross products, edge-sensitive sign-convention and normalisation rules, decoder must-pass rules, folded endomorphism of the identity class behind a guard (E1-E5,D2,W1)",
         "Static decision that Equal is never true when either side is all-zero (16/16 outcomes), compares p.X*other.Y with p.Y*other.X and writes nothing; that both encoders negate x exactly when y is not the lexicographically largest root and serialise affine coordinates, and the decoders request that same root. Injectivity of the encoding on the group and behaviour over operation histories need the group law and are not decided.",
         "4 C07"),
 "C08": ("callee/operand identity table for the wrappers, field/limb-granular alias-hazard dataflow, write-effect analysis (L1,W5,W1,W2,K6)",
         "Static decision that each wrapper delegates to the matching gnark operation on the matching operands (regular-form scalar, private negated copy in Sub), that operands are never written, that no routine reads an operand coordinate after overwriting the same coordinate of a possibly-aliased output, and that Generator/Identity are immutable with Identity=(0,1,1). The group law itself (in a dependency) is not decided.",
         "4 C08, 3.1 W5"),
 "C11": ("field-provenance of the quotient operands, batch index agreement, callee-sequence agreement, length-guard dominance, delegation of the batch inversion (N1,N2,U4,U5,LG,W1)",
         "Static decision that both variants compute X/Y of the same element, read only X and Y (so the result is invariant under projective rescaling and (x,y)->(-x,-y) by structure), pair element i with inverse i and output i, convert with the same little-endian reducing pair, and reject a length mismatch before indexing. The numeric value and injectivity are not decided.",
         "4 C11"),
 "C17": ("abstract interpretation of the addition chain over exponents, symbolic evaluation of the curve equation, nil-propagation must-pass rules, finite-outcome sign selection, loop-exit/coverage rules on the dyadic reconstruction (K5,Y1,Y2,R1,D4,W1)",
         "Static decision that the chain computes z^((Q-1)/2), z^Q, z^((Q+1)/2) for the odd part Q of p-1 computed from the modulus constants, that BaseField2Adicity and the block parameters are consistent, that y^2=(A x^2-1)/(D x^2-1) is formed with A and D in the right places, that nil propagates exactly through GetPointFromX/computeY/SqrtPrecomp with zero for zero, that the requested root is returned on all four sign combinations, and that arguments are not written. The dyadic discrete-log reconstruction (table contents) - hence 'nil exactly for non-residues' as a value statement - is not decided.",
         "4 C17, 3.5 K5"),
 "C18": ("constant folding of the closed table constructor and, index by index, of DivideOnDomain / ComputeBarycentricCoefficients over symbolic tables (integers and control flow folded through the SSA form, field values as uninterpreted terms; M12,Q5,Q6), affine-form layout comparison of table writers and readers, index-domain typing, sign-outcome evaluation (M7,M6,Q1,Q2,D4,W1,W3)",
         "Static decision that writers and readers of the two concatenated tables agree on positions, midpoints and lengths (negative half selected by the sign alone), that every index is of its array's domain, that numerator and denominator have the same orientation, that the self term is accumulated only for i != index with ratio A'(index)/A'(i) and q[i] of the same i, and that f and the tables are never written. That the formulas are the polynomial quotient/interpolation, and the table contents, are not decided.",
         "4 C18, 3.4 M7"),
 "C19": ("reachability (no write before error), de-duplication provenance, layout/sign-convention agreement of batch vs single encoders, index agreement, goroutine discipline, delegation of the batch inversion (U1-U5,E2,E3,N1,N2,Z1,G1,G2,W1)",
         "Static decision that batch normalisation is all-or-nothing (no element write can precede an error return), writes exactly the de-duplicated elements (a duplicate-free slice built from map keys filled from all inputs) with inverse i for element i, that batch and single serialisers/map-to-field share convention, normalisation and layout, that the trusted decoder inverts the uncompressed layout, and that workers are joined before return. Position-by-position value equality is not decided.",
         "4 C19"),
}
NA_REASON = "check under construction (DESIGN.md 9.5 build order); no verdict claimed yet"

def main():
    fixes = subprocess.run(["git", "-C", "/repo", "log", "--format=%h %s"], capture_output=True, text=True).stdout.splitlines()
    fix_commits = [l.split()[0] for l in fixes if l.split(" ", 1)[1].startswith("fix:")]
    checks = []
    for p in props:
        if p in CLAIMED:
            tech, text, ref = CLAIMED[p]
            # the rule ids actually applied by the last run of the check (evidence is rewritten on every run)
            try:
                ev = json.load(open(os.path.join(V, "evidence", p + ".json")))
                ids = [r["rule"] for r in ev["coverage"]["rules_applied"]]
                import re as _re
                tech = _re.sub(r"\s*\([A-Z0-9,\- ;/a-z']*\)$", "", tech) + " - rules applied: " + " ".join(ids)
                # what the check claims is stated next to its rule list (rules/props.go) and travels in the evidence
                if ev["coverage"].get("explanation"):
                    text = ev["coverage"]["explanation"][0].upper() + ev["coverage"]["explanation"][1:]
            except Exception:
                pass
            checks.append({
                "property_id": p,
                "quick_cmd": f"./run.sh {p} quick",
                "thorough_cmd": f"./run.sh {p} thorough",
                "evidence_file": f"evidence/{p}.json",
                "replay_cmd_template": f"./run.sh {p} replay {{path}}",
                "engine": "vcheck",
                "level_claimed": {"category": "other", "text": text, "design_ref": "DESIGN.md section " + ref},
                "level_note": NOTE,
                "technique": "static analysis: " + tech,
            })
    m = {
        "version": 1,
        "setup_cmd": "./run.sh setup",
        "hooks": {"guard": "verif", "enable": "none needed: static analysis executes nothing, so no file in /repo uses the tag",
                  "baseline_off_cmd": "cd /repo && GOFLAGS=-mod=mod GOPROXY=off go test -vet=off -count=1 -timeout 25m ./...",
                  "source_commits": fix_commits, "add_only": True},
        "engines": [{"name": "vcheck", "path": "checker/cmd/vcheck", "serves_properties": sorted(CLAIMED),
                     "kind_free_text": "whole-program static analyser over go/packages + go/ssa (x/tools v0.29.0, vendored): write-effect, dominance/must-pass, schedule extraction, constant evaluation, assembly dataflow, concurrency discipline"}],
        "checks": checks,
        "notes": "Static analysis only; every check analyses /repo's current working tree. See DESIGN.md. known_findings.txt lists fixed defects (DEF-1..3).",
        "not_applicable": [{"property_id": p, "reason": NA_REASON} for p in props if p not in CLAIMED],
    }
    json.dump(m, open(os.path.join(V, "MANIFEST.json"), "w"), indent=1)
    print("claimed", len(checks), "not_applicable", len(m["not_applicable"]))
main()
