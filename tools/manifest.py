#!/usr/bin/env python3
"""Regenerates /verif/MANIFEST.json from the table below (kept next to the checks so the two stay in step)."""
import json, os, subprocess
V = os.path.dirname(os.path.dirname(os.path.abspath(__file__)))
props = [json.loads(l)["id"] for l in open(os.path.join(V, "properties.jsonl"))]

NOTE = ("Trusted base: Go type checker + go/ssa (x/tools v0.29.0, vendored), the hand-written analyser, the trust table of "
        "stdlib/gnark contracts (rules/wfx_trust.go; gnark part recomputed from source in the thorough tier), frozen tables under /verif/tables. "
        "Decides structural clauses only; value-level clauses (numeric results) are not decided - see DESIGN.md section 4.")

# id -> (technique, level text, design ref)
CLAIMED = {
 "C13": ("interprocedural may-write (mod) analysis over SSA with a purity policy table (W1-W4)",
         "Static decision, for all inputs/paths/histories, that no function of the module may write configuration, package variables or caller inputs outside tables/purity.tsv; commitments written only through BatchNormalize. Over-approximating may-write analysis, so 'no write' holds on every path. Value-level clause (Cs stay Equal) not decided.",
         "4 C13, 3.1, 9.3"),
 "C02": ("dominance / must-pass-through on the verifier CFGs, def-use binding, Fiat-Shamir schedule extraction vs spec table, exhaustive outcome evaluation of the Equal guard (F1-F6, E1, E4)",
         "Static decision, for all inputs and paths, of the structural soundness clauses: 'true' can only come from the group-equation comparison; wrong shapes reach an error return, never acceptance or an unguarded index; every statement/proof component is absorbed with its own index before acceptance; schedules match the specification; Equal rejects the all-zero pseudo-point on all 16 outcomes. Agreement with a reference verifier on arbitrary inputs (the equation itself) is not decided.",
         "4 C02, 3.2"),
 "C14": ("post-dominance and ordering of calls in the transcript methods' CFGs, value-identity dataflow, write-effect analysis (F7, W1)",
         "Static decision, for all call sequences, of: appends unconditional and complete; challenge = hash of everything pending, digest before reset, buffer cleared after hashing, same little-endian-reduced scalar re-absorbed and returned; canonical encodings absorbed; protocol label first; labels/messages never modified. SHA-256, the reduction arithmetic and collision resistance are not decided.",
         "4 C14, 3.2 F7"),
}
NA_REASON = "check under construction (DESIGN.md 9.5 build order); no verdict claimed yet"

def main():
    fixes = subprocess.run(["git", "-C", "/repo", "log", "--format=%h %s"], capture_output=True, text=True).stdout.splitlines()
    fix_commits = [l.split()[0] for l in fixes if l.split(" ", 1)[1].startswith("fix:")]
    checks = []
    for p in props:
        if p in CLAIMED:
            tech, text, ref = CLAIMED[p]
            checks.append({
                "property_id": p,
                "quick_cmd": f"./run.sh {p} quick",
                "thorough_cmd": f"./run.sh {p} thorough",
                "evidence_file": f"evidence/{p}.json",
                "replay_cmd_template": f"./run.sh {p} replay {{path}}",
                "engine": "vcheck",
                "level_claimed": {"category": "other", "text": text, "design_ref": "DESIGN.md section " + ref},
                "level_note": NOTE,
                "technique": "static analysis: " + tech,
            })
    m = {
        "version": 1,
        "setup_cmd": "./run.sh setup",
        "hooks": {"guard": "verif", "enable": "none needed: static analysis executes nothing, so no file in /repo uses the tag",
                  "baseline_off_cmd": "cd /repo && GOFLAGS=-mod=mod GOPROXY=off go test -vet=off -count=1 -timeout 25m ./...",
                  "source_commits": fix_commits, "add_only": True},
        "engines": [{"name": "vcheck", "path": "checker/cmd/vcheck", "serves_properties": sorted(CLAIMED),
                     "kind_free_text": "whole-program static analyser over go/packages + go/ssa (x/tools v0.29.0, vendored): write-effect, dominance/must-pass, schedule extraction, constant evaluation, assembly dataflow, concurrency discipline"}],
        "checks": checks,
        "notes": "Static analysis only; every check analyses /repo's current working tree. See DESIGN.md. known_findings.txt lists fixed defects (DEF-1..3).",
        "not_applicable": [{"property_id": p, "reason": NA_REASON} for p in props if p not in CLAIMED],
    }
    json.dump(m, open(os.path.join(V, "MANIFEST.json"), "w"), indent=1)
    print("claimed", len(checks), "not_applicable", len(m["not_applicable"]))
main()
