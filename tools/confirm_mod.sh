#!/bin/bash
# confirm_mod.sh <id> : confirm a seed whose demo is a scratch module under /tmp/out-<id>/demo (replace => /tmp/wt-<id>)
export GOFLAGS=-mod=mod GOPROXY=off GOSUMDB=off GOTOOLCHAIN=local; unset GOWORK
id=$1; wt=/tmp/wt-$id; out=/tmp/out-$id
git -C $wt checkout -- . && git -C $wt clean -fdq && git -C $wt apply $out/patch.diff || { echo "PATCH DOES NOT APPLY"; exit 1; }
cd $wt && go build ./... || { echo BUILD-FAILS; exit 1; }
echo "== suite with change"; go test -vet=off -count=1 -timeout 25m ./... 2>&1 | grep -v 'no test files' | grep -v '^ok'; echo "suite done"
cd $out/demo && echo "== demo WITH" && (timeout 900 go test -vet=off -count=1 ./... 2>&1 | tail -2)
git -C $wt apply -R $out/patch.diff; echo "== demo WITHOUT"; (timeout 900 go test -vet=off -count=1 ./... 2>&1 | tail -1); git -C $wt apply $out/patch.diff
git -C $wt status --short
