#!/bin/bash
# confirm_seed.sh <id> <pkgdir-for-demo-test> <test-run-regex> : confirms an in-package demo test seed produced in /tmp/wt-<id>, /tmp/out-<id>
# (build ok, suite passes with change, demo fails with change, demo passes without); then runs the property's check against the patched tree.
set -u
export GOFLAGS=-mod=mod GOPROXY=off GOSUMDB=off GOTOOLCHAIN=local; unset GOWORK
id=$1; pkg=$2; run=$3; shift 3
wt=/tmp/wt-$id; out=/tmp/out-$id
cd $wt || exit 2
git -C $wt checkout -- . && git -C $wt clean -fdq && git -C $wt apply $out/patch.diff || { echo "PATCH DOES NOT APPLY"; exit 1; }
git -C $wt diff > /tmp/confirm-$id.diff
cmp -s /tmp/confirm-$id.diff $out/patch.diff || echo "NOTE: worktree diff differs from patch.diff (using worktree state)"
go build ./... || { echo "BUILD FAILS"; exit 1; }
echo "== suite with change"; go test -vet=off -count=1 -timeout 25m ./... 2>&1 | grep -v '^ok\|no test files' ; echo "suite exit=${PIPESTATUS[0]}"
cp $out/demo/*_test.go $wt/$pkg/
echo "== demo WITH change"; go test -vet=off -count=1 -run "$run" ./$pkg/ 2>&1 | tail -4
git -C $wt apply -R $out/patch.diff
cp $out/demo/*_test.go $wt/$pkg/ 2>/dev/null
echo "== demo WITHOUT change"; go test -vet=off -count=1 -run "$run" ./$pkg/ 2>&1 | tail -3
rm -f $wt/$pkg/*demo*_test.go
git -C $wt apply $out/patch.diff
for f in $out/demo/*_test.go; do rm -f $wt/$pkg/$(basename $f); done
git -C $wt status --short
