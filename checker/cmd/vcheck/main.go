// vcheck decides the static clauses of one property of go-ipa (DESIGN.md).
//
//	vcheck -verif /verif -repo /repo C07 quick|thorough
//	vcheck -verif /verif -repo /repo C07 replay <file>
//	vcheck ... dump <prop>         (print all obligations)
package main

import (
	"encoding/json"
	"flag"
	"fmt"
	"os"
	"os/exec"
	"runtime/debug"
	"sort"
	"strconv"
	"strings"
	"sync"
	"time"

	"verif/checker/core"
	"verif/checker/rules"
)

func main() {
	verif := flag.String("verif", "/verif", "verification directory")
	repo := flag.String("repo", "/repo", "repository to analyse (current working tree)")
	cfgName := flag.String("config", "amd64", "build configuration (child mode)")
	emit := flag.String("emit", "", "child mode: write result JSON here instead of finishing")
	flag.Parse()
	args := flag.Args()
	if len(args) < 2 {
		fmt.Fprintln(os.Stderr, "usage: vcheck [-verif d] [-repo d] <property> quick|thorough|replay <file>|dump")
		os.Exit(2)
	}
	prop, mode := args[0], args[1]
	if prop == "normalise" {
		// vcheck normalise <out-dir>: debugging aid, keeps the normalised copy
		ndir, notes, _, err := core.Normalize(*repo, *verif+"/tables/functions.txt")
		fmt.Println(ndir, notes, err)
		if ndir != *repo {
			exec.Command("rsync", "-a", "--delete", ndir+"/", mode+"/").Run()
			os.RemoveAll(ndir)
		}
		return
	}
	if prop == "ssa" {
		// vcheck ssa <rel-pkg>:<recv>:<func> : debugging aid, prints the SSA form the rules see
		parts := strings.SplitN(mode, ":", 3)
		cfg, _ := core.ConfigByName("amd64")
		p, err := core.Load(*repo, cfg)
		if err != nil || len(parts) != 3 {
			fmt.Println("load:", err)
			return
		}
		if fn := p.Fn(parts[0], parts[1], parts[2]); fn != nil {
			fn.WriteTo(os.Stdout)
		}
		return
	}
	if prop == "ALL" && mode == "dump" {
		// all properties on one load of the tree (used by the self-test on scratch copies)
		ndir, notes, cleanup, nerr := core.Normalize(*repo, *verif+"/tables/functions.txt")
		if nerr != nil {
			fmt.Printf("C00\tundecided   LOAD load-error  @-  %v\n", nerr)
			cleanup()
			return
		}
		cfg, _ := core.ConfigByName("amd64")
		p, err := core.Load(ndir, cfg)
		if err != nil {
			for i := 1; i <= 20; i++ {
				fmt.Printf("C%02d\tundecided   LOAD load-error  @-  amd64: %v\n", i, err)
			}
			cleanup()
			return
		}
		_ = notes
		var ids []string
		for id := range rules.Props {
			ids = append(ids, id)
		}
		sort.Strings(ids)
		for _, id := range ids {
			func() {
				defer func() {
					if e := recover(); e != nil {
						fmt.Printf("%s\tundecided   LOAD load-error  @-  PANIC in checker: %v\n", id, e)
					}
				}()
				run := core.NewRun(p, id, "quick")
				ctx := &rules.Ctx{Run: run, P: p, Verif: *verif, Tier: "quick"}
				for _, rule := range rules.Props[id].Rules {
					rule(ctx)
				}
				res := run.Result()
				for _, o := range res.Obs {
					fmt.Printf("%s\t%-11s %-4s %s  @%s  %s %v\n", id, o.Status, o.Rule, o.Construct, o.Pos, o.Detail, o.Facts)
				}
				for _, e := range res.LoadErrors {
					fmt.Printf("%s\tundecided   LOAD load-error  @-  %s\n", id, e)
				}
			}()
		}
		cleanup()
		return
	}
	if prop == "inventory" {
		// vcheck inventory <out-file>: write the function inventory of the tree at -repo
		keys, err := core.Inventory(*repo)
		if err != nil {
			fmt.Fprintln(os.Stderr, err)
			os.Exit(2)
		}
		out := "# functions of the module when the rule tables were frozen (one key per line); see core/normalize.go\n"
		for _, k := range keys {
			out += k + "\n"
		}
		if err := os.WriteFile(mode, []byte(out), 0o644); err != nil {
			fmt.Fprintln(os.Stderr, err)
			os.Exit(2)
		}
		fmt.Printf("%d functions\n", len(keys))
		return
	}
	started := time.Now()
	seed := int64(0)
	if s := os.Getenv("VERIF_SEED"); s != "" {
		if v, err := strconv.ParseInt(s, 10, 64); err == nil {
			seed = v
		}
	}
	spec, ok := rules.Props[prop]
	if !ok {
		fmt.Fprintf(os.Stderr, "unknown property %s\n", prop)
		os.Exit(2)
	}

	if *emit != "" { // child: one configuration
		res := runOne(*repo, *verif, prop, mode, *cfgName, spec)
		b, _ := json.Marshal(res)
		if err := os.WriteFile(*emit, b, 0o644); err != nil {
			fmt.Fprintln(os.Stderr, err)
			os.Exit(2)
		}
		return
	}

	switch mode {
	case "quick", "dump", "replay":
		tier := "quick"
		res := runOne(*repo, *verif, prop, tier, "amd64", spec)
		if mode == "dump" {
			for _, o := range res.Obs {
				fmt.Printf("%-11s %-4s %s  @%s  %s %v\n", o.Status, o.Rule, o.Construct, o.Pos, o.Detail, o.Facts)
			}
			for _, e := range res.LoadErrors {
				fmt.Printf("undecided   LOAD load-error  @-  %s\n", e)
			}
			for _, f := range res.Floors {
				fmt.Printf("floor %-4s min=%d got=%d (%s)\n", f.Rule, f.Min, f.Got, f.What)
			}
			return
		}
		if mode == "replay" {
			if len(args) < 3 {
				fmt.Fprintln(os.Stderr, "replay needs a file")
				os.Exit(2)
			}
			os.Exit(replay(res, args[2]))
		}
		os.Exit(res.Finish(*verif, seed, started, "other", spec.Explanation, spec.Trusted, spec.Assumptions))
	case "thorough":
		// one child process per configuration (memory isolation), results merged
		self, _ := os.Executable()
		results := make([]*core.Result, len(core.Configs))
		var wg sync.WaitGroup
		tmp, err := os.MkdirTemp("", "vcheck-")
		if err != nil {
			fmt.Fprintln(os.Stderr, err)
			os.Exit(2)
		}
		for i, c := range core.Configs {
			wg.Add(1)
			go func(i int, c core.Config) {
				defer wg.Done()
				out := fmt.Sprintf("%s/%d.json", tmp, i)
				cmd := exec.Command(self, "-verif", *verif, "-repo", *repo, "-config", c.Name, "-emit", out, prop, "thorough")
				cmd.Stderr = os.Stderr
				if err := cmd.Run(); err != nil {
					results[i] = &core.Result{Prop: prop, Tier: "thorough", Configs: []string{c.Name}, LoadErrors: []string{fmt.Sprintf("child %s failed: %v", c.Name, err)}, Rules: map[string]string{}}
					return
				}
				b, err := os.ReadFile(out)
				var r core.Result
				if err == nil {
					err = json.Unmarshal(b, &r)
				}
				if err != nil {
					results[i] = &core.Result{Prop: prop, Tier: "thorough", Configs: []string{c.Name}, LoadErrors: []string{fmt.Sprintf("child %s result unreadable: %v", c.Name, err)}, Rules: map[string]string{}}
					return
				}
				results[i] = &r
			}(i, c)
		}
		wg.Wait()
		os.RemoveAll(tmp) // os.Exit below skips deferred calls
		res := results[0]
		if res.Extra == nil {
			res.Extra = map[string]any{}
		}
		for _, r := range results[1:] {
			res.Merge(r)
		}
		res.Tier = "thorough"
		os.Exit(res.Finish(*verif, seed, started, "other", spec.Explanation, spec.Trusted, spec.Assumptions))
	default:
		fmt.Fprintln(os.Stderr, "unknown mode", mode)
		os.Exit(2)
	}
}

func runOne(repo, verif, prop, tier, cfgName string, spec *rules.Spec) (res *core.Result) {
	cfg, ok := core.ConfigByName(cfgName)
	if !ok {
		return &core.Result{Prop: prop, Tier: tier, Rules: map[string]string{}, LoadErrors: []string{"unknown config " + cfgName}}
	}
	defer func() {
		if e := recover(); e != nil {
			msg := fmt.Sprintf("PANIC in checker (%s): %v\n%s", cfgName, e, debug.Stack())
			if res == nil {
				res = &core.Result{Prop: prop, Tier: tier, Rules: map[string]string{}, Configs: []string{cfgName}}
			}
			res.LoadErrors = append(res.LoadErrors, msg)
		}
	}()
	// functions the rule tables have never seen are analysed as part of their callers (core/normalize.go)
	ndir, notes, cleanup, nerr := core.Normalize(repo, verif+"/tables/functions.txt")
	defer cleanup()
	if nerr != nil {
		return &core.Result{Prop: prop, Tier: tier, Rules: map[string]string{}, Configs: []string{cfgName}, LoadErrors: []string{fmt.Sprintf("%s: %v", cfgName, nerr)}}
	}
	p, err := core.Load(ndir, cfg)
	if err == nil && len(notes) > 0 {
		defer func() {
			if res != nil {
				if res.Extra == nil {
					res.Extra = map[string]any{}
				}
				res.Extra["normalisation"] = notes
			}
		}()
	}
	if err != nil {
		return &core.Result{Prop: prop, Tier: tier, Rules: map[string]string{}, Configs: []string{cfgName}, LoadErrors: []string{fmt.Sprintf("%s: %v", cfgName, err)}}
	}
	run := core.NewRun(p, prop, tier)
	ctx := &rules.Ctx{Run: run, P: p, Verif: verif, Tier: tier}
	for _, rule := range spec.Rules {
		rule(ctx)
	}
	res = run.Result()
	return res
}

func replay(res *core.Result, file string) int {
	b, err := os.ReadFile(file)
	if err != nil {
		fmt.Fprintln(os.Stderr, err)
		return 2
	}
	var rp struct {
		Obligation core.Ob `json:"obligation"`
	}
	if err := json.Unmarshal(b, &rp); err != nil {
		fmt.Fprintln(os.Stderr, err)
		return 2
	}
	found := false
	code := 0
	for _, o := range res.Obs {
		if o.Rule == rp.Obligation.Rule && o.Construct == rp.Obligation.Construct {
			found = true
			fmt.Printf("%s %s %s at %s: %s %v\n", o.Status, o.Rule, o.Construct, o.Pos, o.Detail, o.Facts)
			if o.Status != core.Discharged {
				code = 1
			}
		}
	}
	if !found {
		fmt.Printf("obligation %s:%s no longer produced on this tree\n", rp.Obligation.Rule, rp.Obligation.Construct)
	}
	return code
}
