package main

import (
	_ "golang.org/x/tools/go/callgraph/cha"
	_ "golang.org/x/tools/go/callgraph/vta"
	_ "golang.org/x/tools/go/packages"
	_ "golang.org/x/tools/go/ssa"
	_ "golang.org/x/tools/go/ssa/ssautil"
	_ "golang.org/x/tools/go/types/typeutil"
)

func main() {}
