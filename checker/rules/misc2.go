package rules

// Y1/Y2 (point recovery), Q1/Q2 (division on the domain), S1 (worker split), K5 (exponent chain).

import (
	"fmt"
	"go/constant"
	"go/token"
	"go/types"
	"math/big"
	"sort"
	"strings"

	"golang.org/x/tools/go/ssa"

	"verif/checker/core"
)

// symEval interprets the field-element calls of a straight-line stretch of fn (blocks in dominance
// order until the first branch that is not a constant-count helper) over an abstract domain T.
type symOps[T any] struct {
	leaf   func(addr ssa.Value) (T, bool)                          // value of an address not yet written
	apply  func(method string, args []T, call *ssa.Call) (T, bool) // receiver := method(args)
	helper func(call *ssa.Call, get func(ssa.Value) (T, bool), set func(ssa.Value, T)) bool
	value  func(v ssa.Value) (T, bool) // abstract value of an SSA value stored into a cell (e.g. the result of fp.One())
}

func symEval[T any](fn *ssa.Function, blocks []*ssa.BasicBlock, ops symOps[T]) (map[ssa.Value]T, string) {
	state := map[ssa.Value]T{}
	alias := map[ssa.Value]ssa.Value{} // call result -> receiver cell
	cellOf := func(v ssa.Value) ssa.Value {
		for d := 0; d < 8; d++ {
			if a, ok := alias[v]; ok {
				v = a
				continue
			}
			break
		}
		return v
	}
	get := func(v ssa.Value) (T, bool) {
		v = cellOf(v)
		if x, ok := state[v]; ok {
			return x, true
		}
		return ops.leaf(v)
	}
	set := func(v ssa.Value, x T) { state[cellOf(v)] = x }
	for _, b := range blocks {
		for _, ins := range b.Instrs {
			switch x := ins.(type) {
			case *ssa.Store:
				// by-value copy: *dst = *src
				if u, ok := x.Val.(*ssa.UnOp); ok && u.Op == token.MUL {
					if v, ok := get(u.X); ok {
						set(x.Addr, v)
					}
				} else if ops.value != nil {
					if v, ok := ops.value(x.Val); ok {
						set(x.Addr, v)
					}
				}
			case *ssa.Call:
				f := core.Callee(x.Common())
				if f == nil {
					continue
				}
				if ops.helper != nil && ops.helper(x, get, set) {
					continue
				}
				if !core.IsMethod(f, "fr", "Element", f.Name()) || len(x.Call.Args) == 0 {
					continue
				}
				var args []T
				okArgs := true
				for _, a := range x.Call.Args[1:] {
					v, ok := get(a)
					if !ok {
						okArgs = false
						break
					}
					args = append(args, v)
				}
				if !okArgs {
					continue
				}
				if r, ok := ops.apply(f.Name(), args, x); ok {
					set(x.Call.Args[0], r)
					alias[x] = cellOf(x.Call.Args[0])
				}
			}
		}
	}
	return state, ""
}

// ---------------------------------------------------------------------------
// Y1 / Y2

func RuleY1Y2(c *Ctx) {
	c.Rule("Y1", "computeY evaluates y^2 = (A*x^2 - 1)/(D*x^2 - 1) with the curve's A and D in those places (symbolic evaluation of the field operations) and takes the square root of exactly that value")
	c.Rule("Y2", "nil propagation: GetPointFromX returns nil exactly when computeY does, which returns nil exactly when SqrtPrecomp does, which returns nil only when the dyadic reconstruction fails and zero for zero; the returned point carries the given x")
	fn := c.P.Fn("bandersnatch", "", "computeY")
	if fn == nil {
		c.Unresolved("Y1", "bandersnatch.computeY")
	} else {
		c.Saw(core.FnName(fn))
		ops := curveTermOps("p:x")
		_ = symOps[string]{
			leaf: func(a ssa.Value) (string, bool) {
				p := core.PathOf(a)
				switch {
				case p == "p:x":
					return "x", true
				case strings.HasSuffix(p, "CurveParams.A"):
					return "A", true
				case strings.HasSuffix(p, "CurveParams.D"):
					return "D", true
				}
				return "", false
			},
			apply: func(m string, args []string, _ *ssa.Call) (string, bool) {
				comm := func(op string) string {
					a, b := args[0], args[1]
					if b < a {
						a, b = b, a
					}
					return op + "(" + a + "," + b + ")"
				}
				switch m {
				case "SetOne":
					return "1", true
				case "Square":
					return "sq(" + args[0] + ")", true
				case "Mul":
					return comm("mul"), true
				case "Add":
					return comm("add"), true
				case "Sub":
					return "sub(" + args[0] + "," + args[1] + ")", true
				case "Div":
					return "div(" + args[0] + "," + args[1] + ")", true
				}
				return "", false
			},
		}
		state, _ := symEval(fn, fn.Blocks[:1], ops)
		sq := callsTo(fn, "bandersnatch/fp", "", "SqrtPrecomp")
		want := "div(sub(mul(A,sq(x)),1),sub(mul(D,sq(x)),1))"
		got := ""
		if len(sq) == 1 {
			got = state[sq[0].Call.Args[0]]
		}
		c.Check(len(sq) == 1 && got == want, "Y1", "computeY:curve-equation", fn.Pos(), fmt.Sprintf("the value whose square root is taken is %q, the curve equation gives %q", got, want), "sqrt of "+want)
	}
	// Y2
	if g := c.P.Fn("bandersnatch", "", "GetPointFromX"); g == nil {
		c.Unresolved("Y2", "bandersnatch.GetPointFromX")
	} else {
		c.Saw(core.FnName(g))
		ys := callsTo(g, "/bandersnatch", "", "computeY")
		ok := len(ys) == 1 && core.PathOf(ys[0].Call.Args[0]) == "p:x" && core.PathOf(ys[0].Call.Args[1]) == "p:choose_largest"
		if ok {
			y := ys[0]
			for _, r := range core.Returns(g) {
				isNil := core.IsNilConst(r.Results[0])
				onNil := core.MustPass(g, nilEdges(g, y, true), r)
				onNon := core.MustPass(g, nilEdges(g, y, false), r)
				if isNil && !onNil {
					ok = false
				}
				if !isNil {
					if !onNon {
						ok = false
					}
					// &PointAffine{X: *x, Y: *y}
					al, isAl := r.Results[0].(*ssa.Alloc)
					if !isAl {
						ok = false
						continue
					}
					fx, fy := false, false
					for _, ref := range core.Refs(al) {
						if fa, isFA := ref.(*ssa.FieldAddr); isFA {
							for _, rr := range core.Refs(fa) {
								if st, isSt := rr.(*ssa.Store); isSt {
									if fa.Field == 0 && core.PathOf(st.Val) == "*(p:x)" {
										fx = true
									}
									if u, isLoad := st.Val.(*ssa.UnOp); isLoad && fa.Field == 1 && u.X == ssa.Value(y) {
										fy = true
									}
								}
							}
						}
					}
					if !fx || !fy {
						ok = false
					}
				}
			}
		}
		c.Check(ok, "Y2", "GetPointFromX:nil-iff-computeY-nil", g.Pos(), "GetPointFromX does not return nil exactly when computeY(x, choose_largest) does, or the returned point is not (x, y)", "nil on the nil edge; &PointAffine{*x, *y} on the non-nil edge")
	}
	if fn != nil {
		sq := callsTo(fn, "bandersnatch/fp", "", "SqrtPrecomp")
		ok := len(sq) == 1
		if ok {
			for _, r := range core.Exits(fn) {
				isNil := core.IsNilConst(r.Vals[0])
				if isNil != core.MustPassExit(fn, nilEdges(fn, sq[0], true), r) {
					ok = false
				}
				if !isNil && !core.MustPassExit(fn, nilEdges(fn, sq[0], false), r) {
					ok = false
				}
			}
		}
		c.Check(ok, "Y2", "computeY:nil-iff-sqrt-nil", fn.Pos(), "computeY does not return nil exactly when SqrtPrecomp does", "nil on the nil edge only")
	}
	if s := c.P.Fn("bandersnatch/fp", "", "SqrtPrecomp"); s == nil {
		c.Unresolved("Y2", "fp.SqrtPrecomp")
	} else {
		c.Saw(core.FnName(s))
		inv := callsTo(s, "bandersnatch/fp", "", "invSqrtEqDyadic")
		pw := callsTo(s, "bandersnatch/fp", "", "sqrtAlg_ComputeRelevantPowers")
		zs := callsTo(s, gfr, "Element", "IsZero")
		ok := len(inv) == 1 && len(pw) == 1 && len(zs) == 1
		var why []string
		if !ok {
			why = append(why, fmt.Sprintf("SqrtPrecomp no longer has one zero test of its input (%d), one power computation (%d) and one dyadic reconstruction (%d): zero must be answered with zero before the reconstruction, which cannot find 0 in its table", len(zs), len(pw), len(inv)))
		}
		if ok {
			// works on a private copy of x
			cp, isAl := pw[0].Call.Args[0].(*ssa.Alloc)
			if !isAl || core.SourcePath(cp) != "p:x" {
				ok = false
				why = append(why, "the powers are not computed from a private copy of x")
			}
			if inv[0].Call.Args[0] != pw[0].Call.Args[2] {
				ok = false
				why = append(why, "the dyadic reconstruction is not applied to the root-of-unity part")
			}
			for _, r := range core.Exits(s) {
				isNil := core.IsNilConst(r.Vals[0])
				if isNil && !core.MustPassExit(s, boolEdges(s, inv[0], false), r) {
					ok = false
					why = append(why, "nil is returned on a path other than the failure of invSqrtEqDyadic")
				}
				if !isNil && core.CanReachExit(s, inv[0], r) && !core.MustPassExit(s, boolEdges(s, inv[0], true), r) {
					ok = false
					why = append(why, "a root is returned although invSqrtEqDyadic failed")
				}
				if !isNil && !core.CanReachExit(s, inv[0], r) {
					// the early return: zero for zero
					if !core.MustPassExit(s, boolEdges(s, zs[0], true), r) || core.PathOf(zs[0].Call.Args[0]) != "p:x" {
						ok = false
						why = append(why, "an early return that is not the zero-for-zero case")
					}
				}
			}
			// result = candidate * rootOfUnity
			muls := callsTo(s, gfr, "Element", "Mul")
			okMul := false
			for _, m := range muls {
				a, b := m.Call.Args[1], m.Call.Args[2]
				if (a == pw[0].Call.Args[1] && b == pw[0].Call.Args[2]) || (b == pw[0].Call.Args[1] && a == pw[0].Call.Args[2]) {
					okMul = core.Precedes(s, inv[0], m)
				}
			}
			if !okMul {
				ok = false
				why = append(why, "the result is not candidate * reconstructed root")
			}
		}
		c.Check(ok, "Y2", "SqrtPrecomp:nil-only-on-failure", s.Pos(), strings.Join(why, "; "), "zero for zero; nil exactly on the false edge of invSqrtEqDyadic; root = candidate * rootOfUnity")
	}
}

// ---------------------------------------------------------------------------
// Q1 / Q2

func RuleQ1Q2(c *Ctx) {
	c.Rule("Q1", "DivideOnDomain: the difference whose sign selects 1/k or -1/k (i - index) has the same orientation as the numerator (f[i] - f[index]); its absolute value and sign go to getInvertedElement unchanged")
	c.Rule("Q2", "DivideOnDomain self term: quotient[index] is only updated inside the i != index branch, by subtracting getRatioOfWeights(index, i) * quotient[i] for the same i")
	fn := c.P.Fn("ipa", "PrecomputedWeights", "DivideOnDomain")
	if fn == nil {
		c.Unresolved("Q1", "ipa.(*PrecomputedWeights).DivideOnDomain")
		return
	}
	c.Saw(core.FnName(fn))
	allAbs := callsTo(fn, "/ipa", "", "absInt")
	allInv := callsTo(fn, "/ipa", "PrecomputedWeights", "getInvertedElement")
	allRatio := callsTo(fn, "/ipa", "PrecomputedWeights", "getRatioOfWeights")
	allSubs := callsTo(fn, "bandersnatch/fr", "Element", "Sub")
	allMuls := callsTo(fn, "bandersnatch/fr", "Element", "Mul")
	isIdx := func(v ssa.Value) bool { return core.PathOf(core.StripConv(v)) == "p:index" }
	// one instance per loop that computes quotient entries (one loop with an `i != index` guard, or the two loops
	// below and above index)
	cls := countedLoops(fn)
	var insts []*countedLoop
	for _, cl := range cls {
		for _, a := range allAbs {
			if loopOf(cls, a.Block()) == cl {
				insts = append(insts, cl)
				break
			}
		}
	}
	// when the helpers these two rules are anchored on are gone (inlined by hand), the entry-by-entry fold of Q5
	// decides the same facts and more; the shape is then nothing to report
	q5ok := func() bool { r := c.q5Eval(fn); return r.und == "" && len(r.bad) == 0 }
	if q5ok() {
		// the fold decides every entry of the quotient for every index: orientation, table position for either
		// sign, weight ratio, self term and coverage follow from it, whatever the loop looks like
		c.OK("Q1", "DivideOnDomain:orientation", fn.Pos(), "decided entry by entry by the fold of Q5")
		c.OK("Q2", "DivideOnDomain:self-term", fn.Pos(), "decided entry by entry by the fold of Q5")
		c.OK("Q2", "DivideOnDomain:every-other-position", fn.Pos(), "decided entry by entry by the fold of Q5")
		return
	}
	if len(insts) == 0 || len(insts) > 2 {
		if q5ok() {
			c.OK("Q1", "DivideOnDomain:orientation", fn.Pos(), "helpers not recognisable; decided entry by entry by the fold of Q5")
			c.OK("Q2", "DivideOnDomain:self-term", fn.Pos(), "decided entry by entry by the fold of Q5")
			c.OK("Q2", "DivideOnDomain:every-other-position", fn.Pos(), "decided entry by entry by the fold of Q5")
			return
		}
		c.Und("Q1", "DivideOnDomain:shape", fn.Pos(), fmt.Sprintf("unexpected shape: %d loops computing quotient entries", len(insts)))
		return
	}
	hasCall := func(cl *countedLoop, calls []*ssa.Call) bool {
		for _, x := range calls {
			if loopOf(cls, x.Block()) == cl {
				return true
			}
		}
		return false
	}
	sameRange := func(a, b *countedLoop) bool {
		return a.step == b.step && a.op == b.op && (a.init == b.init || core.SameExpr(a.init, b.init) || constEq(a.init, b.init)) && (a.bound == b.bound || core.SameExpr(a.bound, b.bound) || constEq(a.bound, b.bound))
	}
	// a loop that computes the q_i but leaves the self term to a second pass over the same range, run afterwards
	partner := map[*countedLoop]*countedLoop{}
	for _, cl := range insts {
		if hasCall(cl, allRatio) {
			continue
		}
		for _, c2 := range cls {
			if c2 != cl && hasCall(c2, allRatio) && !hasCall(c2, allAbs) && sameRange(cl, c2) && len(cl.loop.Header.Instrs) > 0 && len(c2.loop.Header.Instrs) > 0 &&
				core.CanReach(fn, cl.loop.Header.Instrs[0], c2.loop.Header.Instrs[0]) && !core.CanReach(fn, c2.loop.Header.Instrs[0], cl.loop.Header.Instrs[0]) {
				partner[cl] = c2
			}
		}
	}
	inLoop := func(cl *countedLoop, calls []*ssa.Call) []*ssa.Call {
		var out []*ssa.Call
		for _, x := range calls {
			if l := loopOf(cls, x.Block()); l == cl || (l != nil && l == partner[cl]) {
				out = append(out, x)
			}
		}
		return out
	}
	// the loop variable as the loop around an instruction sees it
	lvAt := func(in ssa.Instruction) ssa.Value {
		if l := loopOf(cls, in.Block()); l != nil {
			return l.phi
		}
		return nil
	}
	var ranges []string
	for k, cl := range insts {
		sfx := ""
		if len(insts) > 1 {
			sfx = fmt.Sprintf("#%d", k+1)
		}
		abs, inv, ratio, subs, muls := inLoop(cl, allAbs), inLoop(cl, allInv), inLoop(cl, allRatio), inLoop(cl, allSubs), inLoop(cl, allMuls)
		if len(abs) != 1 || len(inv) != 1 || len(ratio) != 1 || len(subs) != 2 || len(muls) != 2 {
			if q5ok() {
				c.OK("Q1", "DivideOnDomain:orientation"+sfx, fn.Pos(), "shape not recognisable; decided entry by entry by the fold of Q5")
				c.OK("Q2", "DivideOnDomain:self-term"+sfx, fn.Pos(), "decided entry by entry by the fold of Q5")
				c.OK("Q2", "DivideOnDomain:every-other-position", fn.Pos(), "decided entry by entry by the fold of Q5")
				return
			}
			c.Und("Q1", "DivideOnDomain:shape"+sfx, fn.Pos(), fmt.Sprintf("unexpected shape: %d absInt, %d getInvertedElement, %d getRatioOfWeights, %d Sub, %d Mul", len(abs), len(inv), len(ratio), len(subs), len(muls)))
			return
		}
		// the range of i, for the coverage clause
		{
			z, isZ := core.ConstInt(cl.init)
			bk, isBK := core.ConstInt(cl.bound)
			size := c.constOf("common", "VectorLength")
			switch {
			case cl.step == 1 && cl.op == token.LSS && isZ && z == 0 && isBK && bk == size:
				ranges = append(ranges, "all")
			case cl.step == 1 && cl.op == token.LSS && isZ && z == 0 && isIdx(cl.bound):
				ranges = append(ranges, "below")
			case cl.step == 1 && cl.op == token.LSS && isBK && bk == size:
				if add, isAdd := core.StripConv(cl.init).(*ssa.BinOp); isAdd && add.Op == token.ADD && isIdx(add.X) {
					if one, isOne := core.ConstInt(add.Y); isOne && one == 1 {
						ranges = append(ranges, "above")
						break
					}
				}
				ranges = append(ranges, "?")
			default:
				ranges = append(ranges, "?")
			}
		}
		// den := i - index
		den, isSub := abs[0].Call.Args[0].(*ssa.BinOp)
		okDen := isSub && den.Op == token.SUB && den.X == lvAt(abs[0]) && isIdx(den.Y)
		// numerator: quotient[i] = f[i] - y, y = f[index]
		var num *ssa.Call
		for _, s := range subs {
			if strings.HasPrefix(core.PathOf(s.Call.Args[1]), "p:f[") {
				num = s
			}
		}
		okNum := false
		if num != nil {
			a, _ := num.Call.Args[1].(*ssa.IndexAddr)
			yCell, _ := num.Call.Args[2].(*ssa.Alloc)
			d, _ := num.Call.Args[0].(*ssa.IndexAddr)
			if a != nil && yCell != nil && d != nil && a.Index == lvAt(num) && d.Index == lvAt(num) {
				src := core.LocalCopySource(yCell)
				if ia, isIA := src.(*ssa.IndexAddr); isIA && core.PathOf(ia.X) == "p:f" && isIdx(ia.Index) {
					okNum = true
				}
			}
		}
		// abs/sign forwarded
		okFwd := false
		if ex0, ex1 := inv[0].Call.Args[1], inv[0].Call.Args[2]; true {
			e0, ok0 := ex0.(*ssa.Extract)
			e1, ok1 := ex1.(*ssa.Extract)
			okFwd = ok0 && ok1 && e0.Tuple == ssa.Value(abs[0]) && e1.Tuple == ssa.Value(abs[0]) && e0.Index == 0 && e1.Index == 1
		}
		// quotient[i] *= denInv
		okScale := false
		for _, m := range muls {
			if d, isD := m.Call.Args[0].(*ssa.IndexAddr); isD && d.Index == lvAt(m) {
				if cell, isCell := m.Call.Args[2].(*ssa.Alloc); isCell {
					for _, st := range storesInto(cell) {
						if st.Val == ssa.Value(inv[0]) {
							okScale = num != nil && core.Precedes(fn, num, m)
						}
					}
				}
			}
		}
		c.Check(okDen && okNum && okFwd && okScale, "Q1", "DivideOnDomain:orientation"+sfx, fn.Pos(),
			fmt.Sprintf("orientation of numerator and denominator disagree or are not forwarded (den=i-index: %v, num=f[i]-f[index]: %v, |den|,sign forwarded: %v, scaled by that inverse: %v)", okDen, okNum, okFwd, okScale),
			"den = i - index", "num = f[i] - f[index]", "q[i] = num * getInvertedElement(|den|, den<0)")
		// Q2
		var self *ssa.Call
		for _, s := range subs {
			if s != num {
				self = s
			}
		}
		okSelf := false
		var why string
		if self != nil {
			d, _ := self.Call.Args[0].(*ssa.IndexAddr)
			a, _ := self.Call.Args[1].(*ssa.IndexAddr)
			tmp, _ := self.Call.Args[2].(*ssa.Alloc)
			// the same accumulation in a zero-initialised local that is stored into quotient[index] on every way out
			if acc, isAcc := self.Call.Args[0].(*ssa.Alloc); isAcc && self.Call.Args[1] == ssa.Value(acc) && len(storesInto(acc)) == 0 {
				for _, b := range fn.Blocks {
					for _, in := range b.Instrs {
						st, isSt := in.(*ssa.Store)
						if !isSt {
							continue
						}
						ia, isIA := st.Addr.(*ssa.IndexAddr)
						ld, isLd := st.Val.(*ssa.UnOp)
						if !isIA || !isLd || ld.Op != token.MUL || ld.X != ssa.Value(acc) || !isIdx(ia.Index) {
							continue
						}
						cut := core.NewCuts()
						cut.AddInstr(st)
						all := true
						for _, rb := range fn.Blocks {
							if len(rb.Instrs) > 0 {
								if r, isRet := rb.Instrs[len(rb.Instrs)-1].(*ssa.Return); isRet && !core.MustPass(fn, cut, r) {
									all = false
								}
							}
						}
						if all && !core.CanReach(fn, st, self) {
							d, a = ia, ia
						}
					}
				}
			}
			if d != nil && a != nil && tmp != nil && isIdx(d.Index) && isIdx(a.Index) && core.PathOf(d.X) == core.PathOf(a.X) {
				// tmp = weightRatio * quotient[i]
				for _, m := range muls {
					if m.Call.Args[0] != ssa.Value(tmp) {
						continue
					}
					var wr *ssa.Alloc
					var qi *ssa.IndexAddr
					for _, arg := range m.Call.Args[1:] {
						if al, isAl := arg.(*ssa.Alloc); isAl {
							wr = al
						}
						if ia, isIA := arg.(*ssa.IndexAddr); isIA {
							qi = ia
						}
					}
					if wr == nil || qi == nil || qi.Index != lvAt(m) || core.PathOf(qi.X) != core.PathOf(d.X) {
						why = "the subtracted product is not weightRatio * quotient[i]"
						continue
					}
					for _, st := range storesInto(wr) {
						if st.Val == ssa.Value(ratio[0]) && isIdx(ratio[0].Call.Args[1]) && ratio[0].Call.Args[2] == lvAt(ratio[0]) {
							okSelf = true
						}
					}
					if !okSelf {
						why = "the weight ratio is not getRatioOfWeights(index, i)"
					}
				}
			} else {
				why = "the self term is not quotient[index] -= …"
			}
			// only inside i != index
			guard := core.NewCuts()
			for _, cd := range core.Conds(fn) {
				if lv := lvAt(self); lv != nil && (cd.X == lv && isIdx(cd.Y) || cd.Y == lv && isIdx(cd.X)) {
					if e := cd.EdgeWhere(token.NEQ); e >= 0 {
						guard.AddEdge(cd.Block, e)
					}
				}
			}
			excluded := ranges[len(ranges)-1] == "below" || ranges[len(ranges)-1] == "above"
			if !excluded && (guard.Empty() || !core.MustPass(fn, guard, self)) {
				okSelf = false
				why = "quotient[index] is updated outside the i != index branch"
			}
		}
		c.Check(okSelf, "Q2", "DivideOnDomain:self-term"+sfx, fn.Pos(), why, "q[index] -= getRatioOfWeights(index, i) * q[i], only for i != index")
	}
	sort.Strings(ranges)
	cover := strings.Join(ranges, "+")
	c.Check(cover == "all" || cover == "above+below", "Q2", "DivideOnDomain:every-other-position", fn.Pos(), "the quotient is not computed for every position i != index of the domain (loops cover: "+cover+")", "i ranges over "+cover)
}

// ---------------------------------------------------------------------------
// S1 worker range split [idiom]

func RuleS1(c *Ctx) {
	c.Rule("S1", "worker range split of groupPolynomialsByEvaluationPoint: batch = ceil(n / w) with n = len of the split slice and w the same value as the spawn-loop bound, worker i gets [i*batch, (i+1)*batch) clipped to n, and iterates its own range (accepted covering idioms only; floor division without remainder handling is a violation)")
	fn := c.P.Fn("", "", "groupPolynomialsByEvaluationPoint")
	if fn == nil {
		c.Unresolved("S1", "groupPolynomialsByEvaluationPoint")
		return
	}
	c.Saw(core.FnName(fn))
	var site *spawnSite
	for _, s := range c.spawnSites() {
		if s.parent == fn && s.kind == "go" {
			site = s
		}
	}
	cl := (*countedLoop)(nil)
	if site != nil {
		cl = loopOf(countedLoops(fn), site.at.Block())
	}
	if site == nil || cl == nil || len(site.args) < 2 || site.target == nil {
		c.Und("S1", "groupPolynomials:split", fn.Pos(), "the spawn loop handing (start, end) to each worker is not recognised")
		return
	}
	// the two range arguments among the values handed to the worker: start = i*b and end = (i+1)*b = start+b,
	// the latter possibly clipped to n already by the parent
	isLenFsV := func(v ssa.Value) bool {
		x, isLen := core.IsLenOf(v)
		return isLen && strings.Contains(core.PathOf(x), "fs")
	}
	var startV, batch ssa.Value
	si, ei := -1, -1
	for k, a := range site.args {
		if m, isM := a.(*ssa.BinOp); isM && m.Op == token.MUL && si < 0 {
			switch {
			case m.X == ssa.Value(cl.phi):
				si, startV, batch = k, a, m.Y
			case m.Y == ssa.Value(cl.phi):
				si, startV, batch = k, a, m.X
			}
		}
		// a running cursor: starts at 0 and advances by a loop-invariant stride once per iteration, i.e. i*stride
		if phi, isPhi := a.(*ssa.Phi); isPhi && si < 0 && phi.Block() == cl.loop.Header {
			init, step := phiInit(phi, cl.loop), phiStep(phi, cl.loop)
			if z, isZ := core.ConstInt(init); isZ && z == 0 {
				if add, isAdd := step.(*ssa.BinOp); isAdd && add.Op == token.ADD {
					var stride ssa.Value
					switch {
					case add.X == ssa.Value(phi):
						stride = add.Y
					case add.Y == ssa.Value(phi):
						stride = add.X
					}
					if ins, isIns := stride.(ssa.Instruction); stride != nil && (!isIns || !cl.loop.Blocks[ins.Block()]) {
						// the cursor advances on every iteration (its update dominates the latch) and the loop steps by one from 0
						si, startV, batch = k, a, stride
					}
				}
			}
		}
	}
	// end0: (i+1)*b or start+b
	isEnd0 := func(v ssa.Value) bool {
		bo, ok := v.(*ssa.BinOp)
		if !ok || batch == nil {
			return false
		}
		switch bo.Op {
		case token.MUL:
			for _, pr := range [][2]ssa.Value{{bo.X, bo.Y}, {bo.Y, bo.X}} {
				if add, isAdd := pr[0].(*ssa.BinOp); isAdd && add.Op == token.ADD && pr[1] == batch {
					if k, isK := core.ConstInt(add.Y); isK && k == 1 && add.X == ssa.Value(cl.phi) {
						return true
					}
					if k, isK := core.ConstInt(add.X); isK && k == 1 && add.Y == ssa.Value(cl.phi) {
						return true
					}
				}
			}
		case token.ADD:
			return (bo.X == startV && bo.Y == batch) || (bo.Y == startV && bo.X == batch)
		}
		return false
	}
	parentClip := false
	for k, a := range site.args {
		if k == si {
			continue
		}
		switch {
		case isEnd0(a):
			ei = k
		default:
			// phi(end0, len(fs)) under end0 > len(fs), or min(end0, len(fs))
			if phi, isPhi := a.(*ssa.Phi); isPhi && len(phi.Edges) == 2 {
				for i, e := range phi.Edges {
					o := phi.Edges[1-i]
					if !isEnd0(o) || !isLenFsV(e) {
						continue
					}
					pred := phi.Block().Preds[i]
					for _, cd := range core.Conds(fn) {
						if (cd.Op == token.GTR || cd.Op == token.GEQ) && cd.X == o && isLenFsV(cd.Y) && cd.Block.Succs[0] == pred && len(pred.Preds) == 1 {
							ei, parentClip = k, true
						}
					}
				}
			}
			if call, isCall := a.(*ssa.Call); isCall {
				if bi, isB := call.Call.Value.(*ssa.Builtin); isB && bi.Name() == "min" && len(call.Call.Args) == 2 {
					x, y := call.Call.Args[0], call.Call.Args[1]
					if (isEnd0(x) && isLenFsV(y)) || (isEnd0(y) && isLenFsV(x)) {
						ei, parentClip = k, true
					}
				}
			}
		}
	}
	if si < 0 || ei < 0 || si >= len(site.target.Params) || ei >= len(site.target.Params) {
		c.Und("S1", "groupPolynomials:split", fn.Pos(), "the spawn loop handing (start, end) to each worker is not recognised")
		return
	}
	startName, endName := site.target.Params[si].Name(), site.target.Params[ei].Name()
	w := cl.bound
	ok := true
	var why []string
	z, isZ := core.ConstInt(cl.init)
	if !isZ || z != 0 || cl.step != 1 || cl.op != token.LSS {
		ok = false
		why = append(why, "workers are not numbered 0..w-1")
	}
	// batch = (n + w - 1) / w
	var n ssa.Value
	if batch != nil {
		q, isQ := batch.(*ssa.BinOp)
		okCeil := false
		if isQ && q.Op == token.QUO && q.Y == w {
			if s1, isS := q.X.(*ssa.BinOp); isS && s1.Op == token.SUB {
				if k, isK := core.ConstInt(s1.Y); isK && k == 1 {
					if a1, isA := s1.X.(*ssa.BinOp); isA && a1.Op == token.ADD {
						switch {
						case a1.Y == w:
							n, okCeil = a1.X, true
						case a1.X == w:
							n, okCeil = a1.Y, true
						}
					}
				}
			}
		}
		if !okCeil {
			// the same ceiling written out: q = n / w, one more when n % w != 0
			if nn, okPhi := ceilQuoPhi(fn, batch, w); okPhi {
				n, okCeil = nn, true
			}
		}
		if !okCeil {
			ok = false
			why = append(why, "batch is not ceil(n/w) = (n + w - 1) / w with w the spawn-loop bound (a floor division loses the tail of the opening list)")
		}
	}
	// n = len(fs)
	if n != nil {
		x, isLen := core.IsLenOf(n)
		if !isLen || paramBehind(x) == nil || paramBehind(x).Name() != "fs" {
			ok = false
			why = append(why, "n is not the number of polynomials")
		}
	}
	// worker: clip end to len(fs) and iterate start..end over the openings
	t := site.target
	isEnd := func(v ssa.Value) bool { p := core.PathOf(v); return p == "p:"+endName || p == "*(&p:"+endName+")" }
	isLenFs := func(v ssa.Value) bool {
		x, isLen := core.IsLenOf(v)
		return isLen && strings.Contains(core.PathOf(x), "fs")
	}
	clipOK := func(bound ssa.Value) bool {
		// phi form: end' = phi(end, len(fs)) with the len edge taken exactly when end > len(fs)
		if phi, isPhi := bound.(*ssa.Phi); isPhi && len(phi.Edges) == 2 {
			for i, e := range phi.Edges {
				o := phi.Edges[1-i]
				if !isEnd(o) || !isLenFs(e) {
					continue
				}
				pred := phi.Block().Preds[i]
				for _, cd := range core.Conds(t) {
					if (cd.Op == token.GTR || cd.Op == token.GEQ) && isEnd(cd.X) && isLenFs(cd.Y) && cd.Block.Succs[0] == pred && len(pred.Preds) == 1 {
						return true
					}
				}
			}
		}
		// cell form: if end > len(fs) { end = len(fs) }
		if isEnd(bound) {
			for _, cd := range core.Conds(t) {
				if (cd.Op == token.GTR || cd.Op == token.GEQ) && isEnd(cd.X) && isLenFs(cd.Y) {
					for _, ins := range cd.Block.Succs[0].Instrs {
						if st, isSt := ins.(*ssa.Store); isSt && core.PathOf(st.Addr) == "&p:"+endName && isLenFs(st.Val) {
							return true
						}
					}
				}
			}
		}
		// min(end, len(fs))
		if call, isCall := bound.(*ssa.Call); isCall {
			if bi, isB := call.Call.Value.(*ssa.Builtin); isB && bi.Name() == "min" && len(call.Call.Args) == 2 {
				a, b := call.Call.Args[0], call.Call.Args[1]
				return (isEnd(a) && isLenFs(b)) || (isEnd(b) && isLenFs(a))
			}
		}
		return false
	}
	iter := false
	for _, wl := range countedLoops(t) {
		if core.PathOf(wl.init) == "p:"+startName && wl.step == 1 && wl.op == token.LSS && (clipOK(wl.bound) || (parentClip && isEnd(wl.bound))) {
			iter = true
		}
	}
	if !iter {
		ok = false
		why = append(why, "the worker does not iterate exactly its own range start..min(end, len(fs)) (without the clip the last worker indexes past the end)")
	}
	c.Check(ok, "S1", "groupPolynomials:split", site.at.Pos(), strings.Join(why, "; "), "batch = (len(fs)+w-1)/w", "worker i: [i*batch, (i+1)*batch) clipped to len(fs)", "w = spawn-loop bound = receive-loop bound")
}

// ---------------------------------------------------------------------------
// K5 exponent chain of the base-field square root

func RuleK5(c *Ctx) {
	c.Rule("K5", "exponent chain: abstract interpretation of sqrtAlg_ComputeRelevantPowers over the exponent of z (Square doubles, Mul adds, SquareEqNTimes multiplies by 2^n) gives acc = (Q-1)/2, rootOfUnity = Q, squareRootCandidate = (Q+1)/2 for the odd part Q of p-1 (p from gnark's modulus); BaseField2Adicity is the 2-adicity of p-1 and the block parameters are consistent")
	fn := c.P.Fn("bandersnatch/fp", "", "sqrtAlg_ComputeRelevantPowers")
	if fn == nil {
		c.Unresolved("K5", "fp.sqrtAlg_ComputeRelevantPowers")
		return
	}
	c.Saw(core.FnName(fn))
	// p from gnark-crypto's fr.Modulus(): find the decimal string in its source
	var p *big.Int
	for _, pk := range c.P.All {
		if strings.HasSuffix(pk.PkgPath, "ecc/bls12-381/fr") {
			var limbs [4]*big.Int
			okAll := true
			for i := 0; i < 4; i++ {
				limbs[i] = constBig(pk.Types.Scope().Lookup(fmt.Sprintf("q%d", i)))
				if limbs[i] == nil {
					okAll = false
				}
			}
			if okAll {
				p = new(big.Int)
				for i := 3; i >= 0; i-- {
					p.Lsh(p, 64)
					p.Or(p, limbs[i])
				}
			}
		}
	}
	if p == nil || !p.ProbablyPrime(20) {
		c.Und("K5", "fp:modulus", fn.Pos(), "cannot obtain the base-field modulus from gnark-crypto's typed constants q0..q3")
		return
	}
	Q := new(big.Int).Sub(p, big.NewInt(1))
	e := 0
	for Q.Bit(0) == 0 {
		Q.Rsh(Q, 1)
		e++
	}
	// the function must be straight-line apart from the helper literal
	if len(fn.Blocks) != 1 {
		c.Und("K5", "ComputeRelevantPowers:straight-line", fn.Pos(), "the addition chain is no longer straight-line code; cannot interpret it")
		return
	}
	bad := ""
	ops := symOps[*big.Int]{
		leaf: func(a ssa.Value) (*big.Int, bool) {
			if core.PathOf(a) == "p:z" {
				return big.NewInt(1), true
			}
			return nil, false
		},
		apply: func(m string, args []*big.Int, _ *ssa.Call) (*big.Int, bool) {
			switch m {
			case "Square":
				return new(big.Int).Lsh(args[0], 1), true
			case "Mul":
				return new(big.Int).Add(args[0], args[1]), true
			case "Set":
				return new(big.Int).Set(args[0]), true
			}
			bad = "field operation " + m + " in the addition chain"
			return nil, false
		},
		helper: func(call *ssa.Call, get func(ssa.Value) (*big.Int, bool), set func(ssa.Value, *big.Int)) bool {
			f := core.Callee(call.Common())
			if f == nil || f.Parent() != fn {
				return false
			}
			// SquareEqNTimes(z, n): the literal must be `for i := 0; i < n; i++ { z.Square(z) }`
			if !isSquareNTimes(f) || len(call.Call.Args) != 2 {
				bad = "unrecognised helper closure in the addition chain"
				return true
			}
			n, isK := core.ConstInt(call.Call.Args[1])
			v, ok := get(call.Call.Args[0])
			if !isK || !ok || n < 0 || n > 64 {
				bad = "SquareEqNTimes with a non-constant count or unknown operand"
				return true
			}
			set(call.Call.Args[0], new(big.Int).Lsh(v, uint(n)))
			return true
		},
	}
	state, _ := symEval(fn, fn.Blocks, ops)
	if bad != "" {
		c.Und("K5", "ComputeRelevantPowers:interpretation", fn.Pos(), bad)
		return
	}
	get := func(name string) *big.Int {
		for v, x := range state {
			if core.PathOf(v) == "p:"+name {
				return x
			}
		}
		return nil
	}
	half := new(big.Int).Rsh(new(big.Int).Sub(Q, big.NewInt(1)), 1)
	cand := new(big.Int).Rsh(new(big.Int).Add(Q, big.NewInt(1)), 1)
	r, s := get("rootOfUnity"), get("squareRootCandidate")
	c.Check(r != nil && r.Cmp(Q) == 0, "K5", "rootOfUnity=z^Q", fn.Pos(), fmt.Sprintf("rootOfUnity is z^%v, must be z^Q with Q = %v", r, Q), "exponent = Q (odd part of p-1)")
	c.Check(s != nil && s.Cmp(cand) == 0, "K5", "squareRootCandidate=z^((Q+1)/2)", fn.Pos(), fmt.Sprintf("squareRootCandidate is z^%v, must be z^((Q+1)/2) = z^%v", s, cand), "exponent = (Q+1)/2")
	// acc: a local; find the cell whose exponent is (Q-1)/2 and which feeds rootOfUnity.Square
	foundAcc := false
	for _, x := range state {
		if x.Cmp(half) == 0 {
			foundAcc = true
		}
	}
	c.Check(foundAcc, "K5", "acc=z^((Q-1)/2)", fn.Pos(), "no intermediate equals z^((Q-1)/2)", "exponent = (Q-1)/2")
	// constants
	ad := c.constOf("bandersnatch/fp", "BaseField2Adicity")
	bs := c.constOf("bandersnatch/fp", "sqrtParam_BlockSize")
	nb := c.constOf("bandersnatch/fp", "sqrtParam_Blocks")
	mask := c.constOf("bandersnatch/fp", "sqrtParam_BitMask")
	tb := c.constOf("bandersnatch/fp", "sqrtParam_TotalBits")
	unused := c.constOf("bandersnatch/fp", "sqrtParam_FirstBlockUnusedBits")
	c.Check(int(ad) == e && tb == ad && bs*nb >= tb && unused == bs*nb-tb && mask == (1<<uint(bs))-1, "K5", "fp:sqrt-parameters", fn.Pos(),
		fmt.Sprintf("BaseField2Adicity=%d (2-adicity of p-1 is %d), TotalBits=%d, BlockSize=%d, Blocks=%d, unused=%d, mask=%d are inconsistent", ad, e, tb, bs, nb, unused, mask),
		fmt.Sprintf("2-adicity %d; %d blocks x %d bits; mask %d", e, nb, bs, mask))
}

func constBig(obj types.Object) *big.Int {
	k, ok := obj.(*types.Const)
	if !ok || k.Val().Kind() != constant.Int {
		return nil
	}
	v, ok := new(big.Int).SetString(k.Val().ExactString(), 10)
	if !ok {
		return nil
	}
	return v
}

// isSquareNTimes: literal of the form `for i := 0; i < n; i++ { z.Square(z) }`.
func isSquareNTimes(f *ssa.Function) bool {
	if len(f.Params) != 2 {
		return false
	}
	cls := countedLoops(f)
	if len(cls) != 1 {
		return false
	}
	cl := cls[0]
	// exactly n iterations, counting up or down
	n := ssa.Value(f.Params[1])
	isK := func(v ssa.Value, k int64) bool { x, ok := core.ConstInt(v); return ok && x == k }
	nTrips := (isK(cl.init, 0) && cl.step == 1 && cl.op == token.LSS && cl.bound == n) ||
		(isK(cl.init, 1) && cl.step == 1 && cl.op == token.LEQ && cl.bound == n) ||
		(cl.init == n && cl.step == -1 && cl.op == token.GTR && isK(cl.bound, 0)) ||
		(cl.init == n && cl.step == -1 && cl.op == token.GEQ && isK(cl.bound, 1))
	if !nTrips {
		return false
	}
	calls := core.CallsIn(f)
	if len(calls) != 1 {
		return false
	}
	call, ok := calls[0].(*ssa.Call)
	if !ok || !core.IsMethod(core.Callee(call.Common()), "fr", "Element", "Square") {
		return false
	}
	if call.Call.Args[0] != ssa.Value(f.Params[0]) || call.Call.Args[1] != ssa.Value(f.Params[0]) {
		return false
	}
	return cl.loop.Blocks[call.Block()]
}

// ---------------------------------------------------------------------------
// K7 — dependency signature of the mixed point addition used by the precomputed tables

type depset map[string]bool

func (d depset) union(o depset) depset {
	r := depset{}
	for k := range d {
		r[k] = true
	}
	for k := range o {
		r[k] = true
	}
	return r
}

func (d depset) String() string {
	return "{" + strings.Join(core.SortedKeys(d), ",") + "}"
}

// RuleK7 — ExtendedAddNormalized is the unified (complete) addition law: dependency analysis of its field operations.
func RuleK7(c *Ctx) {
	c.Rule("K7", "unified addition law: in bandersnatch.ExtendedAddNormalized the output coordinates X, Y and Z each depend on the curve constant D and on both operands, T on both operands (dependency analysis over the field operations). The addition formulas that do not involve d are not valid when both operands are the same point, which the signed-digit table lookup can produce")
	fn := c.P.Fn("bandersnatch", "", "ExtendedAddNormalized")
	if fn == nil {
		c.Unresolved("K7", "bandersnatch.ExtendedAddNormalized")
		return
	}
	c.Saw(core.FnName(fn))
	if len(fn.Blocks) != 1 {
		c.Und("K7", "ExtendedAddNormalized:straight-line", fn.Pos(), "ExtendedAddNormalized is no longer straight-line code; the dependency analysis does not follow branches")
		return
	}
	ops := symOps[depset]{
		leaf: func(a ssa.Value) (depset, bool) {
			p := core.PathOf(a)
			switch {
			case strings.HasSuffix(p, "CurveParams.D"):
				return depset{"D": true}, true
			case strings.HasSuffix(p, "CurveParams.A"):
				return depset{"A": true}, true
			case strings.HasPrefix(p, "p:p1.") || strings.HasPrefix(p, "p:p2."):
				return depset{strings.TrimPrefix(p, "p:"): true}, true
			}
			return nil, false
		},
		apply: func(m string, args []depset, _ *ssa.Call) (depset, bool) {
			r := depset{}
			for _, a := range args {
				r = r.union(a)
			}
			return r, true
		},
		helper: func(call *ssa.Call, get func(ssa.Value) (depset, bool), set func(ssa.Value, depset)) bool {
			// in/out helpers on one element (MulBy5 and friends): dependencies unchanged
			f := core.Callee(call.Common())
			return f != nil && f.Signature.Recv() == nil && len(call.Call.Args) == 1 && strings.HasPrefix(f.Name(), "MulBy")
		},
	}
	state, _ := symEval(fn, fn.Blocks, ops)
	out := map[string]depset{}
	for v, d := range state {
		p := core.PathOf(v)
		if strings.HasPrefix(p, "p:p.") {
			out[strings.TrimPrefix(p, "p:p.")] = d
		}
	}
	ok := true
	var why, got []string
	for _, coord := range []string{"X", "Y", "Z", "T"} {
		d := out[coord]
		got = append(got, coord+"<-"+d.String())
		if d == nil {
			ok = false
			why = append(why, "coordinate "+coord+" of the result is not computed from the operands")
			continue
		}
		has1, has2 := false, false
		for k := range d {
			if strings.HasPrefix(k, "p1.") {
				has1 = true
			}
			if strings.HasPrefix(k, "p2.") {
				has2 = true
			}
		}
		if !has1 || !has2 {
			ok = false
			why = append(why, "coordinate "+coord+" does not depend on both operands")
		}
		if coord != "T" && !d["D"] {
			ok = false
			why = append(why, "coordinate "+coord+" does not depend on the curve constant D: a d-free addition formula is not valid for equal operands (doubling), so the table-based MSM returns a wrong point whenever the accumulator equals the table entry being added")
		}
	}
	c.Check(ok, "K7", "ExtendedAddNormalized:unified-law", fn.Pos(), strings.Join(why, "; ")+" ["+strings.Join(got, " ")+"]", strings.Join(got, " "))
}

// ---------------------------------------------------------------------------
// R1 — structure of the dyadic discrete-log reconstruction (fp/sqrt.go)

// RuleR1 — every loop of the square-root code runs its full, fixed range; every block of the discrete log is accumulated.
func RuleR1(c *Ctx) {
	c.Rule("R1", "fixed ranges in the square-root code: every loop of bandersnatch/fp's table-driven square root is a counted loop left only through its bound test (no break or return out of a loop body), so every 8-bit block of the discrete logarithm and every table row is processed; in invSqrtEqDyadic the `negExponent |= newBits << shift` update is executed on every iteration of the block loop, with shift = BlockSize*i - FirstBlockUnusedBits")
	var fns []*ssa.Function
	for _, top := range c.P.TopFuncs() {
		if top.Pkg == nil || !strings.HasSuffix(top.Pkg.Pkg.Path(), "bandersnatch/fp") {
			continue
		}
		for _, f := range core.Family(top) {
			if len(f.Blocks) > 0 {
				fns = append(fns, f)
			}
		}
	}
	nLoops := 0
	for _, fn := range fns {
		loops := core.Loops(fn)
		if len(loops) == 0 {
			continue
		}
		c.Saw(core.FnName(fn))
		cls := countedLoops(fn)
		for li, l := range loops {
			nLoops++
			key := fmt.Sprintf("%s:loop#%d", core.FnName(fn), li)
			var exits []string
			for b := range l.Blocks {
				for _, s := range b.Succs {
					if _, isPanic := s.Instrs[len(s.Instrs)-1].(*ssa.Panic); isPanic {
						continue // aborting is not skipping
					}
					if ret, isRet := s.Instrs[len(s.Instrs)-1].(*ssa.Return); isRet && !l.Blocks[s] && len(s.Instrs) == 1 {
						failure := len(ret.Results) > 0
						for _, rv := range ret.Results {
							if b, isB := core.ConstBool(rv); isB && !b {
								continue
							}
							if core.IsNilConst(rv) {
								continue
							}
							failure = false
						}
						if failure {
							continue // giving up with a failure result is not skipping either
						}
					}
					if !l.Blocks[s] && b != l.Header {
						pos := b.Instrs[len(b.Instrs)-1].Pos()
						for k := len(b.Instrs) - 1; k >= 0 && !pos.IsValid(); k-- {
							pos = b.Instrs[k].Pos()
						}
						exits = append(exits, c.P.Pos(pos))
					}
				}
			}
			counted := false
			for _, cl := range cls {
				if cl.loop.Header == l.Header {
					counted = true
				}
			}
			switch {
			case len(exits) > 0:
				c.Bad("R1", key, l.Header.Instrs[0].Pos(), fmt.Sprintf("%s leaves a loop from inside its body (near %s): the remaining iterations — blocks of the discrete logarithm, squarings or table rows — are skipped, so the result is wrong for the inputs that take that exit", core.FnName(fn), strings.Join(exits, ", ")))
			case !counted:
				c.Und("R1", key, l.Header.Instrs[0].Pos(), core.FnName(fn)+" has a loop that is not a counted `for i := a; i < b; i++` loop; its range cannot be decided")
			default:
				c.OK("R1", key, l.Header.Instrs[0].Pos(), "counted loop, left only through its bound test")
			}
		}
	}
	c.FloorN("R1", 8, nLoops, "loops of the square-root code")

	// the accumulation in invSqrtEqDyadic
	fn := c.P.Fn("bandersnatch/fp", "", "invSqrtEqDyadic")
	if fn == nil {
		c.Unresolved("R1", "fp.invSqrtEqDyadic")
		return
	}
	bs, un := c.constOf("bandersnatch/fp", "sqrtParam_BlockSize"), c.constOf("bandersnatch/fp", "sqrtParam_FirstBlockUnusedBits")
	var found []string
	okAcc := false
	for _, cl := range countedLoops(fn) {
		for b := range cl.loop.Blocks {
			for _, ins := range b.Instrs {
				or, isOr := ins.(*ssa.BinOp)
				if !isOr || or.Op != token.OR {
					continue
				}
				// acc |= v << shift, acc a header phi of this loop fed back by the OR
				var acc *ssa.Phi
				var shl *ssa.BinOp
				for _, pair := range [][2]ssa.Value{{or.X, or.Y}, {or.Y, or.X}} {
					if phi, isPhi := pair[0].(*ssa.Phi); isPhi && phi.Block() == cl.loop.Header {
						if s, isS := pair[1].(*ssa.BinOp); isS && s.Op == token.SHL {
							acc, shl = phi, s
						}
					}
				}
				if acc == nil {
					continue
				}
				feeds := false
				for _, e := range acc.Edges {
					if e == ssa.Value(or) {
						feeds = true
					}
				}
				if !feeds {
					continue
				}
				// executed on every iteration: the OR's block dominates every latch
				every := true
				for _, p := range cl.loop.Header.Preds {
					if cl.loop.Blocks[p] && !b.Dominates(p) {
						every = false
					}
				}
				// the shifts over the iteration space are exactly BlockSize*i - Unused for i = 1 .. Blocks-1 (in either direction)
				f := linOf(shl.Y, cl.phi, nil)
				a0, isA := core.ConstInt(cl.init)
				n, isN := cl.tripCount()
				blocks := c.constOf("bandersnatch/fp", "sqrtParam_Blocks")
				found = append(found, fmt.Sprintf("acc |= bits << (%d*i%+d) for %d values of i from %d step %d, every iteration: %v", f.a, f.b, n, a0, cl.step, every))
				if every && f.ok && isA && isN && n == blocks-1 {
					got := map[int64]bool{}
					for k := int64(0); k < n; k++ {
						got[f.a*(a0+k*cl.step)+f.b] = true
					}
					all := true
					for i := int64(1); i < blocks; i++ {
						if !got[bs*i-un] {
							all = false
						}
					}
					if all {
						okAcc = true
					}
				}
			}
		}
	}
	c.Check(okAcc, "R1", "invSqrtEqDyadic:every-block-accumulated", fn.Pos(), fmt.Sprintf("invSqrtEqDyadic does not accumulate the newly found bits of every block i in [1,Blocks) at bit position %d*i-%d on every iteration [found: %s]", bs, un, strings.Join(found, "; ")),
		strings.Join(found, "; "))
}

// curveTermOps: canonical terms over x, the curve constants A and D and 1 for the field operations of gnark's fp.Element
// (commutative operations with sorted operands).
func curveTermOps(xPath string) symOps[string] {
	return symOps[string]{
		leaf: func(a ssa.Value) (string, bool) {
			p := core.PathOf(a)
			switch {
			case p == xPath:
				return "x", true
			case strings.HasSuffix(p, "CurveParams.A"):
				return "A", true
			case strings.HasSuffix(p, "CurveParams.D"):
				return "D", true
			}
			return "", false
		},
		value: func(v ssa.Value) (string, bool) {
			if call, ok := v.(*ssa.Call); ok {
				if f := core.Callee(call.Common()); f != nil && f.Name() == "One" && len(call.Call.Args) == 0 {
					return "1", true
				}
			}
			return "", false
		},
		apply: func(m string, args []string, _ *ssa.Call) (string, bool) {
			comm := func(op string) string {
				a, b := args[0], args[1]
				if b < a {
					a, b = b, a
				}
				return op + "(" + a + "," + b + ")"
			}
			switch m {
			case "SetOne":
				return "1", true
			case "Set":
				return args[0], true
			case "Square":
				return "sq(" + args[0] + ")", true
			case "Mul":
				if args[0] == args[1] {
					return "sq(" + args[0] + ")", true
				}
				return comm("mul"), true
			case "Add":
				return comm("add"), true
			case "Sub":
				return "sub(" + args[0] + "," + args[1] + ")", true
			case "Div":
				return "div(" + args[0] + "," + args[1] + ")", true
			}
			return "", false
		},
	}
}

// ---------------------------------------------------------------------------
// T2 — no decision on the low 64 bits of a big integer

// RuleT2: every (*big.Int).Uint64/Int64 of the module is dominated by a full-width test of the same integer (or of the
// field element it was taken from).
func RuleT2(c *Ctx) {
	c.Rule("T2", "no truncated decisions: wherever the module takes the low 64 bits of a big.Int (Uint64/Int64), a full-width test dominates it — IsUint64/IsInt64/BitLen/Cmp/CmpAbs/Sign on that integer, or fr.Element.Cmp on the element it was converted from — so that a value that only agrees in its low limb cannot take the same branch or index")
	n := 0
	for _, top := range c.P.TopFuncs() {
		if inHelperPkg(top) {
			continue
		}
		for _, fn := range core.Family(top) {
			for _, ci := range core.CallsIn(fn) {
				call, ok := ci.(*ssa.Call)
				if !ok {
					continue
				}
				f := core.Callee(call.Common())
				if !(core.IsMethod(f, "math/big", "Int", "Uint64") || core.IsMethod(f, "math/big", "Int", "Int64")) {
					continue
				}
				n++
				c.Saw(core.FnName(fn))
				key := fmt.Sprintf("%s:%s@%s", core.FnName(fn), f.Name(), c.relInFn(fn, call.Pos()))
				x := call.Call.Args[0]
				guarded := ""
				for _, cj := range core.CallsIn(fn) {
					g, ok := cj.(*ssa.Call)
					if !ok || g == call || len(g.Call.Args) == 0 {
						continue
					}
					gf := core.Callee(g.Common())
					if gf == nil || !(g.Block() == call.Block() && core.Precedes(fn, g, call) || g.Block().Dominates(call.Block())) {
						continue
					}
					switch {
					case gf.Pkg != nil && gf.Pkg.Pkg.Path() == "math/big" && g.Call.Args[0] == x:
						switch gf.Name() {
						case "IsUint64", "IsInt64", "BitLen", "Cmp", "CmpAbs", "Sign":
							guarded = "(*big.Int)." + gf.Name() + " on the same integer"
						}
					case core.IsMethod(gf, "bandersnatch/fr", "Element", "Cmp"):
						// the integer is the regular form of a field element that was compared full-width before
						for _, ck := range core.CallsIn(fn) {
							conv, ok := ck.(*ssa.Call)
							if ok && core.IsMethod(core.Callee(conv.Common()), "bandersnatch/fr", "Element", "ToBigIntRegular") && len(conv.Call.Args) == 2 && (conv.Call.Args[1] == x || ssa.Value(conv) == x) {
								guarded = "fr.Element.Cmp on the element it was converted from"
							}
						}
					}
				}
				if guarded != "" {
					c.OK("T2", key, call.Pos(), "dominated by "+guarded)
				} else {
					c.Bad("T2", key, call.Pos(), core.FnName(fn)+" takes the low 64 bits of a big integer without a full-width test before it: every value with the same low limb (e.g. multiples of 2^64) is treated alike")
				}
			}
		}
	}
	// the same extraction without a big.Int: limb 0 of x.ToRegular() used outside the field package
	for _, top := range c.P.TopFuncs() {
		if inHelperPkg(top) || top.Pkg == nil || strings.HasSuffix(top.Pkg.Pkg.Path(), "/fr") || strings.HasSuffix(top.Pkg.Pkg.Path(), "/fp") {
			continue
		}
		for _, fn := range core.Family(top) {
			fn := fn
			core.AllInstrs(fn, func(in ssa.Instruction) {
				ld, ok := in.(*ssa.UnOp)
				if !ok || ld.Op != token.MUL {
					return
				}
				limb, isLimb := ld.X.(*ssa.IndexAddr)
				if !isLimb {
					return
				}
				cell, isCell := limb.X.(*ssa.Alloc)
				if !isCell {
					return
				}
				sts := storesInto(cell)
				if len(sts) != 1 {
					return
				}
				conv, isCall := sts[0].Val.(*ssa.Call)
				if !isCall || !core.IsMethod(core.Callee(conv.Common()), "bandersnatch/fr", "Element", "ToRegular") {
					return
				}
				n++
				c.Saw(core.FnName(fn))
				key := fmt.Sprintf("%s:limb@%s", core.FnName(fn), c.relInFn(fn, ld.Pos()))
				guarded := false
				for _, cj := range core.CallsIn(fn) {
					g, ok := cj.(*ssa.Call)
					if !ok || !core.IsMethod(core.Callee(g.Common()), "bandersnatch/fr", "Element", "Cmp") {
						continue
					}
					if g.Block() == ld.Block() && core.Precedes(fn, g, ld) || g.Block().Dominates(ld.Block()) {
						guarded = true
					}
				}
				if guarded {
					c.OK("T2", key, ld.Pos(), "one limb of a regular form, dominated by fr.Element.Cmp on the element")
				} else {
					c.Bad("T2", key, ld.Pos(), core.FnName(fn)+" takes one limb of a field element's regular form without a full-width test before it: every value with the same limb is treated alike")
				}
			})
		}
	}
	c.FloorN("T2", 1, n, "low-64-bit extractions")
}

// ---------------------------------------------------------------------------
// Q3 — tables that go through a batch inversion are completely filled

// RuleQ3: in the multiproof verifier, a fixed-size table handed to BatchInvert is written at every position by an
// unconditional pass (BatchInvert leaves zero entries zero, so a skipped position silently becomes a zero factor).
func RuleQ3(c *Ctx) {
	c.Rule("Q3", "inverted tables are complete: in CheckMultiProof every fixed-size table handed to fr.BatchInvert is written by a loop over its whole index range whose write is executed on every iteration (BatchInvert maps an unwritten 0 to 0, and the table is read at data-dependent positions zs[i])")
	fn := c.P.Fn("", "", "CheckMultiProof")
	if fn == nil {
		c.Unresolved("Q3", "CheckMultiProof")
		return
	}
	c.Saw(core.FnName(fn))
	n := 0
	cls := countedLoops(fn)
	for _, call := range callsTo(fn, "bandersnatch/fr", "", "BatchInvert") {
		tbl := call.Call.Args[0]
		ln, okLen := constLen(tbl, 0)
		if !okLen {
			continue // grown by append: the compaction rules (M6) decide it
		}
		n++
		key := fmt.Sprintf("CheckMultiProof:BatchInvert@%s", c.relInFn(fn, call.Pos()))
		covered := false
		var why []string
		core.AllInstrs(fn, func(i ssa.Instruction) {
			var ia *ssa.IndexAddr
			switch x := i.(type) {
			case *ssa.Store:
				ia, _ = x.Addr.(*ssa.IndexAddr)
			case *ssa.Call:
				if len(x.Call.Args) > 0 {
					if f := core.Callee(x.Common()); f != nil && f.Signature.Recv() != nil && !gnarkObservers[f.Name()] {
						ia, _ = x.Call.Args[0].(*ssa.IndexAddr)
					}
				}
			}
			// the table itself, or the array a whole-array slice expression was taken of
			wholeOf := func(v ssa.Value) ssa.Value {
				if sl, isSl := v.(*ssa.Slice); isSl && sl.Low == nil && sl.High == nil {
					return sl.X
				}
				return v
			}
			if ia == nil || (ia.X != tbl && wholeOf(ia.X) != wholeOf(tbl)) || !core.CanReach(fn, i, call) || core.CanReach(fn, call, i) {
				return
			}
			cl := loopOf(cls, i.Block())
			if cl == nil || core.StripConv(ia.Index) != cl.phi {
				why = append(why, "a write at "+c.P.Pos(i.Pos())+" is not indexed by a loop variable")
				return
			}
			if !cl.visitsAll(ln) {
				why = append(why, "the filling loop does not run over the whole table")
				return
			}
			every := true
			for _, p := range cl.loop.Header.Preds {
				if cl.loop.Blocks[p] && !(i.Block() == p || i.Block().Dominates(p)) {
					every = false
				}
			}
			if !every {
				why = append(why, "the write at "+c.P.Pos(i.Pos())+" is skipped on some iterations: those entries stay 0 through the inversion")
				return
			}
			covered = true
		})
		c.Check(covered && len(why) == 0, "Q3", key, call.Pos(), "a table of "+fmt.Sprint(ln)+" entries is inverted without having been completely filled: "+strings.Join(uniqStrings(why), "; "), fmt.Sprintf("all %d entries written on every iteration before the inversion", ln))
	}
	c.FloorN("Q3", 1, n, "fixed-size tables passed to BatchInvert")
}

// ---------------------------------------------------------------------------
// Q4 — grouped polynomials are accumulated, never overwritten

// RuleQ4: in groupPolynomialsByEvaluationPoint every field operation whose destination is an element of a coefficient
// vector (x[j]) is an accumulation into that same element: x[j].Add(&x[j], term) (either operand order). Writing a
// product straight into the slot keeps only the last polynomial of an evaluation point instead of the sum.
func RuleQ4(c *Ctx) {
	c.Rule("Q4", "grouping accumulates: in groupPolynomialsByEvaluationPoint (the workers and the merge) every fr.Element operation whose destination is an element x[j] of a coefficient vector is x[j].Add(&x[j], term): the polynomials that share an evaluation point are summed, none is overwritten by the next")
	top := c.P.Fn("", "", "groupPolynomialsByEvaluationPoint")
	if top == nil {
		c.Unresolved("Q4", "groupPolynomialsByEvaluationPoint")
		return
	}
	n := 0
	sameSlot := func(a, b ssa.Value) bool {
		if a == b {
			return true
		}
		ia, ok1 := a.(*ssa.IndexAddr)
		ib, ok2 := b.(*ssa.IndexAddr)
		if !ok1 || !ok2 || core.StripConv(ia.Index) != core.StripConv(ib.Index) {
			return false
		}
		if ia.X == ib.X || core.SameExpr(ia.X, ib.X) {
			return true
		}
		// two loads of the same array element (groupedFs[z] read twice)
		la, okA := ia.X.(*ssa.UnOp)
		lb, okB := ib.X.(*ssa.UnOp)
		if okA && okB && la.Op == token.MUL && lb.Op == token.MUL {
			xa, okXA := la.X.(*ssa.IndexAddr)
			xb, okXB := lb.X.(*ssa.IndexAddr)
			if okXA && okXB && xa.X == xb.X && core.StripConv(xa.Index) == core.StripConv(xb.Index) {
				return true
			}
		}
		return false
	}
	for _, fn := range core.Family(top) {
		c.Saw(core.FnName(fn))
		for _, ci := range core.CallsIn(fn) {
			call, ok := ci.(*ssa.Call)
			if !ok {
				continue
			}
			f := core.Callee(call.Common())
			if f == nil || f.Signature.Recv() == nil || len(call.Call.Args) == 0 || !core.IsMethod(f, "bandersnatch/fr", "Element", f.Name()) {
				continue
			}
			dst, isSlot := call.Call.Args[0].(*ssa.IndexAddr)
			if !isSlot || gnarkObservers[f.Name()] {
				continue
			}
			n++
			key := fmt.Sprintf("%s:%s@%s", core.FnName(fn), f.Name(), c.relInFn(fn, call.Pos()))
			ok2 := f.Name() == "Add" && len(call.Call.Args) == 3 && (sameSlot(call.Call.Args[1], dst) || sameSlot(call.Call.Args[2], dst))
			c.Check(ok2, "Q4", key, call.Pos(), fmt.Sprintf("%s writes a coefficient slot with %s that is not an accumulation into that slot: the polynomials grouped under one evaluation point are not summed (the last one wins)", core.FnName(fn), f.Name()), "x[j].Add(&x[j], term)")
		}
	}
	c.FloorN("Q4", 2, n, "slot updates in the grouping")
}

// ceilQuoPhi: v = phi(q, q+1) with q = n / w, the incremented value arriving exactly from the non-zero arm of a test
// of n % w against 0. Returns n.
func ceilQuoPhi(fn *ssa.Function, v, w ssa.Value) (ssa.Value, bool) {
	phi, ok := v.(*ssa.Phi)
	if !ok || len(phi.Edges) != 2 {
		return nil, false
	}
	for i, e := range phi.Edges {
		q, isQ := phi.Edges[1-i].(*ssa.BinOp)
		inc, isInc := e.(*ssa.BinOp)
		if !isQ || !isInc || q.Op != token.QUO || q.Y != w || inc.Op != token.ADD {
			continue
		}
		if k, isK := core.ConstInt(inc.Y); !isK || k != 1 || inc.X != ssa.Value(q) {
			continue
		}
		incPred, qPred := phi.Block().Preds[i], phi.Block().Preds[1-i]
		for _, cd := range core.Conds(fn) {
			r, isR := core.StripConv(cd.X).(*ssa.BinOp)
			if !isR || r.Op != token.REM || !core.SameExpr(r.X, q.X) || r.Y != w {
				continue
			}
			if z, isZ := core.ConstInt(cd.Y); !isZ || z != 0 {
				continue
			}
			ne := cd.EdgeWhere(token.NEQ)
			if ne < 0 {
				continue
			}
			// non-zero arm leads (only) to the incrementing predecessor; the zero arm is the other edge of the phi
			if cd.Block.Succs[ne] == incPred && len(incPred.Preds) == 1 && qPred == cd.Block {
				return q.X, true
			}
		}
	}
	return nil, false
}

func constEq(a, b ssa.Value) bool {
	x, okX := core.ConstInt(a)
	y, okY := core.ConstInt(b)
	return okX && okY && x == y
}

// ---------------------------------------------------------------------------
// Q5 — DivideOnDomain, entry by entry, over the symbolic tables

// RuleQ5 folds DivideOnDomain for each of the 256 domain indices with the polynomial's values f[0..255] and the two
// precomputed tables as uninterpreted symbols (BW[p], INV[p]). What must come out, whatever the arrangement of the
// loops and helpers: for i != index, q[i] = (f[i] - f[index]) * INV[pos(i - index)], where pos(d) = d-1 for d > 0 and
// |d|-1+(domainSize-1) for d < 0 (the positions M7/M12 show to hold 1/d); and q[index] = - sum over i != index of
// BW[index] * BW[i+domainSize] * q[i] (the positions that hold A'(index) and 1/A'(i)).
type q5Result struct {
	bad   []string
	steps int
	und   string
	ds    int64
}

var q5Cache = map[*ssa.Function]*q5Result{}

// q5Eval folds DivideOnDomain for every index once per loaded program.
func (c *Ctx) q5Eval(fn *ssa.Function) *q5Result {
	if r, ok := q5Cache[fn]; ok {
		return r
	}
	r := &q5Result{}
	q5Cache[fn] = r
	ds := c.constOf("ipa", "domainSize")
	r.ds = ds
	var st *types.Struct
	if len(fn.Params) == 3 {
		if pt, ok := fn.Params[0].Type().Underlying().(*types.Pointer); ok {
			st, _ = pt.Elem().Underlying().(*types.Struct)
		}
	}
	if st == nil || ds <= 0 {
		r.und = "unexpected signature"
		return r
	}
	syms := func(name string, n int64) (*fobj, []*fterm) {
		o := &fobj{slots: make([]any, n)}
		ts := make([]*fterm, n)
		for i := range o.slots {
			ts[i] = &fterm{op: "sym", s: fmt.Sprintf("%s[%d]", name, i)}
			o.slots[i] = ts[i]
		}
		return o, ts
	}
	bwO, bw := syms("BW", 2*ds)
	invO, inv := syms("INV", 2*(ds-1))
	pre := &fobj{slots: make([]any, st.NumFields())}
	for i := 0; i < st.NumFields(); i++ {
		switch st.Field(i).Name() {
		case "barycentricWeights":
			pre.slots[i] = fslice{bwO, 0, int(2 * ds), int(2 * ds)}
		case "invertedDomain":
			pre.slots[i] = fslice{invO, 0, int(2 * (ds - 1)), int(2 * (ds - 1))}
		default:
			pre.slots[i] = nil
		}
	}
	for index := int64(0); index < ds && len(r.bad) < 3; index++ {
		fO, f := syms("f", ds)
		fo := &folder{limit: 2_000_000}
		res, err := fo.Fold(fn, []any{fptr{pre, 0}, index, fslice{fO, 0, int(ds), int(ds)}})
		r.steps += fo.steps
		if err != nil {
			r.und = fmt.Sprintf("cannot fold DivideOnDomain(%d, f): %v", index, err)
			return r
		}
		q, ok := res.(fslice)
		if !ok || int64(q.len) != ds {
			r.bad = append(r.bad, fmt.Sprintf("index %d: the result is not a vector of %d entries", index, ds))
			continue
		}
		self := fZero
		nb := len(r.bad)
		for i := int64(0); i < ds; i++ {
			if i == index {
				continue
			}
			d := i - index
			pos := d - 1
			if d < 0 {
				pos = -d - 1 + (ds - 1)
			}
			want := fComm("mul", fOne, fSub(f[i], f[index]), inv[pos])
			got := "?"
			if t, isT := q.o.slots[q.off+int(i)].(*fterm); isT {
				got = t.String()
			}
			if got != want.String() {
				r.bad = append(r.bad, fmt.Sprintf("index %d: q[%d] is %s, expected %s", index, i, clip(got, 120), want.String()))
				break
			}
			self = fSub(self, fComm("mul", fOne, fComm("mul", fOne, bw[index], bw[i+ds]), want))
		}
		if len(r.bad) == nb {
			got := "?"
			if t, isT := q.o.slots[q.off+int(index)].(*fterm); isT {
				got = t.String()
			}
			if got != self.String() {
				r.bad = append(r.bad, fmt.Sprintf("index %d: q[%d] (the self term) is not -sum_{i != index} BW[index]*BW[i+%d]*q[i] (%s...)", index, index, ds, clip(got, 100)))
			}
		}
	}
	return r
}

func RuleQ5(c *Ctx) {
	c.Rule("Q5", "DivideOnDomain folded for every domain index with f and the precomputed tables as symbols: q[i] = (f[i] - f[index]) * invertedDomain[pos(i - index)] with pos(d) = d-1 for d > 0 and |d|-1+(domainSize-1) for d < 0, for every i != index, and q[index] = -sum_{i != index} barycentricWeights[index] * barycentricWeights[i+domainSize] * q[i]")
	fn := c.P.Fn("ipa", "PrecomputedWeights", "DivideOnDomain")
	if fn == nil {
		c.Unresolved("Q5", "ipa.(*PrecomputedWeights).DivideOnDomain")
		return
	}
	c.Saw(core.FnName(fn))
	key := "DivideOnDomain:all-indices"
	r := c.q5Eval(fn)
	if r.und != "" {
		c.Und("Q5", key, fn.Pos(), r.und)
		c.FloorN("Q5", 1, 0, "indices folded")
		return
	}
	c.Check(len(r.bad) == 0, "Q5", key, fn.Pos(), strings.Join(r.bad, "; "), fmt.Sprintf("all %d indices folded (%d steps): every q[i] and the self term are the specified terms over f and the table positions", r.ds, r.steps))
	c.FloorN("Q5", 1, 1, "indices folded")
}

func clip(s string, n int) string {
	if len(s) > n {
		return s[:n] + "…"
	}
	return s
}

// ---------------------------------------------------------------------------
// Q6 — the barycentric coefficients, entry by entry, over the symbolic table

// RuleQ6 folds ComputeBarycentricCoefficients with the evaluation point z and the weights table as symbols. Entry i
// must be A(z) / (A'(x_i) * (z - x_i)): the product of (z - u(j)) over the whole domain, times the inverse of
// barycentricWeights[i] * (z - u(i)) — whichever way the loops, temporaries and the batch inversion are arranged.
func RuleQ6(c *Ctx) {
	c.Rule("Q6", "ComputeBarycentricCoefficients folded with the point z and the weights table as symbols: entry i is prod_{j in domain} (z - j) times the inverse of barycentricWeights[i] * (z - i), for every i of the domain")
	fn := c.P.Fn("ipa", "PrecomputedWeights", "ComputeBarycentricCoefficients")
	if fn == nil {
		c.Unresolved("Q6", "ipa.(*PrecomputedWeights).ComputeBarycentricCoefficients")
		return
	}
	c.Saw(core.FnName(fn))
	ds := c.constOf("ipa", "domainSize")
	key := "ComputeBarycentricCoefficients:all-entries"
	var st *types.Struct
	if len(fn.Params) == 2 {
		if pt, ok := fn.Params[0].Type().Underlying().(*types.Pointer); ok {
			st, _ = pt.Elem().Underlying().(*types.Struct)
		}
	}
	if st == nil || ds <= 0 {
		c.Und("Q6", key, fn.Pos(), "unexpected signature")
		c.FloorN("Q6", 1, 0, "entries folded")
		return
	}
	bwO := &fobj{slots: make([]any, 2*ds)}
	bw := make([]*fterm, 2*ds)
	for i := range bw {
		bw[i] = &fterm{op: "sym", s: fmt.Sprintf("BW[%d]", i)}
		bwO.slots[i] = bw[i]
	}
	pre := &fobj{slots: make([]any, st.NumFields())}
	for i := 0; i < st.NumFields(); i++ {
		if st.Field(i).Name() == "barycentricWeights" {
			pre.slots[i] = fslice{bwO, 0, int(2 * ds), int(2 * ds)}
		}
	}
	z := &fterm{op: "sym", s: "z"}
	fo := &folder{limit: 2_000_000}
	res, err := fo.Fold(fn, []any{fptr{pre, 0}, z})
	if err != nil {
		c.Und("Q6", key, fn.Pos(), "cannot fold ComputeBarycentricCoefficients: "+err.Error())
		c.FloorN("Q6", 1, 0, "entries folded")
		return
	}
	out, ok := res.(fslice)
	var bad []string
	if !ok || int64(out.len) != ds {
		bad = append(bad, fmt.Sprintf("the result is not a vector of %d entries", ds))
	} else {
		total := fOne
		for j := int64(0); j < ds; j++ {
			total = fComm("mul", fOne, total, fSub(z, fU(j)))
		}
		for i := int64(0); i < ds && len(bad) < 3; i++ {
			want := fComm("mul", fOne, fInv(fComm("mul", fOne, fSub(z, fU(i)), bw[i])), total)
			got := "?"
			if t, isT := out.o.slots[out.off+int(i)].(*fterm); isT {
				got = t.String()
			}
			if got != want.String() {
				bad = append(bad, fmt.Sprintf("entry %d is %s, expected the full product times inv(BW[%d]*(z-%d))", i, clip(got, 140), i, i))
			}
		}
	}
	c.Check(len(bad) == 0, "Q6", key, fn.Pos(), strings.Join(bad, "; "), fmt.Sprintf("all %d entries folded (%d steps): A(z) * inv(barycentricWeights[i] * (z - i))", ds, fo.steps))
	c.FloorN("Q6", 1, 1, "entries folded")
}
