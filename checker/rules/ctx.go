// Package rules holds the analyses of DESIGN.md §3 and the per-property drivers.
package rules

import (
	"bufio"
	"os"
	"path/filepath"
	"strings"

	"verif/checker/core"
)

// Ctx is what a rule gets.
type Ctx struct {
	*core.Run
	P     *core.Prog
	Verif string
	Tier  string

	wfx *wfxState // memoised write-effect analysis
}

// Rule is one analysis step contributing obligations.
type Rule func(*Ctx)

// Spec describes the check of one property.
type Spec struct {
	Rules       []Rule
	Explanation string
	Trusted     []string
	Assumptions []string
}

// Props is the registry property id -> check.
var Props = map[string]*Spec{}

var commonTrusted = []string{
	"Go type checker and go/ssa builder of golang.org/x/tools v0.29.0 (vendored)",
	"hand-written analyser in /verif/checker (unverified)",
	"trust table of standard-library contracts (io.Reader/Writer, hash.Hash, bytes.Buffer, math/big, encoding/binary, sync) in rules/wfx_trust.go",
}

var commonAssumptions = []string{
	"the build configurations analysed (quick: linux/amd64 default tags; thorough: amd64, amd64+noadx, amd64+amd64_adx, arm64, 386) are the ones that matter",
	"no use of unsafe/reflect/cgo inside the module that bypasses the SSA-visible memory model (checked: none imported by non-test code except reflect.TypeOf in an error message)",
	"value-level clauses (numeric results of field/group arithmetic) are NOT decided; see DESIGN.md section 4 'Not decided' for this property",
}

// ReadTable reads a TSV table from /verif/tables, skipping comments and blanks.
func (c *Ctx) ReadTable(name string) [][]string {
	f, err := os.Open(filepath.Join(c.Verif, "tables", name))
	if err != nil {
		c.Und("TABLE", "table:"+name, 0, "cannot read table: "+err.Error())
		return nil
	}
	defer f.Close()
	var out [][]string
	sc := bufio.NewScanner(f)
	sc.Buffer(make([]byte, 1<<20), 1<<20)
	for sc.Scan() {
		line := sc.Text()
		if strings.TrimSpace(line) == "" || strings.HasPrefix(strings.TrimSpace(line), "#") {
			continue
		}
		cols := strings.Split(line, "\t")
		for i := range cols {
			cols[i] = strings.TrimSpace(cols[i])
		}
		out = append(out, cols)
	}
	return out
}
