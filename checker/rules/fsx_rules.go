package rules

import (
	"fmt"
	"go/ast"
	"go/token"
	"go/types"
	"sort"
	"strings"

	"golang.org/x/tools/go/ssa"

	"verif/checker/core"
)

// labelOfGlobal resolves a label variable (as SSA global) to its string literal.
func (c *Ctx) labelOfGlobal(g *ssa.Global) (string, bool) {
	v, ok := g.Object().(*types.Var)
	if !ok {
		return "", false
	}
	pk := c.P.Pkgs[v.Pkg().Path()]
	if pk == nil {
		return "", false
	}
	// reuse the AST resolution through a synthetic identifier lookup
	for id, o := range pk.TypesInfo.Defs {
		if o == v {
			info := &types.Info{Uses: map[*ast.Ident]types.Object{id: v}}
			return c.labelOf(info, id)
		}
	}
	return "", false
}

// labelArg resolves the label argument of a transcript call: a load of a label global.
func (c *Ctx) labelArg(v ssa.Value) (string, bool) {
	if u, ok := v.(*ssa.UnOp); ok && u.Op == token.MUL {
		if g, ok := u.X.(*ssa.Global); ok {
			return c.labelOfGlobal(g)
		}
	}
	return "", false
}

type absorb struct {
	call  *ssa.Call
	kind  string // P / S
	label string
	msg   ssa.Value
}

func (c *Ctx) absorbsIn(fn *ssa.Function) []absorb {
	var out []absorb
	for _, ci := range core.CallsIn(fn) {
		call, ok := ci.(*ssa.Call)
		if !ok {
			continue
		}
		f := core.Callee(call.Common())
		var kind string
		switch {
		case core.IsMethod(f, "/common", "Transcript", "AppendPoint"):
			kind = "P"
		case core.IsMethod(f, "/common", "Transcript", "AppendScalar"):
			kind = "S"
		default:
			continue
		}
		lab, _ := c.labelArg(call.Call.Args[2])
		out = append(out, absorb{call, kind, lab, call.Call.Args[1]})
	}
	return out
}

// acceptReturns: returns whose boolean result is not the constant false.
func acceptReturns(fn *ssa.Function) []*ssa.Return {
	var out []*ssa.Return
	for _, r := range core.Returns(fn) {
		if len(r.Results) == 0 {
			continue
		}
		if b, ok := core.ConstBool(r.Results[0]); ok && !b {
			continue
		}
		out = append(out, r)
	}
	return out
}

func throughConverters(call *ssa.Call, argIdx int) bool {
	f := core.Callee(call.Common())
	return core.IsFunc(f, "go-ipa", "domainToFr")
}

// viaConverters: domainToFr passes its argument to its result; the field setters pass theirs to the receiver.
func viaConverters(call *ssa.Call, argIdx int) (ssa.Value, bool) {
	f := core.Callee(call.Common())
	if core.IsFunc(f, "go-ipa", "domainToFr") {
		return call, true
	}
	if f != nil && argIdx >= 1 && len(call.Call.Args) == 2 && core.IsMethod(f, "bandersnatch/fr", "Element", f.Name()) {
		switch f.Name() {
		case "SetUint64", "Set", "SetBytes", "SetBytesLE", "SetBigInt":
			return call.Call.Args[0], true
		}
	}
	return nil, false
}

// fieldAddrs of fn whose field is named `field` and whose base derives from parameter `param`.
func fieldAddrs(fn *ssa.Function, param, field string) []ssa.Value {
	var out []ssa.Value
	core.AllInstrs(fn, func(i ssa.Instruction) {
		fa, ok := i.(*ssa.FieldAddr)
		if !ok {
			return
		}
		p := core.PathOf(fa)
		if strings.HasSuffix(p, "."+field) && (strings.HasPrefix(p, "p:"+param+".") || strings.HasPrefix(p, "&p:"+param+".")) {
			out = append(out, fa)
		}
	})
	return out
}

func paramNamed(fn *ssa.Function, name string) *ssa.Parameter {
	for _, p := range fn.Params {
		if p.Name() == name {
			return p
		}
	}
	return nil
}

// RuleF3 — every statement/proof component is absorbed (flows into the message of the
// right absorb event) before acceptance.
func RuleF3(c *Ctx) {
	c.Rule("F3", "binding: in each verifier every statement/proof component flows (SSA def-use) into the message argument of the absorb event with its label, and that absorb (or the loop containing it) dominates the accept return")
	type comp struct {
		rel, fn     string
		name        string
		param       string
		field       string // "" = the parameter itself
		kind, label string
	}
	comps := []comp{
		{"", "CheckMultiProof", "Cs[i]", "Cs", "", "P", "C"},
		{"", "CheckMultiProof", "zs[i]", "zs", "", "S", "z"},
		{"", "CheckMultiProof", "ys[i]", "ys", "", "S", "y"},
		{"", "CheckMultiProof", "proof.D", "proof", "D", "P", "D"},
		{"ipa", "CheckIPAProof", "commitment", "commitment", "", "P", "C"},
		{"ipa", "CheckIPAProof", "evalPoint", "evalPoint", "", "S", "input point"},
		{"ipa", "CheckIPAProof", "result", "result", "", "S", "output point"},
		{"ipa", "generateChallenges", "proof.L[i]", "proof", "L", "P", "L"},
		{"ipa", "generateChallenges", "proof.R[i]", "proof", "R", "P", "R"},
	}
	n := 0
	for _, cp := range comps {
		fn := c.P.Fn(cp.rel, "", cp.fn)
		if fn == nil && cp.fn == "generateChallenges" {
			// the helper may have been folded into its only caller
			fn = c.P.Fn(cp.rel, "", "CheckIPAProof")
			cp.fn = "CheckIPAProof"
		}
		if fn == nil {
			c.Unresolved("F3", cp.fn)
			continue
		}
		c.Saw(core.FnName(fn))
		key := cp.fn + ":" + cp.name
		var sources []ssa.Value
		if cp.field == "" {
			if p := paramNamed(fn, cp.param); p != nil {
				sources = append(sources, p)
			}
		} else {
			sources = fieldAddrs(fn, cp.param, cp.field)
		}
		if len(sources) == 0 {
			c.Bad("F3", key, fn.Pos(), fmt.Sprintf("component %s is never read in %s, so it cannot be bound by the transcript", cp.name, cp.fn))
			continue
		}
		n++
		loops := core.Loops(fn)
		var hit *absorb
		for _, ab := range c.absorbsIn(fn) {
			if ab.kind != cp.kind || ab.label != cp.label {
				continue
			}
			for _, s := range sources {
				if core.FlowsToVia(s, ab.msg, viaConverters) {
					a := ab
					hit = &a
				}
			}
		}
		if hit == nil {
			c.Bad("F3", key, fn.Pos(), fmt.Sprintf("no absorb %s%q in %s receives %s: the component is not bound by the transcript", cp.kind, cp.label, cp.fn, cp.name))
			continue
		}
		// dominance: the absorb's block, or the header of the outermost loop containing it, dominates every accept/normal return
		anchor := hit.call.Block()
		if l := core.OutermostLoop(loops, anchor); l != nil {
			anchor = l.Header
		}
		okDom := true
		var rets []*ssa.Return
		if cp.fn == "generateChallenges" {
			rets = core.Returns(fn)
		} else {
			rets = acceptReturns(fn)
		}
		for _, r := range rets {
			if !(anchor == r.Block() || anchor.Dominates(r.Block())) {
				okDom = false
			}
		}
		if len(rets) == 0 {
			okDom = false
		}
		c.Check(okDom, "F3", key, hit.call.Pos(), fmt.Sprintf("the absorb of %s does not dominate acceptance in %s", cp.name, cp.fn),
			fmt.Sprintf("flows into %s%q at %s", cp.kind, cp.label, c.P.Pos(hit.call.Pos())), fmt.Sprintf("dominates %d return(s)", len(rets)))
	}
	// the helper's call site dominates acceptance in CheckIPAProof
	if v, g := c.P.Fn("ipa", "", "CheckIPAProof"), c.P.Fn("ipa", "", "generateChallenges"); v != nil && g != nil {
		var site *ssa.Call
		for _, ci := range core.CallsIn(v) {
			if call, ok := ci.(*ssa.Call); ok && core.Callee(call.Common()) == g {
				site = call
			}
		}
		if site == nil {
			c.Bad("F3", "CheckIPAProof:call generateChallenges", v.Pos(), "CheckIPAProof no longer calls generateChallenges: L and R are not absorbed")
		} else {
			ok := true
			for _, r := range acceptReturns(v) {
				if !core.Precedes(v, site, r) {
					ok = false
				}
			}
			// and it is handed the verifier's own proof
			okArg := strings.HasPrefix(core.PathOf(site.Call.Args[1]), "&p:proof")
			c.Check(ok && okArg, "F3", "CheckIPAProof:call generateChallenges", site.Pos(), "the call absorbing L,R does not dominate acceptance or is not given the verifier's proof", "call dominates accept", "argument is &proof")
		}
	}
	c.FloorN("F3", 9, n, "bound components")
}

// ---------------------------------------------------------------------------
// F4 parallel-index agreement (typed AST)

type tupleSpec struct {
	rel, fn string
	members []string // identifiers (parameters / locals) or "proof.L" style selectors
	recv    string
}

var parallelTuples = []tupleSpec{
	{"", "CreateMultiProof", []string{"Cs", "fs", "zs"}, ""},
	{"", "CheckMultiProof", []string{"Cs", "ys", "zs", "powers_of_r"}, ""},
	{"", "groupPolynomialsByEvaluationPoint", []string{"fs", "powersOfR", "zs"}, ""},
	{"ipa", "generateChallenges", []string{"proof.L", "proof.R", "challenges"}, ""},
	{"ipa", "CheckIPAProof", []string{"proof.L", "proof.R", "challenges", "challengesInv"}, ""},
}

// element-wise maps of the MSM stack and the batch helpers (rule M1 / U-rules): index i is combined with index i.
var elementwiseTuples = []tupleSpec{
	{"bandersnatch", "msmProcessChunkPointAffineDMA", []string{"points", "scalars"}, ""},
	{"bandersnatch", "partitionScalars", []string{"toReturn", "scalars"}, ""},
	{"banderwagon", "MultiExp", []string{"projPoints", "points"}, "Element"},
	{"banderwagon", "batchProjToAffine", []string{"result", "points", "zeroes"}, ""},
	{"banderwagon", "batchToExtendedPointNormalized", []string{"result", "points", "zeroes"}, ""},
	{"banderwagon", "MSM", []string{"scalars", "msm.precompPoints"}, "MSMPrecomp"},
}

var batchTuples = []tupleSpec{
	{"banderwagon", "ElementsToBytes", []string{"elements", "zs", "zInvs", "serialised_points"}, ""},
	{"banderwagon", "BatchToBytesUncompressed", []string{"elements", "zs", "zInvs", "uncompressedPoints"}, ""},
	{"banderwagon", "BatchMapToScalarField", []string{"elements", "ys", "yInvs", "result"}, ""},
	{"banderwagon", "BatchNormalize", []string{"dedupedElements", "invs"}, ""},
}

// RuleF4 — inside one loop, all indexings of members of a parallel tuple use the loop's own variable.
func RuleF4(only ...string) Rule { return ruleTuples("F4", parallelTuples, 6, only...) }

// RuleM1b — element-wise maps of the MSM stack.
func RuleM1b(c *Ctx) { ruleTuples("M1", elementwiseTuples, 6)(c) }

// RuleU4 — batch helpers pair element i with inverse i and output i.
func RuleBatchIdx(c *Ctx) { ruleTuples("U4", batchTuples, 4)(c) }

func ruleTuples(rule string, tuples []tupleSpec, floor int, only ...string) Rule {
	return func(c *Ctx) {
		c.Rule(rule, "parallel-index agreement: every indexing of a member of a declared parallel tuple (openings: Cs,fs,zs / Cs,ys,zs; rounds: proof.L,proof.R,challenges; element-wise maps: points,scalars / elements,inverses,outputs) uses the induction variable of the enclosing loop, the same one for all members in that loop")
		loopsSeen := 0
		for _, ts := range tuples {
			if len(only) > 0 && !contains(only, ts.fn) {
				continue
			}
			fn := c.P.Fn(ts.rel, ts.recv, ts.fn)
			if fn == nil && ts.fn == "generateChallenges" && c.P.Fn(ts.rel, "", "CheckIPAProof") != nil {
				continue // folded into CheckIPAProof, whose own tuple covers proof.L, proof.R and challenges
			}
			if fn == nil {
				c.Unresolved(rule, ts.fn)
				continue
			}
			fd, info := c.P.Decl(fn), c.P.Info(fn)
			if fd == nil {
				c.Unresolved(rule, ts.fn+" (syntax)")
				continue
			}
			c.Saw(core.FnName(fn))
			memberOf := func(e ast.Expr) string {
				e = ast.Unparen(e)
				switch x := e.(type) {
				case *ast.Ident:
					if contains(ts.members, x.Name) {
						if _, ok := info.Uses[x].(*types.Var); ok {
							return x.Name
						}
					}
				case *ast.SelectorExpr:
					if id, ok := x.X.(*ast.Ident); ok {
						n := id.Name + "." + x.Sel.Name
						if contains(ts.members, n) {
							return n
						}
					}
				}
				return ""
			}
			// walk with a stack of enclosing loop variables
			type loopCtx struct {
				node ast.Node
				v    types.Object
			}
			var stack []loopCtx
			perLoop := map[ast.Node]map[string]string{} // loop -> member -> index (variable identity or expression text)
			var walk func(n ast.Node)
			walk = func(n ast.Node) {
				if n == nil {
					return
				}
				switch x := n.(type) {
				case *ast.ForStmt:
					var v types.Object
					if as, ok := x.Init.(*ast.AssignStmt); ok && len(as.Lhs) == 1 {
						if id, ok := as.Lhs[0].(*ast.Ident); ok {
							v = info.Defs[id]
						}
					}
					if x.Init != nil {
						walk(x.Init)
					}
					stack = append(stack, loopCtx{x, v})
					if x.Cond != nil {
						walk(x.Cond)
					}
					if x.Post != nil {
						walk(x.Post)
					}
					walk(x.Body)
					stack = stack[:len(stack)-1]
					return
				case *ast.RangeStmt:
					var v types.Object
					if id, ok := x.Key.(*ast.Ident); ok && id.Name != "_" {
						v = info.Defs[id]
						if v == nil {
							v = info.Uses[id]
						}
					}
					// ranging over a member itself: the element variable stands for member[key]
					walk(x.X)
					stack = append(stack, loopCtx{x, v})
					walk(x.Body)
					stack = stack[:len(stack)-1]
					return
				case *ast.IndexExpr:
					if m := memberOf(x.X); m != "" {
						key := ts.fn + ":" + m + "@" + c.relLine(fd, x.Pos())
						idx, _ := ast.Unparen(x.Index).(*ast.Ident)
						var io types.Object
						if idx != nil {
							io = info.Uses[idx]
						}
						var encl *loopCtx
						for i := len(stack) - 1; i >= 0; i-- {
							if io != nil && stack[i].v == io {
								encl = &stack[i]
								break
							}
						}
						// an index variable defined once, inside the loop, from that loop's variable (i := n - k): the members
						// of the tuple still meet at the same position as long as they all use it
						if encl == nil && io != nil {
							if def := singleDef(info, fd, io); def != nil {
								var from []types.Object
								ast.Inspect(def, func(n ast.Node) bool {
									if id, ok := n.(*ast.Ident); ok {
										for _, lc := range stack {
											if lc.v != nil && info.Uses[id] == lc.v {
												from = append(from, lc.v)
											}
										}
									}
									return true
								})
								if len(from) == 1 {
									for i := len(stack) - 1; i >= 0; i-- {
										if stack[i].v == from[0] && stack[i].node.Pos() <= io.Pos() && io.Pos() <= stack[i].node.End() {
											encl = &stack[i]
										}
									}
								}
							}
						}
						ikey := ""
						if io != nil {
							// a plain rebinding (i := i, as a spliced helper's parameter) is the same index
							ko := io
							for d := 0; d < 4; d++ {
								def, _ := ast.Unparen(singleDefOrNil(info, fd, ko)).(*ast.Ident)
								if def == nil || info.Uses[def] == nil {
									break
								}
								ko = info.Uses[def]
							}
							ikey = fmt.Sprintf("var@%d", ko.Pos())
						}
						// an index expression over exactly one enclosing loop variable and constants (n-1-i, remaining-1): the
						// members of the tuple meet at the same position when they all use the same expression
						if idx == nil {
							var vars []types.Object
							pure := true
							ast.Inspect(x.Index, func(n ast.Node) bool {
								if n == nil {
									return true
								}
								switch e := n.(type) {
								case *ast.Ident:
									o := info.Uses[e]
									isLoopVar := false
									for _, lc := range stack {
										if lc.v != nil && o == lc.v {
											isLoopVar = true
											dup := false
											for _, v := range vars {
												if v == o {
													dup = true
												}
											}
											if !dup {
												vars = append(vars, o)
											}
										}
									}
									if !isLoopVar {
										if tv, ok := info.Types[e]; !ok || tv.Value == nil {
											if _, isBuiltin := o.(*types.Builtin); !isBuiltin && memberOf(e) == "" {
												if v, isVar := o.(*types.Var); !isVar || singleDef(info, fd, v) == nil && !isParamOf(info, fd, v) && !isLitParamIn(info, fd, v) {
													pure = false
												}
											}
										}
									}
								case *ast.CallExpr:
									if fid, ok := e.Fun.(*ast.Ident); !ok || fid.Name != "len" {
										pure = false
									}
								case *ast.BinaryExpr, *ast.ParenExpr, *ast.BasicLit:
								default:
									pure = false
								}
								return true
							})
							if pure && len(vars) == 1 {
								for i := len(stack) - 1; i >= 0; i-- {
									if stack[i].v == vars[0] {
										encl = &stack[i]
									}
								}
								ikey = "expr:" + types.ExprString(x.Index)
							}
						}
						switch {
						case encl == nil && (idx == nil || io == nil):
							c.Bad(rule, key, x.Pos(), fmt.Sprintf("%s is indexed by %s, not by the induction variable of the enclosing loop over the openings/rounds", m, types.ExprString(x.Index)))
						case encl == nil:
							c.Bad(rule, key, x.Pos(), fmt.Sprintf("%s is indexed by %s, which is not the variable of any enclosing loop", m, idx.Name))
						default:
							if perLoop[encl.node] == nil {
								perLoop[encl.node] = map[string]string{}
								loopsSeen++
							}
							mis := ""
							for om, ok := range perLoop[encl.node] {
								if ok != ikey && om != m {
									mis = om
								}
							}
							perLoop[encl.node][m] = ikey
							if mis != "" {
								c.Bad(rule, key, x.Pos(), fmt.Sprintf("%s is indexed by %s but %s by a different index of the same loop: the members of the tuple do not meet at the same position", m, types.ExprString(x.Index), mis))
							} else {
								c.OK(rule, key, x.Pos(), fmt.Sprintf("%s[%s]: an index of the enclosing loop shared by the tuple", m, types.ExprString(x.Index)))
							}
						}
						walk(x.Index)
						return
					}
				}
				// generic descent
				ast.Inspect(n, func(ch ast.Node) bool {
					if ch == n {
						return true
					}
					walk(ch)
					return false
				})
			}
			walk(fd.Body)
		}
		if len(only) == 0 {
			c.FloorN(rule, floor, loopsSeen, "loops indexing parallel tuples")
		}
	}
}

// relLine gives a refactoring-tolerant discriminator: ordinal of the line inside the function.
func (c *Ctx) relLine(fd *ast.FuncDecl, pos token.Pos) string {
	return fmt.Sprintf("+%d:%d", c.P.Fset.Position(pos).Line-c.P.Fset.Position(fd.Pos()).Line, c.P.Fset.Position(pos).Column)
}

// ---------------------------------------------------------------------------
// F5 accept provenance

func RuleF5(c *Ctx) {
	c.Rule("F5", "accept provenance: every return of a verifier yields constant false, or (CheckIPAProof) the result of banderwagon.(*Element).Equal, or (CheckMultiProof) the boolean returned by CheckIPAProof; a non-false result comes with a nil error")
	nret := 0
	check := func(rel, name string, okSrc func(v ssa.Value) (bool, string)) {
		fn := c.P.Fn(rel, "", name)
		if fn == nil {
			c.Unresolved("F5", name)
			return
		}
		c.Saw(core.FnName(fn))
		nAccept := 0
		for i, r := range core.Returns(fn) {
			nret++
			key := fmt.Sprintf("%s:return#%d", name, i)
			if len(r.Results) != 2 {
				c.Und("F5", key, r.Pos(), "verifier no longer returns (bool, error)")
				continue
			}
			vals := []ssa.Value{r.Results[0]}
			if phi, ok := r.Results[0].(*ssa.Phi); ok {
				vals = phi.Edges
			}
			allFalse := true
			good := true
			var why []string
			for _, v := range vals {
				if b, ok := core.ConstBool(v); ok {
					if b {
						good = false
						why = append(why, "constant true")
					}
					continue
				}
				allFalse = false
				ok, w := okSrc(v)
				if !ok {
					good = false
				}
				why = append(why, w)
			}
			if !good {
				c.Bad("F5", key, r.Pos(), fmt.Sprintf("%s can return a verdict that does not come from the group-equation comparison: %s", name, strings.Join(why, ", ")))
				continue
			}
			if !allFalse {
				nAccept++
				if !core.IsNilConst(r.Results[1]) {
					c.Bad("F5", key, r.Pos(), "a possibly-true verdict is returned together with a non-nil error")
					continue
				}
				c.OK("F5", key, r.Pos(), append([]string{"accepting return"}, why...)...)
			} else {
				c.OK("F5", key, r.Pos(), "constant false")
			}
		}
		if nAccept != 1 {
			c.Bad("F5", name+":accept-count", fn.Pos(), fmt.Sprintf("%s has %d accepting returns, expected exactly one", name, nAccept))
		} else {
			c.OK("F5", name+":accept-count", fn.Pos(), "exactly one accepting return")
		}
	}
	check("ipa", "CheckIPAProof", func(v ssa.Value) (bool, string) {
		if call, ok := v.(*ssa.Call); ok && core.IsMethod(core.Callee(call.Common()), "/banderwagon", "Element", "Equal") {
			return true, "result of banderwagon.(*Element).Equal at " + c.P.Pos(call.Pos())
		}
		return false, "value " + v.Name() + " is not the result of banderwagon.(*Element).Equal"
	})
	check("", "CheckMultiProof", func(v ssa.Value) (bool, string) {
		if ex, ok := v.(*ssa.Extract); ok && ex.Index == 0 {
			if call, ok := ex.Tuple.(*ssa.Call); ok && core.IsFunc(core.Callee(call.Common()), "/ipa", "CheckIPAProof") {
				return true, "first result of ipa.CheckIPAProof at " + c.P.Pos(call.Pos())
			}
		}
		return false, "value " + v.Name() + " is not the verdict of ipa.CheckIPAProof"
	})
	c.FloorN("F5", 9, nret, "verifier returns")
}

// ---------------------------------------------------------------------------
// F6 shape checks dominate

type eqFact struct {
	a, b string // canonical paths
	cut  *core.Cuts
	pos  token.Pos
}

// equalityFacts: comparisons X==Y / X!=Y of fn with the edge on which equality holds.
func equalityFacts(fn *ssa.Function) []eqFact {
	var out []eqFact
	for _, cd := range core.Conds(fn) {
		e := cd.EdgeWhere(token.EQL)
		if e < 0 {
			continue
		}
		cut := core.NewCuts()
		cut.AddEdge(cd.Block, e)
		out = append(out, eqFact{core.PathOf(cd.X), core.PathOf(cd.Y), cut, cd.If.Pos()})
	}
	return out
}

// nonZeroFacts: edges on which a value is known != 0 / > 0.
func nonZeroFacts(fn *ssa.Function) []eqFact {
	var out []eqFact
	for _, cd := range core.Conds(fn) {
		k, isK := core.ConstInt(cd.Y)
		if !isK {
			continue
		}
		succ := -1
		switch {
		case k == 0 && cd.Op == token.EQL:
			succ = 1
		case k == 0 && cd.Op == token.NEQ:
			succ = 0
		case k == 0 && cd.Op == token.GTR:
			succ = 0
		case k == 0 && cd.Op == token.LEQ:
			succ = 1
		case k == 1 && cd.Op == token.GEQ:
			succ = 0
		case k == 1 && cd.Op == token.LSS:
			succ = 1
		}
		if succ < 0 {
			continue
		}
		cut := core.NewCuts()
		cut.AddEdge(cd.Block, succ)
		out = append(out, eqFact{core.PathOf(cd.X), "nonzero", cut, cd.If.Pos()})
	}
	return out
}

// connected: do the equality facts that dominate `at` connect all of the given paths?
func connected(fn *ssa.Function, facts []eqFact, at ssa.Instruction, paths []string) (bool, []string) {
	parent := map[string]string{}
	var find func(string) string
	find = func(x string) string {
		if parent[x] == "" || parent[x] == x {
			parent[x] = x
			return x
		}
		r := find(parent[x])
		parent[x] = r
		return r
	}
	var used []string
	for _, f := range facts {
		if f.b == "nonzero" {
			continue
		}
		if core.MustPass(fn, f.cut, at) {
			parent[find(f.a)] = find(f.b)
			used = append(used, f.a+"=="+f.b)
		}
	}
	r := find(paths[0])
	for _, p := range paths[1:] {
		if find(p) != r {
			return false, used
		}
	}
	return true, used
}

func RuleF6(c *Ctx) {
	c.Rule("F6", "shape checks dominate: acceptance (and every indexing they protect) is reachable only through the equal edges of len(L)=len(R)=numRounds resp. len(Cs)=len(ys)=len(zs) and the non-zero edge of len(Cs); the prover likewise plus len(fs[i])==VectorLength for every i")
	nChecks, nIdx := 0, 0

	// --- CheckIPAProof
	if fn := c.P.Fn("ipa", "", "CheckIPAProof"); fn == nil {
		c.Unresolved("F6", "ipa.CheckIPAProof")
	} else {
		c.Saw(core.FnName(fn))
		facts := equalityFacts(fn)
		want := []string{"len(*(&p:proof.L))", "len(*(&p:proof.R))", "*(p:ic.numRounds)"}
		for i, r := range acceptReturns(fn) {
			ok, used := connected(fn, facts, r, want)
			nChecks += 2
			c.Check(ok, "F6", fmt.Sprintf("CheckIPAProof:accept#%d:len(L)=len(R)=numRounds", i), r.Pos(),
				"acceptance is reachable without passing the equal edges of len(proof.L)==len(proof.R) and ==ic.numRounds: a proof of the wrong shape is not rejected before the group equation", used...)
		}
		// guarded indexings of proof.L / proof.R / challenges in the verifier body
		core.AllInstrs(fn, func(i ssa.Instruction) {
			ia, ok := i.(*ssa.IndexAddr)
			if !ok {
				return
			}
			p := core.PathOf(ia.X)
			if p != "*(&p:proof.L)" && p != "*(&p:proof.R)" {
				return
			}
			nIdx++
			ok2, used := connected(fn, facts, ia, want)
			c.Check(ok2, "F6", "CheckIPAProof:index:"+p+"@"+ia.Index.Name(), ia.Pos(), "indexing of "+p+" is not dominated by the shape checks (may panic on a malformed proof)", used...)
		})
		// generateChallenges: all call sites dominated by len(L)==len(R)
		if g := c.P.Fn("ipa", "", "generateChallenges"); g != nil {
			c.Saw(core.FnName(g))
			sites := 0
			for _, top := range c.P.TopFuncs() {
				for _, f := range core.Family(top) {
					for _, ci := range core.CallsIn(f) {
						if core.Callee(ci.Common()) != g {
							continue
						}
						sites++
						if f != fn {
							c.Bad("F6", "generateChallenges:callsite:"+core.FnName(f), ci.Pos(), "generateChallenges indexes proof.R by an index bounded by len(proof.L); it is called from a site without the len(L)==len(R) check")
							continue
						}
						ok, used := connected(fn, facts, ci, want[:2])
						c.Check(ok, "F6", "generateChallenges:callsite:"+core.FnName(f), ci.Pos(), "call of generateChallenges is not dominated by len(proof.L)==len(proof.R)", used...)
					}
				}
			}
			core.AllInstrs(g, func(i ssa.Instruction) {
				if ia, ok := i.(*ssa.IndexAddr); ok {
					p := core.PathOf(ia.X)
					if strings.Contains(p, "proof.L") || strings.Contains(p, "proof.R") {
						nIdx++
						c.Check(sites > 0, "F6", "generateChallenges:index:"+p, ia.Pos(), "no guarded call site", fmt.Sprintf("guarded through its %d call site(s)", sites))
					}
				}
			})
		}
	}

	// --- CheckMultiProof and CreateMultiProof
	for _, spec := range []struct {
		name  string
		lens  []string
		idxOn map[string]bool
	}{
		{"CheckMultiProof", []string{"len(p:Cs)", "len(p:ys)", "len(p:zs)"}, map[string]bool{"p:Cs": true, "p:ys": true, "p:zs": true}},
		{"CreateMultiProof", []string{"len(p:Cs)", "len(p:fs)", "len(p:zs)"}, map[string]bool{"p:Cs": true, "p:fs": true, "p:zs": true}},
	} {
		fn := c.P.Fn("", "", spec.name)
		if fn == nil {
			c.Unresolved("F6", spec.name)
			continue
		}
		c.Saw(core.FnName(fn))
		facts := equalityFacts(fn)
		nz := nonZeroFacts(fn)
		var targets []ssa.Instruction
		var tnames []string
		if spec.name == "CheckMultiProof" {
			for i, r := range acceptReturns(fn) {
				targets = append(targets, r)
				tnames = append(tnames, fmt.Sprintf("accept#%d", i))
			}
		} else {
			for i, r := range core.Returns(fn) {
				if len(r.Results) == 2 && core.IsNilConst(r.Results[1]) {
					targets = append(targets, r)
					tnames = append(tnames, fmt.Sprintf("success#%d", i))
				}
			}
		}
		if len(targets) == 0 {
			c.Und("F6", spec.name+":targets", fn.Pos(), "no accepting/success return found")
		}
		for ti, tgt := range targets {
			ok, used := connected(fn, facts, tgt, spec.lens)
			nChecks += 2
			c.Check(ok, "F6", spec.name+":"+tnames[ti]+":lengths-equal", tgt.Pos(), "success is reachable without the equal edges connecting "+strings.Join(spec.lens, ", "), used...)
			okNZ := false
			for _, f := range nz {
				if contains(spec.lens, f.a) && core.MustPass(fn, f.cut, tgt) {
					okNZ = true
				}
			}
			nChecks++
			c.Check(okNZ, "F6", spec.name+":"+tnames[ti]+":non-empty", tgt.Pos(), "success is reachable with zero openings (no dominating non-zero test on the number of openings)", "non-zero edge of the opening count dominates")
		}
		// indexings of the statement slices: bounded by their own length or guarded by the equalities
		core.AllInstrs(fn, func(i ssa.Instruction) {
			ia, ok := i.(*ssa.IndexAddr)
			if !ok {
				return
			}
			base := core.PathOf(ia.X)
			if !spec.idxOn[base] {
				return
			}
			nIdx++
			key := fmt.Sprintf("%s:index:%s[%s]", spec.name, base, ia.Index.Name())
			bound := upperBoundOf(fn, ia.Index, ia)
			if bound == nil {
				c.Bad("F6", key, ia.Pos(), "index into "+base+" has no dominating upper-bound test")
				return
			}
			bp := core.PathOf(bound)
			if bp == "len("+base+")" {
				c.OK("F6", key, ia.Pos(), "bounded by its own length")
				return
			}
			ok2, used := connected(fn, facts, ia, []string{"len(" + base + ")", bp})
			c.Check(ok2, "F6", key, ia.Pos(), fmt.Sprintf("index into %s is bounded by %s, and no dominating equality connects that with len(%s): a length mismatch panics instead of returning an error", base, bp, base), used...)
		})
		if spec.name == "CreateMultiProof" {
			c.f6AllLengths(fn, &nChecks)
		}
	}
	c.FloorN("F6", 8, nChecks, "dominating shape checks")
	c.FloorN("F6", 10, nIdx, "guarded indexings")
}

// upperBoundOf: N such that `idx < N` holds on an edge dominating `use`.
func upperBoundOf(fn *ssa.Function, idx ssa.Value, use ssa.Instruction) ssa.Value {
	for _, cd := range core.Conds(fn) {
		var n ssa.Value
		succ := -1
		switch {
		case cd.X == idx && cd.Op == token.LSS:
			n, succ = cd.Y, 0
		case cd.X == idx && cd.Op == token.GEQ:
			n, succ = cd.Y, 1
		case cd.Y == idx && cd.Op == token.GTR:
			n, succ = cd.X, 0
		}
		if succ < 0 {
			continue
		}
		cut := core.NewCuts()
		cut.AddEdge(cd.Block, succ)
		if core.MustPass(fn, cut, use) {
			return n
		}
	}
	return nil
}

// f6AllLengths: "for every i: len(fs[i]) == VectorLength" — a loop over fs whose body returns an
// error on the unequal edge, and whose exit dominates the grouping call and the f[zs[i]] indexing.
func (c *Ctx) f6AllLengths(fn *ssa.Function, nChecks *int) {
	vl := int64(256)
	loops := core.Loops(fn)
	var guard *core.Loop
	var gpos token.Pos
	for _, cd := range core.Conds(fn) {
		x, isLen := core.IsLenOf(cd.X)
		k, isK := core.ConstInt(cd.Y)
		if !isLen || !isK || k != vl {
			continue
		}
		if !strings.HasPrefix(core.PathOf(x), "*(p:fs[") {
			continue
		}
		ne := cd.EdgeWhere(token.NEQ)
		if ne < 0 {
			continue
		}
		// the unequal edge must be an error exit: no successful return can be reached through it
		errExit := true
		for _, r := range successReturns(fn) {
			if core.ReachableFromEdge(fn, cd.Block, ne, nil, r) {
				errExit = false
			}
		}
		if !errExit {
			continue
		}
		l := core.InnermostLoop(loops, cd.Block)
		if l == nil {
			continue
		}
		// the loop ranges over fs: its header compares an index with len(fs)
		over := false
		for _, hc := range core.Conds(fn) {
			if hc.Block == l.Header && core.PathOf(hc.Y) == "len(p:fs)" {
				over = true
			}
		}
		if over {
			guard, gpos = l, cd.If.Pos()
		}
	}
	*nChecks++
	if guard == nil {
		c.Bad("F6", "CreateMultiProof:all-polynomials-have-VectorLength", fn.Pos(), "no loop over fs that rejects a polynomial whose length differs from VectorLength: f[zs[i]] and the grouping worker index polynomials up to 255")
		return
	}
	// exit of the guard loop dominates the uses
	exitDom := func(i ssa.Instruction) bool {
		// every feasible path from entry to the use leaves the guard loop through its header (all polynomials seen)
		cut := core.NewCuts()
		for si, s := range guard.Header.Succs {
			if !guard.Blocks[s] {
				cut.AddEdge(guard.Header, si)
			}
		}
		return core.MustPass(fn, cut, i)
	}
	ok := true
	n := 0
	core.AllInstrs(fn, func(i ssa.Instruction) {
		switch x := i.(type) {
		case *ssa.Call:
			if core.IsFunc(core.Callee(x.Common()), "go-ipa", "groupPolynomialsByEvaluationPoint") {
				n++
				if !exitDom(x) {
					ok = false
				}
			}
		case *ssa.IndexAddr:
			if strings.HasPrefix(core.PathOf(x.X), "*(p:fs[") {
				if _, isConst := core.ConstInt(x.Index); !isConst && !guard.Blocks[x.Block()] {
					n++
					if !exitDom(x) {
						ok = false
					}
				}
			}
		}
	})
	c.Check(ok && n > 0, "F6", "CreateMultiProof:all-polynomials-have-VectorLength", gpos, "the per-polynomial length check does not dominate the uses of fs[i][*]", fmt.Sprintf("loop over fs rejects len != %d; its exit dominates %d use(s)", vl, n))
}

// ---------------------------------------------------------------------------
// E1 / E4: Equal guard, by exhaustive evaluation over the 16 outcomes of the four zero tests

func RuleE1(c *Ctx) {
	c.Rule("E1", "banderwagon.(*Element).Equal: for all 16 outcomes of the zero tests on p.X, p.Y, other.X, other.Y the CFG ends in `return false` when (x1=0 and y1=0) or (x2=0 and y2=0), otherwise in the return of the cross-product comparison")
	c.Rule("E4", "the compared products pair one operand's X with the other's Y: {p.X*other.Y} vs {p.Y*other.X}")
	fn := c.P.Fn("banderwagon", "Element", "Equal")
	if fn == nil {
		c.Unresolved("E1", "banderwagon.(*Element).Equal")
		return
	}
	c.Saw(core.FnName(fn))
	vars := []string{"p:p.inner.X", "p:p.inner.Y", "p:other.inner.X", "p:other.inner.Y"}
	idx := map[string]int{}
	for i, v := range vars {
		idx[v] = i
	}
	var finalCall *ssa.Call
	for mask := 0; mask < 16; mask++ {
		zero := func(i int) bool { return mask&(1<<i) != 0 }
		key := fmt.Sprintf("Equal:outcome(x1=0:%v,y1=0:%v,x2=0:%v,y2=0:%v)", zero(0), zero(1), zero(2), zero(3))
		// abstract outcome: each IsZero test of one of the four coordinates is decided by the mask; boolean
		// temporaries, && / || and flipped branches are all followed by the walker
		undec := ""
		abs := func(v ssa.Value) (int64, bool) {
			call, ok := v.(*ssa.Call)
			if !ok || !core.IsMethod(core.Callee(call.Common()), "bls12-381/fr", "Element", "IsZero") {
				return 0, false
			}
			i, known := idx[core.SourcePath(call.Call.Args[0])]
			if !known {
				undec = "zero test on " + core.SourcePath(call.Call.Args[0]) + ", not one of the four coordinates"
				return 0, false
			}
			if zero(i) {
				return 1, true
			}
			return 0, true
		}
		ret, _, why := core.Walk(fn, abs)
		if ret == nil && undec == "" {
			undec = why
		}
		if undec != "" || ret == nil {
			c.Und("E1", key, fn.Pos(), "cannot evaluate the guard: "+undec)
			continue
		}
		mustReject := (zero(0) && zero(1)) || (zero(2) && zero(3))
		bv, isConst := core.ConstBool(ret.Results[0])
		if mustReject {
			c.Check(isConst && !bv, "E1", key, ret.Pos(), "Equal does not return false although one side is the all-zero pseudo-point", "ends in return false")
			continue
		}
		call, ok := ret.Results[0].(*ssa.Call)
		if !ok || !core.IsMethod(core.Callee(call.Common()), "bls12-381/fr", "Element", "Equal") {
			c.Bad("E1", key, ret.Pos(), "for valid (non-all-zero) operands Equal does not return the cross-product comparison")
			continue
		}
		finalCall = call
		c.OK("E1", key, ret.Pos(), "ends in return of lhs.Equal(&rhs)")
	}
	if finalCall != nil {
		// E4: operands of the two products
		prodOf := func(dst ssa.Value) []string {
			var ops []string
			n := 0
			for _, r := range core.Refs(dst) {
				if call, ok := r.(*ssa.Call); ok && core.IsMethod(core.Callee(call.Common()), "bls12-381/fr", "Element", "Mul") && call.Call.Args[0] == dst {
					n++
					ops = []string{core.SourcePath(call.Call.Args[1]), core.SourcePath(call.Call.Args[2])}
					sort.Strings(ops)
				}
			}
			if n != 1 {
				return nil
			}
			return ops
		}
		a, b := prodOf(finalCall.Call.Args[0]), prodOf(finalCall.Call.Args[1])
		want1 := []string{"p:other.inner.Y", "p:p.inner.X"}
		want2 := []string{"p:other.inner.X", "p:p.inner.Y"}
		eq := func(x, y []string) bool { return len(x) == 2 && x[0] == y[0] && x[1] == y[1] }
		c.Check((eq(a, want1) && eq(b, want2)) || (eq(a, want2) && eq(b, want1)), "E4", "Equal:cross-products", finalCall.Pos(),
			fmt.Sprintf("the compared products are %v and %v, not {p.X*other.Y} and {p.Y*other.X}: equality is no longer invariant under rescaling and (-x,-y)", a, b), fmt.Sprint(a), fmt.Sprint(b))
	} else {
		c.Und("E4", "Equal:cross-products", fn.Pos(), "no comparison found")
	}
}

// isLitParamIn: v is a parameter of a function literal inside fd (the start/end a worker is handed): fixed for the
// whole run of the literal, like a parameter of fd itself.
func isLitParamIn(info *types.Info, fd *ast.FuncDecl, v *types.Var) bool {
	found := false
	ast.Inspect(fd.Body, func(n ast.Node) bool {
		lit, ok := n.(*ast.FuncLit)
		if !ok || lit.Type.Params == nil {
			return !found
		}
		for _, f := range lit.Type.Params.List {
			for _, nm := range f.Names {
				if info.Defs[nm] == types.Object(v) {
					found = true
				}
			}
		}
		return !found
	})
	return found
}
