package rules

// Constant folding of closed constructors. NewPrecomputedWeights takes no input and its helpers take a domain index
// in 0..255: integers, slice headers and control flow are folded exactly (constant propagation through the SSA form,
// loops included — their bounds are constants), while scalar-field values are kept as symbolic terms (u(n), inv(t),
// neg(t), sub(a,b), mul{...}, W(n)). What comes out is, for every position of a table, the term stored there —
// whichever way the code is arranged (one loop or two, in place or through temporaries, views of the halves,
// BatchInvert, copy, helpers). Anything outside this small language stops the folding with the instruction named.

import (
	"fmt"
	"go/token"
	"go/types"
	"sort"
	"strings"

	"golang.org/x/tools/go/ssa"

	"verif/checker/core"
)

type fterm struct {
	op   string // "0", "1", "u", "W", "inv", "neg", "sub", "add", "mul", "sq", "dbl", "opaque"
	n    int64
	args []*fterm
	s    string
}

func (t *fterm) String() string {
	if t.s != "" {
		return t.s
	}
	switch t.op {
	case "0", "1":
		t.s = t.op
	case "u", "W":
		t.s = fmt.Sprintf("%s(%d)", t.op, t.n)
	default:
		var xs []string
		for _, a := range t.args {
			xs = append(xs, a.String())
		}
		t.s = t.op + "(" + strings.Join(xs, ",") + ")"
	}
	return t.s
}

var fZero, fOne = &fterm{op: "0"}, &fterm{op: "1"}

func fU(n int64) *fterm {
	switch n {
	case 0:
		return fZero
	case 1:
		return fOne
	}
	return &fterm{op: "u", n: n}
}

func fNeg(a *fterm) *fterm {
	switch a.op {
	case "0":
		return fZero
	case "neg":
		return a.args[0]
	}
	return &fterm{op: "neg", args: []*fterm{a}}
}

func fInv(a *fterm) *fterm {
	switch a.op {
	case "0": // gnark's Inverse maps 0 to 0
		return fZero
	case "1":
		return fOne
	case "neg":
		return fNeg(fInv(a.args[0]))
	}
	return &fterm{op: "inv", args: []*fterm{a}}
}

// fSub: a - b as the sum a + (-b), so that a chain of subtractions is one flat, sorted sum whatever its order.
func fSub(a, b *fterm) *fterm {
	if b.op == "0" {
		return a
	}
	if a.op == "0" {
		return fNeg(b)
	}
	return fComm("add", fZero, a, fNeg(b))
}

func fComm(op string, unit *fterm, a, b *fterm) *fterm {
	var fs []*fterm
	for _, x := range []*fterm{a, b} {
		if x.op == op {
			fs = append(fs, x.args...)
		} else if unit == nil || x.String() != unit.String() {
			fs = append(fs, x)
		}
	}
	if op == "mul" {
		for _, x := range fs {
			if x.op == "0" {
				return fZero
			}
		}
	}
	if op == "add" {
		// small integers add up exactly (far below the modulus)
		var rest []*fterm
		sum, nconst := int64(0), 0
		for _, x := range fs {
			switch {
			case x.op == "1":
				sum, nconst = sum+1, nconst+1
			case x.op == "u" && x.n >= 0 && x.n < 1<<40:
				sum, nconst = sum+x.n, nconst+1
			default:
				rest = append(rest, x)
			}
		}
		if nconst > 1 && sum < 1<<41 {
			fs = append(rest, fU(sum))
		}
	}
	if len(fs) == 0 {
		return unit
	}
	if len(fs) == 1 {
		return fs[0]
	}
	sort.SliceStable(fs, func(i, j int) bool { return fs[i].String() < fs[j].String() })
	return &fterm{op: op, args: fs}
}

// memory
type fobj struct{ slots []any }
type fptr struct {
	o *fobj
	i int
}
type fslice struct {
	o             *fobj
	off, len, cap int
}

// fsym: an address inside data the folder does not model (a package variable of a dependency); loading a field
// element from it yields an opaque constant named by the path.
type fsym struct{ path string }

// ferr: a non-nil error value whose content does not matter.
type ferr struct{}

type fclosure struct {
	fn   *ssa.Function
	bind []any
}
type ftuple []any

type folder struct {
	steps      int
	limit      int
	depth      int
	globals    map[*ssa.Global]any
	symGlobals bool                                                          // package variables of dependencies are opaque constants
	enterDeps  bool                                                          // functions of dependencies may be folded too
	generic    bool                                                          // symbols stand for generic values: neither zero nor one
	opaque     func(call *ssa.Call, f *ssa.Function, args []any) (any, bool) // module functions not to be entered
}

type foldErr struct{ msg string }

func (f *folder) fail(format string, a ...any) { panic(foldErr{fmt.Sprintf(format, a...)}) }

func isFrElemType(t types.Type) bool {
	n, ok := t.(*types.Named)
	if !ok {
		if a, isAlias := t.(*types.Alias); isAlias {
			return isFrElemType(types.Unalias(a))
		}
		return false
	}
	if n.Obj().Name() != "Element" || n.Obj().Pkg() == nil {
		return false
	}
	if strings.HasSuffix(n.Obj().Pkg().Path(), "bandersnatch/fr") {
		return true
	}
	// the dependency's field types (an array of 64-bit limbs named Element)
	if a, isA := n.Underlying().(*types.Array); isA {
		if b, isB := a.Elem().Underlying().(*types.Basic); isB && b.Kind() == types.Uint64 {
			return true
		}
	}
	return false
}

func (f *folder) zero(t types.Type) any {
	if isFrElemType(t) {
		return fZero
	}
	switch u := t.Underlying().(type) {
	case *types.Basic:
		switch {
		case u.Info()&types.IsBoolean != 0:
			return false
		case u.Info()&types.IsInteger != 0:
			return int64(0)
		}
	case *types.Slice:
		return fslice{}
	case *types.Pointer:
		return fptr{}
	}
	return nil
}

// slotsOf: how many slots an object of type t takes (arrays of field elements and structs are flattened one level).
func (f *folder) newObj(t types.Type) *fobj {
	if isFrElemType(t) {
		return &fobj{slots: []any{fZero}}
	}
	switch u := t.Underlying().(type) {
	case *types.Array:
		o := &fobj{slots: make([]any, u.Len())}
		for i := range o.slots {
			o.slots[i] = f.zero(u.Elem())
		}
		return o
	case *types.Struct:
		o := &fobj{slots: make([]any, u.NumFields())}
		for i := range o.slots {
			o.slots[i] = f.zero(u.Field(i).Type())
		}
		return o
	}
	return &fobj{slots: []any{f.zero(t)}}
}

// Fold evaluates fn on the given arguments.
func (f *folder) Fold(fn *ssa.Function, args []any) (res any, err error) {
	defer func() {
		if r := recover(); r != nil {
			if fe, ok := r.(foldErr); ok {
				err = fmt.Errorf("%s", fe.msg)
				return
			}
			panic(r)
		}
	}()
	return f.call(fn, args, nil), nil
}

func (f *folder) call(fn *ssa.Function, args []any, bind []any) any {
	if len(fn.Blocks) == 0 {
		f.fail("call of %s, which has no body", fn.String())
	}
	f.depth++
	defer func() { f.depth-- }()
	if f.depth > 12 {
		f.fail("call depth exceeded at %s", fn.String())
	}
	env := map[ssa.Value]any{}
	for i, p := range fn.Params {
		if i < len(args) {
			env[p] = args[i]
		}
	}
	for i, fv := range fn.FreeVars {
		if i < len(bind) {
			env[fv] = bind[i]
		}
	}
	get := func(v ssa.Value) any {
		switch x := v.(type) {
		case *ssa.Const:
			if x.Value == nil {
				return f.zero(x.Type())
			}
			if k, ok := core.ConstInt(x); ok {
				if b, isB := x.Type().Underlying().(*types.Basic); isB && b.Info()&types.IsBoolean != 0 {
					return k != 0
				}
				return k
			}
			if b, ok := core.ConstBool(x); ok {
				return b
			}
			return nil
		case *ssa.Function:
			return fclosure{fn: x}
		case *ssa.Global:
			if f.symGlobals && (x.Pkg == nil || !strings.HasPrefix(x.Pkg.Pkg.Path(), core.Mod)) {
				return fsym{x.Name()}
			}
			return f.global(x)
		}
		r, ok := env[v]
		if !ok {
			f.fail("value %s of %s used before it was computed", v.Name(), fn.Name())
		}
		return r
	}
	asInt := func(v any, what ssa.Instruction) int64 {
		k, ok := v.(int64)
		if !ok {
			f.fail("%s: not an integer (%T)", what, v)
		}
		return k
	}

	b := fn.Blocks[0]
	for {
		var next *ssa.BasicBlock
		for _, ins := range b.Instrs {
			f.steps++
			if f.steps > f.limit {
				f.fail("step limit reached in %s", fn.String())
			}
			switch x := ins.(type) {
			case *ssa.DebugRef:
			case *ssa.Phi:
				// assigned on the way into the block (all phis of a block read their operands in parallel)
			case *ssa.Alloc:
				env[x] = fptr{f.newObj(x.Type().Underlying().(*types.Pointer).Elem()), 0}
			case *ssa.MakeSlice:
				n, c := int(asInt(get(x.Len), x)), int(asInt(get(x.Cap), x))
				o := &fobj{slots: make([]any, c)}
				et := x.Type().Underlying().(*types.Slice).Elem()
				for i := range o.slots {
					o.slots[i] = f.zero(et)
				}
				env[x] = fslice{o, 0, n, c}
			case *ssa.Store:
				p, ok := get(x.Addr).(fptr)
				if !ok || p.o == nil {
					f.fail("%s: store through something that is not a tracked address", x)
				}
				v := get(x.Val)
				if arr, isArr := x.Val.Type().Underlying().(*types.Array); isArr && !isFrElemType(x.Val.Type()) {
					src, isObj := v.(*fobj)
					if !isObj || int64(len(src.slots)) != arr.Len() {
						f.fail("%s: array store of an untracked value", x)
					}
					copy(p.o.slots[p.i:p.i+len(src.slots)], src.slots)
					break
				}
				if st, isSt := x.Val.Type().Underlying().(*types.Struct); isSt {
					src, isObj := v.(*fobj)
					if !isObj || len(src.slots) != st.NumFields() {
						f.fail("%s: struct store of an untracked value", x)
					}
					copy(p.o.slots[p.i:p.i+len(src.slots)], src.slots)
					break
				}
				p.o.slots[p.i] = v
			case *ssa.UnOp:
				switch x.Op {
				case token.MUL:
					if sy, isSym := get(x.X).(fsym); isSym {
						if isFrElemType(x.Type()) {
							env[x] = &fterm{op: "sym", s: sy.path}
							break
						}
						f.fail("%s: load of something that is not a field element from %s", x, sy.path)
					}
					p, ok := get(x.X).(fptr)
					if !ok || p.o == nil {
						f.fail("%s: load through something that is not a tracked address", x)
					}
					t := x.Type()
					if arr, isArr := t.Underlying().(*types.Array); isArr && !isFrElemType(t) {
						o := &fobj{slots: make([]any, arr.Len())}
						copy(o.slots, p.o.slots[p.i:p.i+int(arr.Len())])
						env[x] = o
						break
					}
					if st, isSt := t.Underlying().(*types.Struct); isSt {
						o := &fobj{slots: make([]any, st.NumFields())}
						copy(o.slots, p.o.slots[p.i:p.i+st.NumFields()])
						env[x] = o
						break
					}
					env[x] = p.o.slots[p.i]
				case token.NOT:
					bv, ok := get(x.X).(bool)
					if !ok {
						f.fail("%s: not a boolean", x)
					}
					env[x] = !bv
				case token.SUB:
					env[x] = -asInt(get(x.X), x)
				default:
					f.fail("%s: unsupported unary operation", x)
				}
			case *ssa.BinOp:
				l, r := get(x.X), get(x.Y)
				if lb, ok := l.(bool); ok {
					rb, _ := r.(bool)
					switch x.Op {
					case token.EQL:
						env[x] = lb == rb
					case token.NEQ:
						env[x] = lb != rb
					default:
						f.fail("%s: unsupported boolean operation", x)
					}
					break
				}
				a, c := asInt(l, x), asInt(r, x)
				switch x.Op {
				case token.ADD:
					env[x] = a + c
				case token.SUB:
					env[x] = a - c
				case token.MUL:
					env[x] = a * c
				case token.QUO:
					if c == 0 {
						f.fail("%s: division by zero", x)
					}
					env[x] = a / c
				case token.REM:
					if c == 0 {
						f.fail("%s: division by zero", x)
					}
					env[x] = a % c
				case token.SHL:
					env[x] = a << uint(c)
				case token.SHR:
					env[x] = a >> uint(c)
				case token.AND:
					env[x] = a & c
				case token.OR:
					env[x] = a | c
				case token.XOR:
					env[x] = a ^ c
				case token.AND_NOT:
					env[x] = a &^ c
				case token.EQL:
					env[x] = a == c
				case token.NEQ:
					env[x] = a != c
				case token.LSS:
					env[x] = a < c
				case token.LEQ:
					env[x] = a <= c
				case token.GTR:
					env[x] = a > c
				case token.GEQ:
					env[x] = a >= c
				default:
					f.fail("%s: unsupported operation", x)
				}
				// integer results live in their type's width: narrower types wrap exactly as the machine does; a
				// 64-bit unsigned value beyond the folder's own range stops the fold
				if bt, isB := x.Type().Underlying().(*types.Basic); isB && bt.Info()&types.IsInteger != 0 {
					if k, isK := env[x].(int64); isK {
						w, ok := wrapInt(k, bt)
						if !ok {
							f.fail("%s: 64-bit unsigned arithmetic wraps around", x)
						}
						env[x] = w
					}
				}
			case *ssa.Convert:
				v := get(x.X)
				if k, ok := v.(int64); ok {
					if bt, isB := x.Type().Underlying().(*types.Basic); isB && bt.Info()&types.IsInteger != 0 {
						// a conversion to a narrower type keeps the low bits, as the machine does
						w, ok := wrapInt(k, bt)
						if !ok {
							f.fail("%s: conversion of %d to a 64-bit unsigned type", x, k)
						}
						env[x] = w
						break
					}
				}
				f.fail("%s: unsupported conversion", x)
			case *ssa.ChangeType:
				env[x] = get(x.X)
			case *ssa.MakeInterface:
				env[x] = get(x.X)
			case *ssa.ChangeInterface:
				env[x] = get(x.X)
			case *ssa.IndexAddr:
				if sy, isSym := get(x.X).(fsym); isSym {
					env[x] = fsym{fmt.Sprintf("%s[%d]", sy.path, asInt(get(x.Index), x))}
					break
				}
				i := int(asInt(get(x.Index), x))
				switch base := get(x.X).(type) {
				case fslice:
					if i < 0 || i >= base.len {
						f.fail("%s: index %d out of range [0,%d)", x, i, base.len)
					}
					env[x] = fptr{base.o, base.off + i}
				case fptr:
					if base.o == nil || i < 0 || base.i+i >= len(base.o.slots) {
						f.fail("%s: index %d out of range", x, i)
					}
					env[x] = fptr{base.o, base.i + i}
				default:
					f.fail("%s: indexing something untracked", x)
				}
			case *ssa.FieldAddr:
				if sy, isSym := get(x.X).(fsym); isSym {
					env[x] = fsym{fmt.Sprintf("%s.%d", sy.path, x.Field)}
					break
				}
				base, ok := get(x.X).(fptr)
				if !ok || base.o == nil {
					f.fail("%s: field of something untracked", x)
				}
				if isFrElemType(x.X.Type().Underlying().(*types.Pointer).Elem()) {
					f.fail("%s: limb access to a field element", x)
				}
				env[x] = fptr{base.o, base.i + x.Field}
			case *ssa.Slice:
				var o *fobj
				off, ln, cp := 0, 0, 0
				switch base := get(x.X).(type) {
				case fslice:
					o, off, ln, cp = base.o, base.off, base.len, base.cap
				case fptr:
					if base.o == nil {
						f.fail("%s: slicing nil", x)
					}
					o, off, ln, cp = base.o, base.i, len(base.o.slots)-base.i, len(base.o.slots)-base.i
				default:
					f.fail("%s: slicing something untracked", x)
				}
				lo, hi := 0, ln
				if x.Low != nil {
					lo = int(asInt(get(x.Low), x))
				}
				if x.High != nil {
					hi = int(asInt(get(x.High), x))
				}
				if lo < 0 || hi < lo || hi > cp {
					f.fail("%s: slice bounds [%d:%d] out of range (cap %d)", x, lo, hi, cp)
				}
				env[x] = fslice{o, off + lo, hi - lo, cp - lo}
			case *ssa.MakeClosure:
				var bd []any
				for _, bv := range x.Bindings {
					bd = append(bd, get(bv))
				}
				env[x] = fclosure{x.Fn.(*ssa.Function), bd}
			case *ssa.Extract:
				tp, ok := get(x.Tuple).(ftuple)
				if !ok || x.Index >= len(tp) {
					f.fail("%s: extract from something that is not a tuple", x)
				}
				env[x] = tp[x.Index]
			case *ssa.Call:
				var cargs []any
				for _, a := range x.Call.Args {
					cargs = append(cargs, get(a))
				}
				env[x] = f.doCall(x, cargs, get)
			case *ssa.If:
				c, ok := get(x.Cond).(bool)
				if !ok {
					f.fail("branch on a value that is not decided (%s)", x.Cond)
				}
				if c {
					next = b.Succs[0]
				} else {
					next = b.Succs[1]
				}
			case *ssa.Jump:
				next = b.Succs[0]
			case *ssa.Return:
				switch len(x.Results) {
				case 0:
					return nil
				case 1:
					return get(x.Results[0])
				}
				var tp ftuple
				for _, r := range x.Results {
					tp = append(tp, get(r))
				}
				return tp
			case *ssa.Panic:
				f.fail("the code reaches a panic in %s", fn.Name())
			default:
				f.fail("unsupported instruction %T (%s)", ins, ins)
			}
		}
		if next == nil {
			f.fail("fell off block %d of %s", b.Index, fn.String())
		}
		// parallel phi semantics: evaluate all phis of next against the current env before assigning
		var phis []*ssa.Phi
		var vals []any
		for _, ins := range next.Instrs {
			phi, ok := ins.(*ssa.Phi)
			if !ok {
				break
			}
			idx := -1
			for i, p := range next.Preds {
				if p == b {
					idx = i
				}
			}
			if idx < 0 {
				f.fail("phi without predecessor")
			}
			phis = append(phis, phi)
			vals = append(vals, get(phi.Edges[idx]))
		}
		b = next
		for i, phi := range phis {
			env[phi] = vals[i]
		}
	}
}

func (f *folder) doCall(x *ssa.Call, args []any, get func(ssa.Value) any) any {
	cc := x.Common()
	if cc.IsInvoke() {
		f.fail("%s: interface call", x)
	}
	if bi, ok := cc.Value.(*ssa.Builtin); ok {
		switch bi.Name() {
		case "len", "cap":
			s, ok := args[0].(fslice)
			if !ok {
				f.fail("%s: len of something untracked", x)
			}
			if bi.Name() == "len" {
				return int64(s.len)
			}
			return int64(s.cap)
		case "copy":
			d, ok1 := args[0].(fslice)
			s, ok2 := args[1].(fslice)
			if !ok1 || !ok2 {
				f.fail("%s: copy of something untracked", x)
			}
			n := d.len
			if s.len < n {
				n = s.len
			}
			tmp := make([]any, n)
			copy(tmp, s.o.slots[s.off:s.off+n])
			copy(d.o.slots[d.off:d.off+n], tmp)
			return int64(n)
		}
		f.fail("%s: unsupported builtin", x)
	}
	var callee *ssa.Function
	var bind []any
	if sc := cc.StaticCallee(); sc != nil {
		callee = sc
		if mc, isMC := cc.Value.(*ssa.MakeClosure); isMC {
			for _, bv := range mc.Bindings {
				bind = append(bind, get(bv))
			}
		}
	} else if cl, ok := get(cc.Value).(fclosure); ok {
		callee, bind = cl.fn, cl.bind
	}
	if callee == nil {
		f.fail("%s: cannot resolve the callee", x)
	}
	// scalar-field operations are kept symbolic
	isFieldMethod := core.IsMethod(callee, "bandersnatch/fr", "Element", callee.Name())
	if !isFieldMethod && callee.Signature.Recv() != nil {
		rt := callee.Signature.Recv().Type()
		if pt, isP := rt.(*types.Pointer); isP {
			rt = pt.Elem()
		}
		isFieldMethod = isFrElemType(rt)
	}
	if isFieldMethod && len(args) >= 1 {
		recv, ok := args[0].(fptr)
		if !ok || recv.o == nil {
			f.fail("%s: receiver is not a tracked address", x)
		}
		arg := func(i int) *fterm {
			if sy, isSym := args[i].(fsym); isSym {
				return &fterm{op: "sym", s: sy.path}
			}
			p, ok := args[i].(fptr)
			if !ok || p.o == nil {
				f.fail("%s: operand %d is not a tracked address", x, i)
			}
			t, ok := p.o.slots[p.i].(*fterm)
			if !ok {
				f.fail("%s: operand %d does not hold a field element", x, i)
			}
			return t
		}
		// predicates: decided for 0 and 1; for any other term only under the generic-point reading (a symbol
		// stands for a value that is neither)
		switch callee.Name() {
		case "IsZero", "IsOne":
			t, isT := recv.o.slots[recv.i].(*fterm)
			if !isT {
				f.fail("%s: receiver does not hold a field element", x)
			}
			if t.op == "0" || t.op == "1" {
				return (callee.Name() == "IsZero") == (t.op == "0")
			}
			if f.generic {
				return false
			}
			f.fail("%s: %s of a symbolic value", x, callee.Name())
		}
		var r *fterm
		switch callee.Name() {
		case "SetZero":
			r = fZero
		case "SetOne":
			r = fOne
		case "SetUint64":
			k, ok := args[1].(int64)
			if !ok {
				f.fail("%s: argument is not an integer", x)
			}
			r = fU(k)
		case "Set":
			r = arg(1)
		case "SetInt64":
			k, ok := args[1].(int64)
			if !ok || k < 0 {
				f.fail("%s: argument is not a non-negative integer", x)
			}
			r = fU(k)
		case "Div":
			r = fComm("mul", fOne, arg(1), fInv(arg(2)))
		case "Inverse":
			r = fInv(arg(1))
		case "Neg":
			r = fNeg(arg(1))
		case "Sub":
			r = fSub(arg(1), arg(2))
		case "Add":
			r = fComm("add", fZero, arg(1), arg(2))
		case "Mul":
			r = fComm("mul", fOne, arg(1), arg(2))
		case "Square":
			a := arg(1)
			r = fComm("mul", fOne, a, a)
		case "Double":
			a := arg(1)
			r = fComm("add", fZero, a, a)
		default:
			f.fail("%s: field operation %s is outside the folded language", x, callee.Name())
		}
		recv.o.slots[recv.i] = r
		return recv
	}
	switch {
	case core.IsFunc(callee, "bandersnatch/fr", "Zero") && len(args) == 0:
		return fZero
	case core.IsFunc(callee, "bandersnatch/fr", "One") && len(args) == 0, core.IsFunc(callee, "bandersnatch/fp", "One") && len(args) == 0:
		return fOne
	case core.IsFunc(callee, "bandersnatch/fp", "Zero") && len(args) == 0:
		return fZero
	case core.IsFunc(callee, "bandersnatch/fr", "NewElement") && len(args) == 1:
		if k, ok := args[0].(int64); ok {
			return fU(k)
		}
	case core.IsFunc(callee, "bandersnatch/fr", "BatchInvert") && len(args) == 1:
		s, ok := args[0].(fslice)
		if !ok {
			f.fail("%s: BatchInvert of something untracked", x)
		}
		o := &fobj{slots: make([]any, s.len)}
		for i := 0; i < s.len; i++ {
			t, isT := s.o.slots[s.off+i].(*fterm)
			if !isT {
				f.fail("%s: BatchInvert over something that is not field elements", x)
			}
			o.slots[i] = fInv(t)
		}
		return fslice{o, 0, s.len, s.len}
	}
	if f.opaque != nil {
		if r, ok := f.opaque(x, callee, args); ok {
			return r
		}
	}
	if callee.Pkg != nil {
		switch callee.Pkg.Pkg.Path() + "." + callee.Name() {
		case "errors.New", "fmt.Errorf":
			return ferr{} // some non-nil error
		}
	}
	if f.symGlobals && core.IsMethod(callee, "sync", "Once", "Do") {
		return nil // one-time initialisation of the dependency's constants, which are opaque here
	}
	if !core.InModule(callee) && !f.enterDeps {
		f.fail("%s: call of %s, outside the module", x, callee.String())
	}
	return f.call(callee, args, bind)
}

// global: the address of a package variable of the module whose value the package initialiser computes with one
// assignment from constants and calls of foldable functions (a precomputed table). Whether anything else writes it
// later is the write-effect analysis' business (W2: globals are written by initialisers only).
func (f *folder) global(g *ssa.Global) any {
	if v, ok := f.globals[g]; ok {
		return v
	}
	if g.Pkg == nil || !strings.HasPrefix(g.Pkg.Pkg.Path(), core.Mod) {
		f.fail("use of package variable %s outside the module", g.Name())
	}
	initFn := g.Pkg.Func("init")
	if initFn == nil {
		f.fail("package variable %s: no initialiser found", g.Name())
	}
	var st *ssa.Store
	n := 0
	core.AllInstrs(initFn, func(in ssa.Instruction) {
		if s, ok := in.(*ssa.Store); ok && s.Addr == ssa.Value(g) {
			st = s
			n++
		}
	})
	if n != 1 {
		f.fail("package variable %s is not initialised by exactly one assignment (%d found)", g.Name(), n)
	}
	var ev func(v ssa.Value, d int) any
	ev = func(v ssa.Value, d int) any {
		if d > 6 {
			f.fail("initialiser of %s is too deep", g.Name())
		}
		switch x := v.(type) {
		case *ssa.Const:
			if k, ok := core.ConstInt(x); ok {
				return k
			}
		case *ssa.Convert:
			return ev(x.X, d+1)
		case *ssa.Call:
			callee := x.Call.StaticCallee()
			if callee == nil || !core.InModule(callee) {
				break
			}
			var args []any
			for _, a := range x.Call.Args {
				args = append(args, ev(a, d+1))
			}
			return f.call(callee, args, nil)
		}
		f.fail("initialiser of package variable %s is not a constant or a call of a module function", g.Name())
		return nil
	}
	val := ev(st.Val, 0)
	var p fptr
	if o, isObj := val.(*fobj); isObj {
		p = fptr{o, 0}
	} else {
		p = fptr{&fobj{slots: []any{val}}, 0}
	}
	if f.globals == nil {
		f.globals = map[*ssa.Global]any{}
	}
	f.globals[g] = p
	return p
}

// wrapInt: k as a value of the integer type bt (two's complement, the type's width on amd64). ok=false for a negative
// value of a 64-bit unsigned type, which the folder's int64 cannot represent.
func wrapInt(k int64, bt *types.Basic) (int64, bool) {
	sz := types.SizesFor("gc", "amd64").Sizeof(bt)
	unsigned := bt.Info()&types.IsUnsigned != 0
	if sz >= 8 {
		if unsigned && k < 0 {
			return 0, false
		}
		return k, true
	}
	bits := uint(sz) * 8
	mask := int64(1)<<bits - 1
	k &= mask
	if !unsigned && k>>(bits-1) != 0 {
		k -= int64(1) << bits
	}
	return k, true
}
