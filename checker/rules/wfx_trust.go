package rules

// Trust table: write contracts of functions whose bodies are not analysed
// (standard library, x/sync, and — in the quick tier — gnark-crypto), and of the
// module's assembly-backed leaves. One line of reason per entry.

import (
	"go/types"
	"strings"

	"golang.org/x/tools/go/ssa"

	"verif/checker/core"
)

func ts(w []int, ret []int, fresh bool) *wsummary {
	s := &wsummary{WS: map[int]bool{}, WD: map[int]bool{}, W: map[int]bool{}, G: map[*ssa.Global]bool{}, Ret: map[int]bool{}, Esc: map[[2]int]bool{}, Causes: map[string][]wcause{}, Fresh: fresh}
	for _, i := range w {
		s.W[i] = true
		s.WS[i] = true
		s.WD[i] = true
	}
	for _, i := range ret {
		s.Ret[i] = true
	}
	return s
}

// asmLeaf: module functions implemented in assembly (no SSA body). Verified
// against the .s text by asmx rule A2 (stores only through listed parameters).
var asmLeaf = map[string][]int{
	"add": {0}, "sub": {0}, "neg": {0}, "double": {0}, "mul": {0}, "fromMont": {0}, "reduce": {0},
	"MulBy3": {0}, "MulBy5": {0}, "MulBy13": {0}, "Butterfly": {0, 1},
}

var bigObservers = map[string]bool{"Cmp": true, "Bit": true, "BitLen": true, "Sign": true, "Bits": true, "String": true, "Uint64": true,
	"Int64": true, "IsUint64": true, "IsInt64": true, "CmpAbs": true, "Text": true, "TrailingZeroBits": true, "Bytes": true, "Format": true}

var gnarkObservers = map[string]bool{"Equal": true, "IsZero": true, "IsOne": true, "Bytes": true, "LexicographicallyLargest": true,
	"Legendre": true, "String": true, "IsOnCurve": true, "Cmp": true, "IsUint64": true, "Marshal": true, "Bits": true, "Text": true,
	"Uint64": true, "FitsOnOneWord": true, "NotEqual": true, "BitLen": true, "Bit": true, "ToBigIntRegular": true, "Hash": true, "IsInSubGroup": true}

func trustSummary(p *core.Prog, fn *ssa.Function) *wsummary {
	if fn.Origin() != nil {
		fn = fn.Origin()
	}
	name := fn.String()
	pkg := ""
	if fn.Pkg != nil {
		pkg = fn.Pkg.Pkg.Path()
	}
	if core.InModule(fn) && len(fn.Blocks) == 0 {
		if w, ok := asmLeaf[fn.Name()]; ok {
			return ts(w, nil, false)
		}
		return nil
	}
	recvPtr := false
	if r := fn.Signature.Recv(); r != nil {
		_, recvPtr = r.Type().(*types.Pointer)
	}
	m := fn.Name()
	switch {
	case strings.HasPrefix(name, "(*math/big.Int)."):
		if bigObservers[m] {
			return ts(nil, nil, true)
		}
		if m == "FillBytes" {
			return ts([]int{1}, []int{1}, false)
		}
		return ts([]int{0}, []int{0}, false) // mutators write the receiver, operands are read-only
	case pkg == "math/big":
		return ts(nil, nil, true)
	case strings.HasPrefix(name, "(*bytes.Buffer)."):
		switch m {
		case "Len", "Cap", "String", "Available":
			return ts(nil, nil, false)
		case "Bytes":
			return ts(nil, []int{0}, false)
		case "Read", "ReadByte":
			return ts([]int{0, 1}, nil, false)
		}
		return ts([]int{0}, nil, false) // Write/WriteString/Reset...: receiver only, argument copied
	case name == "bytes.NewBuffer", name == "bytes.NewReader":
		return ts(nil, []int{0}, true)
	case pkg == "bytes":
		return ts(nil, nil, true) // Equal, Compare...: read-only
	case name == "encoding/binary.Write":
		return ts([]int{0}, nil, true) // writes to the writer; data is only read
	case name == "encoding/binary.Read":
		return ts([]int{0, 2}, nil, true)
	case pkg == "encoding/binary":
		if strings.HasPrefix(m, "PutUint") || strings.HasPrefix(m, "AppendUint") {
			return ts([]int{1}, []int{1}, false) // (order).PutUintNN(b, v) writes b
		}
		return ts(nil, nil, false)
	case name == "io.ReadAtLeast", name == "io.ReadFull":
		return ts([]int{0, 1}, nil, true)
	case name == "io.WriteString":
		return ts([]int{0}, nil, true) // writes the writer, reads the string
	case pkg == "fmt", pkg == "errors", pkg == "strconv", pkg == "encoding/hex", pkg == "reflect", pkg == "strings", pkg == "unicode/utf8":
		return ts(nil, nil, true) // formatting / construction: arguments read-only
	case pkg == "sync/atomic":
		// atomics are data, not synchronisation state: a Store/Swap/Add/CompareAndSwap/And/Or writes the word or the
		// boxed value it is applied to (method receiver, or the address passed first), and what was stored comes back
		// out of Load/Swap
		if strings.HasPrefix(m, "Load") {
			return ts(nil, []int{0}, true)
		}
		out := ts([]int{0}, []int{0}, true)
		if len(fn.Params) > 1 {
			out.Esc[[2]int{0, len(fn.Params) - 1}] = true
		}
		return out
	case name == "(*sync.Map).Load", name == "(*sync.Map).Range":
		return ts(nil, []int{0}, true)
	case strings.HasPrefix(name, "(*sync.Map)."):
		out := ts([]int{0}, []int{0}, true) // Store, LoadOrStore, Swap, Delete, CompareAndSwap…: the map is data
		for j := 1; j < len(fn.Params); j++ {
			out.Esc[[2]int{0, j}] = true
		}
		return out
	case pkg == "sync":
		return ts(nil, nil, true) // Mutex, RWMutex, WaitGroup, Once, Pool: synchronisation state, not data (pool discipline: rule G6)
	case pkg == "golang.org/x/sync/errgroup", pkg == "context":
		return ts(nil, nil, true)
	case pkg == "runtime", pkg == "math", pkg == "math/bits", pkg == "golang.org/x/sys/cpu", pkg == "os", pkg == "time":
		return ts(nil, nil, true)
	case pkg == "crypto/sha256", pkg == "hash", pkg == "crypto/rand", pkg == "math/rand", pkg == "crypto/subtle":
		if m == "Read" {
			return ts([]int{0}, nil, false)
		}
		return ts(nil, nil, true)
	case pkg == "testing", strings.HasPrefix(pkg, "github.com/leanovate/gopter"):
		return ts(nil, nil, true)
	case strings.HasPrefix(pkg, "github.com/consensys/gnark-crypto/"):
		// gnark-crypto convention (recomputed from its SSA in the thorough tier):
		// pointer-receiver mutators write the receiver and return it, operands are read-only.
		if fn.Signature.Recv() != nil {
			if recvPtr {
				if gnarkObservers[m] {
					return ts(nil, nil, true)
				}
				if m == "BigInt" || m == "ToBigIntRegular" {
					return ts([]int{1}, []int{1}, false)
				}
				if m == "SetBytesCanonical" {
					return ts([]int{0}, nil, true)
				}
				return ts([]int{0}, []int{0}, false)
			}
			if m == "PutElement" {
				return ts([]int{1}, nil, false)
			}
			return ts(nil, nil, true)
		}
		switch m {
		case "MulBy3", "MulBy5", "MulBy13":
			return ts([]int{0}, nil, false)
		case "Butterfly":
			return ts([]int{0, 1}, nil, false)
		}
		return ts(nil, nil, true) // One, BatchInvert, GetEdwardsCurve, Modulus: fresh results
	}
	return nil
}

// trustInvoke: contracts of interface methods, by method name (the interfaces met
// are io.Reader, io.Writer, hash.Hash, error, fmt.Stringer, reflect.Type).
func trustInvoke(m *types.Func) *wsummary {
	switch m.Name() {
	case "Write", "WriteString", "WriteByte":
		return ts([]int{0}, nil, false) // writer state changes; p is not modified (io.Writer contract)
	case "Read":
		return ts([]int{0, 1}, nil, false)
	case "Sum":
		return ts([]int{1}, []int{1}, true) // appends to b, does not change the hash state
	case "Reset":
		return ts([]int{0}, nil, false)
	case "Error", "String", "Size", "BlockSize", "Len", "Name", "Kind":
		return ts(nil, nil, true)
	}
	return nil
}
