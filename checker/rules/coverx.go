package rules

import (
	"fmt"
	"go/token"
	"sort"
	"strings"

	"golang.org/x/tools/go/ssa"

	"verif/checker/core"
)

// ---------------------------------------------------------------------------
// S2 — parallel.Execute hands out the ranges of a telescoping partition of [0, n)
//
// One iteration of the task loop is executed symbolically on every path through its body; start, end and the next
// values of the loop-carried variables become polynomials over the loop variable i, the carried variables and the
// loop-invariant values. The clauses are polynomial identities:
//
//	first     start(i := 0, carried := initial values) = 0
//	abut      end on path p  =  start(i := i+1, carried := their values after path p)      for every p (and next path)
//	lengths   end - start is `base` on the short paths and `base + 1` on the long ones, base loop-invariant
//	schedule  the long paths are taken exactly K = clamp(E, 0, T) times: `if e > 0 { …; e-- }` on a carried counter
//	          starting at E, or `if i < E`
//	total     T*base + E = n  and  0 <= E <= T, the latter because E is n - T*(n/T) (a remainder of the division that
//	          defines base) or identically 0 on every way into the loop
//
// first + abut give contiguous, disjoint ranges starting at 0 (non-emptiness is I1's); lengths + schedule + total give
// that the last range ends at n. Assumes n >= 0 and a worker count >= 1, as the property does.

type s2Path struct {
	blocks []*ssa.BasicBlock
	conds  []s2Cond
	start  poly
	end    poly
	next   map[*ssa.Phi]poly
	ok     bool
	why    string
}

type s2Cond struct {
	cond  ssa.Value
	taken bool
}

func RuleS2(c *Ctx) {
	c.Rule("S2", "range partition of parallel.Execute, by symbolic execution of one iteration of the task loop on every path (polynomial identities over the loop variable, the carried variables and loop-invariant values): the first range starts at 0; the end of every range is the start of the next one; every range has length base or base+1; the longer ranges are handed out exactly E times (a counter counted down from E while positive, or `i < E`); T*base + E = n, with E the remainder n - T*(n/T) of the division defining base (hence 0 <= E < T) or identically 0")
	fn := c.P.Fn("common/parallel", "", "Execute")
	if fn == nil {
		c.Unresolved("S2", "common/parallel.Execute")
		return
	}
	c.Saw(core.FnName(fn))
	und := func(key, msg string) { c.Und("S2", "Execute:"+key, fn.Pos(), msg) }
	var gos []*ssa.Go
	core.AllInstrs(fn, func(i ssa.Instruction) {
		if g, ok := i.(*ssa.Go); ok {
			gos = append(gos, g)
		}
	})
	if len(gos) != 1 {
		und("shape", fmt.Sprintf("expected one go statement in Execute, found %d", len(gos)))
		return
	}
	g := gos[0]
	cl := loopOf(countedLoops(fn), g.Block())
	if cl == nil {
		und("shape", "the spawn is not inside a counted loop")
		return
	}
	if z, isZ := core.ConstInt(cl.init); !isZ || z != 0 || cl.step != 1 || cl.op != token.LSS {
		und("shape", "the task loop is not `for i := 0; i < nbTasks; i++`")
		return
	}
	iPhi, isPhi := cl.phi.(*ssa.Phi)
	if !isPhi || iPhi.Block() != cl.loop.Header {
		und("shape", "the task loop's variable is not a header phi")
		return
	}
	tgt, _ := closureOf(g.Call.Value)
	if tgt == nil {
		if f, isF := g.Call.Value.(*ssa.Function); isF {
			tgt = f
		}
	}
	if tgt == nil {
		und("shape", "the spawned function is not a literal")
		return
	}
	// the work call and where its two arguments come from
	var work ssa.CallInstruction
	for _, ci := range core.CallsIn(tgt) {
		cc := ci.Common()
		if !cc.IsInvoke() && core.Callee(cc) == nil && isFuncParamValue(cc.Value) && len(cc.Args) == 2 {
			if work != nil {
				und("shape", "more than one call of the work function in the spawned literal")
				return
			}
			work = ci
		}
	}
	if work == nil {
		und("shape", "no call of the work function in the spawned literal")
		return
	}
	// an argument is a value of the parent at the spawn, or the content of a captured cell at the spawn
	type src struct {
		val  ssa.Value
		cell *ssa.Alloc
	}
	var srcs [2]src
	for k, a := range work.Common().Args {
		switch x := a.(type) {
		case *ssa.Parameter:
			for pi, q := range tgt.Params {
				if q == x && pi < len(g.Call.Args) {
					srcs[k].val = g.Call.Args[pi]
				}
			}
		case *ssa.UnOp:
			if fv, isFV := x.X.(*ssa.FreeVar); isFV && x.Op == token.MUL {
				if cell, isCell := core.FreeVarBinding(fv).(*ssa.Alloc); isCell && cell.Parent() == fn {
					srcs[k].cell = cell
				}
			}
		}
		if srcs[k].val == nil && srcs[k].cell == nil {
			und("shape", "cannot tell where the range handed to work comes from")
			return
		}
	}

	pc := &polyCtx{}
	header := cl.loop.Header
	var headerPhis []*ssa.Phi
	for _, in := range header.Instrs {
		if p, ok := in.(*ssa.Phi); ok {
			headerPhis = append(headerPhis, p)
		}
	}
	// --- symbolic execution of one iteration along every path
	var paths []*s2Path
	var walk func(b *ssa.BasicBlock, from *ssa.BasicBlock, p *s2Path, vals map[ssa.Value]poly, mem map[*ssa.Alloc]poly, depth int)
	walk = func(b *ssa.BasicBlock, from *ssa.BasicBlock, p *s2Path, vals map[ssa.Value]poly, mem map[*ssa.Alloc]poly, depth int) {
		if depth > 40 || len(paths) > 16 {
			p.ok, p.why = false, "too many paths through the loop body"
			paths = append(paths, p)
			return
		}
		p.blocks = append(p.blocks, b)
		pc.env = func(v ssa.Value) (poly, bool) { q, ok := vals[v]; return q, ok }
		for _, in := range b.Instrs {
			switch x := in.(type) {
			case *ssa.Phi:
				if b == header {
					continue // symbolic
				}
				for k, pred := range b.Preds {
					if pred == from {
						vals[x] = pc.of(x.Edges[k], 0)
					}
				}
			case *ssa.Store:
				if cell, isCell := x.Addr.(*ssa.Alloc); isCell {
					mem[cell] = pc.of(x.Val, 0)
				}
			case *ssa.UnOp:
				if cell, isCell := x.X.(*ssa.Alloc); isCell && x.Op == token.MUL {
					if q, has := mem[cell]; has {
						vals[x] = q
					}
				}
			case *ssa.Go:
				if x == g {
					var got [2]poly
					for k, s := range srcs {
						switch {
						case s.val != nil:
							got[k] = pc.of(s.val, 0)
						default:
							q, has := mem[s.cell]
							if !has {
								p.ok, p.why = false, "a range cell is not assigned in the iteration that spawns the worker"
							}
							got[k] = q
						}
					}
					p.start, p.end = got[0], got[1]
				}
			}
		}
		last := b.Instrs[len(b.Instrs)-1]
		for k, succ := range b.Succs {
			if !cl.loop.Blocks[succ] {
				if b == header {
					continue // the exit of the loop
				}
				p.ok, p.why = false, "the loop is left from inside its body"
				continue
			}
			np := &s2Path{blocks: append([]*ssa.BasicBlock{}, p.blocks...), conds: append([]s2Cond{}, p.conds...), start: p.start, end: p.end, ok: p.ok, why: p.why}
			if ifi, isIf := last.(*ssa.If); isIf && b != header {
				np.conds = append(np.conds, s2Cond{ifi.Cond, k == 0})
			}
			nv := map[ssa.Value]poly{}
			for a, q := range vals {
				nv[a] = q
			}
			nm := map[*ssa.Alloc]poly{}
			for a, q := range mem {
				nm[a] = q
			}
			if succ == header {
				// latch: the next values of the carried variables
				pc.env = func(v ssa.Value) (poly, bool) { q, ok := nv[v]; return q, ok }
				np.next = map[*ssa.Phi]poly{}
				for _, hp := range headerPhis {
					for ek, pred := range header.Preds {
						if pred == b {
							np.next[hp] = pc.of(hp.Edges[ek], 0)
						}
					}
				}
				if np.start == nil || np.end == nil {
					np.ok, np.why = false, "a path around the loop does not spawn a worker"
				}
				paths = append(paths, np)
				continue
			}
			for _, seen := range p.blocks {
				if seen == succ {
					np.ok, np.why = false, "an inner loop in the task loop's body"
				}
			}
			if !np.ok {
				paths = append(paths, np)
				continue
			}
			walk(succ, b, np, nv, nm, depth+1)
		}
	}
	walk(header, nil, &s2Path{ok: true}, map[ssa.Value]poly{}, map[*ssa.Alloc]poly{}, 0)
	pc.env = nil
	if len(paths) == 0 {
		und("paths", "no path around the task loop")
		return
	}
	for _, p := range paths {
		if !p.ok {
			und("paths", "cannot execute the task loop's body symbolically: "+p.why)
			return
		}
	}
	show := func(q poly) string { return pc.show(q) }
	// initial values of the carried variables
	inits := map[string]poly{}
	for _, hp := range headerPhis {
		iv := phiInit(hp, cl.loop)
		if iv == nil {
			und("paths", "a loop-carried variable has more than one initial value")
			return
		}
		inits[pc.leaf(hp)] = pc.of(iv, 0)
	}
	carried := func(q poly) bool { // mentions the loop variable or a carried variable
		for _, hp := range headerPhis {
			if q.mentions(pc.leaf(hp)) {
				return true
			}
		}
		return false
	}

	// --- first
	okFirst := true
	var whyFirst string
	for _, p := range paths {
		if s0 := p.start.subst(inits); len(s0) != 0 {
			okFirst = false
			whyFirst = fmt.Sprintf("the first range starts at %s, not at 0", show(s0))
		}
	}
	c.Check(okFirst, "S2", "Execute:first-range-starts-at-0", iPhi.Pos(), whyFirst+": the indexes below it are handed to no worker", "start = "+show(paths[0].start)+" is 0 for i = 0 and the initial values of the carried variables")

	// --- abut
	okAbut := true
	var whyAbut string
	for _, p := range paths {
		nx := map[string]poly{}
		for hp, q := range p.next {
			nx[pc.leaf(hp)] = q
		}
		for _, q := range paths {
			if ns := q.start.subst(nx); !ns.eq(p.end) {
				okAbut = false
				whyAbut = fmt.Sprintf("a range ends at %s but the next one starts at %s", show(p.end), show(ns))
			}
		}
	}
	c.Check(okAbut, "S2", "Execute:ranges-abut", iPhi.Pos(), whyAbut+": indexes are skipped or handed to two workers", fmt.Sprintf("%d paths; end of one iteration = start of the next on every pair", len(paths)))

	// --- lengths
	var base poly
	var long, short []*s2Path
	okLen := true
	whyLen := ""
	var lens []poly
	for _, p := range paths {
		lens = append(lens, p.end.add(p.start, -1))
	}
	for _, l := range lens {
		if carried(l) {
			okLen = false
			whyLen = "the length of a range, " + show(l) + ", depends on the iteration"
		}
	}
	if okLen {
		base = lens[0]
		for _, l := range lens {
			if len(l.add(base, -1).add(poly{"": 1}, 1)) == 0 { // l = base - 1
				base = l
			}
		}
		for k, l := range lens {
			d := l.add(base, -1)
			switch {
			case len(d) == 0:
				short = append(short, paths[k])
			case d.eq(poly{"": 1}):
				long = append(long, paths[k])
			default:
				okLen = false
				whyLen = "range lengths " + show(l) + " and " + show(base) + " differ by something other than 1"
			}
		}
	}
	c.Check(okLen, "S2", "Execute:lengths-base-or-base+1", iPhi.Pos(), whyLen, fmt.Sprintf("base = %s; %d short and %d long paths", show(base), len(short), len(long)))
	if !okLen {
		return
	}

	// --- schedule: how often the long paths are taken
	T := pc.of(cl.bound, 0)
	var E poly // number of long ranges, provided 0 <= E <= T
	okSched := true
	whySched := ""
	schedDesc := "no long ranges"
	switch {
	case len(long) == 0:
		E = poly{}
	case len(short) == 0:
		E = T
		schedDesc = "every range is long"
	default:
		// the condition that separates long from short paths
		E = nil
		for _, cd := range long[0].conds {
			sep := true
			for _, p := range long {
				if !hasCond(p, cd.cond, cd.taken) {
					sep = false
				}
			}
			for _, p := range short {
				if !hasCond(p, cd.cond, !cd.taken) {
					sep = false
				}
			}
			if !sep {
				continue
			}
			cmp, isCmp := cd.cond.(*ssa.BinOp)
			if !isCmp {
				continue
			}
			// normalise to  x > y  being the long case
			x, y, op := cmp.X, cmp.Y, cmp.Op
			if !cd.taken {
				op = negateTok(op)
			}
			switch op {
			case token.LSS:
				x, y, op = y, x, token.GTR
			case token.LEQ:
				x, y, op = y, x, token.GEQ
			}
			px, py := pc.of(x, 0), pc.of(y, 0)
			switch {
			case op == token.GTR || op == token.GEQ || op == token.NEQ:
				// counter form: e > 0 (e >= 1, e != 0) on a carried e that is decremented exactly on the long paths
				var ePhi *ssa.Phi
				for _, hp := range headerPhis {
					if hp != iPhi && px.eq(pc.leafPoly(hp)) {
						ePhi = hp
					}
				}
				// e > c counts down from E to c: E - c long ranges (e >= c: one more); e != 0 is e > 0 for a counter that never goes negative
				thr, isConst := py.constant()
				if op == token.GEQ {
					thr--
				}
				if op == token.NEQ && thr != 0 {
					isConst = false
				}
				if ePhi != nil && isConst && thr >= 0 {
					good := true
					for _, p := range long {
						if !p.next[ePhi].eq(pc.leafPoly(ePhi).add(poly{"": 1}, -1)) {
							good = false
						}
					}
					for _, p := range short {
						if !p.next[ePhi].eq(pc.leafPoly(ePhi)) {
							good = false
						}
					}
					if good {
						E = inits[pc.leaf(ePhi)].add(poly{"": thr}.norm(), -1)
						schedDesc = fmt.Sprintf("counter %s counted down from %s while > %d", pc.show(pc.leafPoly(ePhi)), show(inits[pc.leaf(ePhi)]), thr)
					} else {
						whySched = "the counter of the longer ranges is not decremented exactly when a longer range is handed out"
					}
				}
				// index form: E > i
				if E == nil && op == token.GTR && py.eq(pc.leafPoly(iPhi)) && !carried(px) {
					E = px
					schedDesc = "i < " + show(E)
				}
			}
		}
		if E == nil {
			okSched = false
			if whySched == "" {
				whySched = "cannot tell how often the longer ranges are handed out (neither `e > 0 {…; e--}` on a carried counter nor `i < E`)"
			}
		}
	}
	if !okSched {
		c.Und("S2", "Execute:long-range-schedule", iPhi.Pos(), whySched)
		return
	}
	c.OK("S2", "Execute:long-range-schedule", iPhi.Pos(), schedDesc)

	// --- total: T*base + E = n, 0 <= E <= T
	var nParam ssa.Value
	for _, p := range fn.Params {
		if p.Name() == "nbIterations" {
			nParam = p
		}
	}
	if nParam == nil && len(fn.Params) > 0 {
		nParam = fn.Params[0]
	}
	n := pc.of(nParam, 0)
	total := T.mul(base).add(E, 1)
	okTotal := total.eq(n)
	whyTotal := ""
	if !okTotal {
		whyTotal = fmt.Sprintf("the ranges add up to T*base + E = %s, not to nbIterations", show(total))
	}
	// 0 <= E <= T on every way into the loop
	var configs []string
	if okTotal {
		// phis (outside the loop) that E and T mention, all joined in one block
		var joinPhis []*ssa.Phi
		var joinBlock *ssa.BasicBlock
		oneBlock := true
		for _, l := range pc.leaves {
			if ph, isPhi := l.(*ssa.Phi); isPhi && !cl.loop.Blocks[ph.Block()] && (E.mentions(pc.leaf(ph)) || T.mentions(pc.leaf(ph))) {
				if joinBlock != nil && ph.Block() != joinBlock {
					oneBlock = false
				}
				joinBlock = ph.Block()
				joinPhis = append(joinPhis, ph)
			}
		}
		if !oneBlock {
			okTotal = false
			whyTotal = "the task count and the remainder are merged at different points; cannot relate them"
		}
		nConf := 1
		if joinBlock != nil {
			nConf = len(joinBlock.Preds)
		}
		for k := 0; k < nConf && okTotal; k++ {
			sub := map[string]poly{}
			for _, ph := range joinPhis {
				sub[pc.leaf(ph)] = pc.of(ph.Edges[k], 0)
			}
			Ek, Tk := E.subst(sub), T.subst(sub)
			switch {
			case len(Ek) == 0:
				configs = append(configs, "E = 0")
			case s2Remainder(pc, fn, Ek, Tk):
				configs = append(configs, "E = n - T*(n/T), a remainder")
			case len(long) > 0 && len(short) == 0 && Ek.eq(Tk):
				configs = append(configs, "E = T")
			default:
				okTotal = false
				whyTotal = fmt.Sprintf("cannot show 0 <= E <= T for E = %s, T = %s (neither 0 nor the remainder of the division by T)", show(Ek), show(Tk))
			}
		}
	}
	sort.Strings(configs)
	c.Check(okTotal, "S2", "Execute:ranges-add-up-to-n", iPhi.Pos(), whyTotal+": the tail of [0, nbIterations) is not covered, or a range reaches beyond it", "T*base + E = nbIterations", strings.Join(uniqStrings(configs), "; "))
}

func hasCond(p *s2Path, cond ssa.Value, taken bool) bool {
	for _, cd := range p.conds {
		if cd.cond == cond && cd.taken == taken {
			return true
		}
	}
	return false
}

// s2Remainder: E = X - Y*(X/Y) for an integer division X/Y of the function with Y = T.
func s2Remainder(pc *polyCtx, fn *ssa.Function, E, T poly) bool {
	found := false
	core.AllInstrs(fn, func(in ssa.Instruction) {
		q, ok := in.(*ssa.BinOp)
		if !ok || q.Op != token.QUO {
			return
		}
		X, Y := pc.of(q.X, 0), pc.of(q.Y, 0)
		if Y.eq(T) && E.eq(X.add(Y.mul(pc.leafPoly(q)), -1)) {
			found = true
		}
	})
	return found
}
