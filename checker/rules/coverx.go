package rules

import (
	"fmt"
	"go/token"
	"go/types"
	"sort"
	"strings"

	"golang.org/x/tools/go/ssa"

	"verif/checker/core"
)

// ---------------------------------------------------------------------------
// S2 — parallel.Execute hands out the ranges of a telescoping partition of [0, n)
//
// One iteration of the task loop is executed symbolically on every path through its body; start, end and the next
// values of the loop-carried variables become polynomials over the loop variable i, the carried variables and the
// loop-invariant values. The clauses are polynomial identities:
//
//	first     start(i := 0, carried := initial values) = 0
//	abut      end on path p  =  start(i := i+1, carried := their values after path p)      for every p (and next path)
//	lengths   end - start is `base` on the short paths and `base + 1` on the long ones, base loop-invariant
//	schedule  the long paths are taken exactly K = clamp(E, 0, T) times: `if e > 0 { …; e-- }` on a carried counter
//	          starting at E, or `if i < E`
//	total     T*base + E = n  and  0 <= E <= T, the latter because E is n - T*(n/T) (a remainder of the division that
//	          defines base) or identically 0 on every way into the loop
//
// first + abut give contiguous, disjoint ranges starting at 0 (non-emptiness is I1's); lengths + schedule + total give
// that the last range ends at n. Assumes n >= 0 and a worker count >= 1, as the property does.

type s2Path struct {
	blocks []*ssa.BasicBlock
	conds  []s2Cond
	start  poly
	end    poly
	next   map[*ssa.Phi]poly
	ok     bool
	why    string
}

type s2Cond struct {
	cond  ssa.Value
	taken bool
}

func RuleS2(c *Ctx) {
	c.Rule("S2", "range partition of parallel.Execute, by symbolic execution of one iteration of the task loop on every path (polynomial identities over the loop variable, the carried variables and loop-invariant values): the first range starts at 0; the end of every range is the start of the next one; every range has length base or base+1; the longer ranges are handed out exactly E times (a counter counted down from E while positive, or `i < E`); T*base + E = n, with E the remainder n - T*(n/T) of the division defining base (hence 0 <= E < T) or identically 0")
	fn := c.P.Fn("common/parallel", "", "Execute")
	if fn == nil {
		c.Unresolved("S2", "common/parallel.Execute")
		return
	}
	c.Saw(core.FnName(fn))
	und := func(key, msg string) { c.Und("S2", "Execute:"+key, fn.Pos(), msg) }
	var gos []*ssa.Go
	core.AllInstrs(fn, func(i ssa.Instruction) {
		if g, ok := i.(*ssa.Go); ok {
			gos = append(gos, g)
		}
	})
	if len(gos) == 0 {
		und("shape", "no go statement in Execute")
		return
	}
	cls0 := countedLoops(fn)
	cl := loopOf(cls0, gos[0].Block())
	if cl == nil {
		und("shape", "the spawn is not inside a counted loop")
		return
	}
	for _, g := range gos {
		if loopOf(cls0, g.Block()) != cl {
			und("shape", "the go statements of Execute are not all in one task loop")
			return
		}
	}
	if z, isZ := core.ConstInt(cl.init); !isZ || z != 0 || cl.step != 1 || cl.op != token.LSS {
		und("shape", "the task loop is not `for i := 0; i < nbTasks; i++`")
		return
	}
	iPhi, isPhi := cl.phi.(*ssa.Phi)
	if !isPhi || iPhi.Block() != cl.loop.Header {
		und("shape", "the task loop's variable is not a header phi")
		return
	}
	// per spawn site: the spawned function and its call of work
	type spawn struct {
		tgt  *ssa.Function
		work ssa.CallInstruction
	}
	spawns := map[*ssa.Go]spawn{}
	for _, g := range gos {
		tgt, _ := closureOf(g.Call.Value)
		if tgt == nil {
			if f, isF := g.Call.Value.(*ssa.Function); isF {
				tgt = f
			}
		}
		if tgt == nil {
			und("shape", "the spawned function is not a literal")
			return
		}
		var work ssa.CallInstruction
		for _, ci := range core.CallsIn(tgt) {
			cc := ci.Common()
			if !cc.IsInvoke() && core.Callee(cc) == nil && isFuncParamValue(cc.Value) && len(cc.Args) == 2 {
				if work != nil {
					und("shape", "more than one call of the work function in the spawned literal")
					return
				}
				work = ci
			}
		}
		if work == nil {
			und("shape", "no call of the work function in the spawned literal")
			return
		}
		spawns[g] = spawn{tgt, work}
	}

	pc := &polyCtx{}
	header := cl.loop.Header
	var headerPhis []*ssa.Phi
	for _, in := range header.Instrs {
		if p, ok := in.(*ssa.Phi); ok {
			headerPhis = append(headerPhis, p)
		}
	}
	// --- symbolic execution of one iteration along every path
	var paths []*s2Path
	var walk func(b *ssa.BasicBlock, from *ssa.BasicBlock, p *s2Path, vals map[ssa.Value]poly, mem map[*ssa.Alloc]poly, depth int)
	walk = func(b *ssa.BasicBlock, from *ssa.BasicBlock, p *s2Path, vals map[ssa.Value]poly, mem map[*ssa.Alloc]poly, depth int) {
		if depth > 40 || len(paths) > 16 {
			p.ok, p.why = false, "too many paths through the loop body"
			paths = append(paths, p)
			return
		}
		p.blocks = append(p.blocks, b)
		pc.env = func(v ssa.Value) (poly, bool) { q, ok := vals[v]; return q, ok }
		for _, in := range b.Instrs {
			switch x := in.(type) {
			case *ssa.Phi:
				if b == header {
					continue // symbolic
				}
				for k, pred := range b.Preds {
					if pred == from {
						vals[x] = pc.of(x.Edges[k], 0)
					}
				}
			case *ssa.Store:
				if cell, isCell := x.Addr.(*ssa.Alloc); isCell {
					mem[cell] = pc.of(x.Val, 0)
				}
			case *ssa.UnOp:
				if cell, isCell := x.X.(*ssa.Alloc); isCell && x.Op == token.MUL {
					if q, has := mem[cell]; has {
						vals[x] = q
					}
				}
			case *ssa.Go:
				sp, isSpawn := spawns[x]
				if !isSpawn {
					continue
				}
				if p.start != nil {
					p.ok, p.why = false, "two workers are spawned on one path through the loop body"
					continue
				}
				// the arguments of work, seen from the parent at the moment of the spawn: parameters of the literal are
				// the go statement's arguments, captured variables hold what their cells hold now
				parentEnv := pc.env
				var cenv func(v ssa.Value) (poly, bool)
				cenv = func(v ssa.Value) (poly, bool) {
					if q, ok := parentEnv(v); ok {
						return q, true
					}
					switch y := v.(type) {
					case *ssa.Parameter:
						if y.Parent() == sp.tgt {
							for pi, q := range sp.tgt.Params {
								if q == y && pi < len(x.Call.Args) {
									pc.env = parentEnv
									r := pc.of(x.Call.Args[pi], 0)
									pc.env = cenv
									return r, true
								}
							}
						}
					case *ssa.UnOp:
						if fv, isFV := y.X.(*ssa.FreeVar); isFV && y.Op == token.MUL {
							if cell, isCell := core.FreeVarBinding(fv).(*ssa.Alloc); isCell && cell.Parent() == fn {
								if q, has := mem[cell]; has {
									return q, true
								}
							}
						}
					}
					return nil, false
				}
				pc.env = cenv
				args := sp.work.Common().Args
				p.start, p.end = pc.of(args[0], 0), pc.of(args[1], 0)
				pc.env = parentEnv
			}
		}
		last := b.Instrs[len(b.Instrs)-1]
		for k, succ := range b.Succs {
			if !cl.loop.Blocks[succ] {
				if b == header {
					continue // the exit of the loop
				}
				p.ok, p.why = false, "the loop is left from inside its body"
				continue
			}
			np := &s2Path{blocks: append([]*ssa.BasicBlock{}, p.blocks...), conds: append([]s2Cond{}, p.conds...), start: p.start, end: p.end, ok: p.ok, why: p.why}
			if ifi, isIf := last.(*ssa.If); isIf && b != header {
				np.conds = append(np.conds, s2Cond{ifi.Cond, k == 0})
			}
			nv := map[ssa.Value]poly{}
			for a, q := range vals {
				nv[a] = q
			}
			nm := map[*ssa.Alloc]poly{}
			for a, q := range mem {
				nm[a] = q
			}
			if succ == header {
				// latch: the next values of the carried variables
				pc.env = func(v ssa.Value) (poly, bool) { q, ok := nv[v]; return q, ok }
				np.next = map[*ssa.Phi]poly{}
				for _, hp := range headerPhis {
					for ek, pred := range header.Preds {
						if pred == b {
							np.next[hp] = pc.of(hp.Edges[ek], 0)
						}
					}
				}
				if np.start == nil || np.end == nil {
					np.ok, np.why = false, "a path around the loop does not spawn a worker"
				}
				paths = append(paths, np)
				continue
			}
			for _, seen := range p.blocks {
				if seen == succ {
					np.ok, np.why = false, "an inner loop in the task loop's body"
				}
			}
			if !np.ok {
				paths = append(paths, np)
				continue
			}
			walk(succ, b, np, nv, nm, depth+1)
		}
	}
	walk(header, nil, &s2Path{ok: true}, map[ssa.Value]poly{}, map[*ssa.Alloc]poly{}, 0)
	pc.env = nil
	if len(paths) == 0 {
		und("paths", "no path around the task loop")
		return
	}
	for _, p := range paths {
		if !p.ok {
			und("paths", "cannot execute the task loop's body symbolically: "+p.why)
			return
		}
	}
	show := func(q poly) string { return pc.show(q) }
	// what the conditions along a path (optionally seen one iteration later, or at i = 0) say, and whether that can
	// hold; a polynomial that is the remainder X - Y*(X/Y) of a division of the function is known to be >= 0
	facts := map[string]s2Bound{}
	boundsOf := func(p *s2Path, sub map[string]poly) []s2Bound {
		var out []s2Bound
		for _, cd := range p.conds {
			b, ok := pc.condBound(cd.cond, cd.taken, sub)
			if !ok {
				continue
			}
			out = append(out, b)
			if _, known := facts[b.key]; !known && b.key != "" {
				// is the bounded polynomial (or its negation) never negative — a remainder X - Y*(X/Y), or zero, on
				// every way into the loop?
				d := pc.of(cd.cond.(*ssa.BinOp).X, 0).add(pc.of(cd.cond.(*ssa.BinOp).Y, 0), -1)
				if sub != nil {
					d = d.subst(sub)
				}
				c0 := d[""]
				n := poly{}
				for kk, v := range d {
					if kk != "" {
						n[kk] = v
					}
				}
				_ = c0
				if polyKey(n) != b.key {
					n = poly{}.add(n, -1)
				}
				switch {
				case s2NonNeg(pc, fn, cl, n):
					facts[b.key] = s2Bound{b.key, 0, s2Inf}
				case s2NonNeg(pc, fn, cl, poly{}.add(n, -1)):
					facts[b.key] = s2Bound{b.key, -s2Inf, 0}
				}
			}
		}
		return out
	}
	{
		var live []*s2Path
		for _, p := range paths {
			if s2Feasible(boundsOf(p, nil), facts) {
				live = append(live, p)
			}
		}
		if len(live) > 0 {
			paths = live
		}
	}
	// initial values of the carried variables
	inits := map[string]poly{}
	for _, hp := range headerPhis {
		iv := phiInit(hp, cl.loop)
		if iv == nil {
			und("paths", "a loop-carried variable has more than one initial value")
			return
		}
		inits[pc.leaf(hp)] = pc.of(iv, 0)
	}
	carried := func(q poly) bool { // mentions the loop variable or a carried variable
		for _, hp := range headerPhis {
			if q.mentions(pc.leaf(hp)) {
				return true
			}
		}
		return false
	}

	// --- first
	okFirst := true
	var whyFirst string
	for _, p := range paths {
		if !s2Feasible(boundsOf(p, inits), facts) {
			continue // this way through the body cannot be taken in the first iteration
		}
		if s0 := p.start.subst(inits); len(s0) != 0 {
			okFirst = false
			whyFirst = fmt.Sprintf("the first range starts at %s, not at 0", show(s0))
		}
	}
	c.Check(okFirst, "S2", "Execute:first-range-starts-at-0", iPhi.Pos(), whyFirst+": the indexes below it are handed to no worker", "start = "+show(paths[0].start)+" is 0 for i = 0 and the initial values of the carried variables")

	// --- abut
	okAbut := true
	var whyAbut string
	for _, p := range paths {
		nx := map[string]poly{}
		for hp, q := range p.next {
			nx[pc.leaf(hp)] = q
		}
		for _, q := range paths {
			if !s2Feasible(append(boundsOf(p, nil), boundsOf(q, nx)...), facts) {
				continue // q cannot be the iteration after p
			}
			if ns := q.start.subst(nx); !ns.eq(p.end) && !s2ZeroUnder(ns.add(p.end, -1), append(boundsOf(p, nil), boundsOf(q, nx)...), facts) {
				okAbut = false
				whyAbut = fmt.Sprintf("a range ends at %s but the next one starts at %s", show(p.end), show(ns))
			}
		}
	}
	c.Check(okAbut, "S2", "Execute:ranges-abut", iPhi.Pos(), whyAbut+": indexes are skipped or handed to two workers", fmt.Sprintf("%d paths; end of one iteration = start of the next on every pair", len(paths)))

	// --- lengths
	var base poly
	var long, short []*s2Path
	okLen := true
	whyLen := ""
	var lens []poly
	for _, p := range paths {
		lens = append(lens, p.end.add(p.start, -1))
	}
	for _, l := range lens {
		if carried(l) {
			okLen = false
			whyLen = "the length of a range, " + show(l) + ", depends on the iteration"
		}
	}
	if okLen {
		base = lens[0]
		for _, l := range lens {
			if len(l.add(base, -1).add(poly{"": 1}, 1)) == 0 { // l = base - 1
				base = l
			}
		}
		for k, l := range lens {
			d := l.add(base, -1)
			switch {
			case len(d) == 0:
				short = append(short, paths[k])
			case d.eq(poly{"": 1}):
				long = append(long, paths[k])
			default:
				okLen = false
				whyLen = "range lengths " + show(l) + " and " + show(base) + " differ by something other than 1"
			}
		}
	}
	c.Check(okLen, "S2", "Execute:lengths-base-or-base+1", iPhi.Pos(), whyLen, fmt.Sprintf("base = %s; %d short and %d long paths", show(base), len(short), len(long)))
	if !okLen {
		return
	}

	// --- schedule: how often the long paths are taken
	T := pc.of(cl.bound, 0)
	var E poly // number of long ranges, provided 0 <= E <= T
	okSched := true
	whySched := ""
	schedDesc := "no long ranges"
	switch {
	case len(long) == 0:
		E = poly{}
	case len(short) == 0:
		E = T
		schedDesc = "every range is long"
	default:
		// the condition that separates long from short paths
		E = nil
		for _, cd := range long[0].conds {
			sep := true
			for _, p := range long {
				if !hasCond(p, cd.cond, cd.taken) {
					sep = false
				}
			}
			for _, p := range short {
				if !hasCond(p, cd.cond, !cd.taken) {
					sep = false
				}
			}
			if !sep {
				continue
			}
			cmp, isCmp := cd.cond.(*ssa.BinOp)
			if !isCmp {
				continue
			}
			// normalise to  x > y  being the long case
			x, y, op := cmp.X, cmp.Y, cmp.Op
			if !cd.taken {
				op = negateTok(op)
			}
			switch op {
			case token.LSS:
				x, y, op = y, x, token.GTR
			case token.LEQ:
				x, y, op = y, x, token.GEQ
			}
			px, py := pc.of(x, 0), pc.of(y, 0)
			switch {
			case op == token.GTR || op == token.GEQ || op == token.NEQ:
				// counter form: e > 0 (e >= 1, e != 0) on a carried e that is decremented exactly on the long paths
				var ePhi *ssa.Phi
				for _, hp := range headerPhis {
					if hp != iPhi && px.eq(pc.leafPoly(hp)) {
						ePhi = hp
					}
				}
				// e > c counts down from E to c: E - c long ranges (e >= c: one more); e != 0 is e > 0 for a counter that never goes negative
				thr, isConst := py.constant()
				if op == token.GEQ {
					thr--
				}
				if op == token.NEQ && thr != 0 {
					isConst = false
				}
				if ePhi != nil && isConst && thr >= 0 {
					good := true
					for _, p := range long {
						if !p.next[ePhi].eq(pc.leafPoly(ePhi).add(poly{"": 1}, -1)) {
							good = false
						}
					}
					for _, p := range short {
						if !p.next[ePhi].eq(pc.leafPoly(ePhi)) {
							good = false
						}
					}
					if good {
						E = inits[pc.leaf(ePhi)].add(poly{"": thr}.norm(), -1)
						schedDesc = fmt.Sprintf("counter %s counted down from %s while > %d", pc.show(pc.leafPoly(ePhi)), show(inits[pc.leaf(ePhi)]), thr)
					} else {
						whySched = "the counter of the longer ranges is not decremented exactly when a longer range is handed out"
					}
				}
				// index form: E > i
				if E == nil && op == token.GTR && py.eq(pc.leafPoly(iPhi)) && !carried(px) {
					E = px
					schedDesc = "i < " + show(E)
				}
			}
		}
		if E == nil {
			okSched = false
			if whySched == "" {
				whySched = "cannot tell how often the longer ranges are handed out (neither `e > 0 {…; e--}` on a carried counter nor `i < E`)"
			}
		}
	}
	if !okSched {
		c.Und("S2", "Execute:long-range-schedule", iPhi.Pos(), whySched)
		return
	}
	c.OK("S2", "Execute:long-range-schedule", iPhi.Pos(), schedDesc)

	// --- total: T*base + E = n, 0 <= E <= T
	var nParam ssa.Value
	for _, p := range fn.Params {
		if p.Name() == "nbIterations" {
			nParam = p
		}
	}
	if nParam == nil && len(fn.Params) > 0 {
		nParam = fn.Params[0]
	}
	n := pc.of(nParam, 0)
	total := T.mul(base).add(E, 1)
	okTotal := total.eq(n)
	whyTotal := ""
	if !okTotal {
		// T, base and E may all be merged in front of the loop (a helper that returns the three of them): the sum
		// is then taken on each way into the loop
		var jp []*ssa.Phi
		var jb *ssa.BasicBlock
		one := true
		for _, l := range pc.leaves {
			if ph, isPhi := l.(*ssa.Phi); isPhi && !cl.loop.Blocks[ph.Block()] && total.mentions(pc.leaf(ph)) {
				if jb != nil && ph.Block() != jb {
					one = false
				}
				jb = ph.Block()
				jp = append(jp, ph)
			}
		}
		if jb != nil && one {
			okTotal = true
			for k := range jb.Preds {
				sub := map[string]poly{}
				for _, ph := range jp {
					sub[pc.leaf(ph)] = pc.of(ph.Edges[k], 0)
				}
				if !total.subst(sub).eq(n) {
					okTotal = false
				}
			}
		}
	}
	if !okTotal {
		whyTotal = fmt.Sprintf("the ranges add up to T*base + E = %s, not to nbIterations", show(total))
	}
	// 0 <= E <= T on every way into the loop
	var configs []string
	if okTotal {
		// phis (outside the loop) that E and T mention, all joined in one block
		var joinPhis []*ssa.Phi
		var joinBlock *ssa.BasicBlock
		oneBlock := true
		for _, l := range pc.leaves {
			if ph, isPhi := l.(*ssa.Phi); isPhi && !cl.loop.Blocks[ph.Block()] && (E.mentions(pc.leaf(ph)) || T.mentions(pc.leaf(ph))) {
				if joinBlock != nil && ph.Block() != joinBlock {
					oneBlock = false
				}
				joinBlock = ph.Block()
				joinPhis = append(joinPhis, ph)
			}
		}
		if !oneBlock {
			okTotal = false
			whyTotal = "the task count and the remainder are merged at different points; cannot relate them"
		}
		nConf := 1
		if joinBlock != nil {
			nConf = len(joinBlock.Preds)
		}
		for k := 0; k < nConf && okTotal; k++ {
			sub := map[string]poly{}
			for _, ph := range joinPhis {
				sub[pc.leaf(ph)] = pc.of(ph.Edges[k], 0)
			}
			Ek, Tk := E.subst(sub), T.subst(sub)
			switch {
			case len(Ek) == 0:
				configs = append(configs, "E = 0")
			case s2Remainder(pc, fn, Ek, Tk, sub):
				configs = append(configs, "E = n - T*(n/T), a remainder")
			case len(long) > 0 && len(short) == 0 && Ek.eq(Tk):
				configs = append(configs, "E = T")
			default:
				okTotal = false
				whyTotal = fmt.Sprintf("cannot show 0 <= E <= T for E = %s, T = %s (neither 0 nor the remainder of the division by T)", show(Ek), show(Tk))
			}
		}
	}
	sort.Strings(configs)
	c.Check(okTotal, "S2", "Execute:ranges-add-up-to-n", iPhi.Pos(), whyTotal+": the tail of [0, nbIterations) is not covered, or a range reaches beyond it", "T*base + E = nbIterations", strings.Join(uniqStrings(configs), "; "))
}

func hasCond(p *s2Path, cond ssa.Value, taken bool) bool {
	for _, cd := range p.conds {
		if cd.cond == cond && cd.taken == taken {
			return true
		}
	}
	return false
}

// s2Remainder: E = X - Y*(X/Y) for an integer division X/Y of the function with Y = T.
func s2Remainder(pc *polyCtx, fn *ssa.Function, E, T poly, sub map[string]poly) bool {
	found := false
	core.AllInstrs(fn, func(in ssa.Instruction) {
		q, ok := in.(*ssa.BinOp)
		if !ok || q.Op != token.QUO {
			return
		}
		// the division is looked at on the same way into the loop as E and T
		X, Y := pc.of(q.X, 0).subst(sub), pc.of(q.Y, 0).subst(sub)
		if Y.eq(T) && E.eq(X.add(Y.mul(pc.leafPoly(q)), -1)) {
			found = true
		}
	})
	return found
}

// ---------------------------------------------------------------------------
// R2 — slices cut into equal chunks cover their base
//
// Wherever the module slices something as base[v*P : (v+1)*P] for a counter v that runs over 0 .. B-1 (a counted
// loop, or the range a parallel.Execute callback is given when Execute is asked for B iterations), the chunks cover
// base[0 : B*P]. Unless B*P is len(base) as a polynomial identity, or the open-ended tail base[B*P:] is processed as
// well, the last len(base) - B*P elements are never touched (the classic floor-division split).

func RuleR2(c *Ctx) {
	c.Rule("R2", "equal-chunk slicing covers its base: for every base[v*P : (v+1)*P] with v counting 0 .. B-1 (a loop, or the range of a parallel.Execute callback asked for B iterations), B*P = len(base) as a polynomial identity or the tail base[B*P:] is processed too; otherwise the remainder of a floor division is silently left out")
	n := 0
	for _, top := range c.P.TopFuncs() {
		if inHelperPkg(top) {
			continue
		}
		fam := core.Family(top)
		type chunk struct {
			sl      *ssa.Slice
			base    ssa.Value
			v       ssa.Value
			P, B    poly
			fn      *ssa.Function
			clamped bool      // the upper bound is min((v+1)*P, len(base))
			bval    ssa.Value // the count B as a value
		}
		pc := &polyCtx{}
		// values of closures stand for what they capture / are given at their single call site
		pc.tr = func(v ssa.Value) ssa.Value {
			for d := 0; d < 4; d++ {
				switch x := v.(type) {
				case *ssa.UnOp:
					if x.Op != token.MUL {
						return v
					}
					var cell *ssa.Alloc
					switch a := x.X.(type) {
					case *ssa.Alloc:
						cell = a
					case *ssa.FreeVar:
						cell, _ = core.FreeVarBinding(a).(*ssa.Alloc)
					}
					if cell == nil {
						return v
					}
					if p := core.ParamSpill(cell); p != nil {
						return p
					}
					sts := storesInto(cell)
					if len(sts) != 1 {
						return v
					}
					v = core.StripConv(sts[0].Val)
				case *ssa.FreeVar:
					if b := core.FreeVarBinding(x); b != nil {
						if _, isAl := b.(*ssa.Alloc); !isAl {
							v = core.StripConv(b)
							continue
						}
					}
					return v
				case *ssa.Parameter:
					// a parameter of a literal run at one site: the argument it is given there
					if b := core.LiteralParamBinding(x); b != nil {
						v = core.StripConv(b)
						continue
					}
					return v
				default:
					return v
				}
			}
			return v
		}
		var chunks []chunk
		var tails []chunk
		for _, fn := range fam {
			cls := countedLoops(fn)
			core.AllInstrs(fn, func(i ssa.Instruction) {
				sl, ok := i.(*ssa.Slice)
				if !ok || sl.Low == nil {
					return
				}
				if _, isSlice := sl.X.Type().Underlying().(*types.Slice); !isSlice {
					return
				}
				base := baseOf(pc.tr(core.StripConv(sl.X)))
				lo := pc.of(sl.Low, 0)
				if sl.High == nil {
					tails = append(tails, chunk{sl: sl, base: base, P: lo, fn: fn})
					return
				}
				hi := pc.of(sl.High, 0)
				// a clamped upper bound: hi = lo+P, replaced by len(base) when it would exceed it
				clamped := false
				if ph, isPhi := core.StripConv(pc.tr(core.StripConv(sl.High))).(*ssa.Phi); isPhi && len(ph.Edges) == 2 {
					for k := 0; k < 2; k++ {
						if x, isLen := core.IsLenOf(core.StripConv(ph.Edges[k])); isLen && (baseOf(pc.tr(core.StripConv(x))) == base || core.SameExpr(baseOf(pc.tr(core.StripConv(x))), base)) {
							hi = pc.of(ph.Edges[1-k], 0)
							clamped = true
						}
					}
				}
				// the counter: a loop variable that lo is linear in — of fn, or of the function that spawns fn in a loop
				type lp struct {
					cl *countedLoop
					at *ssa.BasicBlock
				}
				var cands []lp
				for _, cl := range cls {
					cands = append(cands, lp{cl, sl.Block()})
				}
				for _, s := range c.spawnSites() {
					if s.target == fn && s.kind == "go" && s.parent != nil {
						for _, cl := range countedLoops(s.parent) {
							cands = append(cands, lp{cl, s.at.Block()})
						}
					}
				}
				for _, cand := range cands {
					cl := cand.cl
					if !cl.loop.Blocks[cand.at] || cl.step != 1 || cl.op != token.LSS {
						continue
					}
					// the counter as the body sees it; in a `for v := range xs` loop that is the header phi plus one
					vP := pc.of(cl.phi, 0)
					under := core.StripConv(cl.phi)
					if inc, isInc := under.(*ssa.BinOp); isInc && inc.Op == token.ADD {
						if _, isPhi := core.StripConv(inc.X).(*ssa.Phi); isPhi {
							under = core.StripConv(inc.X)
						}
					}
					vKey := pc.leaf(under)
					if !lo.mentions(vKey) {
						continue
					}
					P := hi.add(lo, -1)
					if P.mentions(vKey) || len(P) == 0 || !lo.eq(vP.mul(P)) {
						continue
					}
					// range of the counter
					var B poly
					var bval ssa.Value
					if z, isZ := core.ConstInt(cl.init); isZ && z == 0 {
						B = pc.of(cl.bound, 0)
						bval = cl.bound
					} else if ip, isP := core.StripConv(cl.init).(*ssa.Parameter); isP {
						// for v := start; v < end; v++ in a callback of parallel.Execute(B, …)
						if bp, isBP := core.StripConv(cl.bound).(*ssa.Parameter); isBP && ip.Parent() == fn && bp.Parent() == fn && len(fn.Params) == 2 && fn.Params[0] == ip && fn.Params[1] == bp {
							for _, s := range c.spawnSites() {
								if s.kind == "Execute" && s.target == fn {
									if call, isCall := s.at.(*ssa.Call); isCall && len(call.Call.Args) > 0 {
										B = pc.of(call.Call.Args[0], 0)
										bval = call.Call.Args[0]
									}
								}
							}
						}
					}
					if B == nil {
						continue
					}
					chunks = append(chunks, chunk{sl, base, cl.phi, P, B, fn, clamped, bval})
				}
			})
		}
		seen := map[string]bool{}
		for _, ch := range chunks {
			key := fmt.Sprintf("%s:%s[v*P:(v+1)*P]", core.FnName(ch.fn), shortPath(ch.base))
			if seen[key] {
				continue
			}
			seen[key] = true
			n++
			c.Saw(core.FnName(ch.fn))
			total := ch.B.mul(ch.P)
			lenLeaf := poly(nil)
			for _, l := range pc.leaves {
				if x, isLen := core.IsLenOf(l); isLen && (baseOf(pc.tr(core.StripConv(x))) == ch.base || core.SameExpr(baseOf(pc.tr(core.StripConv(x))), ch.base)) {
					lenLeaf = pc.leafPoly(l)
				}
			}
			// a base of fixed size: make([]T, K) with a constant K, or a whole array
			if lenLeaf == nil {
				switch bv := ch.base.(type) {
				case *ssa.MakeSlice:
					if k, isK := core.ConstInt(bv.Len); isK {
						lenLeaf = poly{"": k}.norm()
					}
				case *ssa.Slice:
					if k, isK := core.ConstInt(bv.High); bv.Low == nil && bv.High != nil && isK {
						lenLeaf = poly{"": k}.norm()
					} else if bv.Low == nil && bv.High == nil {
						if pt, isP := bv.X.Type().Underlying().(*types.Pointer); isP {
							if at, isA := pt.Elem().Underlying().(*types.Array); isA {
								lenLeaf = poly{"": at.Len()}.norm()
							}
						}
					}
				}
			}
			okCover := lenLeaf != nil && total.eq(lenLeaf)
			how := "B*P = len(base)"
			if ch.clamped && !okCover && lenLeaf != nil {
				// clamped chunks cover min(B*P, len): enough when B is the ceiling (len + P - 1) / P
				if q, isQ := core.StripConv(pc.tr(core.StripConv(ch.bval))).(*ssa.BinOp); isQ && q.Op == token.QUO {
					if pc.of(q.Y, 0).eq(ch.P) && pc.of(q.X, 0).eq(lenLeaf.add(ch.P, 1).add(poly{"": 1}, -1)) {
						okCover = true
						how = "clamped chunks, B = ceil(len(base)/P)"
					}
				}
			}
			if !okCover {
				for _, t := range tails {
					if (t.base == ch.base || core.SameExpr(t.base, ch.base)) && t.P.eq(total) {
						okCover = true
						how = "tail base[B*P:] at " + c.P.Pos(t.sl.Pos())
					}
				}
			}
			c.Check(okCover, "R2", key, ch.sl.Pos(), fmt.Sprintf("%s cuts %s into %s chunks of %s elements, which cover %s elements, and neither is that len(%s) identically (nor the count a ceiling division with a clamped last chunk) nor is the tail from there on processed: when the division leaves a remainder the last elements are never touched", core.FnName(ch.fn), shortPath(ch.base), pc.show(ch.B), pc.show(ch.P), pc.show(total), shortPath(ch.base)), how)
		}
	}
	c.FloorN("R2", 1, n, "equal-chunk slicings")
}

// baseOf: the identity of a sliced variable — the cell it lives in when it is a reassigned or captured local.
func baseOf(v ssa.Value) ssa.Value {
	if u, ok := v.(*ssa.UnOp); ok && u.Op == token.MUL {
		switch a := u.X.(type) {
		case *ssa.Alloc:
			return a
		case *ssa.FreeVar:
			if b, isAl := core.FreeVarBinding(a).(*ssa.Alloc); isAl {
				return b
			}
		}
	}
	return v
}

// ---------------------------------------------------------------------------
// feasibility of path conditions (S2)
//
// A comparison of two integer polynomials, taken or not taken, bounds the non-constant part N of their difference:
// lo <= N <= hi. Conditions over the same N (up to sign and a constant — `i > E`, `i < E`, and the same one
// iteration later) intersect as intervals; an empty intersection means the paths cannot follow each other.

const s2Inf = int64(1) << 50

type s2Bound struct {
	key    string
	lo, hi int64
}

func polyKey(p poly) string {
	var keys []string
	for k := range p {
		keys = append(keys, k)
	}
	sort.Strings(keys)
	var sb strings.Builder
	for _, k := range keys {
		fmt.Fprintf(&sb, "%s:%d;", k, p[k])
	}
	return sb.String()
}

// condBound: the bound that `cond` being taken (or not) puts on a polynomial, after substitution. ok=false when the
// condition is not a comparison of integer polynomials; a constant comparison yields key "" with an empty or full
// interval.
func (pc *polyCtx) condBound(cond ssa.Value, taken bool, sub map[string]poly) (s2Bound, bool) {
	cmp, isCmp := cond.(*ssa.BinOp)
	if !isCmp {
		return s2Bound{}, false
	}
	op := cmp.Op
	switch op {
	case token.LSS, token.LEQ, token.GTR, token.GEQ, token.EQL, token.NEQ:
	default:
		return s2Bound{}, false
	}
	if !taken {
		op = negateTok(op)
	}
	d := pc.of(cmp.X, 0).add(pc.of(cmp.Y, 0), -1)
	if sub != nil {
		d = d.subst(sub)
	}
	c := d[""]
	n := poly{}
	for k, v := range d {
		if k != "" {
			n[k] = v
		}
	}
	if len(n) == 0 {
		truth := false
		switch op {
		case token.LSS:
			truth = c < 0
		case token.LEQ:
			truth = c <= 0
		case token.GTR:
			truth = c > 0
		case token.GEQ:
			truth = c >= 0
		case token.EQL:
			truth = c == 0
		case token.NEQ:
			truth = c != 0
		}
		if truth {
			return s2Bound{"", -s2Inf, s2Inf}, true
		}
		return s2Bound{"", 1, 0}, true
	}
	// canonical sign: the first monomial in key order has a positive coefficient
	var keys []string
	for k := range n {
		keys = append(keys, k)
	}
	sort.Strings(keys)
	sgn := int64(1)
	if n[keys[0]] < 0 {
		sgn = -1
		n = poly{}.add(n, -1)
	}
	b := s2Bound{polyKey(n), -s2Inf, s2Inf}
	// sgn*N + c  op  0
	if sgn > 0 {
		switch op {
		case token.GTR:
			b.lo = -c + 1
		case token.GEQ:
			b.lo = -c
		case token.LSS:
			b.hi = -c - 1
		case token.LEQ:
			b.hi = -c
		case token.EQL:
			b.lo, b.hi = -c, -c
		}
	} else {
		switch op {
		case token.GTR:
			b.hi = c - 1
		case token.GEQ:
			b.hi = c
		case token.LSS:
			b.lo = c + 1
		case token.LEQ:
			b.lo = c
		case token.EQL:
			b.lo, b.hi = c, c
		}
	}
	return b, true
}

// s2Feasible: the bounds can hold together, given facts (known bounds per polynomial key).
func s2Feasible(bs []s2Bound, facts map[string]s2Bound) bool {
	_, ok := s2Meet(bs, facts)
	return ok
}

// s2ZeroUnder: polynomial d is zero whenever the bounds hold (identically, or because its non-constant part is
// pinned to one value by them).
func s2ZeroUnder(d poly, bs []s2Bound, facts map[string]s2Bound) bool {
	if len(d) == 0 {
		return true
	}
	acc, ok := s2Meet(bs, facts)
	if !ok {
		return true
	}
	c := d[""]
	n := poly{}
	for k, v := range d {
		if k != "" {
			n[k] = v
		}
	}
	if len(n) == 0 {
		return c == 0
	}
	sgn := int64(1)
	b, known := acc[polyKey(n)]
	if !known {
		sgn = -1
		b, known = acc[polyKey(poly{}.add(n, -1))]
	}
	return known && b.lo == b.hi && sgn*b.lo+c == 0
}

func s2Meet(bs []s2Bound, facts map[string]s2Bound) (map[string]s2Bound, bool) {
	acc := map[string]s2Bound{}
	for k, f := range facts {
		acc[k] = f
	}
	for _, b := range bs {
		cur, ok := acc[b.key]
		if !ok {
			cur = s2Bound{b.key, -s2Inf, s2Inf}
		}
		if b.lo > cur.lo {
			cur.lo = b.lo
		}
		if b.hi < cur.hi {
			cur.hi = b.hi
		}
		if cur.lo > cur.hi {
			return nil, false
		}
		acc[b.key] = cur
	}
	return acc, true
}

// s2NonNeg: n >= 0 on every way into the loop: with the merges in front of the loop resolved edge by edge, n is
// identically zero or the remainder X - Y*(X/Y) of a division computed by the function.
func s2NonNeg(pc *polyCtx, fn *ssa.Function, cl *countedLoop, n poly) bool {
	if len(n) == 0 {
		return true
	}
	var joinPhis []*ssa.Phi
	var joinBlock *ssa.BasicBlock
	for _, l := range pc.leaves {
		if ph, isPhi := l.(*ssa.Phi); isPhi && !cl.loop.Blocks[ph.Block()] && n.mentions(pc.leaf(ph)) {
			if joinBlock != nil && ph.Block() != joinBlock {
				return false
			}
			joinBlock = ph.Block()
			joinPhis = append(joinPhis, ph)
		}
	}
	nConf := 1
	if joinBlock != nil {
		nConf = len(joinBlock.Preds)
	}
	for k := 0; k < nConf; k++ {
		sub := map[string]poly{}
		for _, ph := range joinPhis {
			sub[pc.leaf(ph)] = pc.of(ph.Edges[k], 0)
		}
		nk := n.subst(sub)
		if len(nk) == 0 {
			continue
		}
		if c, isC := nk.constant(); isC && c >= 0 {
			continue
		}
		rem := false
		core.AllInstrs(fn, func(in ssa.Instruction) {
			q, ok := in.(*ssa.BinOp)
			if !ok || q.Op != token.QUO {
				return
			}
			X, Y := pc.of(q.X, 0).subst(sub), pc.of(q.Y, 0).subst(sub)
			if nk.eq(X.add(Y.mul(pc.leafPoly(q)), -1)) {
				rem = true
			}
		})
		if !rem {
			return false
		}
	}
	return true
}
