package rules

// I1 — the executor never hands an empty range to the work function: a difference-bound analysis
// of the values that reach work(start, end) shows end - start >= 1 on every path.

import (
	"fmt"
	"go/token"
	"strings"

	"golang.org/x/tools/go/ssa"

	"verif/checker/core"
)

type dbound struct {
	fn        *ssa.Function
	startCell *ssa.Alloc // per-iteration cell holding start (captured form)
	startVal  ssa.Value  // value form
	endCell   *ssa.Alloc
	notes     []string
	assume    func(ssa.Value) (int64, bool) // lower bounds taken from the property's preconditions
}

const negInf = int64(-1) << 60

// lower: a lower bound of the integer value v (negInf = unknown).
func (d *dbound) lower(v ssa.Value, at *ssa.BasicBlock, seen map[ssa.Value]bool) int64 {
	l := d.lower0(v, at, seen)
	if r, ok := domRefinement(d.fn, v, at); ok && r > l {
		l = r
	}
	return l
}

// domRefinement: the strongest lower bound on v implied by comparisons of v with constants whose outcome is fixed
// on every path to block `at` (the taken successor has the test block as its only predecessor and dominates `at`).
func domRefinement(fn *ssa.Function, v ssa.Value, at *ssa.BasicBlock) (int64, bool) {
	if at == nil {
		return 0, false
	}
	best, found := int64(0), false
	for _, b := range fn.Blocks {
		ifi, ok := b.Instrs[len(b.Instrs)-1].(*ssa.If)
		if !ok || b.Succs[0] == b.Succs[1] {
			continue
		}
		cmp, ok := ifi.Cond.(*ssa.BinOp)
		if !ok || (cmp.X != v && cmp.Y != v) {
			continue
		}
		for si, succ := range b.Succs {
			if len(succ.Preds) != 1 || !succ.Dominates(at) {
				continue
			}
			if r, ok := cmpLower(cmp, v, si == 0); ok && (!found || r > best) {
				best, found = r, true
			}
		}
	}
	return best, found
}

func (d *dbound) lower0(v ssa.Value, at *ssa.BasicBlock, seen map[ssa.Value]bool) int64 {
	if seen[v] {
		return negInf
	}
	seen[v] = true
	defer delete(seen, v)
	if _, isC := v.(*ssa.Const); isC {
		if k, ok := core.ConstInt(v); ok {
			return k
		}
		return negInf
	}
	switch x := v.(type) {
	case *ssa.Convert:
		return d.lower(x.X, at, seen)
	case *ssa.UnOp:
		// a cell that is assigned once (a per-iteration copy, possibly read inside the spawned literal)
		if x.Op == token.MUL {
			var cell *ssa.Alloc
			switch a := x.X.(type) {
			case *ssa.Alloc:
				cell = a
			case *ssa.FreeVar:
				cell, _ = core.FreeVarBinding(a).(*ssa.Alloc)
			}
			if cell != nil {
				if sts := storesInto(cell); len(sts) == 1 {
					return d.lower(sts[0].Val, sts[0].Block(), seen)
				}
			}
		}
	case *ssa.Phi:
		lo := int64(1) << 60
		for i, e := range x.Edges {
			l := d.lower(e, x.Block().Preds[i], seen)
			if r, ok := edgeRefinement(x, i, e); ok && r > l {
				l = r
			}
			if l < lo {
				lo = l
			}
		}
		return lo
	case *ssa.BinOp:
		switch x.Op {
		case token.ADD:
			a, b := d.lower(x.X, x.Block(), seen), d.lower(x.Y, x.Block(), seen)
			if a == negInf || b == negInf {
				return negInf
			}
			return a + b
		case token.MUL:
			a, b := d.lower(x.X, x.Block(), seen), d.lower(x.Y, x.Block(), seen)
			if a >= 0 && b >= 0 {
				return a * b
			}
		case token.QUO:
			// X / Y >= 1 when 1 <= Y <= X (a task count clamped to the iteration count); >= 0 when X >= 0 and Y >= 1
			if b := d.lower(x.Y, x.Block(), seen); b >= 1 {
				if leqValue(x.Y, x.X, x.Block()) {
					return 1
				}
				if a := d.lower(x.X, x.Block(), seen); a >= 0 {
					return 0
				}
			}
		case token.REM:
			if b := d.lower(x.Y, x.Block(), seen); b >= 1 {
				if a := d.lower(x.X, x.Block(), seen); a >= 0 {
					return 0
				}
			}
		}
	case *ssa.Call:
		if b, isB := x.Call.Value.(*ssa.Builtin); isB && (b.Name() == "len" || b.Name() == "cap") {
			return 0
		}
	}
	if d.assume != nil {
		if k, ok := d.assume(v); ok {
			return k
		}
	}
	return negInf
}

// leqValue: y <= x holds at block `at`: y is x; or a comparison of y with x whose outcome is fixed on every path
// to `at` says so; or y is a phi each of whose incoming values is x or is bounded by x on its edge (min(y0, x)).
func leqValue(y, x ssa.Value, at *ssa.BasicBlock) bool {
	y, x = core.StripConv(y), core.StripConv(x)
	if y == x {
		return true
	}
	says := func(cmp *ssa.BinOp, e ssa.Value, outcome bool) bool {
		op := cmp.Op
		switch {
		case core.StripConv(cmp.X) == e && core.StripConv(cmp.Y) == x:
		case core.StripConv(cmp.Y) == e && core.StripConv(cmp.X) == x:
			switch op {
			case token.LSS:
				op = token.GTR
			case token.LEQ:
				op = token.GEQ
			case token.GTR:
				op = token.LSS
			case token.GEQ:
				op = token.LEQ
			}
		default:
			return false
		}
		if !outcome {
			op = negateCmp(op)
		}
		return op == token.LEQ || op == token.LSS || op == token.EQL
	}
	if at != nil {
		if fn := at.Parent(); fn != nil {
			for _, b := range fn.Blocks {
				ifi, ok := b.Instrs[len(b.Instrs)-1].(*ssa.If)
				if !ok || b.Succs[0] == b.Succs[1] {
					continue
				}
				cmp, ok := ifi.Cond.(*ssa.BinOp)
				if !ok {
					continue
				}
				for si, succ := range b.Succs {
					if len(succ.Preds) == 1 && succ.Dominates(at) && says(cmp, y, si == 0) {
						return true
					}
				}
			}
		}
	}
	if phi, isPhi := y.(*ssa.Phi); isPhi {
		for i, e := range phi.Edges {
			e = core.StripConv(e)
			if e == x {
				continue
			}
			pred := phi.Block().Preds[i]
			ok := false
			// the edge itself is one arm of a comparison of e with x
			if ifi, isIf := pred.Instrs[len(pred.Instrs)-1].(*ssa.If); isIf && pred.Succs[0] != pred.Succs[1] {
				if cmp, isCmp := ifi.Cond.(*ssa.BinOp); isCmp && says(cmp, e, pred.Succs[0] == phi.Block()) {
					ok = true
				}
			}
			if !ok {
				if _, isPhi2 := e.(*ssa.Phi); !isPhi2 && leqValue(e, x, pred) {
					ok = true
				}
			}
			if !ok {
				return false
			}
		}
		return true
	}
	return false
}

func negateCmp(op token.Token) token.Token {
	switch op {
	case token.LSS:
		return token.GEQ
	case token.LEQ:
		return token.GTR
	case token.GTR:
		return token.LEQ
	case token.GEQ:
		return token.LSS
	case token.EQL:
		return token.NEQ
	case token.NEQ:
		return token.EQL
	}
	return op
}

// edgeRefinement: what the branch taken into the phi's block says about the incoming value e of edge i.
func edgeRefinement(phi *ssa.Phi, i int, e ssa.Value) (int64, bool) {
	pred := phi.Block().Preds[i]
	ifi, ok := pred.Instrs[len(pred.Instrs)-1].(*ssa.If)
	if !ok {
		return 0, false
	}
	cmp, ok := ifi.Cond.(*ssa.BinOp)
	if !ok {
		return 0, false
	}
	onTrue := pred.Succs[0] == phi.Block()
	if pred.Succs[0] == pred.Succs[1] {
		return 0, false
	}
	return cmpLower(cmp, e, onTrue)
}

// cmpLower: the lower bound on e implied by the comparison cmp (of e with a constant) having the given outcome.
func cmpLower(cmp *ssa.BinOp, e ssa.Value, outcome bool) (int64, bool) {
	op := cmp.Op
	var k int64
	switch {
	case cmp.X == e:
		kk, isK := core.ConstInt(cmp.Y)
		if !isK {
			return 0, false
		}
		k = kk
	case cmp.Y == e:
		kk, isK := core.ConstInt(cmp.X)
		if !isK {
			return 0, false
		}
		k = kk
		switch op {
		case token.LSS:
			op = token.GTR
		case token.LEQ:
			op = token.GEQ
		case token.GTR:
			op = token.LSS
		case token.GEQ:
			op = token.LEQ
		}
	default:
		return 0, false
	}
	if !outcome {
		switch op {
		case token.LSS:
			op = token.GEQ
		case token.LEQ:
			op = token.GTR
		case token.GTR:
			op = token.LEQ
		case token.GEQ:
			op = token.LSS
		case token.EQL:
			op = token.NEQ
		case token.NEQ:
			op = token.EQL
		}
	}
	switch op {
	case token.GEQ, token.EQL:
		return k, true
	case token.GTR:
		return k + 1, true
	}
	return 0, false
}

// diff: a lower bound of v - start (negInf = unknown).
func (d *dbound) diff(v ssa.Value, seen map[ssa.Value]bool) int64 {
	if seen[v] {
		return negInf
	}
	seen[v] = true
	defer delete(seen, v)
	if d.startVal != nil && v == d.startVal {
		return 0
	}
	switch x := v.(type) {
	case *ssa.UnOp:
		if x.Op != token.MUL {
			return negInf
		}
		if d.startCell != nil && x.X == ssa.Value(d.startCell) {
			return 0
		}
		if fv, isFV := x.X.(*ssa.FreeVar); isFV {
			if cell, isCell := core.FreeVarBinding(fv).(*ssa.Alloc); isCell {
				if d.startCell != nil && cell == d.startCell {
					return 0
				}
				if sts := storesInto(cell); len(sts) == 1 && cell != d.endCell {
					return d.diff(sts[0].Val, seen)
				}
			}
		}
		if d.endCell != nil && x.X == ssa.Value(d.endCell) {
			// the stores of this iteration that can reach the load
			lo := int64(1) << 60
			n := 0
			for _, st := range storesInto(d.endCell) {
				cut := core.NewCuts()
				cut.AddInstr(d.endCell)
				if !core.ReachableAvoiding(d.fn, st, cut, x) {
					continue
				}
				n++
				if l := d.diff(st.Val, seen); l < lo {
					lo = l
				}
			}
			if n == 0 {
				return negInf
			}
			return lo
		}
	case *ssa.Convert:
		return d.diff(x.X, seen)
	case *ssa.Phi:
		lo := int64(1) << 60
		for _, e := range x.Edges {
			if l := d.diff(e, seen); l < lo {
				lo = l
			}
		}
		return lo
	case *ssa.BinOp:
		switch x.Op {
		case token.ADD:
			if a := d.diff(x.X, seen); a != negInf {
				if b := d.lower(x.Y, x.Block(), map[ssa.Value]bool{}); b != negInf {
					return a + b
				}
			}
			if b := d.diff(x.Y, seen); b != negInf {
				if a := d.lower(x.X, x.Block(), map[ssa.Value]bool{}); a != negInf {
					return a + b
				}
			}
		case token.SUB:
			if a := d.diff(x.X, seen); a != negInf {
				if k, isK := core.ConstInt(x.Y); isK {
					if _, isC := x.Y.(*ssa.Const); isC {
						return a - k
					}
				}
			}
		}
	}
	return negInf
}

// RuleI1 — non-empty ranges.
func RuleI1(c *Ctx) {
	c.Rule("I1", "non-empty ranges: for the work(start, end) call of parallel.Execute's spawned function, a difference-bound analysis over the values stored into the per-iteration range cells (constants, sums, phi merges refined by the guarding comparisons) shows end - start >= 1 on every path; nothing else about the ranges (cover of [0,n), end <= n) is decided by it")
	fn := c.P.Fn("common/parallel", "", "Execute")
	if fn == nil {
		c.Unresolved("I1", "parallel.Execute")
		return
	}
	c.Saw(core.FnName(fn))
	var gos []*ssa.Go
	core.AllInstrs(fn, func(i ssa.Instruction) {
		if g, ok := i.(*ssa.Go); ok {
			gos = append(gos, g)
		}
	})
	n := 0
	for gi, g := range gos {
		key := fmt.Sprintf("Execute:spawn#%d:end-start>=1", gi)
		tgt, mc := closureOf(g.Call.Value)
		if tgt == nil {
			c.Und("I1", key, g.Pos(), "cannot resolve the spawned function")
			continue
		}
		var work *ssa.Call
		for _, ci := range core.CallsIn(tgt) {
			cc := ci.Common()
			if call, isCall := ci.(*ssa.Call); isCall && !cc.IsInvoke() && core.Callee(cc) == nil && isFuncParamValue(cc.Value) && len(cc.Args) == 2 {
				work = call
			}
		}
		if work == nil {
			c.Und("I1", key, g.Pos(), "the spawned function does not call work(start, end)")
			continue
		}
		n++
		d := &dbound{fn: fn, assume: executorAssume}
		// resolve the two arguments to what the parent supplies
		resolve := func(a ssa.Value) (cell *ssa.Alloc, val ssa.Value) {
			if u, isLoad := a.(*ssa.UnOp); isLoad && u.Op == token.MUL {
				if fv, isFV := u.X.(*ssa.FreeVar); isFV {
					if al, isAl := core.FreeVarBinding(fv).(*ssa.Alloc); isAl {
						return al, nil
					}
				}
			}
			if p, isP := a.(*ssa.Parameter); isP {
				for i, q := range tgt.Params {
					if q == p && i < len(g.Call.Args) {
						return nil, g.Call.Args[i]
					}
				}
			}
			return nil, nil
		}
		sc, sv := resolve(work.Call.Args[0])
		ec, ev := resolve(work.Call.Args[1])
		_ = mc
		if ec == nil && ev == nil {
			// an expression computed inside the literal from captured per-iteration values (work(start, start+size))
			if _, isBin := work.Call.Args[1].(*ssa.BinOp); isBin {
				ev = work.Call.Args[1]
			}
		}
		if (sc == nil && sv == nil) || (ec == nil && ev == nil) {
			c.Und("I1", key, work.Pos(), "cannot trace the arguments of work back to values of Execute")
			continue
		}
		d.startCell, d.startVal, d.endCell = sc, sv, ec
		if sc != nil {
			// the start cell is written once per iteration
			if sts := storesInto(sc); len(sts) == 1 {
				d.startVal = sts[0].Val
			} else {
				c.Und("I1", key, work.Pos(), fmt.Sprintf("the start cell is stored %d times; the analysis expects one definition per iteration", len(sts)))
				continue
			}
		}
		lo := int64(1) << 60
		var parts []string
		if ec != nil {
			for _, st := range storesInto(ec) {
				// only the stores that can still be the value at spawn time
				l := d.diff(st.Val, map[ssa.Value]bool{})
				parts = append(parts, fmt.Sprintf("store at %s: end-start >= %s", c.P.Pos(st.Pos()), showBound(l)))
				if l < lo {
					lo = l
				}
			}
			if len(storesInto(ec)) == 0 {
				lo = negInf
			}
		} else {
			lo = d.diff(ev, map[ssa.Value]bool{})
			parts = append(parts, "end-start >= "+showBound(lo))
		}
		if lo >= 1 {
			c.OK("I1", key, work.Pos(), strings.Join(parts, "; "))
		} else {
			c.Und("I1", key, work.Pos(), "cannot show that every range handed to the work function is non-empty (end - start >= 1): "+strings.Join(parts, "; ")+" — a task may be started with an empty or inverted range")
		}
	}
	// work called by Execute itself (a range processed on the calling goroutine)
	di := 0
	for _, ci := range core.CallsIn(fn) {
		call, isCall := ci.(*ssa.Call)
		cc := ci.Common()
		if !isCall || cc.IsInvoke() || core.Callee(cc) != nil || !isFuncParamValue(cc.Value) || len(cc.Args) != 2 {
			continue
		}
		n++
		key := fmt.Sprintf("Execute:inline-call#%d:end-start>=1", di)
		di++
		d := &dbound{fn: fn, startVal: call.Call.Args[0], assume: executorAssume}
		lo := d.diff(call.Call.Args[1], map[ssa.Value]bool{})
		if lo >= 1 {
			c.OK("I1", key, call.Pos(), "end-start >= "+showBound(lo))
		} else {
			c.Und("I1", key, call.Pos(), "cannot show that the range Execute processes itself is non-empty (end - start >= "+showBound(lo)+"): with an empty input the work function is still called")
		}
	}
	c.FloorN("I1", 1, n, "calls of work")
}

func showBound(l int64) string {
	if l == negInf || l < -(int64(1)<<50) {
		return "unknown"
	}
	return fmt.Sprint(l)
}

// RuleI2 — divisors of the executor's range arithmetic are at least 1.
func RuleI2(c *Ctx) {
	c.Rule("I2", "no division by zero in parallel.Execute: under the property's preconditions (iteration count >= 0, worker limit >= 1, NumCPU >= 1) an interval analysis shows every divisor of a / or % to be >= 1 — in particular for an empty input (nbIterations = 0), which the batch helpers pass on")
	fn := c.P.Fn("common/parallel", "", "Execute")
	if fn == nil {
		c.Unresolved("I2", "parallel.Execute")
		return
	}
	c.Saw(core.FnName(fn))
	d := &dbound{fn: fn}
	d.assume = executorAssume
	n := 0
	for _, f := range core.Family(fn) {
		core.AllInstrs(f, func(i ssa.Instruction) {
			bo, ok := i.(*ssa.BinOp)
			if !ok || (bo.Op != token.QUO && bo.Op != token.REM) {
				return
			}
			if _, isC := bo.Y.(*ssa.Const); isC {
				return
			}
			n++
			key := fmt.Sprintf("Execute:divisor@%s", c.relInFn(fn, bo.Pos()))
			lo := d.lower(bo.Y, bo.Block(), map[ssa.Value]bool{})
			if lo >= 1 {
				c.OK("I2", key, bo.Pos(), fmt.Sprintf("divisor >= %d", lo))
			} else {
				c.Und("I2", key, bo.Pos(), fmt.Sprintf("cannot show that the divisor of %s is at least 1 (lower bound %s): with an empty input or more workers than iterations the executor may divide by zero", bo.Op, showBound(lo)))
			}
		})
	}
	c.FloorN("I2", 1, n, "divisions in the executor")
}

// executorAssume: the lower bounds the property's quantifier gives (n >= 0, m >= 1, NumCPU >= 1).
func executorAssume(v ssa.Value) (int64, bool) {
	{
		switch x := v.(type) {
		case *ssa.Parameter:
			if x.Name() == "nbIterations" {
				return 0, true
			}
		case *ssa.Call:
			if f := x.Call.StaticCallee(); f != nil && f.Pkg != nil && f.Pkg.Pkg.Path() == "runtime" && f.Name() == "NumCPU" {
				return 1, true
			}
		case *ssa.UnOp:
			// maxCpus[0]: the explicit worker limit, m >= 1 by the property's quantifier
			if ia, ok := x.X.(*ssa.IndexAddr); ok && x.Op == token.MUL {
				if p, isP := ia.X.(*ssa.Parameter); isP && p.Name() == "maxCpus" {
					return 1, true
				}
			}
		}
		return 0, false
	}
}
