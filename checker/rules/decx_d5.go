package rules

import (
	"fmt"
	"go/constant"
	"go/token"
	"go/types"
	"regexp"
	"strings"

	"golang.org/x/tools/go/ssa"

	"verif/checker/core"
)

func constInt64(k *types.Const) (int64, bool) {
	if k.Val().Kind() != constant.Int {
		return 0, false
	}
	return constant.Int64Val(k.Val())
}

type layoutEvent struct {
	field string // D, L, R, A_scalar
	kind  string // P (compressed point) / S_LE (little-endian scalar)
	count string // "1", "8", "all"
	at    ssa.Instruction
}

func (e layoutEvent) String() string { return e.field + ":" + e.kind + "x" + e.count }

// anchorBlock: outermost loop header containing i, or its own block.
func anchorBlock(loops []*core.Loop, i ssa.Instruction) *ssa.BasicBlock {
	if l := core.OutermostLoop(loops, i.Block()); l != nil {
		return l.Header
	}
	return i.Block()
}

// orderEvents sorts instructions by "happens before in every execution"; returns false when not totally ordered.
func orderEvents(fn *ssa.Function, evs []layoutEvent) ([]layoutEvent, bool) {
	loops := core.Loops(fn)
	before := func(a, b ssa.Instruction) bool {
		aa, ab := anchorBlock(loops, a), anchorBlock(loops, b)
		if aa == ab {
			if a.Block() == b.Block() {
				return core.CanReach(fn, a, b) && !core.CanReach(fn, b, a)
			}
			return false
		}
		return aa.Dominates(ab) && !core.CanReach(fn, b, a)
	}
	out := append([]layoutEvent{}, evs...)
	total := true
	for i := 0; i < len(out); i++ {
		for j := i + 1; j < len(out); j++ {
			if out[i].at == out[j].at {
				continue // spliced from one callee: already ordered
			}
			switch {
			case before(out[j].at, out[i].at):
				out[i], out[j] = out[j], out[i]
			case !before(out[i].at, out[j].at):
				total = false
			}
		}
	}
	return out, total
}

var fieldRe = regexp.MustCompile(`p:[A-Za-z_]+\.([A-Za-z_]+)`)

var spillRe = regexp.MustCompile(`\*\(&p:([A-Za-z_][A-Za-z_0-9]*)\)`)

func fieldOfPath(p string) string {
	// a parameter that lives in a cell because a literal captures it is still that parameter
	p = spillRe.ReplaceAllString(p, "p:$1")
	if m := fieldRe.FindStringSubmatch(p); m != nil {
		return m[1]
	}
	return ""
}

// loopCount: the constant trip count / "all" (ranging over the field itself) of the loop containing i.
func loopCount(fn *ssa.Function, i ssa.Instruction, field string) string {
	loops := core.Loops(fn)
	l := core.InnermostLoop(loops, i.Block())
	if l == nil {
		return "1"
	}
	for _, cl := range countedLoops(fn) {
		if cl.loop.Header != l.Header {
			continue
		}
		if k, ok := cl.tripCount(); ok {
			return fmt.Sprint(k)
		}
		if x, isLen := core.IsLenOf(cl.bound); isLen && fieldOfPath(core.PathOf(x)) == field {
			if z, isZ := core.ConstInt(cl.init); isZ && z == 0 && cl.step == 1 && cl.op == token.LSS {
				if k, ok := freshFieldLen(fn, x, l.Header); ok {
					return fmt.Sprint(k) // the field was given a fresh slice of constant length before the loop
				}
				return "all"
			}
		}
	}
	return "?"
}

func (c *Ctx) writerLayout(fn *ssa.Function, depth int) (evs []layoutEvent, bad []string) {
	c.Saw(core.FnName(fn))
	// where the bytes may go: the function's io.Writer parameter, or a local bytes.Buffer whose whole content is
	// handed to that parameter afterwards (buf.WriteTo(w) / w.Write(buf.Bytes()))
	var wparam *ssa.Parameter
	for _, p := range fn.Params {
		if it, isIface := p.Type().Underlying().(*types.Interface); isIface && it.NumMethods() > 0 {
			for i := 0; i < it.NumMethods(); i++ {
				if it.Method(i).Name() == "Write" {
					wparam = p
				}
			}
		}
	}
	unwrap := func(v ssa.Value) ssa.Value {
		for d := 0; d < 4; d++ {
			switch x := v.(type) {
			case *ssa.MakeInterface:
				v = x.X
			case *ssa.ChangeInterface:
				v = x.X
			default:
				return v
			}
		}
		return v
	}
	flushOf := map[ssa.Value]*ssa.Call{} // local buffer -> the call that hands it to the writer parameter
	isLocalBuf := func(v ssa.Value) bool {
		if !strings.HasSuffix(v.Type().String(), "*bytes.Buffer") {
			return false
		}
		switch x := v.(type) {
		case *ssa.Alloc:
			return true
		case *ssa.Call:
			return core.IsFunc(core.Callee(x.Common()), "bytes", "NewBuffer")
		}
		return false
	}
	for _, ci := range core.CallsIn(fn) {
		call, ok := ci.(*ssa.Call)
		if !ok || wparam == nil {
			continue
		}
		cc := call.Common()
		f := core.Callee(cc)
		switch {
		case core.IsMethod(f, "bytes", "Buffer", "WriteTo") && len(cc.Args) == 2 && unwrap(cc.Args[1]) == ssa.Value(wparam) && isLocalBuf(cc.Args[0]):
			flushOf[cc.Args[0]] = call
		case cc.IsInvoke() && cc.Method.Name() == "Write" && cc.Value == ssa.Value(wparam) && len(cc.Args) == 1:
			if bc, isCall := cc.Args[0].(*ssa.Call); isCall && core.IsMethod(core.Callee(bc.Common()), "bytes", "Buffer", "Bytes") && isLocalBuf(bc.Call.Args[0]) {
				flushOf[bc.Call.Args[0]] = call
			}
		}
	}
	// sink: "" (not a place the proof's bytes may go), "param", or "buffer"
	var buffered []*ssa.Call
	sink := func(v ssa.Value, at *ssa.Call) string {
		v = unwrap(v)
		if wparam != nil && v == ssa.Value(wparam) {
			return "param"
		}
		if _, ok := flushOf[v]; ok {
			buffered = append(buffered, at)
			return "buffer"
		}
		return ""
	}
	defer func() {
		// buffered fields reach the writer only through the flush: it comes after every one of them and lies on
		// every way to a success return
		seen := map[*ssa.Call]bool{}
		for _, fl := range flushOf {
			if seen[fl] {
				continue
			}
			seen[fl] = true
			for _, b := range buffered {
				if !core.Precedes(fn, b, fl) {
					bad = append(bad, "a field is put into the local buffer at "+c.P.Pos(b.Pos())+" but the buffer is handed to the writer at "+c.P.Pos(fl.Pos())+", which does not come after it on every path")
				}
			}
			cut := core.NewCuts()
			cut.AddInstr(fl)
			for _, r := range successReturns(fn) {
				if len(buffered) > 0 && !core.MustPass(fn, cut, r) {
					bad = append(bad, "a success return at "+c.P.Pos(r.Pos())+" is reachable without handing the local buffer to the writer")
				}
			}
		}
	}()
	for _, ci := range core.CallsIn(fn) {
		call, ok := ci.(*ssa.Call)
		if !ok {
			continue
		}
		f := core.Callee(call.Common())
		// raw form: w.Write(buf[:]) on the io.Writer (or on a local buffer), buf a local holding an encoder result
		rawWrite := false
		var dest ssa.Value
		if cc := call.Common(); cc.IsInvoke() && cc.Method.Name() == "Write" && len(cc.Args) == 1 {
			if _, isParam := cc.Value.(*ssa.Parameter); isParam {
				rawWrite = true
				dest = cc.Value
			}
		} else if core.IsMethod(f, "bytes", "Buffer", "Write") && len(cc.Args) == 2 {
			if _, isFlushed := flushOf[cc.Args[0]]; isFlushed {
				rawWrite = true
				dest = cc.Args[0]
			}
		}
		if rawWrite && flushOf != nil {
			// the flush itself is not a field
			isFlush := false
			for _, fl := range flushOf {
				if fl == call {
					isFlush = true
				}
			}
			if isFlush {
				continue
			}
		}
		switch {
		case core.IsFunc(f, "encoding/binary", "Write") || rawWrite:
			if !rawWrite {
				dest = call.Call.Args[0]
			}
			if sink(dest, call) == "" {
				bad = append(bad, "a field is written to something other than the function's writer (or a local buffer handed to it) at "+c.P.Pos(call.Pos()))
				continue
			}
			// data argument: interface made from the result of an encoder call
			var data ssa.Value
			if rawWrite {
				data = call.Call.Args[len(call.Call.Args)-1]
				if sl, isSl := data.(*ssa.Slice); isSl && wholeSlice(sl) {
					if a, isAlloc := sl.X.(*ssa.Alloc); isAlloc {
						if sts := allStoresTo(fn, a); len(sts) == 1 {
							data = sts[0].Val
						}
					}
				}
			} else {
				data = call.Call.Args[2]
			}
			if mi, ok := data.(*ssa.MakeInterface); ok {
				data = mi.X
			}
			enc, ok := data.(*ssa.Call)
			if !ok {
				bad = append(bad, "write of something that is not a complete encoder result at "+c.P.Pos(call.Pos()))
				continue
			}
			ef := core.Callee(enc.Common())
			kind := ""
			switch {
			case core.IsMethod(ef, "/banderwagon", "Element", "Bytes"):
				kind = "P"
			case core.IsMethod(ef, "bandersnatch/fr", "Element", "BytesLE"):
				kind = "S_LE"
			default:
				bad = append(bad, fmt.Sprintf("field written with %s (neither Element.Bytes nor fr.BytesLE) at %s", core.CalleeName(enc.Common()), c.P.Pos(call.Pos())))
				continue
			}
			src := enc.Call.Args[0]
			path := core.PathOf(src)
			if u, isLoad := src.(*ssa.UnOp); isLoad {
				path = core.SourcePath(u.X)
			}
			field := fieldOfPath(path)
			if field == "" {
				bad = append(bad, "cannot tell which field is written at "+c.P.Pos(call.Pos())+" ("+path+")")
				continue
			}
			evs = append(evs, layoutEvent{field, kind, loopCount(fn, call, field), call})
		case core.IsMethod(f, "/ipa", "IPAProof", "Write") && depth < 3:
			sub, sb := c.writerLayout(f, depth+1)
			bad = append(bad, sb...)
			if len(call.Call.Args) < 2 || sink(call.Call.Args[1], call) == "" {
				bad = append(bad, "IPAProof.Write is given something other than the function's writer (or a local buffer handed to it) at "+c.P.Pos(call.Pos()))
			}
			if fieldOfPath(core.PathOf(call.Call.Args[0])) != "IPA" {
				bad = append(bad, "IPAProof.Write not applied to the IPA field")
			}
			so, total := orderEvents(f, sub)
			if !total {
				bad = append(bad, "writer events of IPAProof.Write are not totally ordered")
			}
			for _, e := range so {
				e.at = call
				evs = append(evs, e)
			}
		}
	}
	return evs, bad
}

func (c *Ctx) readerLayout(fn *ssa.Function, depth int) ([]layoutEvent, []string) {
	var evs []layoutEvent
	var bad []string
	c.Saw(core.FnName(fn))
	through := func(call *ssa.Call, argIdx int) bool { return false }
	for _, ci := range core.CallsIn(fn) {
		call, ok := ci.(*ssa.Call)
		if !ok {
			continue
		}
		f := core.Callee(call.Common())
		kind := ""
		switch {
		case core.IsFunc(f, "/common", "ReadPoint"):
			kind = "P"
		case core.IsFunc(f, "/common", "ReadScalar"):
			kind = "S_LE"
		case core.IsMethod(f, "/ipa", "IPAProof", "Read") && depth < 3:
			sub, sb := c.readerLayout(f, depth+1)
			bad = append(bad, sb...)
			if fieldOfPath(core.PathOf(call.Call.Args[0])) != "IPA" {
				bad = append(bad, "IPAProof.Read not applied to the IPA field")
			}
			so, total := orderEvents(f, sub)
			if !total {
				bad = append(bad, "reader events of IPAProof.Read are not totally ordered")
			}
			for _, e := range so {
				e.at = call
				evs = append(evs, e)
			}
			continue
		default:
			continue
		}
		// which field receives the decoded value?
		var res ssa.Value
		for _, r := range core.Refs(call) {
			if ex, ok := r.(*ssa.Extract); ok && ex.Index == 0 {
				res = ex
			}
		}
		if res == nil {
			bad = append(bad, "decoded value dropped at "+c.P.Pos(call.Pos()))
			continue
		}
		// the decoded value may be placed into an element of a local slice that is stored into the field afterwards
		roots := []ssa.Value{res}
		reach := core.ReachFrom(roots, through)
		for round := 0; round < 4; round++ {
			grew := false
			core.AllInstrs(fn, func(i ssa.Instruction) {
				if st, ok := i.(*ssa.Store); ok && reach[st.Val] {
					if ia, ok := st.Addr.(*ssa.IndexAddr); ok && !reach[ia.X] {
						if _, isParam := ia.X.(*ssa.Parameter); !isParam {
							roots = append(roots, ia.X)
							grew = true
						}
					}
				}
			})
			if !grew {
				break
			}
			reach = core.ReachFrom(roots, through)
		}
		fields := map[string]bool{}
		core.AllInstrs(fn, func(i ssa.Instruction) {
			if st, ok := i.(*ssa.Store); ok && reach[st.Val] {
				if fa, ok := st.Addr.(*ssa.FieldAddr); ok {
					if _, isParam := fa.X.(*ssa.Parameter); isParam {
						fields[fieldOfPath(core.PathOf(fa))] = true
					}
				}
				// an element of the slice a receiver field holds (the field was given a fresh slice first)
				if ia, ok := st.Addr.(*ssa.IndexAddr); ok {
					if ld, isLd := ia.X.(*ssa.UnOp); isLd && ld.Op == token.MUL {
						if fa, isFA := ld.X.(*ssa.FieldAddr); isFA {
							if _, isParam := fa.X.(*ssa.Parameter); isParam {
								fields[fieldOfPath(core.PathOf(fa))] = true
							}
						}
					}
				}
			}
		})
		if len(fields) != 1 {
			bad = append(bad, fmt.Sprintf("value read at %s is stored into %d receiver fields", c.P.Pos(call.Pos()), len(fields)))
			continue
		}
		field := core.SortedKeys(fields)[0]
		evs = append(evs, layoutEvent{field, kind, loopCount(fn, call, field), call})
	}
	return evs, bad
}

func layoutString(evs []layoutEvent, generic bool) string {
	var parts []string
	for _, e := range evs {
		cnt := e.count
		if generic && cnt != "1" {
			cnt = "n"
		}
		parts = append(parts, e.field+":"+e.kind+"x"+cnt)
	}
	return strings.Join(parts, " ")
}

// RuleD5 — layout agreement between writers and readers and with the protocol constants.
func RuleD5(c *Ctx) {
	c.Rule("D5", "layout agreement: the field sequence and encoding kinds extracted from MultiProof.Write/IPAProof.Write equal those extracted from the readers and the specified order D | L.. | R.. | a; the reader's loop counts equal log2(VectorLength); ReadPoint/ReadScalar read exactly CompressedSize / fr.Bytes bytes through the validating / canonical decoder")
	w := c.P.Fn("", "MultiProof", "Write")
	r := c.P.Fn("", "MultiProof", "Read")
	if w == nil || r == nil {
		c.Unresolved("D5", "MultiProof.Write/Read")
		return
	}
	wev, wbad := c.writerLayout(w, 0)
	rev, rbad := c.readerLayout(r, 0)
	wev, wt := orderEvents(w, wev)
	rev, rt := orderEvents(r, rev)
	for _, b := range append(wbad, rbad...) {
		c.Und("D5", "layout:extraction:"+b, w.Pos(), b)
	}
	if !wt || !rt {
		c.Und("D5", "layout:order", w.Pos(), "serialisation events are not totally ordered (conditional or interleaved writes/reads)")
	}
	ws, rs := layoutString(wev, true), layoutString(rev, true)
	c.Check(ws == rs, "D5", "MultiProof:writer=reader", r.Pos(), fmt.Sprintf("writer emits %q but reader expects %q", ws, rs), "writer: "+layoutString(wev, false), "reader: "+layoutString(rev, false))
	spec := "D:Px1 L:Pxn R:Pxn A_scalar:S_LEx1"
	c.Check(ws == spec, "D5", "MultiProof:writer=spec", w.Pos(), fmt.Sprintf("writer layout %q deviates from the specified %q", ws, spec), "spec: "+spec)
	c.Check(rs == spec, "D5", "MultiProof:reader=spec", r.Pos(), fmt.Sprintf("reader layout %q deviates from the specified %q", rs, spec), "spec: "+spec)
	// constant loop counts = log2(VectorLength)
	vl := c.constOf("common", "VectorLength")
	rounds := int64(0)
	for x := vl; x > 1; x >>= 1 {
		rounds++
	}
	for _, e := range rev {
		if e.field == "L" || e.field == "R" {
			c.Check(e.count == fmt.Sprint(rounds), "D5", "IPAProof.Read:count:"+e.field, e.at.Pos(), fmt.Sprintf("reader consumes %s %s points; the protocol has log2(VectorLength) = %d rounds", e.count, e.field, rounds), fmt.Sprintf("constant loop bound %s = log2(%d)", e.count, vl))
		}
	}
	// ReadPoint / ReadScalar internals
	c.d5Reader("ReadPoint", c.constOf("banderwagon", "CompressedSize"), func(f *ssa.Function) bool { return core.IsMethod(f, "/banderwagon", "Element", "SetBytes") }, "banderwagon.(*Element).SetBytes (validating)")
	c.d5Reader("ReadScalar", c.constOf("bandersnatch/fr", "Bytes"), func(f *ssa.Function) bool {
		return core.IsMethod(f, "bandersnatch/fr", "Element", "SetBytesLECanonical")
	}, "fr.(*Element).SetBytesLECanonical (canonical)")
	c.FloorN("D5", 4, len(wev), "serialised fields")
}

// RuleD5Point — only the stream reader of points: exactly CompressedSize bytes, through the validating decoder.
func RuleD5Point(c *Ctx) {
	c.Rule("D5", "stream reader of points: common.ReadPoint fills a CompressedSize buffer with one io.ReadAtLeast/ReadFull of the full size (a short read is an error) and decodes it once with the validating banderwagon.(*Element).SetBytes")
	c.d5Reader("ReadPoint", c.constOf("banderwagon", "CompressedSize"), func(f *ssa.Function) bool { return core.IsMethod(f, "/banderwagon", "Element", "SetBytes") }, "banderwagon.(*Element).SetBytes (validating)")
}

func (c *Ctx) d5Reader(name string, size int64, isDecoder func(*ssa.Function) bool, decName string) {
	fn := c.P.Fn("common", "", name)
	if fn == nil {
		c.Unresolved("D5", "common."+name)
		return
	}
	c.Saw(core.FnName(fn))
	ras := findCalls(fn, staticIs("io", "", "ReadAtLeast"))
	ras = append(ras, findCalls(fn, staticIs("io", "", "ReadFull"))...)
	var decs []ssa.CallInstruction
	for _, ci := range core.CallsIn(fn) {
		if isDecoder(core.Callee(ci.Common())) {
			decs = append(decs, ci)
		}
	}
	key := name + ":exact-size-and-decoder"
	if len(ras) != 1 || len(decs) != 1 {
		c.Bad("D5", key, fn.Pos(), fmt.Sprintf("%s must read once with io.ReadAtLeast/ReadFull and decode once with %s; found %d reads, %d such decodes", name, decName, len(ras), len(decs)))
		return
	}
	ra, dec := ras[0], decs[0]
	buf := ra.Common().Args[1]
	ok := true
	var why []string
	// buffer of exactly `size` bytes
	bl := int64(-1)
	switch b := buf.(type) {
	case *ssa.MakeSlice:
		bl, _ = core.ConstInt(b.Len)
	case *ssa.Slice:
		if al, isAl := b.X.(*ssa.Alloc); isAl {
			if at, isArr := al.Type().Underlying().(*types.Pointer).Elem().Underlying().(*types.Array); isArr {
				bl = at.Len()
				if b.High != nil {
					bl, _ = core.ConstInt(b.High)
				}
			}
		}
	}
	if bl != size {
		ok = false
		why = append(why, fmt.Sprintf("buffer length %d != %d", bl, size))
	}
	if core.IsFunc(core.Callee(ra.Common()), "io", "ReadAtLeast") {
		m, isK := core.ConstInt(ra.Common().Args[2])
		if !isK {
			// len(buf) of the same buffer
			if x, isLen := core.IsLenOf(ra.Common().Args[2]); isLen && x == buf && bl >= 0 {
				m, isK = bl, true
			}
		}
		if !isK || m != size {
			ok = false
			why = append(why, fmt.Sprintf("ReadAtLeast minimum %d != %d", m, size))
		}
	}
	// the decoder's input is the buffer, possibly carried through a join whose other edges are nil (error exits)
	given := dec.Common().Args[1]
	if phi, isPhi := given.(*ssa.Phi); isPhi {
		var nonNil []ssa.Value
		for _, e := range phi.Edges {
			if !core.IsNilConst(e) {
				nonNil = append(nonNil, e)
			}
		}
		if len(nonNil) == 1 {
			given = nonNil[0]
		}
	}
	// two whole-array slice expressions of the same local array are the same buffer
	sameWhole := func(a, b ssa.Value) bool {
		sa, okA := a.(*ssa.Slice)
		sb, okB := b.(*ssa.Slice)
		if !okA || !okB || sa.X != sb.X {
			return false
		}
		whole := func(s *ssa.Slice) bool {
			if s.Low != nil {
				if k, isK := core.ConstInt(s.Low); !isK || k != 0 {
					return false
				}
			}
			if s.High == nil {
				return true
			}
			k, isK := core.ConstInt(s.High)
			if !isK {
				return false
			}
			if pt, isPtr := s.X.Type().Underlying().(*types.Pointer); isPtr {
				if at, isArr := pt.Elem().Underlying().(*types.Array); isArr {
					return at.Len() == k
				}
			}
			return false
		}
		return whole(sa) && whole(sb)
	}
	if given != buf && !sameWhole(given, buf) {
		ok = false
		why = append(why, "the decoder is not given the buffer that was read")
	}
	if !core.Precedes(fn, ra, dec) {
		ok = false
		why = append(why, "decode does not follow the read")
	}
	c.Check(ok, "D5", key, ra.Pos(), name+": "+strings.Join(why, "; "), fmt.Sprintf("reads exactly %d bytes", size), "decoded by "+decName)
}

// freshFieldLen: v is a load of a field of a parameter that this function has, on every way to block at, set to a
// freshly made slice of constant length (one store to that field, dominating at).
func freshFieldLen(fn *ssa.Function, v ssa.Value, at *ssa.BasicBlock) (int64, bool) {
	ld, ok := core.StripConv(v).(*ssa.UnOp)
	if !ok || ld.Op != token.MUL {
		return 0, false
	}
	fa, ok := ld.X.(*ssa.FieldAddr)
	if !ok {
		return 0, false
	}
	if _, isParam := fa.X.(*ssa.Parameter); !isParam {
		return 0, false
	}
	want := core.PathOf(fa)
	var sts []*ssa.Store
	core.AllInstrs(fn, func(i ssa.Instruction) {
		if st, isSt := i.(*ssa.Store); isSt {
			if _, isFA := st.Addr.(*ssa.FieldAddr); isFA && core.PathOf(st.Addr) == want {
				sts = append(sts, st)
			}
		}
	})
	if len(sts) != 1 || !(sts[0].Block() == at || sts[0].Block().Dominates(at)) {
		return 0, false
	}
	switch x := sts[0].Val.(type) {
	case *ssa.MakeSlice:
		if k, isK := core.ConstInt(x.Len); isK {
			return k, true
		}
	case *ssa.Slice:
		if a, isAlloc := x.X.(*ssa.Alloc); isAlloc && x.Low == nil {
			if pt, isPtr := a.Type().Underlying().(*types.Pointer); isPtr {
				if arr, isArr := pt.Elem().Underlying().(*types.Array); isArr {
					if x.High == nil {
						return arr.Len(), true
					}
					if k, isK := core.ConstInt(x.High); isK {
						return k, true
					}
				}
			}
		}
	}
	return 0, false
}
