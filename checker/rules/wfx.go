package rules

// wfx — write-effect (mod) analysis, DESIGN §3.1 / §9.3.
//
// Per function family (a declared function plus the literals nested in it) a
// field-insensitive, flow-insensitive inclusion analysis over a coarse heap:
// one collapsed object per parameter ("everything reachable from it at entry"),
// one per package variable, one per allocation site. Summaries
// W(f) ⊆ params ∪ globals, Ret(f) ⊆ params ∪ {fresh}, Esc(f) ⊆ params×params
// are iterated to a global fixpoint.

import (
	"fmt"
	"go/token"
	"go/types"
	"sort"
	"strings"

	"golang.org/x/tools/go/ssa"

	"verif/checker/core"
)

type objKind int

const (
	oParam objKind = iota
	oGlobal
	oLocal
)

type wobj struct {
	kind objKind
	idx  int  // parameter index
	deep bool // parameter objects: memory reached through a pointer loaded out of the parameter's own memory
	name string
	g    *ssa.Global
	site ssa.Value
}

func (o *wobj) String() string {
	switch o.kind {
	case oParam:
		if o.deep {
			return "param:" + o.name + "*"
		}
		return "param:" + o.name
	case oGlobal:
		return "global:" + o.name
	}
	return "local:" + o.name
}

type objset map[*wobj]bool

func (a objset) addAll(b objset) bool {
	ch := false
	for k := range b {
		if !a[k] {
			a[k] = true
			ch = true
		}
	}
	return ch
}

// cause of a write event, for diagnostics and for the only-via rule W4.
type wcause struct {
	at     ssa.Instruction
	how    string        // "store", "append", "copy", "mapupdate", "send", "call <callee> (writes its parameter k)"
	callee *ssa.Function // for call-induced writes
	in     *ssa.Function
}

type wsummary struct {
	WS      map[int]bool         // written shallowly: the memory the parameter itself denotes (pointee / backing array)
	WD      map[int]bool         // written deeply: memory reached through pointers stored in it
	W       map[int]bool         // parameter indexes written
	G       map[*ssa.Global]bool // globals written (transitively)
	Ret     map[int]bool         // result may alias parameter
	Fresh   bool                 // result may be a fresh object
	Esc     map[[2]int]bool      // [i,j]: pointers from param j may be stored into memory of param i
	Causes  map[string][]wcause  // root string -> causes (top-level only)
	Unknown []string             // unmodelled callees / invokes
	pnames  []string
}

type wfxState struct {
	p        *core.Prog
	sums     map[*ssa.Function]*wsummary
	tops     []*ssa.Function
	rounds   int
	scope    func(*ssa.Function) bool // functions analysed from their bodies
	globals  map[*ssa.Global]*wobj
	useTrust bool
}

func pointerful(t types.Type) bool {
	return pointerfulD(t, 0)
}

func pointerfulD(t types.Type, d int) bool {
	if d > 10 {
		return true
	}
	switch u := t.Underlying().(type) {
	case *types.Pointer, *types.Slice, *types.Map, *types.Chan, *types.Interface, *types.Signature:
		return true
	case *types.Basic:
		return u.Kind() == types.UnsafePointer
	case *types.Struct:
		for i := 0; i < u.NumFields(); i++ {
			if pointerfulD(u.Field(i).Type(), d+1) {
				return true
			}
		}
	case *types.Array:
		return pointerfulD(u.Elem(), d+1)
	case *types.Tuple:
		for i := 0; i < u.Len(); i++ {
			if pointerfulD(u.At(i).Type(), d+1) {
				return true
			}
		}
	}
	return false
}

// ---------------------------------------------------------------------------

type wfam struct {
	st    *wfxState
	top   *ssa.Function
	fns   []*ssa.Function
	inFam map[*ssa.Function]bool
	pts   map[ssa.Value]objset
	cont  map[*wobj]objset
	pobj  []*wobj
	dobj  []*wobj
	sites map[ssa.Value]*wobj
	sum   *wsummary
	seenC map[string]bool
	ch    bool
}

func (f *wfam) get(v ssa.Value) objset {
	if s, ok := f.pts[v]; ok {
		return s
	}
	s := objset{}
	f.pts[v] = s
	switch x := v.(type) {
	case *ssa.Global:
		s[f.st.globalObj(x)] = true
	case *ssa.Alloc, *ssa.MakeSlice, *ssa.MakeMap, *ssa.MakeChan:
		s[f.site(v)] = true
	}
	return s
}

func (st *wfxState) globalObj(g *ssa.Global) *wobj {
	if o, ok := st.globals[g]; ok {
		return o
	}
	o := &wobj{kind: oGlobal, g: g, name: g.Pkg.Pkg.Path() + "." + g.Name()}
	st.globals[g] = o
	return o
}

func (f *wfam) site(v ssa.Value) *wobj {
	if o, ok := f.sites[v]; ok {
		return o
	}
	o := &wobj{kind: oLocal, site: v, name: v.Name()}
	f.sites[v] = o
	return o
}

func (f *wfam) contOf(o *wobj) objset {
	if s, ok := f.cont[o]; ok {
		return s
	}
	s := objset{}
	switch {
	case o.kind == oParam && !o.deep:
		s[f.dobj[o.idx]] = true // pointers loaded out of the parameter's own memory denote its deep part
	case o.kind != oLocal:
		s[o] = true // collapsed: pointers loaded out of deep parameter / global memory still denote it
	}
	f.cont[o] = s
	return s
}

func (f *wfam) prop(dst ssa.Value, src objset) {
	if f.get(dst).addAll(src) {
		f.ch = true
	}
}

func (f *wfam) contAdd(o *wobj, src objset) {
	if f.contOf(o).addAll(src) {
		f.ch = true
	}
}

// reach: closure of a set under contents.
func (f *wfam) reach(s objset) objset {
	out := objset{}
	var work []*wobj
	for o := range s {
		out[o] = true
		work = append(work, o)
	}
	for len(work) > 0 {
		o := work[len(work)-1]
		work = work[:len(work)-1]
		for c := range f.contOf(o) {
			if !out[c] {
				out[c] = true
				work = append(work, c)
			}
		}
	}
	return out
}

func (f *wfam) loadFrom(addr objset) objset {
	out := objset{}
	for o := range addr {
		out.addAll(f.contOf(o))
	}
	return out
}

func (f *wfam) writeEvent(objs objset, at ssa.Instruction, how string, callee *ssa.Function) {
	for o := range objs {
		var key string
		switch o.kind {
		case oParam:
			m := f.sum.WS
			if o.deep {
				m = f.sum.WD
			}
			if !m[o.idx] {
				m[o.idx] = true
				f.ch = true
			}
			if !f.sum.W[o.idx] {
				f.sum.W[o.idx] = true
				f.ch = true
			}
			key = "param:" + o.name
			if !o.deep {
				ck := fmt.Sprintf("shallow:%s|%p|%s", o.name, at, how)
				if !f.seenC[ck] {
					f.seenC[ck] = true
					f.sum.Causes["shallow:"+o.name] = append(f.sum.Causes["shallow:"+o.name], wcause{at: at, how: how, callee: callee, in: at.Parent()})
				}
			}
		case oGlobal:
			if !f.sum.G[o.g] {
				f.sum.G[o.g] = true
				f.ch = true
			}
			key = o.String()
		default:
			continue
		}
		ck := fmt.Sprintf("%s|%p|%s", key, at, how)
		if !f.seenC[ck] {
			f.seenC[ck] = true
			f.sum.Causes[key] = append(f.sum.Causes[key], wcause{at: at, how: how, callee: callee, in: at.Parent()})
		}
	}
}

func (st *wfxState) analyse(top *ssa.Function) *wsummary {
	f := &wfam{st: st, top: top, inFam: map[*ssa.Function]bool{}, pts: map[ssa.Value]objset{}, cont: map[*wobj]objset{},
		sites: map[ssa.Value]*wobj{}, seenC: map[string]bool{}}
	f.fns = core.Family(top)
	for _, fn := range f.fns {
		f.inFam[fn] = true
	}
	f.sum = &wsummary{WS: map[int]bool{}, WD: map[int]bool{}, W: map[int]bool{}, G: map[*ssa.Global]bool{}, Ret: map[int]bool{}, Esc: map[[2]int]bool{}, Causes: map[string][]wcause{}}
	for i, p := range top.Params {
		f.sum.pnames = append(f.sum.pnames, p.Name())
		o := &wobj{kind: oParam, idx: i, name: p.Name()}
		d := &wobj{kind: oParam, idx: i, name: p.Name(), deep: true}
		f.pobj = append(f.pobj, o)
		f.dobj = append(f.dobj, d)
		if pointerful(p.Type()) {
			f.get(p)[o] = true
		}
	}
	unknown := map[string]bool{}
	f.ch = true
	for iter := 0; f.ch && iter < 100; iter++ {
		f.ch = false
		for _, fn := range f.fns {
			for _, b := range fn.Blocks {
				for _, ins := range b.Instrs {
					f.step(fn, ins, unknown)
				}
			}
		}
	}
	for u := range unknown {
		f.sum.Unknown = append(f.sum.Unknown, u)
	}
	sort.Strings(f.sum.Unknown)
	return f.sum
}

func (f *wfam) step(fn *ssa.Function, ins ssa.Instruction, unknown map[string]bool) {
	switch x := ins.(type) {
	case *ssa.IndexAddr:
		f.prop(x, f.get(x.X))
	case *ssa.FieldAddr:
		f.prop(x, f.get(x.X))
	case *ssa.Slice:
		f.prop(x, f.get(x.X))
	case *ssa.ChangeType:
		f.prop(x, f.get(x.X))
	case *ssa.Convert:
		if pointerful(x.Type()) || pointerful(x.X.Type()) {
			f.prop(x, f.get(x.X))
		}
	case *ssa.SliceToArrayPointer:
		f.prop(x, f.get(x.X))
	case *ssa.MakeInterface:
		f.prop(x, f.get(x.X))
	case *ssa.TypeAssert:
		f.prop(x, f.get(x.X))
	case *ssa.ChangeInterface:
		f.prop(x, f.get(x.X))
	case *ssa.Phi:
		for _, e := range x.Edges {
			f.prop(x, f.get(e))
		}
	case *ssa.Select:
		for _, s := range x.States {
			f.prop(x, f.loadFrom(f.get(s.Chan)))
			if s.Send != nil {
				for o := range f.get(s.Chan) {
					f.contAdd(o, f.get(s.Send))
				}
			}
		}
	case *ssa.Extract:
		f.prop(x, f.get(x.Tuple))
	case *ssa.Index:
		if pointerful(x.Type()) {
			f.prop(x, f.get(x.X))
		}
	case *ssa.Field:
		if pointerful(x.Type()) {
			f.prop(x, f.get(x.X))
		}
	case *ssa.Lookup:
		if pointerful(x.Type()) {
			f.prop(x, f.loadFrom(f.get(x.X)))
		}
	case *ssa.Range:
		f.prop(x, f.get(x.X))
	case *ssa.Next:
		f.prop(x, f.loadFrom(f.get(x.Iter)))
	case *ssa.UnOp:
		switch x.Op {
		case token.MUL:
			if pointerful(x.Type()) {
				f.prop(x, f.loadFrom(f.get(x.X)))
			}
		case token.ARROW:
			if pointerful(x.Type()) {
				f.prop(x, f.loadFrom(f.get(x.X)))
			}
		}
	case *ssa.Store:
		f.writeEvent(f.get(x.Addr), x, "store", nil)
		if pointerful(x.Val.Type()) {
			vs := f.get(x.Val)
			for o := range f.get(x.Addr) {
				if o.kind == oParam {
					for v := range vs {
						if v.kind == oParam && v != o {
							if !f.sum.Esc[[2]int{o.idx, v.idx}] {
								f.sum.Esc[[2]int{o.idx, v.idx}] = true
								f.ch = true
							}
						}
					}
				}
				f.contAdd(o, vs)
			}
		}
	case *ssa.MapUpdate:
		f.writeEvent(f.get(x.Map), x, "mapupdate", nil)
		for o := range f.get(x.Map) {
			f.contAdd(o, f.get(x.Key))
			f.contAdd(o, f.get(x.Value))
		}
	case *ssa.Send:
		f.writeEvent(f.get(x.Chan), x, "send", nil)
		for o := range f.get(x.Chan) {
			f.contAdd(o, f.get(x.X))
		}
	case *ssa.MakeClosure:
		cfn := x.Fn.(*ssa.Function)
		for i, bnd := range x.Bindings {
			f.prop(cfn.FreeVars[i], f.get(bnd))
			f.prop(x, f.get(bnd))
		}
	case *ssa.Return:
		if fn == f.top {
			for _, r := range x.Results {
				if !pointerful(r.Type()) {
					continue
				}
				for o := range f.reach(f.get(r)) {
					switch o.kind {
					case oParam:
						if !f.sum.Ret[o.idx] {
							f.sum.Ret[o.idx] = true
							f.ch = true
						}
					default:
						if !f.sum.Fresh {
							f.sum.Fresh = true
							f.ch = true
						}
					}
				}
			}
		}
	case ssa.CallInstruction:
		f.call(x, unknown)
	}
}

func (f *wfam) call(ci ssa.CallInstruction, unknown map[string]bool) {
	c := ci.Common()
	res, _ := ci.(ssa.Value)
	if res != nil && !pointerful(res.Type()) {
		res = nil
	}
	var args []ssa.Value
	if c.IsInvoke() {
		args = append([]ssa.Value{c.Value}, c.Args...)
	} else {
		args = c.Args
	}
	if b, ok := c.Value.(*ssa.Builtin); ok {
		switch b.Name() {
		case "copy":
			f.writeEvent(f.get(args[0]), ci, "copy", nil)
			// elements without pointers are copied by value: nothing of the source becomes reachable from the destination
			elemPtr := true
			if sl, isSl := args[0].Type().Underlying().(*types.Slice); isSl {
				elemPtr = pointerful(sl.Elem())
			}
			if elemPtr {
				src := f.loadFrom(f.get(args[1]))
				for o := range f.get(args[0]) {
					f.contAdd(o, src)
				}
			}
		case "append":
			f.writeEvent(f.get(args[0]), ci, "append", nil)
			if v, ok := ci.(ssa.Value); ok {
				app := f.site(v)
				f.contAdd(app, f.loadFrom(f.get(args[0])))
				if len(args) > 1 {
					f.contAdd(app, f.loadFrom(f.get(args[1])))
				}
				f.prop(v, objset{app: true})
				f.prop(v, f.get(args[0]))
			}
		case "close", "len", "cap", "delete", "print", "println", "panic", "recover", "min", "max", "clear", "ssa:wrapnilchk":
			if b.Name() == "ssa:wrapnilchk" && res != nil {
				f.prop(res, f.get(args[0]))
			}
			if b.Name() == "delete" || b.Name() == "clear" {
				f.writeEvent(f.get(args[0]), ci, b.Name(), nil)
			}
		default:
			unknown["builtin "+b.Name()] = true
		}
		return
	}
	if c.IsInvoke() {
		f.invoke(ci, c, args, res, unknown)
		return
	}
	callee := core.Callee(c)
	if callee == nil {
		// calling a function-typed parameter (or a cell holding one): effects were
		// charged where the literal was created (DESIGN §3.1 (d)).
		if isFuncParamValue(c.Value) {
			return
		}
		// a function value chosen among named functions (dispatch through a variable): every candidate is applied
		if cands := core.CalleeCandidates(c); len(cands) > 0 {
			for _, cand := range cands {
				f.callOne(ci, cand, args, res, unknown)
			}
			return
		}
		unknown[fmt.Sprintf("dynamic call of %s in %s", c.Value.Name(), core.FnName(ci.Parent()))] = true
		return
	}
	f.callOne(ci, callee, args, res, unknown)
}

func (f *wfam) callOne(ci ssa.CallInstruction, callee *ssa.Function, args []ssa.Value, res ssa.Value, unknown map[string]bool) {
	if f.inFam[callee] {
		for i, a := range args {
			if i < len(callee.Params) {
				f.prop(callee.Params[i], f.get(a))
			}
		}
		if res != nil {
			core.AllInstrs(callee, func(i ssa.Instruction) {
				if r, ok := i.(*ssa.Return); ok {
					for _, rv := range r.Results {
						f.prop(res, f.get(rv))
					}
				}
			})
		}
		return
	}
	var s *wsummary
	if f.st.scope(callee) && len(callee.Blocks) > 0 {
		s = f.st.sums[callee]
		if s == nil {
			// generic instantiation or synthetic wrapper: analyse on demand
			if o := callee.Origin(); o != nil && f.st.sums[o] != nil {
				s = f.st.sums[o]
			} else {
				s = f.st.onDemand(callee)
			}
		}
	} else if ts := trustSummary(f.st.p, callee); ts != nil {
		s = ts
	} else {
		unknown["no contract for "+callee.String()] = true
		return
	}
	f.applySummary(ci, callee, s, args, res)
}

func isFuncParamValue(v ssa.Value) bool {
	switch x := v.(type) {
	case *ssa.Parameter:
		return true
	case *ssa.FreeVar:
		if b := core.FreeVarBinding(x); b != nil {
			return isFuncParamValue(b)
		}
		return true
	case *ssa.UnOp:
		if x.Op == token.MUL {
			switch a := x.X.(type) {
			case *ssa.Alloc:
				return core.ParamSpill(a) != nil
			case *ssa.FreeVar:
				if b := core.FreeVarBinding(a); b != nil {
					if al, ok := b.(*ssa.Alloc); ok {
						return core.ParamSpill(al) != nil
					}
				}
			}
		}
	}
	return false
}

func (f *wfam) applySummary(ci ssa.CallInstruction, callee *ssa.Function, s *wsummary, args []ssa.Value, res ssa.Value) {
	for k := range s.W {
		if k >= len(args) {
			continue
		}
		how := fmt.Sprintf("call %s (writes through its parameter %d)", core.FnName(callee), k)
		if s.WS[k] {
			f.writeEvent(f.get(args[k]), ci, how, callee)
		}
		if s.WD[k] {
			deep := objset{}
			for o := range f.get(args[k]) {
				deep.addAll(f.reach(f.contOf(o)))
			}
			f.writeEvent(deep, ci, how, callee)
		}
	}
	for g := range s.G {
		f.writeEvent(objset{f.st.globalObj(g): true}, ci, fmt.Sprintf("call %s (writes global)", core.FnName(callee)), callee)
	}
	for e := range s.Esc {
		if e[0] < len(args) && e[1] < len(args) {
			for o := range f.reach(f.get(args[e[0]])) {
				f.contAdd(o, f.get(args[e[1]]))
			}
		}
	}
	if res != nil {
		if s.Fresh {
			fo := f.site(res)
			f.prop(res, objset{fo: true})
			for k := range s.Ret {
				if k < len(args) {
					f.contAdd(fo, f.get(args[k]))
				}
			}
		}
		for k := range s.Ret {
			if k < len(args) {
				f.prop(res, f.get(args[k]))
			}
		}
	}
}

func (f *wfam) invoke(ci ssa.CallInstruction, c *ssa.CallCommon, args []ssa.Value, res ssa.Value, unknown map[string]bool) {
	s := trustInvoke(c.Method)
	if s == nil {
		unknown["no contract for interface method "+c.Method.FullName()] = true
		return
	}
	f.applySummary(ci, nil, s, args, res)
}

func (st *wfxState) onDemand(fn *ssa.Function) *wsummary {
	if s, ok := st.sums[fn]; ok {
		return s
	}
	st.sums[fn] = &wsummary{WS: map[int]bool{}, WD: map[int]bool{}, W: map[int]bool{}, G: map[*ssa.Global]bool{}, Ret: map[int]bool{}, Esc: map[[2]int]bool{}, Causes: map[string][]wcause{}}
	s := st.analyse(fn)
	st.sums[fn] = s
	return s
}

func sumEqual(a, b *wsummary) bool {
	if a == nil || b == nil {
		return false
	}
	if len(a.WS) != len(b.WS) || len(a.WD) != len(b.WD) || len(a.W) != len(b.W) || len(a.G) != len(b.G) || len(a.Ret) != len(b.Ret) || len(a.Esc) != len(b.Esc) || a.Fresh != b.Fresh {
		return false
	}
	return true // monotone growth: equal sizes imply equal sets
}

// newWfx runs the global fixpoint. scope decides which functions are analysed
// from their bodies (module only in quick; module + gnark-crypto in thorough).
func newWfx(p *core.Prog, withGnark bool) *wfxState {
	st := &wfxState{p: p, sums: map[*ssa.Function]*wsummary{}, globals: map[*ssa.Global]*wobj{}}
	st.scope = func(fn *ssa.Function) bool {
		if core.InModule(fn) {
			return true
		}
		if withGnark {
			top := fn
			for top.Parent() != nil {
				top = top.Parent()
			}
			pk := top.Pkg
			if pk == nil && top.Origin() != nil {
				pk = top.Origin().Pkg
			}
			if pk != nil && strings.HasPrefix(pk.Pkg.Path(), "github.com/consensys/gnark-crypto/") {
				return true
			}
		}
		return false
	}
	st.tops = p.TopFuncs()
	for round := 0; round < 12; round++ {
		st.rounds = round + 1
		changed := false
		keys := make([]*ssa.Function, 0, len(st.sums))
		for fn := range st.sums {
			keys = append(keys, fn)
		}
		sort.Slice(keys, func(i, j int) bool { return keys[i].String() < keys[j].String() })
		seen := map[*ssa.Function]bool{}
		for _, fn := range st.tops {
			seen[fn] = true
		}
		work := append([]*ssa.Function{}, st.tops...)
		for _, fn := range keys {
			if !seen[fn] && len(fn.Blocks) > 0 && fn.Parent() == nil {
				work = append(work, fn)
			}
		}
		for _, fn := range work {
			if len(fn.Blocks) == 0 {
				continue
			}
			s := st.analyse(fn)
			if !sumEqual(st.sums[fn], s) {
				changed = true
			}
			st.sums[fn] = s
		}
		if !changed {
			break
		}
	}
	return st
}

func (c *Ctx) wfxGet() *wfxState {
	if c.wfx == nil {
		c.wfx = newWfx(c.P, false)
	}
	return c.wfx
}

// describe a cause chain for diagnostics.
func (st *wfxState) describe(cs []wcause) string {
	var parts []string
	for i, c := range cs {
		if i >= 3 {
			parts = append(parts, fmt.Sprintf("… %d more", len(cs)-3))
			break
		}
		parts = append(parts, fmt.Sprintf("%s at %s in %s", c.how, st.p.Pos(c.at.Pos()), core.FnName(c.in)))
	}
	return strings.Join(parts, "; ")
}
