package rules

import (
	"fmt"
	"go/token"
	"go/types"
	"os"
	"sort"
	"strings"

	"golang.org/x/tools/go/ssa"

	"verif/checker/core"
)

// policy: function -> parameter names it may write (tables/purity.tsv).
func (c *Ctx) purityPolicy() map[string]map[string]string {
	pol := map[string]map[string]string{}
	for _, row := range c.ReadTable("purity.tsv") {
		if len(row) < 3 {
			c.Und("W1", "table:purity.tsv:"+strings.Join(row, "|"), 0, "malformed policy line (want function<TAB>params<TAB>reason)")
			continue
		}
		if pol[row[0]] == nil {
			pol[row[0]] = map[string]string{}
		}
		for _, pn := range strings.Split(row[1], ",") {
			pol[row[0]][strings.TrimSpace(pn)] = row[2]
		}
	}
	return pol
}

func isInit(fn *ssa.Function) bool {
	return fn.Name() == "init" || strings.HasPrefix(fn.Name(), "init#")
}

func inHelperPkg(fn *ssa.Function) bool {
	return fn.Pkg != nil && strings.HasSuffix(fn.Pkg.Pkg.Path(), "/test_helper")
}

// W1filter restricts W1 to functions whose name passes keep (nil = all).
type fnFilter func(name string) bool

// RuleW1 — W(f) ⊆ policy(f) for every function of the module.
func RuleW1(keep fnFilter, floor int) Rule {
	return func(c *Ctx) {
		c.Rule("W1", "write-effect analysis: every function writes memory reachable from a parameter only if tables/purity.tsv allows that parameter (everything else is read-only); violations name the store or call chain")
		st := c.wfxGet()
		pol := c.purityPolicy()
		used := map[string]bool{}
		n := 0
		for _, fn := range st.tops {
			name := core.FnName(fn)
			if keep != nil && !keep(name) {
				continue
			}
			if isInit(fn) || len(fn.Blocks) == 0 {
				continue
			}
			s := st.sums[fn]
			if s == nil {
				continue
			}
			c.Saw(name)
			for _, u := range s.Unknown {
				c.Und("W1", name+"#unknown:"+u, fn.Pos(), "callee without summary or contract: "+u)
			}
			for i, p := range fn.Params {
				if !pointerful(p.Type()) {
					continue
				}
				n++
				key := name + "#" + p.Name()
				reason, allowed := pol[name][p.Name()]
				deepReason, deepAllowed := pol[name][p.Name()+"*"]
				if allowed {
					used[name+"#"+p.Name()] = true
				}
				if deepAllowed {
					used[name+"#"+p.Name()+"*"] = true
				}
				_, listed := pol[name]
				switch {
				case !s.W[i]:
					c.OK("W1", key, fn.Pos(), "no write event on any object reachable from this parameter (may-write analysis, all paths)")
				case !listed && i == 0 && fn.Signature.Recv() != nil && !isConfigType(p.Type()):
					// a function that did not exist when the policy table was frozen: a method may set its own
					// (non-configuration) receiver; its other parameters remain read-only
					c.OK("W1", key, fn.Pos(), "function not in the frozen policy table: writing its own non-configuration receiver is accepted", st.describe(s.Causes["param:"+p.Name()]))
				case !listed && fn.Object() != nil && !fn.Object().Exported():
					// an unexported function the frozen table has never seen (an extracted helper) has no contract of
					// its own: what it writes is charged to its callers through their summaries, and judged there
					c.OK("W1", key, fn.Pos(), "unexported function not in the frozen policy table: its writes are judged at its (listed) callers", st.describe(s.Causes["param:"+p.Name()]))
				case allowed && i == 0 && fn.Signature.Recv() != nil && strings.HasPrefix(reason, "deserialiser") && s.WD[i] && preheldWrite(st, fn) != nil:
					// a deserialiser replaces the fields of its receiver; the memory the receiver's slices and pointers
					// denoted before the call is shared with every copy made of the receiver earlier
					at := preheldWrite(st, fn)
					c.Bad("W1", key, at.Pos(), fmt.Sprintf("%s writes memory its receiver already pointed to when it was called (%s at %s goes through a slice or pointer loaded from the receiver before the field is replaced): copies of the object made earlier share that memory and are changed by the call", name, instrKind(at), c.P.Pos(at.Pos())))
				case allowed:
					c.OK("W1", key, fn.Pos(), "written; allowed by policy: "+reason, st.describe(s.Causes["param:"+p.Name()]))
				case deepAllowed && !s.WS[i]:
					c.OK("W1", key, fn.Pos(), "only the objects it points to are written (not the slice/pointee itself); allowed by policy: "+deepReason, st.describe(s.Causes["param:"+p.Name()]))
				case deepAllowed:
					c.Bad("W1", key, firstPos(s.Causes["shallow:"+p.Name()], fn.Pos()),
						fmt.Sprintf("%s may write the memory its parameter %q itself denotes (e.g. the elements of the caller's slice), while the policy only allows writing the objects those elements point to: %s", name, p.Name(), st.describe(s.Causes["shallow:"+p.Name()])))
				default:
					c.Bad("W1", key, firstPos(s.Causes["param:"+p.Name()], fn.Pos()),
						fmt.Sprintf("%s may write memory reachable from its parameter %q, which the purity policy makes read-only: %s", name, p.Name(), st.describe(s.Causes["param:"+p.Name()])))
				}
			}
		}
		if keep == nil {
			for fnName, ps := range pol {
				for pn := range ps {
					if !used[fnName+"#"+pn] && pn != "-" {
						// stale policy lines are not violations of the property, but the anchor is gone
						found := false
						for _, fn := range st.tops {
							if core.FnName(fn) == fnName {
								for _, p := range fn.Params {
									if p.Name() == strings.TrimSuffix(pn, "*") {
										found = true
									}
								}
							}
						}
						if !found {
							c.Notes = append(c.Notes, "purity.tsv line without matching function/parameter (ignored): "+fnName+"#"+pn)
						}
					}
				}
			}
		}
		c.FloorN("W1", floor, n, "(function, pointer-like parameter) pairs")
		c.Extra("wfx_rounds", st.rounds)
		if os.Getenv("VCHECK_DUMP_W") != "" {
			for _, fn := range st.tops {
				s := st.sums[fn]
				if s == nil {
					continue
				}
				var ws []string
				for i := range s.W {
					ws = append(ws, s.pnames[i])
				}
				sort.Strings(ws)
				var gs []string
				for g := range s.G {
					gs = append(gs, g.Name())
				}
				sort.Strings(gs)
				if len(ws) > 0 || len(gs) > 0 || len(s.Unknown) > 0 {
					fmt.Fprintf(os.Stderr, "W %-70s %v G=%v unk=%v\n", core.FnName(fn), ws, gs, s.Unknown)
				}
			}
		}
	}
}

func firstPos(cs []wcause, def token.Pos) token.Pos {
	for _, c := range cs {
		if c.at.Pos().IsValid() {
			return c.at.Pos()
		}
	}
	return def
}

// Extra stores an extra coverage key via notes (merged into evidence by main).
func (c *Ctx) Extra(k string, v any) {
	c.Notes = append(c.Notes, fmt.Sprintf("%s=%v", k, v))
}

// RuleW2 — module globals are written only by their package's initialisers.
func RuleW2(floor int) Rule {
	return func(c *Ctx) {
		c.Rule("W2", "every package-level variable of the module is written (store, append, copy, or passed to a callee that writes through it) only by its own package's init / variable initialiser")
		st := c.wfxGet()
		type wr struct {
			fn *ssa.Function
			cs []wcause
		}
		writers := map[*ssa.Global][]wr{}
		for _, fn := range st.tops {
			s := st.sums[fn]
			if s == nil {
				continue
			}
			for g := range s.G {
				key := "global:" + g.Pkg.Pkg.Path() + "." + g.Name()
				var direct []wcause
				for _, cz := range s.Causes[key] {
					// transitive causes (callee inside the module that itself writes the global) are
					// reported at the callee; keep direct ones and those through trusted externals.
					if cz.callee != nil && st.scope(cz.callee) && st.sums[cz.callee] != nil && st.sums[cz.callee].G[g] {
						continue
					}
					direct = append(direct, cz)
				}
				if len(direct) > 0 {
					writers[g] = append(writers[g], wr{fn, direct})
				}
			}
		}
		n := 0
		var paths []string
		for path := range c.P.SPkgs {
			paths = append(paths, path)
		}
		sort.Strings(paths)
		for _, path := range paths {
			sp := c.P.SPkgs[path]
			if strings.HasSuffix(path, "/test_helper") {
				continue
			}
			var names []string
			for name, m := range sp.Members {
				if _, ok := m.(*ssa.Global); ok && !strings.HasPrefix(name, "init$") {
					names = append(names, name)
				}
			}
			sort.Strings(names)
			for _, name := range names {
				g := sp.Members[name].(*ssa.Global)
				n++
				key := strings.TrimPrefix(path, core.Mod+"/") + "." + name
				bad := false
				var facts []string
				for _, w := range writers[g] {
					if isInit(w.fn) && w.fn.Pkg == g.Pkg {
						facts = append(facts, "written by "+core.FnName(w.fn))
						continue
					}
					bad = true
					c.Bad("W2", key, firstPos(w.cs, w.fn.Pos()), fmt.Sprintf("package variable %s is written outside its package initialiser, by %s: %s", key, core.FnName(w.fn), st.describe(w.cs)))
				}
				if !bad {
					if len(facts) == 0 {
						facts = []string{"no write event in any function of the module"}
					}
					c.OK("W2", key, g.Pos(), facts...)
				}
			}
		}
		c.FloorN("W2", floor, n, "package-level variables")
	}
}

var configTypes = [][2]string{{"ipa", "IPAConfig"}, {"banderwagon", "MSMPrecomp"}, {"banderwagon", "PrecompPoint"}, {"ipa", "PrecomputedWeights"}}
var configCtors = map[string]bool{"ipa.NewIPASettings": true, "banderwagon.NewPrecompMSM": true, "banderwagon.NewPrecompPoint": true, "ipa.NewPrecomputedWeights": true}

// RuleW3 — configuration fields are stored only inside constructors.
func RuleW3(c *Ctx) {
	c.Rule("W3", "fields of IPAConfig, MSMPrecomp, PrecompPoint, PrecomputedWeights (and memory reached through them) are stored only in NewIPASettings, NewPrecompMSM, NewPrecompPoint, NewPrecomputedWeights")
	type fkey struct {
		t *types.Named
		i int
	}
	want := map[*types.Named]string{}
	for _, ct := range configTypes {
		pk := c.P.Pkg(ct[0])
		if pk == nil {
			c.Unresolved("W3", ct[0]+"."+ct[1])
			continue
		}
		tn, ok := pk.Types.Scope().Lookup(ct[1]).(*types.TypeName)
		if !ok {
			c.Unresolved("W3", ct[0]+"."+ct[1])
			continue
		}
		want[tn.Type().(*types.Named)] = ct[0] + "." + ct[1]
	}
	stores := map[fkey][]string{}
	bad := map[fkey][]ssa.Instruction{}
	record := func(addr ssa.Value, at ssa.Instruction, top *ssa.Function) {
		v := addr
		for depth := 0; depth < 20; depth++ {
			switch x := v.(type) {
			case *ssa.FieldAddr:
				pt, _ := x.X.Type().Underlying().(*types.Pointer)
				if pt != nil {
					if nt, ok := pt.Elem().(*types.Named); ok {
						if _, ok := want[nt]; ok {
							k := fkey{nt, x.Field}
							if configCtors[core.FnName(top)] {
								stores[k] = append(stores[k], core.FnName(top))
							} else {
								bad[k] = append(bad[k], at)
							}
						}
					}
				}
				v = x.X
			case *ssa.IndexAddr:
				v = x.X
			case *ssa.Slice:
				v = x.X
			case *ssa.UnOp:
				if x.Op != token.MUL {
					return
				}
				v = x.X
			default:
				return
			}
		}
	}
	for _, top := range c.P.TopFuncs() {
		if inHelperPkg(top) {
			continue
		}
		for _, fn := range core.Family(top) {
			core.AllInstrs(fn, func(i ssa.Instruction) {
				switch x := i.(type) {
				case *ssa.Store:
					record(x.Addr, x, top)
				case *ssa.MapUpdate:
					record(x.Map, x, top)
				case ssa.CallInstruction:
					if b, ok := x.Common().Value.(*ssa.Builtin); ok && (b.Name() == "copy" || b.Name() == "append") {
						record(x.Common().Args[0], x, top)
					}
				}
			})
		}
	}
	nf := 0
	var tnames []*types.Named
	for t := range want {
		tnames = append(tnames, t)
	}
	sort.Slice(tnames, func(i, j int) bool { return want[tnames[i]] < want[tnames[j]] })
	for _, t := range tnames {
		s := t.Underlying().(*types.Struct)
		for i := 0; i < s.NumFields(); i++ {
			nf++
			k := fkey{t, i}
			key := want[t] + "." + s.Field(i).Name()
			if len(bad[k]) > 0 {
				for _, at := range bad[k] {
					c.Bad("W3", key, at.Pos(), fmt.Sprintf("configuration field %s (or memory reached through it) is stored outside the constructors, in %s", key, core.FnName(at.Parent())))
				}
				continue
			}
			c.OK("W3", key, s.Field(i).Pos(), fmt.Sprintf("%d store(s), all inside constructors %v", len(stores[k]), uniq(stores[k])))
		}
	}
	c.FloorN("W3", 10, nf, "configuration fields")
}

func uniq(s []string) []string {
	m := map[string]bool{}
	var out []string
	for _, x := range s {
		if !m[x] {
			m[x] = true
			out = append(out, x)
		}
	}
	sort.Strings(out)
	return out
}

// RuleW4 — the only call chain from CreateMultiProof that writes *Cs[i] passes through BatchNormalize.
func RuleW4(c *Ctx) {
	c.Rule("W4", "in CreateMultiProof every write event on memory reachable from Cs is caused by the call to banderwagon.BatchNormalize (the one permitted, value-preserving effect on inputs)")
	st := c.wfxGet()
	fn := c.P.Fn("", "", "CreateMultiProof")
	bn := c.P.Fn("banderwagon", "", "BatchNormalize")
	if fn == nil || bn == nil {
		c.Unresolved("W4", "CreateMultiProof/BatchNormalize")
		return
	}
	s := st.sums[fn]
	causes := s.Causes["param:Cs"]
	if len(causes) == 0 {
		c.OK("W4", "CreateMultiProof#Cs", fn.Pos(), "no write event on Cs at all")
		return
	}
	ok := true
	for _, cz := range causes {
		if cz.callee != bn {
			ok = false
			c.Bad("W4", "CreateMultiProof#Cs", cz.at.Pos(), "commitments are written by something other than BatchNormalize: "+st.describe([]wcause{cz}))
		}
	}
	if ok {
		c.OK("W4", "CreateMultiProof#Cs", fn.Pos(), fmt.Sprintf("%d write event(s), all through BatchNormalize", len(causes)), st.describe(causes))
	}
	// positive control: BatchNormalize's deep write (input pointers -> map keys -> appended slice -> closure) must be seen
	if bs := st.sums[bn]; bs == nil || !bs.W[0] {
		c.Und("W4", "control:BatchNormalize#elements", bn.Pos(), "positive control failed: the analysis no longer sees BatchNormalize writing its elements (object model broken)")
	} else {
		c.OK("W4", "control:BatchNormalize#elements", bn.Pos(), "analysis sees the deep write through map keys, append and closure", st.describe(bs.Causes["param:elements"]))
	}
}

func isConfigType(t types.Type) bool {
	for _, ct := range configTypes {
		if namedIs(t, ct[0], ct[1]) {
			return true
		}
	}
	return false
}

// RuleTrust — (thorough tier) the trust table's contracts for gnark-crypto callees are re-derived from
// gnark-crypto's own SSA: a callee that may write through a parameter the table declares read-only is reported.
func RuleTrust(c *Ctx) {
	if c.Tier != "thorough" {
		return
	}
	c.Rule("TR", "trust-table audit (thorough tier): for every gnark-crypto function called from the module, the write summary computed from gnark-crypto's source is within the contract the trust table assumes")
	trusted := c.wfxGet()
	full := newWfx(c.P, true)
	seen := map[*ssa.Function]bool{}
	n := 0
	for _, top := range trusted.tops {
		for _, fn := range core.Family(top) {
			for _, ci := range core.CallsIn(fn) {
				callee := core.Callee(ci.Common())
				if callee == nil || core.InModule(callee) || seen[callee] || len(callee.Blocks) == 0 {
					continue
				}
				pk := callee.Pkg
				if pk == nil && callee.Origin() != nil {
					pk = callee.Origin().Pkg
				}
				if pk == nil || !strings.HasPrefix(pk.Pkg.Path(), "github.com/consensys/gnark-crypto/") {
					continue
				}
				seen[callee] = true
				ts := trustSummary(c.P, callee)
				if ts == nil {
					continue
				}
				cs := full.sums[callee]
				if cs == nil {
					cs = full.onDemand(callee)
				}
				n++
				key := "gnark:" + callee.String()
				var extra []string
				for i := range cs.W {
					if !ts.W[i] && i < len(callee.Params) {
						extra = append(extra, callee.Params[i].Name())
					}
				}
				sort.Strings(extra)
				if len(extra) > 0 {
					c.Bad("TR", key, ci.Pos(), fmt.Sprintf("the trust table assumes %s leaves %v read-only, but its source may write through them: %s", callee.String(), extra, full.describe(cs.Causes["param:"+extra[0]])))
				} else {
					c.OK("TR", key, callee.Pos(), "computed write set within the trusted contract")
				}
			}
		}
	}
	c.FloorN("TR", 20, n, "gnark-crypto callees audited")
}

func instrKind(i ssa.Instruction) string {
	switch x := i.(type) {
	case *ssa.Store:
		return "store"
	case *ssa.Call:
		if b, ok := x.Call.Value.(*ssa.Builtin); ok {
			return b.Name()
		}
		if f := core.Callee(x.Common()); f != nil {
			return "call " + core.FnName(f)
		}
	}
	return "write"
}

// preheldWrite: an instruction of the method (or its closures) that writes through a slice or pointer loaded out of a
// field of the receiver at a point where no store to that field dominates the load, i.e. through memory the receiver
// held when the method was entered. Static callees are followed through their summaries (a parameter written
// shallowly). Returns nil when there is none.
func preheldWrite(st *wfxState, fn *ssa.Function) ssa.Instruction {
	if len(fn.Params) == 0 {
		return nil
	}
	recv := ssa.Value(fn.Params[0])
	// field address rooted at the receiver: the path of field indexes, or nil
	var fieldPath func(v ssa.Value, d int) []int
	fieldPath = func(v ssa.Value, d int) []int {
		if d > 4 {
			return nil
		}
		fa, ok := v.(*ssa.FieldAddr)
		if !ok {
			return nil
		}
		if fa.X == recv {
			return []int{fa.Field}
		}
		if p := fieldPath(fa.X, d+1); p != nil {
			return append(p, fa.Field)
		}
		return nil
	}
	samePath := func(a, b []int) bool {
		if len(a) != len(b) {
			return false
		}
		for i := range a {
			if a[i] != b[i] {
				return false
			}
		}
		return true
	}
	type fstore struct {
		path []int
		at   *ssa.Store
	}
	var fstores []fstore
	for _, g := range core.Family(fn) {
		core.AllInstrs(g, func(i ssa.Instruction) {
			if s, ok := i.(*ssa.Store); ok {
				if p := fieldPath(s.Addr, 0); p != nil {
					fstores = append(fstores, fstore{p, s})
				}
			}
		})
	}
	before := func(a, b ssa.Instruction) bool { // a executes before b on every path to b
		if a.Parent() != b.Parent() {
			return false
		}
		if a.Block() == b.Block() {
			for _, i := range a.Block().Instrs {
				if i == a {
					return true
				}
				if i == b {
					return false
				}
			}
		}
		return a.Block().Dominates(b.Block())
	}
	entryLoad := func(ld *ssa.UnOp) bool {
		p := fieldPath(ld.X, 0)
		if p == nil {
			return false
		}
		for _, fs := range fstores {
			if samePath(fs.path, p) && before(fs.at, ld) {
				return false
			}
		}
		return true
	}
	var held func(v ssa.Value, seen map[ssa.Value]bool) bool
	held = func(v ssa.Value, seen map[ssa.Value]bool) bool {
		if v == nil || seen[v] || len(seen) > 200 {
			return false
		}
		seen[v] = true
		switch x := v.(type) {
		case *ssa.IndexAddr:
			return held(x.X, seen)
		case *ssa.FieldAddr:
			if fieldPath(x, 0) != nil {
				return false // the receiver's own field
			}
			return held(x.X, seen)
		case *ssa.Slice:
			return held(x.X, seen)
		case *ssa.ChangeType:
			return held(x.X, seen)
		case *ssa.Convert:
			return held(x.X, seen)
		case *ssa.Phi:
			for _, e := range x.Edges {
				if held(e, seen) {
					return true
				}
			}
		case *ssa.UnOp:
			if x.Op != token.MUL {
				return false
			}
			if entryLoad(x) {
				return true
			}
			if cell, ok := x.X.(*ssa.Alloc); ok {
				for _, s := range storesInto(cell) {
					if held(s.Val, seen) {
						return true
					}
				}
			}
		}
		return false
	}
	var found ssa.Instruction
	for _, g := range core.Family(fn) {
		core.AllInstrs(g, func(i ssa.Instruction) {
			if found != nil {
				return
			}
			switch x := i.(type) {
			case *ssa.Store:
				if _, isCell := x.Addr.(*ssa.Alloc); isCell {
					return
				}
				if held(x.Addr, map[ssa.Value]bool{}) {
					found = i
				}
			case *ssa.Call:
				if b, ok := x.Call.Value.(*ssa.Builtin); ok {
					if (b.Name() == "copy" || b.Name() == "append") && len(x.Call.Args) > 0 && held(x.Call.Args[0], map[ssa.Value]bool{}) {
						found = i
					}
					return
				}
				callee := core.Callee(x.Common())
				if callee == nil || len(callee.Blocks) == 0 {
					return
				}
				cs := st.sums[callee]
				if cs == nil {
					cs = st.onDemand(callee)
				}
				if cs == nil {
					return
				}
				for k, a := range x.Call.Args {
					if cs.WS[k] && held(a, map[ssa.Value]bool{}) {
						found = i
					}
				}
			}
		})
	}
	return found
}
