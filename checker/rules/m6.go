package rules

// M6 — index-domain typing (DESIGN §3.4, §9.6): every indexing uses an index of the indexed array's own domain.

import (
	"fmt"
	"go/token"
	"go/types"
	"strings"

	"golang.org/x/tools/go/ssa"

	"verif/checker/core"
)

// domains: "OPEN" (opening number), "DOM" (domain point 0..255), "ROUND", "TABLE" (precomputed tables: rule M7),
// "COMPACT:<K>" (position among the non-empty elements of K), "" unknown, "*" polymorphic constant.

type m6 struct {
	inCompactArray map[*ssa.Alloc]bool
	c              *Ctx
	fn             *ssa.Function
	vl             int64
	cls            []*countedLoop
	memoBase       map[ssa.Value]string
	memoIdx        map[ssa.Value]string
	busy           map[ssa.Value]bool
}

var m6ParamBase = map[string]map[string]string{
	"CreateMultiProof":                  {"Cs": "OPEN", "fs": "OPEN", "zs": "OPEN"},
	"CheckMultiProof":                   {"Cs": "OPEN", "ys": "OPEN", "zs": "OPEN"},
	"groupPolynomialsByEvaluationPoint": {"fs": "OPEN", "powersOfR": "OPEN", "zs": "OPEN"},
	"DivideOnDomain":                    {"f": "DOM"},
}

// parameters whose *values* are indexes of a domain
var m6ParamIndex = map[string]map[string]string{
	"DivideOnDomain": {"index": "DOM"},
}

// slices whose *elements* are indexes of a domain (zs holds domain points)
var m6ElemIsIndex = map[string]string{"zs": "DOM"}

func (m *m6) paramOf(v ssa.Value) *ssa.Parameter {
	switch x := v.(type) {
	case *ssa.Parameter:
		return x
	case *ssa.FreeVar:
		if b := core.FreeVarBinding(x); b != nil {
			return m.paramOf(b)
		}
	case *ssa.Alloc:
		return core.ParamSpill(x)
	case *ssa.UnOp:
		if x.Op == token.MUL {
			switch a := x.X.(type) {
			case *ssa.Alloc:
				return core.ParamSpill(a)
			case *ssa.FreeVar:
				if b := core.FreeVarBinding(a); b != nil {
					if al, ok := b.(*ssa.Alloc); ok {
						return core.ParamSpill(al)
					}
				}
			}
		}
	}
	return nil
}

func topName(fn *ssa.Function) string { return topOf(fn).Name() }

// lenDomain: the domain of a length value n: len(X) -> domain(X); constant VectorLength -> DOM.
func (m *m6) lenDomain(n ssa.Value) string {
	n = core.StripConv(n)
	if k, ok := core.ConstInt(n); ok {
		if k == m.vl {
			return "DOM"
		}
		return ""
	}
	if x, ok := core.IsLenOf(n); ok {
		return m.base(x)
	}
	return ""
}

// base: the index domain of an indexable value.
func (m *m6) base(v ssa.Value) string {
	if d, ok := m.memoBase[v]; ok {
		return d
	}
	if m.busy[v] {
		return ""
	}
	m.busy[v] = true
	d := m.base0(v)
	delete(m.busy, v)
	m.memoBase[v] = d
	return d
}

func isArrayOfLen(t types.Type, n int64) bool {
	if p, ok := t.Underlying().(*types.Pointer); ok {
		t = p.Elem()
	}
	a, ok := t.Underlying().(*types.Array)
	return ok && a.Len() == n
}

func (m *m6) base0(v ssa.Value) string {
	if p := m.paramOf(v); p != nil {
		if d, ok := m6ParamBase[topName(p.Parent())][p.Name()]; ok {
			return d
		}
	}
	if d := m.compactArray(v); d != "" {
		return d
	}
	if isArrayOfLen(v.Type(), m.vl) {
		return "DOM"
	}
	switch x := v.(type) {
	case *ssa.Slice:
		if d := m.compactArray(x.X); d != "" {
			return d
		}
		// make([]T, n) lowered to new [n]T + slice[:n]
		if isArrayOfLen(x.X.Type(), m.vl) {
			if hi, ok := core.ConstInt(x.High); ok && hi == 0 && x.High != nil {
				return "" // empty slice with capacity: domain decided by how it is filled
			}
			return "DOM"
		}
		return m.base(x.X)
	case *ssa.MakeSlice:
		return m.lenDomain(x.Len)
	case *ssa.UnOp:
		if x.Op == token.MUL {
			// element of an OPEN-indexed slice of polynomials: a polynomial, DOM-indexed
			if ia, ok := x.X.(*ssa.IndexAddr); ok {
				if p := m.paramOf(ia.X); p != nil && p.Name() == "fs" {
					return "DOM"
				}
				// groupedFs[z] : array over DOM of polynomials over DOM
				if m.base(ia.X) == "DOM" {
					if sl, isSl := x.Type().Underlying().(*types.Slice); isSl && strings.HasSuffix(sl.Elem().String(), "fr.Element") {
						return "DOM"
					}
				}
			}
			// load of a local cell: union of stored values
			if a, ok := x.X.(*ssa.Alloc); ok {
				d := ""
				for _, st := range storesInto(a) {
					if sd := m.base(st.Val); sd != "" {
						if d != "" && d != sd {
							return ""
						}
						d = sd
					}
				}
				return d
			}
			if strings.Contains(core.PathOf(x.X), "preComp.barycentricWeights") || strings.Contains(core.PathOf(x.X), "preComp.invertedDomain") {
				return "TABLE"
			}
		}
	case *ssa.Index:
		// value-indexing of the grouped array: groupedFs[z] -> polynomial over DOM
		if m.base(x.X) == "DOM" {
			return "DOM"
		}
	case *ssa.Call:
		f := core.Callee(x.Common())
		switch {
		case core.IsFunc(f, "/common", "PowersOf"):
			return m.lenDomain(x.Call.Args[1])
		case core.IsFunc(f, "bandersnatch/fr", "BatchInvert"):
			return m.base(x.Call.Args[0])
		case core.IsFunc(f, "go-ipa", "groupPolynomialsByEvaluationPoint"):
			return "DOM"
		case core.IsMethod(f, "/ipa", "PrecomputedWeights", "DivideOnDomain"), core.IsMethod(f, "/ipa", "PrecomputedWeights", "ComputeBarycentricCoefficients"):
			return "DOM"
		}
	case *ssa.Phi:
		// a slice grown by append in a loop over K under an emptiness skip-guard: COMPACT(K)
		if k := m.compactProducer(x); k != "" {
			return k
		}
		// grown by exactly one append per iteration of a loop from 0: positions are the loop's own domain
		if _, cl, ok := appendFill(x); ok {
			if d := m.loopDomain(cl); d != "" {
				return d
			}
		}
		d := ""
		for _, e := range x.Edges {
			if e == ssa.Value(x) {
				continue
			}
			if ed := m.base(e); ed != "" {
				if d != "" && d != ed {
					return ""
				}
				d = ed
			}
		}
		return d
	}
	return ""
}

// skipGuardedLoop: the loop ranges over the full static length of K (an array over DOM) and every edge back to
// the header that does not come from the end of the body leaves a block ending in `if len(K[idx]) == 0` on true.
// Returns K (by canonical path) and the set of skip predecessors.
func (m *m6) skipGuardedLoop(hdr *ssa.BasicBlock) (string, map[*ssa.BasicBlock]bool) {
	var cl *countedLoop
	for _, l := range m.cls {
		if l.loop.Header == hdr {
			cl = l
		}
	}
	if cl == nil {
		return "", nil
	}
	if b, ok := core.ConstInt(cl.bound); !ok || b != m.vl || cl.step != 1 || cl.op != token.LSS {
		return "", nil
	}
	idx := ssa.Value(cl.phi)
	// rangeindex form: the index used in the body is phi+1
	if _, isPhi := cl.phi.(*ssa.Phi); isPhi {
		for _, r := range core.Refs(cl.phi) {
			if b, ok := r.(*ssa.BinOp); ok && b.Op == token.ADD && b.Block() == hdr {
				idx = b
			}
		}
	}
	k := ""
	skips := map[*ssa.BasicBlock]bool{}
	// candidate skip blocks: predecessors of the header, and predecessors of a latch (the post block of a
	// three-clause loop, which only steps the loop variable and jumps back)
	var cands []*ssa.BasicBlock
	for _, pred := range hdr.Preds {
		if !cl.loop.Blocks[pred] {
			continue
		}
		cands = append(cands, pred)
		if len(pred.Succs) == 1 {
			for _, pp := range pred.Preds {
				if cl.loop.Blocks[pp] && pp != hdr {
					cands = append(cands, pp)
				}
			}
		}
	}
	for _, pred := range cands {
		ifi, ok := pred.Instrs[len(pred.Instrs)-1].(*ssa.If)
		if !ok {
			continue
		}
		cmp, ok := ifi.Cond.(*ssa.BinOp)
		if !ok || (cmp.Op != token.EQL && cmp.Op != token.NEQ) {
			continue
		}
		// the edge taken when the length is zero
		zeroSucc := 0
		if cmp.Op == token.NEQ {
			zeroSucc = 1
		}
		z, isZ := core.ConstInt(cmp.Y)
		x, isLen := core.IsLenOf(cmp.X)
		if !isZ || z != 0 || !isLen {
			continue
		}
		// the zero edge goes straight back: to the header or to its latch
		if t := pred.Succs[zeroSucc]; t != hdr && !(len(t.Succs) == 1 && t.Succs[0] == hdr && cl.loop.Blocks[t]) {
			continue
		}
		// x = K[idx]
		var kk ssa.Value
		switch e := x.(type) {
		case *ssa.Index:
			if e.Index == idx {
				kk = e.X
			}
		case *ssa.UnOp:
			if ia, ok := e.X.(*ssa.IndexAddr); ok && ia.Index == idx {
				kk = ia.X
			}
		}
		if kk == nil || m.base(kk) != "DOM" {
			continue
		}
		// the array variable itself and the copy a range statement takes of it are the same numbering
		if u, isLoad := kk.(*ssa.UnOp); isLoad && u.Op == token.MUL {
			if al, isAl := u.X.(*ssa.Alloc); isAl {
				kk = al
			}
		}
		p := core.PathOf(kk)
		if k != "" && k != p {
			return "", nil
		}
		k = p
		skips[pred] = true
	}
	if k == "" {
		return "", nil
	}
	return k, skips
}

// backEdgeLeaves: the (source block, value) pairs that feed a header phi, looking through the phi of a latch block.
func backEdgeLeaves(phi *ssa.Phi) (preds []*ssa.BasicBlock, vals []ssa.Value) {
	hdr := phi.Block()
	for i, pred := range hdr.Preds {
		e := phi.Edges[i]
		if lp, isPhi := e.(*ssa.Phi); isPhi && lp.Block() == pred && len(pred.Succs) == 1 {
			for j, pp := range pred.Preds {
				preds = append(preds, pp)
				vals = append(vals, lp.Edges[j])
			}
			continue
		}
		preds = append(preds, pred)
		vals = append(vals, e)
	}
	return
}

// compactProducer: slice phi in a skip-guarded loop: empty at entry, unchanged on skip edges, append(self, one element) otherwise.
func (m *m6) compactProducer(phi *ssa.Phi) string {
	if _, ok := phi.Type().Underlying().(*types.Slice); !ok {
		return ""
	}
	k, skips := m.skipGuardedLoop(phi.Block())
	if k == "" {
		return ""
	}
	lpreds, lvals := backEdgeLeaves(phi)
	for i, pred := range lpreds {
		e := lvals[i]
		switch {
		case skips[pred]:
			if e != ssa.Value(phi) {
				return ""
			}
		case phi.Block().Dominates(pred):
			// end of body: append(phi, single element)
			call, ok := e.(*ssa.Call)
			if !ok {
				return ""
			}
			b, isB := call.Call.Value.(*ssa.Builtin)
			if !isB || b.Name() != "append" || call.Call.Args[0] != ssa.Value(phi) {
				return ""
			}
			if sl, isSl := call.Call.Args[1].(*ssa.Slice); !isSl || !isArrayOfLen(sl.X.Type(), 1) {
				return ""
			}
		default:
			// entry: empty slice
			sl, ok := e.(*ssa.Slice)
			if ok {
				if hi, isK := core.ConstInt(sl.High); !isK || hi != 0 {
					return ""
				}
			} else if !core.IsNilConst(e) {
				if ms, isMS := e.(*ssa.MakeSlice); !isMS {
					return ""
				} else if l, isK := core.ConstInt(ms.Len); !isK || l != 0 {
					return ""
				}
			}
		}
	}
	return "COMPACT:" + k
}

// compactCounter: integer phi in a skip-guarded loop: 0 at entry, unchanged on skip edges, +1 at the end of the body.
func (m *m6) compactCounter(phi *ssa.Phi) string {
	k, skips := m.skipGuardedLoop(phi.Block())
	if k == "" {
		return ""
	}
	lpreds, lvals := backEdgeLeaves(phi)
	for i, pred := range lpreds {
		e := lvals[i]
		switch {
		case skips[pred]:
			if e != ssa.Value(phi) {
				return ""
			}
		case phi.Block().Dominates(pred):
			b, ok := e.(*ssa.BinOp)
			if !ok || b.Op != token.ADD || b.X != ssa.Value(phi) {
				return ""
			}
			if one, isK := core.ConstInt(b.Y); !isK || one != 1 {
				return ""
			}
		default:
			if z, isK := core.ConstInt(e); !isK || z != 0 {
				return ""
			}
		}
	}
	return "COMPACT:" + k
}

// index: the domain of an index value.
func (m *m6) index(v ssa.Value) string {
	v = core.StripConv(v)
	if d, ok := m.memoIdx[v]; ok {
		return d
	}
	d := m.index0(v)
	m.memoIdx[v] = d
	return d
}

func (m *m6) index0(v ssa.Value) string {
	if _, ok := v.(*ssa.Const); ok {
		return "*"
	}
	if p := m.paramOf(v); p != nil {
		if d, ok := m6ParamIndex[topName(p.Parent())][p.Name()]; ok {
			return d
		}
	}
	switch x := v.(type) {
	case *ssa.UnOp:
		if x.Op == token.MUL {
			// zs[i]: a value stored in zs is a domain point
			if ia, ok := x.X.(*ssa.IndexAddr); ok {
				if p := m.paramOf(ia.X); p != nil {
					if d, ok := m6ElemIsIndex[p.Name()]; ok {
						return d
					}
				}
			}
			// an element of a local list of indexes (built by append): the domain of what was appended
			if ia, ok := x.X.(*ssa.IndexAddr); ok {
				if d := m.elemIndex(ia.X, 0); d != "" {
					return d
				}
			}
			if a, ok := x.X.(*ssa.Alloc); ok {
				d := ""
				for _, st := range storesInto(a) {
					if sd := m.index(st.Val); sd != "" && sd != "*" {
						if d != "" && d != sd {
							return ""
						}
						d = sd
					}
				}
				return d
			}
		}
	case *ssa.BinOp:
		// rangeindex: phi + 1 is the loop variable of a range loop
		for _, cl := range m.cls {
			if cl.phi == ssa.Value(x) {
				return m.loopDomain(cl)
			}
		}
		if x.Op == token.ADD {
			if phi, ok := x.X.(*ssa.Phi); ok {
				if one, isK := core.ConstInt(x.Y); isK && one == 1 {
					for _, cl := range m.cls {
						if cl.phi == phi {
							if init, isI := core.ConstInt(phiInit(phi, cl.loop)); isI && init == -1 {
								return m.loopDomain(cl)
							}
						}
					}
				}
			}
		}
	case *ssa.Phi:
		for _, cl := range m.cls {
			if cl.phi == x {
				return m.loopDomain(cl)
			}
		}
		if d := m.compactCounter(x); d != "" {
			return d
		}
	case *ssa.Call:
		// the low 64 bits of a field element: a domain point only under a full-width membership test
		if core.IsMethod(core.Callee(x.Common()), "math/big", "Int", "Uint64") {
			return m.fieldElemAsIndex(x)
		}
	case *ssa.Extract:
		// (index, ok) helpers: look at the returned expression of a module callee
		if call, ok := x.Tuple.(*ssa.Call); ok {
			if f := core.Callee(call.Common()); f != nil && core.InModule(f) && len(f.Blocks) > 0 {
				for _, r := range core.Returns(f) {
					if x.Index < len(r.Results) {
						sub := &m6{c: m.c, fn: f, vl: m.vl, cls: countedLoops(f), memoBase: map[ssa.Value]string{}, memoIdx: map[ssa.Value]string{}, busy: map[ssa.Value]bool{}}
						if d := sub.index(r.Results[x.Index]); d != "" {
							if d == "DOM?" {
								return "BAD:low64"
							}
							return d
						}
					}
				}
			}
		}
	}
	return ""
}

// elemIndex: the index domain of the values held by a local integer slice that is only ever extended by
// `s = append(s, e)`: the common domain of the appended values.
func (m *m6) elemIndex(s ssa.Value, d int) string {
	if d > 6 {
		return ""
	}
	if b, isB := s.Type().Underlying().(*types.Slice); !isB {
		return ""
	} else if eb, isInt := b.Elem().Underlying().(*types.Basic); !isInt || eb.Info()&types.IsInteger == 0 {
		return ""
	}
	switch x := s.(type) {
	case *ssa.Phi:
		if m.busy[x] {
			return "*"
		}
		m.busy[x] = true
		defer delete(m.busy, x)
		dom := ""
		for _, e := range x.Edges {
			ed := m.elemIndex(e, d+1)
			switch {
			case ed == "":
				return ""
			case ed == "*":
			case dom != "" && dom != ed:
				return ""
			default:
				dom = ed
			}
		}
		return dom
	case *ssa.Call:
		if e := appendedElem(x); e != nil {
			rest := m.elemIndex(x.Call.Args[0], d+1)
			ed := m.index(e)
			if rest == "" || ed == "" {
				return ""
			}
			if rest == "*" {
				return ed
			}
			if ed == "*" || ed == rest {
				return rest
			}
			return ""
		}
	case *ssa.MakeSlice:
		if l, isK := core.ConstInt(x.Len); isK && l == 0 {
			return "*" // empty: no element yet
		}
	case *ssa.Slice:
		if x.High != nil {
			if hi, isK := core.ConstInt(x.High); isK && hi == 0 {
				return "*"
			}
		}
	case *ssa.Const:
		if x.IsNil() {
			return "*"
		}
	}
	return ""
}

// fieldElemAsIndex: v = B.Uint64() where B = regular form of a field element E. It is a domain point only if
// the use is guarded by a full-width comparison of E with VectorLength-1; a guard on v itself looks at the low
// 64 bits only (2^64+3 would pass for 3).
func (m *m6) fieldElemAsIndex(u *ssa.Call) string {
	fn := u.Parent()
	// full-width guard: some fr.Element.Cmp(...) result tested in this function before the use
	for _, cd := range core.Conds(fn) {
		if call, ok := cd.X.(*ssa.Call); ok && core.IsMethod(core.Callee(call.Common()), "bandersnatch/fr", "Element", "Cmp") {
			if strings.Contains(core.PathOf(call.Call.Args[1]), "maxEvalPointInsideDomain") {
				return "DOM"
			}
		}
	}
	for _, cd := range core.Conds(fn) {
		if core.StripConv(cd.X) == ssa.Value(u) {
			if k, ok := core.ConstInt(cd.Y); ok && (k == m.vl || k == m.vl-1) {
				return "BAD:low64"
			}
		}
	}
	// compared by the caller of a helper returning (index, index < size)
	for _, r := range core.Returns(fn) {
		for _, res := range r.Results {
			if b, ok := res.(*ssa.BinOp); ok && core.StripConv(b.X) == ssa.Value(u) {
				if k, isK := core.ConstInt(b.Y); isK && (k == m.vl || k == m.vl-1) {
					return "DOM?"
				}
			}
		}
	}
	return ""
}

// selfRanged: idx is the variable of a loop i = 0 .. len(base)-1 over this very slice value.
func (m *m6) selfRanged(base, idx ssa.Value) bool {
	idx = core.StripConv(idx)
	for _, cl := range m.cls {
		if cl.phi != idx || cl.step != 1 || cl.op != token.LSS {
			continue
		}
		if z, isZ := core.ConstInt(cl.init); !isZ || z < 0 {
			continue
		}
		if x, isLen := core.IsLenOf(cl.bound); isLen && (x == base || core.SameExpr(x, base)) {
			return true
		}
	}
	return false
}

func (m *m6) loopDomain(cl *countedLoop) string {
	// a count-down loop i = N-1 .. 0 ranges over the same numbering as i = 0 .. N-1
	if cl.step == -1 && (cl.op == token.GEQ || cl.op == token.GTR) {
		if lo, isK := core.ConstInt(cl.bound); isK && lo >= 0 {
			init := core.StripConv(cl.init)
			if k, isC := core.ConstInt(init); isC && k+1 == m.vl {
				return "DOM"
			}
			if b, isB := init.(*ssa.BinOp); isB && b.Op == token.SUB {
				if one, isOne := core.ConstInt(b.Y); isOne && one == 1 {
					return m.lenDomain(b.X)
				}
			}
		}
		return ""
	}
	if cl.step != 1 || cl.op != token.LSS {
		return ""
	}
	if d := m.lenDomain(cl.bound); d != "" {
		return d
	}
	// i < k for an index k of some domain (and i >= 0): i is of that domain too
	if z, isZ := core.ConstInt(cl.init); isZ && z >= 0 {
		if d := m.index(cl.bound); d != "" && d != "*" && !strings.HasPrefix(d, "BAD") && d != "DOM?" {
			return d
		}
	}
	// bound is a value defined as len(X) elsewhere, or the worker's own start..end range of openings
	b := core.StripConv(cl.bound)
	if p := m.paramOf(b); p != nil && (p.Name() == "end") {
		return "OPEN"
	}
	if phi, ok := b.(*ssa.Phi); ok {
		// clipped end: phi(end, len(fs))
		for _, e := range phi.Edges {
			if d := m.lenDomain(e); d != "" {
				return d
			}
		}
	}
	return ""
}

func RuleM6(c *Ctx) {
	c.Rule("M6", "index-domain typing: in CreateMultiProof, CheckMultiProof, groupPolynomialsByEvaluationPoint, DivideOnDomain and ComputeBarycentricCoefficients every indexing uses an index of the indexed array's own domain (opening number / domain point / compacted position among the non-empty groups); a base or index whose domain cannot be inferred is undecided")
	vl := c.constOf("common", "VectorLength")
	targets := [][3]string{{"", "", "CreateMultiProof"}, {"", "", "CheckMultiProof"}, {"", "", "groupPolynomialsByEvaluationPoint"},
		{"ipa", "PrecomputedWeights", "DivideOnDomain"}, {"ipa", "PrecomputedWeights", "ComputeBarycentricCoefficients"}}
	n := 0
	for _, t := range targets {
		top := c.P.Fn(t[0], t[1], t[2])
		if top == nil {
			c.Unresolved("M6", t[2])
			continue
		}
		for _, fn := range core.Family(top) {
			c.Saw(core.FnName(fn))
			m := &m6{c: c, fn: fn, vl: vl, cls: countedLoops(fn), memoBase: map[ssa.Value]string{}, memoIdx: map[ssa.Value]string{}, busy: map[ssa.Value]bool{}}
			ord := 0
			core.AllInstrs(fn, func(i ssa.Instruction) {
				var base, idx ssa.Value
				switch x := i.(type) {
				case *ssa.IndexAddr:
					base, idx = x.X, x.Index
				case *ssa.Index:
					base, idx = x.X, x.Index
				default:
					return
				}
				// varargs temporaries and error-message arrays are not data arrays
				if al, ok := base.(*ssa.Alloc); ok && (al.Comment == "varargs" || strings.Contains(al.Type().String(), "]any")) {
					return
				}
				bd, id := m.base(base), m.index(idx)
				if bd == "TABLE" {
					return // precomputed tables: rule M7
				}
				// inner array of limbs / fixed small arrays indexed by constants
				if id == "*" {
					if bd == "" {
						return
					}
				}
				n++
				ord++
				key := fmt.Sprintf("%s:%s[%s]#%d", core.FnName(fn), shortPath(base), shortPath(idx), ord)
				switch {
				case id == "BAD:low64" || id == "DOM?":
					c.Bad("M6", key, i.Pos(), "the index is the low 64 bits of a field element, and membership in the domain is decided on those 64 bits only: a point such as 2^64+3 is treated as the domain point 3 (the test must compare the whole field element with VectorLength-1)")
				case (bd == "" || id == "") && m.selfRanged(base, idx):
					c.OK("M6", key, i.Pos(), "indexed by a loop over its own length")
				case bd == "" || id == "":
					c.Und("M6", key, i.Pos(), fmt.Sprintf("cannot infer the index domain (array: %q, index: %q)", bd, id))
				case id == "*":
					c.OK("M6", key, i.Pos(), "constant index into "+bd+"-indexed array")
				case bd != id:
					c.Bad("M6", key, i.Pos(), fmt.Sprintf("an array indexed by %s is indexed with a %s index: the wrong element is used whenever the two numberings differ (e.g. gaps between evaluation points)", domName(bd), domName(id)))
				default:
					c.OK("M6", key, i.Pos(), domName(bd)+" array indexed by "+domName(id)+" index")
				}
			})
		}
	}
	c.FloorN("M6", 40, n, "indexings typed")
}

func domName(d string) string {
	switch {
	case d == "OPEN":
		return "opening-number"
	case d == "DOM":
		return "domain-point"
	case strings.HasPrefix(d, "COMPACT:"):
		return "compacted-position(" + strings.TrimPrefix(d, "COMPACT:") + ")"
	}
	return d
}

func shortPath(v ssa.Value) string {
	p := core.PathOf(v)
	if len(p) > 40 {
		p = v.Name()
	}
	return p
}

// compactArray: a local array of domain size used as a scratch buffer that is filled from the front — every write
// into it is indexed by one and the same compaction counter (0 at entry, +1 per element that is not skipped). Its
// positions are then those of the compacted list, not domain points.
func (m *m6) compactArray(v ssa.Value) string {
	a, ok := v.(*ssa.Alloc)
	if !ok || !isArrayOfLen(a.Type(), m.vl) {
		return ""
	}
	if m.inCompactArray[a] {
		return ""
	}
	if m.inCompactArray == nil {
		m.inCompactArray = map[*ssa.Alloc]bool{}
	}
	m.inCompactArray[a] = true
	defer delete(m.inCompactArray, a)
	d, writes := "", 0
	for _, r := range core.Refs(a) {
		ia, isIA := r.(*ssa.IndexAddr)
		if !isIA || ia.X != ssa.Value(a) {
			continue
		}
		written := false
		for _, u := range core.Refs(ia) {
			switch x := u.(type) {
			case *ssa.Store:
				if x.Addr == ssa.Value(ia) {
					written = true
				}
			case *ssa.Call:
				if f := core.Callee(x.Common()); f != nil && f.Signature.Recv() != nil && len(x.Call.Args) > 0 && x.Call.Args[0] == ssa.Value(ia) && !gnarkObservers[f.Name()] {
					written = true
				}
			}
		}
		if !written {
			continue
		}
		writes++
		di := m.index(ia.Index)
		if !strings.HasPrefix(di, "COMPACT:") || (d != "" && d != di) {
			return ""
		}
		d = di
	}
	if writes == 0 {
		return ""
	}
	return d
}
