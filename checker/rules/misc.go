package rules

// Single-purpose rules of DESIGN §4: E2/E3 (encoding conventions), L1 (delegation), N1/N2 (map to field),
// U1/U3 (batch helpers), Z1 (batch inversion zero guard), B1 (b-vector), P1 (basis identity).

import (
	"fmt"
	"go/token"
	"go/types"
	"strings"

	"golang.org/x/tools/go/ssa"

	"verif/checker/core"
)

func callsTo(fn *ssa.Function, pkgSuffix, typ, name string) []*ssa.Call {
	var out []*ssa.Call
	for _, ci := range findCalls(fn, staticIs(pkgSuffix, typ, name)) {
		if call, ok := ci.(*ssa.Call); ok {
			out = append(out, call)
		}
	}
	return out
}

const gfr = "bls12-381/fr"
const gbs = "bls12-381/bandersnatch"

// fromWithin: target reachable from `from` without taking the cut edges and without passing `from` again
// (i.e. within the same loop iteration / dynamic instance).
func fromWithin(fn *ssa.Function, from ssa.Instruction, cuts *core.Cuts, target ssa.Instruction) bool {
	c := mergeCuts(cuts, nil)
	c.AddInstr(from)
	return core.ReachableAvoiding(fn, from, c, target)
}

// ---------------------------------------------------------------------------
// E2 / E3

func RuleE2E3(c *Ctx) {
	c.Rule("E2", "sign convention agreement: Bytes and ElementsToBytes negate x exactly when the affine y is not lexicographically largest, and encode that same x; the decoders request the lexicographically largest root (GetPointFromX(x, true), rule D2)")
	c.Rule("E3", "normalisation: the coordinates that are serialised are the affine ones: raw X,Y only on the Z.IsOne() edge, otherwise the result of FromProj (single) resp. X*Z^-1, Y*Z^-1 with Z^-1 of the same element (batch)")
	for _, name := range []string{"Bytes", "ElementsToBytes"} {
		var fn *ssa.Function
		if name == "Bytes" {
			fn = c.P.Fn("banderwagon", "Element", "Bytes")
		} else {
			fn = c.P.Fn("banderwagon", "", name)
		}
		if fn == nil {
			c.Unresolved("E2", "banderwagon."+name)
			continue
		}
		c.Saw(core.FnName(fn))
		// the per-element work may live in a closure of the function (e.g. a loop body handed to a helper)
		top := fn
		for _, f := range core.Family(top) {
			if len(callsTo(f, gfr, "Element", "LexicographicallyLargest")) > 0 {
				fn = f
				break
			}
		}
		lls := callsTo(fn, gfr, "Element", "LexicographicallyLargest")
		encs := callsTo(fn, gfr, "Element", "Bytes")
		negs := callsTo(fn, gfr, "Element", "Neg")
		key := name + ":negate-iff-not-largest"
		if len(lls) != 1 || len(encs) == 0 || len(negs) == 0 {
			c.Bad("E2", key, fn.Pos(), fmt.Sprintf("expected one LexicographicallyLargest test and at least one Neg and one Bytes encoding; found %d, %d, %d", len(lls), len(negs), len(encs)))
			continue
		}
		ll, enc := lls[0], encs[0]
		ok := true
		var why []string
		for _, neg := range negs {
			// Neg only when not largest
			if fromWithin(fn, ll, boolEdges(fn, ll, false), neg) {
				ok = false
				why = append(why, "x can be negated although y is the lexicographically largest root")
			}
			// never negated twice for one sign test
			for _, neg2 := range negs {
				cut := core.NewCuts()
				cut.AddInstr(ll)
				if core.ReachableAvoiding(fn, neg, cut, neg2) {
					ok = false
					why = append(why, "x can be negated twice after one sign test")
				}
			}
			// same x: Neg(x, x) and Bytes(x)
			if !(neg.Call.Args[0] == neg.Call.Args[1] && enc.Call.Args[0] == neg.Call.Args[0]) {
				ok = false
				why = append(why, "the value that is negated is not the x that is encoded")
			}
		}
		for _, e := range encs {
			// when not largest, Neg always happens before the encoding
			cut := boolEdges(fn, ll, true)
			for _, neg := range negs {
				cut.AddInstr(neg)
			}
			if fromWithin(fn, ll, cut, e) {
				ok = false
				why = append(why, "x can be encoded un-negated although y is not the lexicographically largest root")
			}
			if e.Call.Args[0] != enc.Call.Args[0] {
				ok = false
				why = append(why, "the encodings do not all serialise the same x")
			}
			if !core.Precedes(fn, ll, e) {
				ok = false
				why = append(why, "an encoding can be reached without the sign test")
			}
		}
		c.Check(ok, "E2", key, ll.Pos(), strings.Join(uniqStrings(why), "; "), "Neg(x) exactly on the not-largest edge, before x.Bytes()")
		// the cells that hold affine x and y; a by-value copy (`x := affineX`) is looked through
		xCell, yCell := copySource(enc.Call.Args[0]), copySource(ll.Call.Args[0])
		// E3
		key3 := name + ":affine-coordinates"
		if name == "Bytes" {
			ones := callsTo(fn, gfr, "Element", "IsOne")
			fps := callsTo(fn, gbs, "PointAffine", "FromProj")
			ok3 := len(ones) == 1 && len(fps) == 1
			var why3 []string
			if ok3 {
				one, fp := ones[0], fps[0]
				if !strings.HasSuffix(core.PathOf(one.Call.Args[0]), "p.inner.Z") {
					ok3 = false
					why3 = append(why3, "the Z == 1 test is not on the element's own Z")
				}
				if !strings.HasSuffix(core.PathOf(fp.Call.Args[1]), "p.inner") {
					ok3 = false
					why3 = append(why3, "FromProj is not applied to the element itself")
				}
				// on every outcome of (Z == 1, y largest) the coordinate that is used is the raw one exactly when Z == 1
				// and FromProj's otherwise: walk the CFG and look at the last value put into the cell before its use
				for _, oneV := range []int64{0, 1} {
					for _, llV := range []int64{0, 1} {
						ov, lv := oneV, llV
						abs := func(v ssa.Value) (int64, bool) {
							switch v {
							case ssa.Value(one):
								return ov, true
							case ssa.Value(ll):
								return lv, true
							}
							return 0, false
						}
						ret, path, whyW := core.Walk(fn, abs)
						if ret == nil {
							ok3 = false
							why3 = append(why3, "cannot evaluate the decision: "+whyW)
							continue
						}
						for _, cell := range []struct {
							uses  []*ssa.Call
							field string
							nm    string
						}{{encs, "X", "x"}, {lls, "Y", "y"}} {
							for _, use := range callsOnPath(path, func(cc *ssa.CallCommon) bool {
								for _, u := range cell.uses {
									if u.Common() == cc {
										return true
									}
								}
								return false
							}) {
								src := lastValueOnPath(path, use.Call.Args[0], use)
								kind := "other"
								if u, isLoad := src.(*ssa.UnOp); isLoad && u.Op == token.MUL {
									if fa, isFA := u.X.(*ssa.FieldAddr); isFA && fieldNameOf(fa) == cell.field {
										switch {
										case fa.X == fp.Call.Args[0] && instrOnPathBefore(path, fp, use):
											kind = "affine"
										case strings.HasSuffix(core.PathOf(fa.X), "p.inner"):
											kind = "raw"
										}
									}
								}
								want := "affine"
								if ov == 1 {
									want = "raw"
								}
								if kind != want {
									ok3 = false
									if want == "affine" {
										why3 = append(why3, "the projective "+cell.nm+" can be serialised although Z != 1 (it is not taken from the FromProj result)")
									} else {
										why3 = append(why3, "with Z == 1 the serialised "+cell.nm+" is not the element's own coordinate")
									}
								}
							}
						}
					}
				}
			} else {
				why3 = append(why3, fmt.Sprintf("%d IsOne tests, %d FromProj calls", len(ones), len(fps)))
			}
			c.Check(ok3, "E3", key3, fn.Pos(), strings.Join(why3, "; "), "raw X,Y only when Z.IsOne(); otherwise taken from FromProj(p.inner)")
		} else {
			ok3, why3 := c.batchAffine(fn, top, xCell, yCell, "Z")
			c.Check(ok3, "E3", key3, fn.Pos(), why3, "X = elem.X * zInv[i], Y = elem.Y * zInv[i], zInvs = BatchInvert(zs), zs[i] = elem.Z")
		}
	}
}

// lastValueOnPath: the value held by cell (a local, possibly a by-value copy of another) at instruction `at`, following
// the given path: the last store before `at`, phis resolved by the path's edges.
func lastValueOnPath(path []*ssa.BasicBlock, cell ssa.Value, at ssa.Instruction) ssa.Value {
	var val ssa.Value
	done := false
	for _, b := range path {
		for _, ins := range b.Instrs {
			if ins == at {
				done = true
				break
			}
			if st, ok := ins.(*ssa.Store); ok && st.Addr == cell {
				val = st.Val
			}
		}
		if done {
			break
		}
	}
	for d := 0; d < 6 && val != nil; d++ {
		switch x := val.(type) {
		case *ssa.Phi:
			var next ssa.Value
			for k, pred := range x.Block().Preds {
				for j := 0; j+1 < len(path); j++ {
					if path[j] == pred && path[j+1] == x.Block() {
						next = x.Edges[k]
					}
				}
			}
			if next == nil {
				return val
			}
			val = next
			continue
		case *ssa.UnOp:
			// a copy of another local cell: what that cell held when it was copied
			if al, isAl := x.X.(*ssa.Alloc); isAl && x.Op == token.MUL {
				if _, isArr := al.Type().Underlying().(*types.Pointer).Elem().Underlying().(*types.Array); isArr {
					if v2 := lastValueOnPath(path, al, x); v2 != nil {
						val = v2
						continue
					}
				}
			}
		}
		break
	}
	return val
}

func instrOnPathBefore(path []*ssa.BasicBlock, a, b ssa.Instruction) bool {
	seenA := false
	for _, blk := range path {
		for _, ins := range blk.Instrs {
			if ins == a {
				seenA = true
			}
			if ins == b {
				return seenA
			}
		}
	}
	return false
}

// copySource: a local cell whose only assignment copies another local cell stands for that cell.
func copySource(v ssa.Value) ssa.Value {
	for d := 0; d < 4; d++ {
		al, ok := v.(*ssa.Alloc)
		if !ok {
			return v
		}
		sts := storesInto(al)
		if len(sts) != 1 {
			return v
		}
		u, isLoad := sts[0].Val.(*ssa.UnOp)
		if !isLoad || u.Op != token.MUL {
			return v
		}
		src, isAl := u.X.(*ssa.Alloc)
		if !isAl {
			return v
		}
		v = src
	}
	return v
}

func uniqStrings(in []string) []string {
	seen := map[string]bool{}
	var out []string
	for _, s := range in {
		if !seen[s] {
			seen[s] = true
			out = append(out, s)
		}
	}
	return out
}

func allStoresTo(fn *ssa.Function, cell ssa.Value) []*ssa.Store {
	var out []*ssa.Store
	core.AllInstrs(fn, func(i ssa.Instruction) {
		if st, ok := i.(*ssa.Store); ok && st.Addr == cell {
			out = append(out, st)
		}
	})
	return out
}

// batchAffine: X (resp. Y) cell is written by Mul(cell, &elem.inner.X (resp .Y), &inv[i]) where inv = fp.BatchInvert(src),
// and src[i] was stored from elements[i].inner.<invField>.
// unCapture looks through a variable cell (a captured variable seen from a closure, or a local that is captured elsewhere)
// to the single value stored into it.
func unCapture(v ssa.Value) ssa.Value {
	for d := 0; d < 4; d++ {
		u, ok := v.(*ssa.UnOp)
		if !ok || u.Op != token.MUL {
			return v
		}
		cell := u.X
		if fv, isFV := cell.(*ssa.FreeVar); isFV {
			cell = core.FreeVarBinding(fv)
		}
		al, isAl := cell.(*ssa.Alloc)
		if !isAl {
			return v
		}
		sts := storesInto(al)
		if len(sts) != 1 {
			return v
		}
		v = sts[0].Val
	}
	return v
}

func (c *Ctx) batchAffine(fn, top *ssa.Function, xCell, yCell ssa.Value, invField string) (bool, string) {
	muls := callsTo(fn, gfr, "Element", "Mul")
	var invs ssa.Value
	for _, spec := range []struct {
		cell  ssa.Value
		field string
	}{{xCell, "X"}, {yCell, "Y"}} {
		if spec.cell == nil {
			continue
		}
		found := false
		for _, m := range muls {
			if m.Call.Args[0] != spec.cell {
				continue
			}
			a, b := m.Call.Args[1], m.Call.Args[2]
			if !strings.HasSuffix(core.PathOf(a), ".inner."+spec.field) {
				a, b = b, a
			}
			if !strings.HasSuffix(core.PathOf(a), ".inner."+spec.field) {
				return false, "affine " + spec.field + " is not the element's " + spec.field + " times an inverse"
			}
			ia, isIA := b.(*ssa.IndexAddr)
			if !isIA {
				return false, "the inverse is not taken from the batch-inverted slice"
			}
			sl := unCapture(ia.X)
			if invs != nil && invs != sl {
				return false, "X and Y are scaled by inverses from different slices"
			}
			invs = sl
			found = true
		}
		if !found {
			return false, "affine " + spec.field + " is not computed by a multiplication"
		}
	}
	bi, isCall := invs.(*ssa.Call)
	if !isCall || !(core.IsFunc(core.Callee(bi.Common()), "bandersnatch/fp", "BatchInvert") || core.IsFunc(core.Callee(bi.Common()), gfr, "BatchInvert")) {
		return false, "the inverses do not come from fp.BatchInvert"
	}
	// source slice filled from the elements' invField
	src := unCapture(bi.Call.Args[0])
	okSrc := false
	for _, f := range core.Family(top) {
		core.AllInstrs(f, func(i ssa.Instruction) {
			if st, ok := i.(*ssa.Store); ok {
				if ia, ok := st.Addr.(*ssa.IndexAddr); ok && unCapture(ia.X) == src {
					if strings.HasSuffix(core.PathOf(st.Val), ".inner."+invField+")") {
						okSrc = true
					}
				}
			}
		})
	}
	if phi, isPhi := src.(*ssa.Phi); isPhi && !okSrc {
		// filled by one append per iteration from empty
		if elem, _, ok := appendFill(phi); ok && strings.HasSuffix(core.PathOf(elem), ".inner."+invField+")") {
			okSrc = true
		}
	}
	if !okSrc {
		return false, "the inverted values are not the elements' " + invField + " coordinates"
	}
	return true, ""
}

// ---------------------------------------------------------------------------
// U3 uncompressed layout

func RuleU3(c *Ctx) {
	c.Rule("U3", "uncompressed layout: BytesUncompressedTrusted and BatchToBytesUncompressed both emit affine x at offset 0 and y at offset coordinateSize, with no sign rule; the trusted decoder reads x from [0:32], y from [32:64] and sets Z = One")
	size := c.constOf("banderwagon", "CompressedSize")
	for _, name := range []string{"BytesUncompressedTrusted", "BatchToBytesUncompressed"} {
		var fn *ssa.Function
		if name == "BytesUncompressedTrusted" {
			fn = c.P.Fn("banderwagon", "Element", name)
		} else {
			fn = c.P.Fn("banderwagon", "", name)
		}
		if fn == nil {
			c.Unresolved("U3", "banderwagon."+name)
			continue
		}
		c.Saw(core.FnName(fn))
		var copies []*ssa.Call
		for _, ci := range core.CallsIn(fn) {
			if call, ok := ci.(*ssa.Call); ok {
				if b, isB := call.Call.Value.(*ssa.Builtin); isB && b.Name() == "copy" {
					copies = append(copies, call)
				}
			}
		}
		ok := len(copies) == 2
		var why []string
		seen := map[string]bool{}
		for _, cp := range copies {
			dst, isSl := cp.Call.Args[0].(*ssa.Slice)
			if !isSl {
				ok = false
				continue
			}
			off := int64(0)
			if dst.Low != nil {
				k, isK := core.ConstInt(dst.Low)
				if !isK {
					// the count an earlier copy returned: the length of its (whole-array) source, when the
					// destination is at least that long
					if pc, isCopy := core.StripConv(dst.Low).(*ssa.Call); isCopy {
						if b, isB := pc.Call.Value.(*ssa.Builtin); isB && b.Name() == "copy" {
							srcLen, dstLen := sliceConstLen(pc.Call.Args[1]), sliceConstLen(pc.Call.Args[0])
							if srcLen > 0 && dstLen >= srcLen {
								k, isK = srcLen, true
							}
						}
					}
				}
				if !isK {
					ok = false
					continue
				}
				off = k
			}
			// source: Bytes() of which coordinate?
			coord := ""
			if sl, isSl := cp.Call.Args[1].(*ssa.Slice); isSl {
				if al, isAl := sl.X.(*ssa.Alloc); isAl {
					for _, st := range storesInto(al) {
						if bc, isCall := st.Val.(*ssa.Call); isCall && core.IsMethod(core.Callee(bc.Common()), gfr, "Element", "Bytes") {
							p := core.PathOf(bc.Call.Args[0])
							switch {
							case strings.HasSuffix(p, ".X"):
								coord = "X"
							case strings.HasSuffix(p, ".Y"):
								coord = "Y"
							default:
								// batch form: local X / Y cells written by Mul from elem.inner.X / .Y
								// the cell may be a copy of a copy of the cell the product was written to (results of an
								// inlined helper): follow whole-value copies between single-assignment locals
								origin := map[ssa.Value]bool{bc.Call.Args[0]: true}
								cur := bc.Call.Args[0]
								for d := 0; d < 4; d++ {
									cell, isCell := cur.(*ssa.Alloc)
									if !isCell {
										break
									}
									sts := storesInto(cell)
									if len(sts) != 1 {
										break
									}
									ld, isLd := sts[0].Val.(*ssa.UnOp)
									if !isLd || ld.Op != token.MUL {
										break
									}
									cur = ld.X
									origin[cur] = true
								}
								for _, m := range callsTo(fn, gfr, "Element", "Mul") {
									if origin[m.Call.Args[0]] {
										for _, a := range m.Call.Args[1:] {
											if q := core.PathOf(a); strings.HasSuffix(q, ".inner.X") {
												coord = "X"
											} else if strings.HasSuffix(q, ".inner.Y") {
												coord = "Y"
											}
										}
									}
								}
							}
						}
					}
				}
			}
			want := map[int64]string{0: "X", size: "Y"}[off]
			if coord == "" || coord != want {
				ok = false
				why = append(why, fmt.Sprintf("offset %d receives coordinate %q, expected %q", off, coord, want))
			}
			seen[coord] = true
		}
		if !seen["X"] || !seen["Y"] {
			ok = false
		}
		if len(callsTo(fn, gfr, "Element", "LexicographicallyLargest"))+len(callsTo(fn, gfr, "Element", "Neg")) != 0 {
			ok = false
			why = append(why, "a sign rule is applied in the uncompressed form")
		}
		c.Check(ok, "U3", name+":x@0,y@32", fn.Pos(), strings.Join(why, "; "), fmt.Sprintf("x at [0:%d], y at [%d:%d]", size, size, 2*size))
	}
	// trusted decoder layout
	if fn := c.P.Fn("banderwagon", "Element", "SetBytesUncompressed"); fn != nil {
		c.Saw(core.FnName(fn))
		tr := specialise(fn, "trusted", true)
		var xs, ys bool
		var xCell, yCell ssa.Value
		for _, call := range callsTo(fn, gfr, "Element", "SetBytes") {
			if !core.ReachableAvoiding(fn, nil, tr, call) {
				continue
			}
			if sl, isSl := call.Call.Args[1].(*ssa.Slice); isSl && core.PathOf(sl.X) == "p:buf" {
				lo, hi := int64(0), int64(-1)
				if sl.Low != nil {
					lo, _ = core.ConstInt(sl.Low)
				}
				if sl.High != nil {
					hi, _ = core.ConstInt(sl.High)
				}
				if lo == 0 && hi == size {
					xs, xCell = true, call.Call.Args[0]
				}
				if lo == size && hi == -1 {
					ys, yCell = true, call.Call.Args[0]
				}
			}
		}
		// the stored element takes X from xCell, Y from yCell, Z from fp.One()
		okStore := false
		core.AllInstrs(fn, func(i ssa.Instruction) {
			if st, ok := i.(*ssa.Store); ok {
				if fa, ok := st.Addr.(*ssa.FieldAddr); ok && strings.HasSuffix(fa.X.Type().String(), "PointProj") {
					if u, ok := st.Val.(*ssa.UnOp); ok {
						if fa.Field == 0 && u.X == xCell {
							okStore = true
						}
						if fa.Field == 1 && u.X != yCell {
							okStore = false
						}
					}
				}
			}
		})
		c.Check(xs && ys && okStore, "U3", "SetBytesUncompressed(trusted):x<-[0:32],y<-[32:]", fn.Pos(), "the trusted decoder does not read x from the first half and y from the second half of the buffer", "x from buf[:32], y from buf[32:]")
	} else {
		c.Unresolved("U3", "banderwagon.(*Element).SetBytesUncompressed")
	}
}

// ---------------------------------------------------------------------------
// L1 delegation

func RuleL1(c *Ctx) {
	c.Rule("L1", "delegation: each group-operation wrapper calls the matching gnark-crypto operation on the matching operands (Add->Add(p1,p2), Double->Double(p1), Neg->Neg(p1), AddMixed->MixedAdd(p1,p2), Set copies X,Y,Z, SetIdentity copies Identity, ScalarMul passes the regular-form integer, Sub adds a privately negated copy)")
	type want struct {
		method string
		callee string
		args   []string // path suffixes of the arguments after the receiver
	}
	for _, w := range []want{
		{"Add", "Add", []string{"p:p1.inner", "p:p2.inner"}},
		{"Double", "Double", []string{"p:p1.inner"}},
		{"Neg", "Neg", []string{"p:p1.inner"}},
		{"AddMixed", "MixedAdd", []string{"p:p1.inner", "&p:p2"}},
	} {
		fn := c.P.Fn("banderwagon", "Element", w.method)
		if fn == nil {
			c.Unresolved("L1", "banderwagon.(*Element)."+w.method)
			continue
		}
		c.Saw(core.FnName(fn))
		calls := callsTo(fn, gbs, "PointProj", w.callee)
		ok := len(calls) == 1 && len(core.CallsIn(fn)) == 1
		if ok {
			call := calls[0]
			ok = core.PathOf(call.Call.Args[0]) == "p:p.inner" && len(call.Call.Args) == len(w.args)+1
			for i, a := range w.args {
				if ok && core.PathOf(call.Call.Args[i+1]) != a {
					ok = false
				}
			}
			// returns the receiver
			for _, r := range core.Returns(fn) {
				if core.PathOf(r.Results[0]) != "p:p" {
					ok = false
				}
			}
		}
		c.Check(ok, "L1", "Element."+w.method, fn.Pos(), fmt.Sprintf("%s does not delegate to PointProj.%s(&p.inner, %s) and return p", w.method, w.callee, strings.Join(w.args, ", ")), "p.inner."+w.callee+"("+strings.Join(w.args, ", ")+")")
	}
	// Set
	if fn := c.P.Fn("banderwagon", "Element", "Set"); fn != nil {
		c.Saw(core.FnName(fn))
		got := map[string]string{}
		for _, call := range callsTo(fn, gfr, "Element", "Set") {
			got[core.PathOf(call.Call.Args[0])] = core.PathOf(call.Call.Args[1])
		}
		ok := len(got) == 3
		for _, f := range []string{"X", "Y", "Z"} {
			if got["p:p.inner."+f] != "p:p1.inner."+f {
				ok = false
			}
		}
		// or one store of the whole point (p.inner = p1.inner, *p = *p1) and nothing else written
		if len(got) == 0 {
			nSt, whole := 0, false
			core.AllInstrs(fn, func(i ssa.Instruction) {
				if st, isSt := i.(*ssa.Store); isSt {
					nSt++
					a, v := core.PathOf(st.Addr), core.PathOf(st.Val)
					if (a == "p:p.inner" && v == "*(p:p1.inner)") || (a == "p:p" && v == "*(p:p1)") {
						whole = true
					}
				}
			})
			ok = whole && nSt == 1 && len(core.CallsIn(fn)) == 0
		}
		if !ok {
			// any other arrangement: folded on symbolic coordinates, p must become exactly p1's X, Y, Z and p1 stay
			sym := func(n string) *fterm { return &fterm{op: "sym", s: n} }
			dst := &fobj{slots: []any{sym("A"), sym("B"), sym("C")}}
			src := &fobj{slots: []any{sym("X"), sym("Y"), sym("Z")}}
			fo := &folder{limit: 10_000}
			if res, err := fo.Fold(fn, []any{fptr{dst, 0}, fptr{src, 0}}); err == nil {
				same := true
				for i, n := range []string{"X", "Y", "Z"} {
					d, okD := dst.slots[i].(*fterm)
					sv, okS := src.slots[i].(*fterm)
					if !okD || !okS || d.String() != n || sv.String() != n {
						same = false
					}
				}
				if rp, isP := res.(fptr); same && isP && rp.o == dst {
					ok = true
				}
			}
		}
		c.Check(ok, "L1", "Element.Set", fn.Pos(), "Set does not copy X, Y and Z from the same-named coordinates of p1", "X<-X, Y<-Y, Z<-Z")
	} else {
		c.Unresolved("L1", "banderwagon.(*Element).Set")
	}
	// SetIdentity
	if fn := c.P.Fn("banderwagon", "Element", "SetIdentity"); fn != nil {
		c.Saw(core.FnName(fn))
		ok := false
		core.AllInstrs(fn, func(i ssa.Instruction) {
			if st, isSt := i.(*ssa.Store); isSt && core.PathOf(st.Addr) == "p:p" && core.PathOf(st.Val) == "*(g:banderwagon.Identity)" {
				ok = true
			}
		})
		c.Check(ok, "L1", "Element.SetIdentity", fn.Pos(), "SetIdentity does not copy the package-level Identity", "*p = Identity")
	} else {
		c.Unresolved("L1", "banderwagon.(*Element).SetIdentity")
	}
	// ScalarMul
	if fn := c.P.Fn("banderwagon", "Element", "ScalarMul"); fn != nil {
		c.Saw(core.FnName(fn))
		reg := callsTo(fn, "bandersnatch/fr", "Element", "ToBigIntRegular")
		mont := callsTo(fn, "bandersnatch/fr", "Element", "ToBigInt")
		sm := callsTo(fn, gbs, "PointProj", "ScalarMultiplication")
		// the only other thing it may do: answer the identity for an operand of the identity class (X = 0), which
		// the dependency's GLV routine cannot take (rule E5)
		var isz, setid *ssa.Call
		var idStore *ssa.Store
		for _, ci := range core.CallsIn(fn) {
			call, isCall := ci.(*ssa.Call)
			if !isCall {
				continue
			}
			f := core.Callee(call.Common())
			switch {
			case f != nil && f.Name() == "IsZero" && len(call.Call.Args) == 1 && core.PathOf(call.Call.Args[0]) == "p:p1.inner.X":
				isz = call
			case core.IsMethod(f, "/banderwagon", "Element", "SetIdentity") && len(call.Call.Args) == 1 && core.PathOf(call.Call.Args[0]) == "p:p":
				setid = call
			}
		}
		core.AllInstrs(fn, func(in ssa.Instruction) {
			if st, isSt := in.(*ssa.Store); isSt && core.PathOf(st.Addr) == "p:p" && core.PathOf(st.Val) == "*(g:banderwagon.Identity)" {
				idStore = st
			}
		})
		nCalls := len(core.CallsIn(fn))
		guarded := isz != nil && ((setid != nil && nCalls == 4) || (setid == nil && idStore != nil && nCalls == 3))
		ok := len(reg) == 1 && len(mont) == 0 && len(sm) == 1 && (guarded || (nCalls == 2 && core.PostDominatesEntry(fn, sm[0])))
		if ok && guarded {
			smCut, idCut := core.NewCuts(), core.NewCuts()
			smCut.AddInstr(sm[0])
			if setid != nil {
				idCut.AddInstr(setid)
			} else {
				idCut.AddInstr(idStore)
			}
			zeroArm := boolEdges(fn, isz, true)
			either := core.NewCuts()
			either.AddInstr(sm[0])
			for e := range zeroArm.Edges {
				either.Edges[e] = true
			}
			for _, r := range core.Returns(fn) {
				okRes := len(r.Results) == 1 && (core.PathOf(r.Results[0]) == "p:p" || (setid != nil && r.Results[0] == ssa.Value(setid)) || r.Results[0] == ssa.Value(sm[0]))
				// every way to the return multiplies, or takes the X = 0 arm ...
				if !okRes || core.ReachableAvoiding(fn, nil, either, r) {
					ok = false
				}
				// ... and on the X = 0 arm the identity is written before returning
				for e := range zeroArm.Edges {
					for si, sc := range e.From.Succs {
						if sc == e.To && core.ReachableFromEdge(fn, e.From, si, idCut, r) {
							ok = false
						}
					}
				}
			}
			// the multiplication is not on the identity arm
			if !zeroArm.Empty() && !core.ReachableAvoiding(fn, nil, zeroArm, sm[0]) {
				ok = false
			}
		}
		if ok {
			ok = core.PathOf(reg[0].Call.Args[0]) == "*(p:scalarMont)" && (sm[0].Call.Args[2] == reg[0].Call.Args[1] || sm[0].Call.Args[2] == ssa.Value(reg[0])) &&
				core.PathOf(sm[0].Call.Args[0]) == "p:p.inner" && core.PathOf(sm[0].Call.Args[1]) == "p:p1.inner" && core.Precedes(fn, reg[0], sm[0])
		}
		c.Check(ok, "L1", "Element.ScalarMul", fn.Pos(), "ScalarMul does not, on every path, multiply p1 by the regular-form (non-Montgomery) integer of its scalar through PointProj.ScalarMultiplication (and nothing else, except answering the identity for an operand with X = 0)", "scalar.ToBigIntRegular(&big) then inner.ScalarMultiplication(&p1.inner, &big)")
	} else {
		c.Unresolved("L1", "banderwagon.(*Element).ScalarMul")
	}
	// Sub
	if fn := c.P.Fn("banderwagon", "Element", "Sub"); fn != nil {
		c.Saw(core.FnName(fn))
		// through the Element wrappers, or directly on the underlying points
		negs := callsTo(fn, "/banderwagon", "Element", "Neg")
		adds := callsTo(fn, "/banderwagon", "Element", "Add")
		sfx := ""
		if len(negs) == 0 && len(adds) == 0 {
			negs = callsTo(fn, gbs, "PointProj", "Neg")
			adds = callsTo(fn, gbs, "PointProj", "Add")
			sfx = ".inner"
		}
		ok := len(negs) == 1 && len(adds) == 1 && len(core.CallsIn(fn)) == 2
		if ok {
			_, local := negs[0].Call.Args[0].(*ssa.Alloc)
			ok = local && core.PathOf(negs[0].Call.Args[1]) == "p:p2"+sfx && core.PathOf(adds[0].Call.Args[0]) == "p:p"+sfx &&
				core.PathOf(adds[0].Call.Args[1]) == "p:p1"+sfx && adds[0].Call.Args[2] == negs[0].Call.Args[0] && core.Precedes(fn, negs[0], adds[0]) && core.PostDominatesEntry(fn, adds[0])
			for _, r := range core.Returns(fn) {
				if v := r.Results[0]; v != ssa.Value(adds[0]) && core.PathOf(v) != "p:p" {
					ok = false
				}
			}
		}
		c.Check(ok, "L1", "Element.Sub", fn.Pos(), "Sub does not compute p1 + (-p2) through a private negated copy (p2 must not be written, the receiver may alias either operand)", "neg := -p2 (local); p.Add(p1, &neg)")
	} else {
		c.Unresolved("L1", "banderwagon.(*Element).Sub")
	}
}

// ---------------------------------------------------------------------------
// N1 / N2 map to field

func RuleN1N2(c *Ctx) {
	c.Rule("N1", "map-to-field orientation and representation independence by structure: the only coordinates of the element flowing into the result are X and Y, once each, as the quotient X/Y (single: Div(X, Y); batch: X * BatchInvert(Y)[i])")
	c.Rule("N2", "batch and single map-to-field convert with the same callee pair (fp.BytesLE then fr.SetBytesLE)")
	single := c.P.Fn("banderwagon", "Element", "mapToBaseField")
	wrap := c.P.Fn("banderwagon", "Element", "MapToScalarField")
	batch := c.P.Fn("banderwagon", "", "BatchMapToScalarField")
	if wrap == nil || batch == nil {
		c.Unresolved("N1", "banderwagon MapToScalarField / BatchMapToScalarField")
		return
	}
	// the quotient is formed in the helper mapToBaseField, or directly in MapToScalarField when there is no helper
	divFn := single
	if divFn == nil {
		divFn = wrap
	}
	c.Saw(core.FnName(divFn))
	c.Saw(core.FnName(wrap))
	c.Saw(core.FnName(batch))
	divs := callsTo(divFn, gfr, "Element", "Div")
	ok := len(divs) == 1
	if ok {
		ok = strings.HasSuffix(core.PathOf(divs[0].Call.Args[1]), "p.inner.X") && strings.HasSuffix(core.PathOf(divs[0].Call.Args[2]), "p.inner.Y")
		if single != nil {
			if len(core.CallsIn(single)) != 1 {
				ok = false
			}
			for _, r := range core.Returns(single) {
				if u, isLoad := r.Results[0].(*ssa.UnOp); !isLoad || u.X != divs[0].Call.Args[0] {
					ok = false
				}
			}
		} else {
			// the quotient cell is what gets encoded
			enc := callsTo(wrap, "bandersnatch/fp", "", "BytesLE")
			same := false
			if len(enc) == 1 {
				a := enc[0].Call.Args[0]
				if u, isLoad := a.(*ssa.UnOp); isLoad && u.Op == token.MUL && u.X == divs[0].Call.Args[0] {
					same = true
				}
				if a == divs[0].Call.Args[0] {
					same = true
				}
			}
			if !same {
				ok = false
			}
		}
	}
	c.Check(ok, "N1", "mapToBaseField:X/Y", divFn.Pos(), "the single map-to-field is not Div(X, Y) of the element's own coordinates (the specification maps to x/y)", "res.Div(&p.inner.X, &p.inner.Y)")
	// no Z read anywhere
	for _, fn := range []*ssa.Function{single, wrap, batch} {
		if fn == nil {
			continue
		}
		readsZ := false
		core.AllInstrs(fn, func(i ssa.Instruction) {
			if fa, isFA := i.(*ssa.FieldAddr); isFA && strings.HasSuffix(core.PathOf(fa), ".inner.Z") {
				readsZ = true
			}
		})
		c.Check(!readsZ, "N1", core.FnName(fn)+":reads-only-X-and-Y", fn.Pos(), "map-to-field reads Z: the result would depend on the projective representation", "no access to Z")
	}
	// batch: mapped = elements[i].inner.X * yInvs[i], yInvs = BatchInvert(ys), ys[i] = elements[i].inner.Y
	var mapped ssa.Value
	for _, call := range callsTo(batch, gfr, "Element", "Mul") {
		mapped = call.Call.Args[0]
	}
	okB, whyB := c.batchAffine(batch, batch, mapped, nil, "Y")
	c.Check(mapped != nil && okB, "N1", "BatchMapToScalarField:X*Yinv", batch.Pos(), "the batch map-to-field is not X times the inverse of the same element's Y: "+whyB, "mapped = elem.X * BatchInvert(ys)[i], ys[i] = elem.Y")
	// N2 conversion pair
	conv := func(fn *ssa.Function) string {
		var seq []string
		for _, ci := range core.CallsIn(fn) {
			f := core.Callee(ci.Common())
			switch {
			case core.IsFunc(f, "bandersnatch/fp", "BytesLE"):
				seq = append(seq, "fp.BytesLE")
			case f != nil && strings.HasPrefix(f.Name(), "SetBytes") && core.IsMethod(f, "bandersnatch/fr", "Element", f.Name()):
				seq = append(seq, "fr."+f.Name())
			case f != nil && strings.HasPrefix(f.Name(), "Bytes") && core.IsMethod(f, gfr, "Element", f.Name()):
				seq = append(seq, "fp.Element."+f.Name())
			}
		}
		return strings.Join(seq, ">")
	}
	s1, s2 := conv(wrap), conv(batch)
	c.Check(s1 == s2 && s1 == "fp.BytesLE>fr.SetBytesLE", "N2", "conversion-pair", wrap.Pos(), fmt.Sprintf("single converts with %q, batch with %q; both must be fp.BytesLE then fr.SetBytesLE (little-endian, reducing)", s1, s2), "both: "+s1)
	// dataflow of the conversion in both: SetBytesLE receives the bytes of the mapped value, into the output
	for _, fn := range []*ssa.Function{wrap, batch} {
		bl := callsTo(fn, "bandersnatch/fp", "", "BytesLE")
		sb := callsTo(fn, "bandersnatch/fr", "Element", "SetBytesLE")
		ok := len(bl) == 1 && len(sb) == 1
		if ok {
			reach := core.ReachFrom([]ssa.Value{bl[0]}, nil)
			arg := sb[0].Call.Args[1]
			// the complete encoding: the returned slice itself, or x[:] of it
			ok = reach[arg] && (wholeSlice(arg) || arg == ssa.Value(bl[0]))
		}
		c.Check(ok, "N2", core.FnName(fn)+":bytes-flow", fn.Pos(), "the scalar is not decoded from the complete little-endian bytes of the mapped base-field value", "SetBytesLE(fp.BytesLE(x/y)[:])")
	}
}

// ---------------------------------------------------------------------------
// U1 all-or-nothing normalisation

func RuleU1(c *Ctx) {
	c.Rule("U1", "all-or-nothing: in BatchNormalize no write to any element can be followed by an error return (every failure is detected before the first element is modified)")
	fn := c.P.Fn("banderwagon", "", "BatchNormalize")
	if fn == nil {
		c.Unresolved("U1", "banderwagon.BatchNormalize")
		return
	}
	c.Saw(core.FnName(fn))
	st := c.wfxGet()
	s := st.sums[fn]
	var writes []ssa.Instruction
	for _, cz := range s.Causes["param:elements"] {
		at := cz.at
		// a write inside a literal is charged to the point where the literal is run/created
		for at.Parent() != fn {
			lit := at.Parent()
			var site ssa.Instruction
			core.AllInstrs(lit.Parent(), func(i ssa.Instruction) {
				if mc, ok := i.(*ssa.MakeClosure); ok && mc.Fn == lit {
					site = mc
				}
			})
			if site == nil {
				break
			}
			at = site
		}
		if at.Parent() == fn {
			writes = append(writes, at)
		}
	}
	var errRets []*ssa.Return
	for _, r := range core.Returns(fn) {
		if !core.IsNilConst(r.Results[len(r.Results)-1]) {
			errRets = append(errRets, r)
		}
	}
	if len(writes) == 0 || len(errRets) == 0 {
		c.Und("U1", "BatchNormalize:no-write-before-error", fn.Pos(), fmt.Sprintf("found %d element writes and %d error returns; expected both", len(writes), len(errRets)))
		return
	}
	ok := true
	why := ""
	for _, w := range writes {
		for _, r := range errRets {
			if core.CanReach(fn, w, r) {
				ok = false
				why = fmt.Sprintf("the error return at %s is reachable after the element write at %s: a failing batch leaves some elements normalised", c.P.Pos(r.Pos()), c.P.Pos(w.Pos()))
			}
		}
	}
	c.Check(ok, "U1", "BatchNormalize:no-write-before-error", fn.Pos(), why, fmt.Sprintf("%d write point(s), %d error return(s), none reachable after a write", len(writes), len(errRets)))

	// U2: the de-duplication map is filled from all input elements
	c.Rule("U2", "the elements written are exactly the de-duplicated ones: the map whose keys form the written slice is filled from every input element")
	var upd *ssa.MapUpdate
	core.AllInstrs(fn, func(i ssa.Instruction) {
		if mu, ok := i.(*ssa.MapUpdate); ok {
			upd = mu
		}
	})
	okU2 := false
	if upd != nil {
		// key is elements[k] for the index of a loop over len(elements)
		if u, isLoad := upd.Key.(*ssa.UnOp); isLoad {
			if ia, isIA := u.X.(*ssa.IndexAddr); isIA && core.PathOf(ia.X) == "p:elements" {
				if b := upperBoundOf(fn, ia.Index, upd); b != nil && core.PathOf(b) == "len(p:elements)" {
					okU2 = true
				}
			}
		}
	}
	c.Check(okU2, "U2", "BatchNormalize:dedup-covers-all-inputs", fn.Pos(), "the de-duplication map is not filled from elements[k] for every k < len(elements): some inputs would stay un-normalised", "map[e] for every element of the input slice")
}

// ---------------------------------------------------------------------------
// Z1 batch inversion zero guard

func RuleZ1(c *Ctx) {
	c.Rule("Z1", "batch-inversion zero guard: every multiplication involving a[i] (forward accumulation and backward pass) is reachable, within its iteration, only through the non-zero edge of the zero test for that same i; the skip flag zeroes[i] is set exactly on the zero edge; skipped positions are never written")
	targets := []struct{ rel, name, src, field string }{
		{"bandersnatch/fr", "BatchInvert", "p:a", ""},
		{"banderwagon", "batchProjToAffine", "p:points", "Z"},
		{"banderwagon", "batchToExtendedPointNormalized", "p:points", "Z"},
	}
	n := 0
	for _, t := range targets {
		top := c.P.Fn(t.rel, "", t.name)
		if top == nil {
			c.Unresolved("Z1", t.rel+"."+t.name)
			continue
		}
		c.Saw(core.FnName(top))
		for _, fn := range core.Family(top) {
			loops := core.Loops(fn)
			// the source vector, or a re-slice of it held in a local (what a helper working on sub-ranges looks like once inlined)
			var isSrc func(v ssa.Value, d int) bool
			isSrc = func(v ssa.Value, d int) bool {
				if d > 5 {
					return false
				}
				if p := core.PathOf(v); p == t.src || p == "*(&"+t.src+")" {
					return true
				}
				switch x := v.(type) {
				case *ssa.Slice:
					return isSrc(x.X, d+1)
				case *ssa.UnOp:
					if x.Op == token.MUL {
						var cell *ssa.Alloc
						switch a := x.X.(type) {
						case *ssa.Alloc:
							cell = a
						case *ssa.FreeVar:
							cell, _ = core.FreeVarBinding(a).(*ssa.Alloc)
						}
						if cell != nil {
							if p := core.ParamSpill(cell); p != nil {
								return "p:"+p.Name() == t.src
							}
							if sts := storesInto(cell); len(sts) == 1 {
								return isSrc(sts[0].Val, d+1)
							}
						}
					}
				case *ssa.FreeVar:
					if b := core.FreeVarBinding(x); b != nil {
						return isSrc(b, d+1)
					}
				}
				return false
			}
			isSrcElem := func(v ssa.Value) (ssa.Value, bool) {
				// &a[i]  or  &points[i].Z
				if fa, ok := v.(*ssa.FieldAddr); ok && t.field != "" && strings.HasSuffix(core.PathOf(fa), "."+t.field) {
					v = fa.X
				} else if t.field != "" {
					return nil, false
				}
				if ia, ok := v.(*ssa.IndexAddr); ok && isSrc(ia.X, 0) {
					return ia.Index, true
				}
				return nil, false
			}
			// zero tests and flag tests per index value
			nonzero := map[ssa.Value]*core.Cuts{}
			zeroEdge := map[ssa.Value]*core.Cuts{}
			addCut := func(m map[ssa.Value]*core.Cuts, idx ssa.Value, b *ssa.BasicBlock, succ int) {
				if m[idx] == nil {
					m[idx] = core.NewCuts()
				}
				m[idx].AddEdge(b, succ)
			}
			var flags ssa.Value
			for _, b := range fn.Blocks {
				ifi, ok := b.Instrs[len(b.Instrs)-1].(*ssa.If)
				if !ok {
					continue
				}
				v, pos := core.BoolCond(ifi.Cond)
				if call, isCall := v.(*ssa.Call); isCall && core.IsMethod(core.Callee(call.Common()), "fr", "Element", "IsZero") {
					if idx, isSrc := isSrcElem(call.Call.Args[0]); isSrc {
						z, nz := 0, 1
						if !pos {
							z, nz = 1, 0
						}
						addCut(nonzero, idx, b, nz)
						addCut(zeroEdge, idx, b, z)
					}
				}
				if u, isLoad := v.(*ssa.UnOp); isLoad && u.Op == token.MUL {
					if ia, isIA := u.X.(*ssa.IndexAddr); isIA {
						if _, isBool := ia.X.Type().Underlying().(interface{ Elem() interface{} }); !isBool {
							if strings.Contains(ia.X.Type().String(), "[]bool") {
								flags = ia.X
								nz := 1
								if !pos {
									nz = 0
								}
								addCut(nonzero, ia.Index, b, nz)
							}
						}
					}
				}
			}
			// every Mul with a source-element operand
			for _, call := range callsTo(fn, "fr", "Element", "Mul") {
				var idx ssa.Value
				found := false
				for _, a := range call.Call.Args[1:] {
					if ix, ok := isSrcElem(a); ok {
						idx, found = ix, true
					}
				}
				if !found {
					continue
				}
				n++
				key := fmt.Sprintf("%s:mul-with-%s[%s]@%s", t.name, t.src, idx.Name(), c.relInFn(fn, call.Pos()))
				l := core.InnermostLoop(loops, call.Block())
				guard := nonzero[idx]
				// the index is taken from a local list of positions that is extended exactly on the non-zero edge of the
				// element at the appended position: every listed position holds a non-zero element, and no non-zero
				// position is missing from the list
				if guard == nil {
					if ld, isLd := core.StripConv(idx).(*ssa.UnOp); isLd && ld.Op == token.MUL {
						if ia, isIA := ld.X.(*ssa.IndexAddr); isIA {
							good, nApp := true, 0
							core.AllInstrs(fn, func(i ssa.Instruction) {
								switch x := i.(type) {
								case *ssa.Call:
									e := appendedElem(x)
									if e == nil || !(ssa.Value(x) == ia.X || core.FlowsTo(x, ia.X, nil)) {
										return
									}
									nApp++
									g := nonzero[e]
									if g == nil {
										g = nonzero[core.StripConv(e)]
									}
									al := core.InnermostLoop(loops, x.Block())
									if g == nil || al == nil {
										good = false
										return
									}
									hdr := al.Header.Instrs[len(al.Header.Instrs)-1]
									cut := mergeCuts(g, nil)
									cut.AddInstr(hdr)
									if core.ReachableAvoiding(fn, hdr, cut, x) {
										good = false // a zero element's position can be listed
									}
									// and from the non-zero edge the append cannot be bypassed on the way round the loop
									skip := core.NewCuts()
									skip.AddInstr(x)
									if ze := zeroEdge[e]; ze != nil {
										skip = mergeCuts(skip, ze)
									} else if ze := zeroEdge[core.StripConv(e)]; ze != nil {
										skip = mergeCuts(skip, ze)
									}
									skip.AddInstr(hdr)
									for _, pred := range al.Header.Preds {
										if !al.Blocks[pred] || skip.Edges[core.Edge{From: pred, To: al.Header}] {
											continue // the zero edge itself goes straight back
										}
										if core.ReachableAvoiding(fn, hdr, skip, pred.Instrs[len(pred.Instrs)-1]) {
											good = false // a non-zero element's position can be left out
										}
									}
								case *ssa.Store:
									if sa, isSA := x.Addr.(*ssa.IndexAddr); isSA && (sa.X == ia.X || core.FlowsTo(sa.X, ia.X, nil) || core.FlowsTo(ia.X, sa.X, nil)) {
										if _, isInt := x.Val.Type().Underlying().(*types.Basic); isInt {
											if al, isAl := sa.X.(*ssa.Alloc); !isAl || al.Comment != "varargs" {
												good = false // the list is also written element-wise
											}
										}
									}
								}
							})
							if good && nApp > 0 {
								c.OK("Z1", key, call.Pos(), "the position comes from the list of positions recorded on the non-zero edge")
								continue
							}
						}
					}
				}
				if l == nil || guard == nil {
					c.Bad("Z1", key, call.Pos(), "a multiplication by an input element is not guarded by the zero test of that same element: a zero input poisons the whole batch (every inverse becomes 0)")
					continue
				}
				hdr := l.Header.Instrs[len(l.Header.Instrs)-1]
				cut := mergeCuts(guard, nil)
				cut.AddInstr(hdr)
				c.Check(!core.ReachableAvoiding(fn, hdr, cut, call), "Z1", key, call.Pos(), "within an iteration the multiplication by the input element is reachable without passing the non-zero edge of its zero test (or of its skip flag)", "guarded by the non-zero edge for the same index")
			}
			// flag stores only on the zero edge
			if flags != nil {
				core.AllInstrs(fn, func(i ssa.Instruction) {
					st, ok := i.(*ssa.Store)
					if !ok {
						return
					}
					ia, isIA := st.Addr.(*ssa.IndexAddr)
					if !isIA || core.PathOf(ia.X) != core.PathOf(flags) {
						return
					}
					n++
					key := fmt.Sprintf("%s:flag-set@%s", t.name, c.relInFn(fn, st.Pos()))
					b, isK := core.ConstBool(st.Val)
					l := core.InnermostLoop(loops, st.Block())
					ze := zeroEdge[ia.Index]
					if k, isConst := core.ConstBool(st.Val); isConst && !k && l == nil {
						return // initialisation
					}
					// flag[i] = src[i].IsZero(): the flag is the zero test itself
					if call, isCall := st.Val.(*ssa.Call); isCall && l != nil && core.IsMethod(core.Callee(call.Common()), "fr", "Element", "IsZero") {
						if idx, isSrc := isSrcElem(call.Call.Args[0]); isSrc && idx == ia.Index {
							c.OK("Z1", key, st.Pos(), "the flag is assigned the zero test of the same index")
							return
						}
					}
					if !isK || !b || l == nil || ze == nil {
						c.Bad("Z1", key, st.Pos(), "the skip flag is written with something other than `true` on the zero edge of the same index (or the zero test of that index itself)")
						return
					}
					hdr := l.Header.Instrs[len(l.Header.Instrs)-1]
					cut := mergeCuts(ze, nil)
					cut.AddInstr(hdr)
					c.Check(!core.ReachableAvoiding(fn, hdr, cut, st), "Z1", key, st.Pos(), "the skip flag can be set for a non-zero element (its inverse would be left 0)", "set exactly on the zero edge")
				})
			}
		}
	}
	c.FloorN("Z1", 8, n, "guarded multiplications and flag stores")
}

// ---------------------------------------------------------------------------
// B1 / P1

func RuleB1(c *Ctx) {
	c.Rule("B1", "prover and verifier derive the vector b from the same function with the same arguments (computeBVector(ic, evalPoint)); the in-domain unit vector is indexed by the point's regular-form value (ToBigIntRegular, not the Montgomery residue) and holds fr.One()")
	cb := c.P.Fn("ipa", "", "computeBVector")
	if cb == nil {
		c.Unresolved("B1", "ipa.computeBVector")
		return
	}
	for _, name := range []string{"CreateIPAProof", "CheckIPAProof"} {
		fn := c.P.Fn("ipa", "", name)
		if fn == nil {
			c.Unresolved("B1", "ipa."+name)
			continue
		}
		c.Saw(core.FnName(fn))
		var calls []*ssa.Call
		for _, ci := range core.CallsIn(fn) {
			if call, ok := ci.(*ssa.Call); ok && core.Callee(call.Common()) == cb {
				calls = append(calls, call)
			}
		}
		ok := len(calls) == 1
		if ok {
			ok = core.PathOf(calls[0].Call.Args[0]) == "p:ic" && core.PathOf(calls[0].Call.Args[1]) == "*(&p:evalPoint)"
			// b reaches InnerProd
			reach := core.ReachFrom([]ssa.Value{calls[0]}, nil)
			used := false
			for _, ip := range callsTo(fn, "/ipa", "", "InnerProd") {
				for _, a := range ip.Call.Args {
					if reach[a] {
						used = true
					}
				}
			}
			ok = ok && used
		}
		c.Check(ok, "B1", name+":b=computeBVector(ic,evalPoint)", fn.Pos(), name+" does not derive b from computeBVector(ic, evalPoint) (its own evaluation point) and use it in the inner product", "b := computeBVector(ic, evalPoint); used by InnerProd")
	}
	c.Saw(core.FnName(cb))
	reg := callsTo(cb, "bandersnatch/fr", "Element", "ToBigIntRegular")
	mont := callsTo(cb, "bandersnatch/fr", "Element", "ToBigInt")
	ok := len(reg) == 1 && len(mont) == 0
	if tr := callsTo(cb, "bandersnatch/fr", "Element", "ToRegular"); len(reg) == 0 && len(mont) == 0 && len(tr) == 1 {
		// the same value without the big.Int: limb 0 of evalPoint.ToRegular() (the point is below 256 on this path)
		okLimb := false
		core.AllInstrs(cb, func(i ssa.Instruction) {
			st, isSt := i.(*ssa.Store)
			if !isSt {
				return
			}
			ia, isIA := st.Addr.(*ssa.IndexAddr)
			if !isIA {
				return
			}
			ld, isLd := core.StripConv(ia.Index).(*ssa.UnOp)
			if !isLd || ld.Op != token.MUL {
				return
			}
			limb, isLimb := ld.X.(*ssa.IndexAddr)
			if !isLimb {
				return
			}
			if k, isK := core.ConstInt(limb.Index); !isK || k != 0 {
				return
			}
			cell, isCell := limb.X.(*ssa.Alloc)
			if !isCell {
				return
			}
			sts := storesInto(cell)
			if len(sts) != 1 || sts[0].Val != ssa.Value(tr[0]) {
				return
			}
			if one, isOne := st.Val.(*ssa.Call); isOne && core.IsFunc(core.Callee(one.Common()), "bandersnatch/fr", "One") {
				okLimb = core.PathOf(tr[0].Call.Args[0]) == "*(&p:evalPoint)" || core.PathOf(tr[0].Call.Args[0]) == "&p:evalPoint" || core.PathOf(tr[0].Call.Args[0]) == "p:evalPoint"
			}
		})
		c.Check(okLimb, "B1", "computeBVector:unit-vector-index", cb.Pos(), "the in-domain unit vector is not b[regular-form value of evalPoint] = 1", "b[evalPoint.ToRegular()[0]] = fr.One()")
		return
	}
	if ok {
		ok = false
		core.AllInstrs(cb, func(i ssa.Instruction) {
			st, isSt := i.(*ssa.Store)
			if !isSt {
				return
			}
			ia, isIA := st.Addr.(*ssa.IndexAddr)
			if !isIA {
				return
			}
			// Uint64 of the integer ToBigIntRegular filled: its argument, or its (identical) return value
			if u, isCall := core.StripConv(ia.Index).(*ssa.Call); isCall && core.IsMethod(core.Callee(u.Common()), "math/big", "Int", "Uint64") && (u.Call.Args[0] == reg[0].Call.Args[1] || u.Call.Args[0] == ssa.Value(reg[0])) {
				if one, isOne := st.Val.(*ssa.Call); isOne && core.IsFunc(core.Callee(one.Common()), "bandersnatch/fr", "One") {
					ok = core.PathOf(reg[0].Call.Args[0]) == "*(&p:evalPoint)"
				}
			}
		})
	}
	c.Check(ok, "B1", "computeBVector:unit-vector-index", cb.Pos(), "the in-domain unit vector is not b[regular-form value of evalPoint] = 1", "b[evalPoint.ToBigIntRegular().Uint64()] = fr.One()")
}

func RuleP1(c *Ctx) {
	c.Rule("P1", "basis identity: the tables Commit uses are built from the very SRS published in the configuration (the same value reaches IPAConfig.SRS and NewPrecompMSM), Q is the group generator, numRounds = computeNumRounds(VectorLength), Commit delegates to those tables, NewPrecompMSM builds table i from point i")
	fn := c.P.Fn("ipa", "", "NewIPASettings")
	if fn == nil {
		c.Unresolved("P1", "ipa.NewIPASettings")
		return
	}
	c.Saw(core.FnName(fn))
	var srsToMSM, srsField, qField, nr ssa.Value
	for _, call := range callsTo(fn, "/banderwagon", "", "NewPrecompMSM") {
		srsToMSM = call.Call.Args[0]
	}
	core.AllInstrs(fn, func(i ssa.Instruction) {
		if st, ok := i.(*ssa.Store); ok {
			if fa, ok := st.Addr.(*ssa.FieldAddr); ok && namedIs(fa.X.Type(), "ipa", "IPAConfig") {
				switch core.PathOf(fa)[strings.LastIndex(core.PathOf(fa), ".")+1:] {
				case "SRS":
					srsField = st.Val
				case "Q":
					qField = st.Val
				case "numRounds":
					nr = st.Val
				}
			}
		}
	})
	gen := callsTo(fn, "/ipa", "", "GenerateRandomPoints")
	okSRS := srsToMSM != nil && srsToMSM == srsField && len(gen) == 1 && srsField == ssa.Value(gen[0])
	if okSRS {
		k, isK := core.ConstInt(gen[0].Call.Args[0])
		okSRS = isK && k == c.constOf("common", "VectorLength")
	}
	c.Check(okSRS, "P1", "NewIPASettings:same-srs", fn.Pos(), "the SRS stored in the configuration is not the very slice the precomputed tables are built from (GenerateRandomPoints(VectorLength), once)", "srs -> IPAConfig.SRS and NewPrecompMSM(srs)")
	c.Check(qField != nil && core.PathOf(qField) == "*(g:banderwagon.Generator)", "P1", "NewIPASettings:Q=Generator", fn.Pos(), "Q is not the group generator", "Q: banderwagon.Generator")
	okNR := false
	if call, ok := nr.(*ssa.Call); ok && core.IsFunc(core.Callee(call.Common()), "/ipa", "computeNumRounds") {
		k, isK := core.ConstInt(call.Call.Args[0])
		okNR = isK && k == c.constOf("common", "VectorLength")
	}
	c.Check(okNR, "P1", "NewIPASettings:numRounds", fn.Pos(), "numRounds is not computeNumRounds(VectorLength)", "numRounds: computeNumRounds(VectorLength)")
	if cm := c.P.Fn("ipa", "IPAConfig", "Commit"); cm != nil {
		c.Saw(core.FnName(cm))
		calls := callsTo(cm, "/banderwagon", "MSMPrecomp", "MSM")
		ok := len(calls) == 1 && len(core.CallsIn(cm)) == 1 && core.PathOf(calls[0].Call.Args[0]) == "p:ic.PrecompMSM" && core.PathOf(calls[0].Call.Args[1]) == "p:polynomial"
		c.Check(ok, "P1", "Commit:delegates-to-tables", cm.Pos(), "Commit does not delegate to ic.PrecompMSM.MSM(polynomial)", "ic.PrecompMSM.MSM(polynomial)")
	} else {
		c.Unresolved("P1", "ipa.(*IPAConfig).Commit")
	}
	if pm := c.P.Fn("banderwagon", "", "NewPrecompMSM"); pm != nil {
		c.Saw(core.FnName(pm))
		// every NewPrecompPoint(points[o+i], …) is stored to precompPoints[o+i]: the same index into the two
		// lists, or into views of them that start at the same offset
		viewOf := func(v ssa.Value) (base ssa.Value, low ssa.Value) {
			if sl, isSl := v.(*ssa.Slice); isSl {
				return sl.X, sl.Low
			}
			return v, nil
		}
		sameLow := func(a, b ssa.Value) bool {
			if a == nil || b == nil {
				za, okA := core.ConstInt(a)
				zb, okB := core.ConstInt(b)
				return (a == nil && b == nil) || (a == nil && okB && zb == 0) || (b == nil && okA && za == 0)
			}
			return a == b || constEq(a, b) || core.SameExpr(a, b)
		}
		calls := callsTo(pm, "/banderwagon", "", "NewPrecompPoint")
		ok := len(calls) > 0
		for _, call := range calls {
			this := false
			if u, isLoad := call.Call.Args[0].(*ssa.UnOp); isLoad {
				if ia, isIA := u.X.(*ssa.IndexAddr); isIA {
					srcBase, srcLow := viewOf(ia.X)
					if core.PathOf(srcBase) == "p:points" {
						core.AllInstrs(pm, func(i ssa.Instruction) {
							if st, isSt := i.(*ssa.Store); isSt {
								if da, isDA := st.Addr.(*ssa.IndexAddr); isDA && da.Index == ia.Index && core.ReachFrom([]ssa.Value{call}, nil)[st.Val] {
									if _, dstLow := viewOf(da.X); sameLow(srcLow, dstLow) {
										this = true
									}
								}
							}
						})
					}
				}
			}
			if !this {
				ok = false
			}
		}
		c.Check(ok, "P1", "NewPrecompMSM:table-i-from-point-i", pm.Pos(), "table i is not built from basis point i", "precompPoints[i] = NewPrecompPoint(points[i], w)")
	}
}

// sliceConstLen: the constant length of arr[:] / arr[lo:hi] over a local array, or -1.
func sliceConstLen(v ssa.Value) int64 {
	sl, ok := v.(*ssa.Slice)
	if !ok {
		return -1
	}
	pt, isP := sl.X.Type().Underlying().(*types.Pointer)
	if !isP {
		return -1
	}
	at, isA := pt.Elem().Underlying().(*types.Array)
	if !isA {
		return -1
	}
	lo, hi := int64(0), at.Len()
	if sl.Low != nil {
		k, isK := core.ConstInt(sl.Low)
		if !isK {
			return -1
		}
		lo = k
	}
	if sl.High != nil {
		k, isK := core.ConstInt(sl.High)
		if !isK {
			return -1
		}
		hi = k
	}
	return hi - lo
}
