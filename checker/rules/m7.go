package rules

// M7 — writer/reader agreement on the two concatenated weight tables (DESIGN §3.4) [idiom].

import (
	"fmt"
	"go/token"
	"strings"

	"golang.org/x/tools/go/ssa"

	"verif/checker/core"
)

// lin: a*sym + b (sym = one designated symbolic value), or not linear.
type lin struct {
	a, b int64
	ok   bool
}

// linOf evaluates v as a linear form in sym; lenHalf gives the value of len(table)/2 expressions.
func linOf(v ssa.Value, sym ssa.Value, env func(ssa.Value) (int64, bool)) lin {
	v = core.StripConv(v)
	if v == sym {
		return lin{1, 0, true}
	}
	if env != nil {
		if k, ok := env(v); ok {
			return lin{0, k, true}
		}
	}
	if k, ok := core.ConstInt(v); ok {
		if _, isConst := v.(*ssa.Const); isConst {
			return lin{0, k, true}
		}
	}
	if b, ok := v.(*ssa.BinOp); ok {
		x, y := linOf(b.X, sym, env), linOf(b.Y, sym, env)
		if !x.ok || !y.ok {
			return lin{}
		}
		switch b.Op {
		case token.ADD:
			return lin{x.a + y.a, x.b + y.b, true}
		case token.SUB:
			return lin{x.a - y.a, x.b - y.b, true}
		case token.MUL:
			if x.a == 0 {
				return lin{x.b * y.a, x.b * y.b, true}
			}
			if y.a == 0 {
				return lin{x.a * y.b, x.b * y.b, true}
			}
		case token.QUO:
			if x.a == 0 && y.a == 0 && y.b != 0 {
				return lin{0, x.b / y.b, true}
			}
		}
	}
	return lin{}
}

func RuleM7(c *Ctx) {
	c.Rule("M7", "table layout agreement: barycentricWeights holds A'(i) at i and 1/A'(i) at i+domainSize, invertedDomain holds 1/k at k-1 and -1/k at k-1+(domainSize-1); every reader computes the same positions (len/2 equal to the writer's midpoint); getInvertedElement is loop-free with the negative half selected by is_neg alone")
	w := c.P.Fn("ipa", "", "NewPrecomputedWeights")
	if w == nil {
		c.Unresolved("M7", "ipa.NewPrecomputedWeights")
		return
	}
	c.Saw(core.FnName(w))
	ds := c.constOf("ipa", "domainSize")
	// tables: the two make([]fr.Element, n) stored into the struct fields
	type table struct {
		name   string
		length int64
		stores []lin
		base   ssa.Value
		loop   *countedLoop
	}
	tables := map[string]*table{}
	core.AllInstrs(w, func(i ssa.Instruction) {
		st, ok := i.(*ssa.Store)
		if !ok {
			return
		}
		fa, ok := st.Addr.(*ssa.FieldAddr)
		if !ok || !namedIs(fa.X.Type(), "ipa", "PrecomputedWeights") {
			return
		}
		name := fieldNameOf(fa)
		t := &table{name: name, base: st.Val, length: -1}
		switch mk := st.Val.(type) {
		case *ssa.MakeSlice:
			if l := linOf(mk.Len, nil, nil); l.ok {
				t.length = l.b
			}
		case *ssa.Slice:
			if hi, ok := core.ConstInt(mk.High); ok {
				t.length = hi
			}
		}
		tables[name] = t
	})
	cls := countedLoops(w)
	core.AllInstrs(w, func(i ssa.Instruction) {
		st, ok := i.(*ssa.Store)
		if !ok {
			return
		}
		ia, ok := st.Addr.(*ssa.IndexAddr)
		if !ok {
			return
		}
		for _, t := range tables {
			if ia.X != t.base {
				continue
			}
			cl := loopOf(cls, st.Block())
			if cl == nil {
				t.stores = append(t.stores, lin{})
				continue
			}
			t.loop = cl
			t.stores = append(t.stores, linOf(ia.Index, cl.phi, nil))
		}
	})
	check := func(name string, wantLen int64, wantForms []lin, from, to int64) {
		t := tables[name]
		key := "writer:" + name
		if t == nil {
			c.Und("M7", key, w.Pos(), "table "+name+" is not built by NewPrecomputedWeights as a make + indexed stores")
			return
		}
		ok := t.length == wantLen && len(t.stores) == len(wantForms) && t.loop != nil
		if ok {
			for _, want := range wantForms {
				found := false
				for _, got := range t.stores {
					if got == want {
						found = true
					}
				}
				if !found {
					ok = false
				}
			}
			a, isA := core.ConstInt(t.loop.init)
			b := linOf(t.loop.bound, nil, nil)
			if !isA || a != from || !b.ok || b.b != to || t.loop.step != 1 || t.loop.op != token.LSS {
				ok = false
			}
		}
		var got []string
		for _, s := range t.stores {
			got = append(got, fmt.Sprintf("%d*i%+d", s.a, s.b))
		}
		c.Check(ok, "M7", key, w.Pos(), fmt.Sprintf("table %s: length %d, stores at %v for i in [%d,%d) expected; found length %d, stores %v", name, wantLen, wantForms, from, to, t.length, got), fmt.Sprintf("length %d; stores %v", t.length, got))
	}
	check("barycentricWeights", 2*ds, []lin{{1, 0, true}, {1, ds, true}}, 0, ds)
	check("invertedDomain", 2*(ds-1), []lin{{1, -1, true}, {1, -1 + (ds - 1), true}}, 1, ds)

	// readers
	half := func(table string) func(ssa.Value) (int64, bool) {
		t := tables[table]
		return func(v ssa.Value) (int64, bool) {
			// len(preComp.<table>) / 2
			b, ok := v.(*ssa.BinOp)
			if !ok || b.Op != token.QUO || t == nil {
				return 0, false
			}
			x, isLen := core.IsLenOf(b.X)
			k, isK := core.ConstInt(b.Y)
			if isLen && isK && k == 2 && strings.HasSuffix(core.PathOf(x), "preComp."+table+")") {
				return t.length / 2, true
			}
			return 0, false
		}
	}
	reader := func(fnName, table, param string, want lin, cond string) {
		fn := c.P.Fn("ipa", "PrecomputedWeights", fnName)
		key := fmt.Sprintf("reader:%s:%s[%s]", fnName, table, param)
		if fn == nil {
			c.Unresolved("M7", "ipa.(*PrecomputedWeights)."+fnName)
			return
		}
		c.Saw(core.FnName(fn))
		var forms []lin
		sym := ssa.Value(paramNamed(fn, param))
		if sym == nil {
			for _, cl := range countedLoops(fn) {
				sym = cl.phi
			}
		}
		core.AllInstrs(fn, func(i ssa.Instruction) {
			ia, ok := i.(*ssa.IndexAddr)
			if !ok || !strings.HasSuffix(core.PathOf(ia.X), "preComp."+table+")") {
				return
			}
			idx := ia.Index
			if param == "" {
				if cl := loopOf(countedLoops(fn), ia.Block()); cl != nil {
					sym = cl.phi
				}
			}
			// a phi merging the two halves (index += midpoint under a condition)
			if phi, isPhi := core.StripConv(idx).(*ssa.Phi); isPhi && len(countedLoops(fn)) == 0 {
				for _, e := range phi.Edges {
					forms = append(forms, linOf(e, sym, half(table)))
				}
				return
			}
			forms = append(forms, linOf(idx, sym, half(table)))
		})
		found := false
		for _, f := range forms {
			if f == want {
				found = true
			}
		}
		var got []string
		for _, f := range forms {
			if f.ok {
				got = append(got, fmt.Sprintf("%d*%s%+d", f.a, param, f.b))
			} else {
				got = append(got, "non-linear")
			}
		}
		c.Check(found, "M7", key, fn.Pos(), fmt.Sprintf("%s reads %s at %v; the writer placed the wanted entry at %d*%s%+d (%s)", fnName, table, got, want.a, param, want.b, cond), fmt.Sprintf("reads at %v", got))
	}
	reader("getRatioOfWeights", "barycentricWeights", "numerator", lin{1, 0, true}, "A'(numerator)")
	reader("getRatioOfWeights", "barycentricWeights", "denominator", lin{1, ds, true}, "1/A'(denominator)")
	reader("getInverseBarycentricWeight", "barycentricWeights", "i", lin{1, ds, true}, "1/A'(i)")
	reader("getInvertedElement", "invertedDomain", "element", lin{1, -1, true}, "1/element when not negative")
	reader("getInvertedElement", "invertedDomain", "element", lin{1, -1 + (ds - 1), true}, "-1/element when negative")
	reader("ComputeBarycentricCoefficients", "barycentricWeights", "", lin{1, 0, true}, "A'(i)")

	// getInvertedElement: loop-free, two paths selected by is_neg alone, negative half exactly when is_neg
	if fn := c.P.Fn("ipa", "PrecomputedWeights", "getInvertedElement"); fn != nil {
		ok := len(core.Loops(fn)) == 0
		neg := ssa.Value(paramNamed(fn, "is_neg"))
		elem := ssa.Value(paramNamed(fn, "element"))
		nIf := 0
		for _, b := range fn.Blocks {
			if ifi, isIf := b.Instrs[len(b.Instrs)-1].(*ssa.If); isIf {
				nIf++
				v, _ := core.BoolCond(ifi.Cond)
				if v != neg {
					ok = false
				}
			}
		}
		if nIf != 1 {
			ok = false
		}
		// evaluate both outcomes: index form must be element-1 (+half)
		if ok {
			for _, val := range []int64{0, 1} {
				vv := val
				var idx ssa.Value
				abs := func(v ssa.Value) (int64, bool) {
					if v == neg {
						return vv, true
					}
					return 0, false
				}
				ret, path, _ := core.Walk(fn, abs)
				if ret == nil {
					ok = false
					continue
				}
				for _, pb := range path {
					for _, ins := range pb.Instrs {
						if ia, isIA := ins.(*ssa.IndexAddr); isIA {
							idx = ia.Index
						}
					}
				}
				if idx == nil {
					ok = false
					continue
				}
				// resolve the phi along the path
				if phi, isPhi := core.StripConv(idx).(*ssa.Phi); isPhi {
					for k, pred := range phi.Block().Preds {
						for j := 0; j+1 < len(path); j++ {
							if path[j] == pred && path[j+1] == phi.Block() {
								idx = phi.Edges[k]
							}
						}
					}
				}
				got := linOf(idx, elem, half("invertedDomain"))
				want := lin{1, -1, true}
				if vv == 1 {
					want = lin{1, -1 + (ds - 1), true}
				}
				if got != want {
					ok = false
				}
			}
		}
		c.Check(ok, "M7", "getInvertedElement:two-paths-by-is_neg", fn.Pos(), "getInvertedElement does not select index element-1 when is_neg is false and element-1+len/2 when it is true, by is_neg alone (e.g. an extra condition on the magnitude)", "is_neg=false -> element-1; is_neg=true -> element-1+len/2; no other condition")
	}
	c.Floor("M7", 9, "table facts")
}
