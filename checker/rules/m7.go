package rules

// M7 — writer/reader agreement on the two concatenated weight tables (DESIGN §3.4) [idiom].

import (
	"fmt"
	"go/token"
	"go/types"
	"strings"

	"golang.org/x/tools/go/ssa"

	"verif/checker/core"
)

// lin: a*sym + b (sym = one designated symbolic value), or not linear.
type lin struct {
	a, b int64
	ok   bool
}

// linOf evaluates v as a linear form in sym; lenHalf gives the value of len(table)/2 expressions.
func linOf(v ssa.Value, sym ssa.Value, env func(ssa.Value) (int64, bool)) lin {
	v = core.StripConv(v)
	if v == sym {
		return lin{1, 0, true}
	}
	if env != nil {
		if k, ok := env(v); ok {
			return lin{0, k, true}
		}
	}
	if k, ok := core.ConstInt(v); ok {
		if _, isConst := v.(*ssa.Const); isConst {
			return lin{0, k, true}
		}
	}
	if b, ok := v.(*ssa.BinOp); ok {
		x, y := linOf(b.X, sym, env), linOf(b.Y, sym, env)
		if !x.ok || !y.ok {
			return lin{}
		}
		switch b.Op {
		case token.ADD:
			return lin{x.a + y.a, x.b + y.b, true}
		case token.SUB:
			return lin{x.a - y.a, x.b - y.b, true}
		case token.MUL:
			if x.a == 0 {
				return lin{x.b * y.a, x.b * y.b, true}
			}
			if y.a == 0 {
				return lin{x.a * y.b, x.b * y.b, true}
			}
		case token.QUO:
			if x.a == 0 && y.a == 0 && y.b != 0 {
				return lin{0, x.b / y.b, true}
			}
		}
	}
	return lin{}
}

func RuleM7(c *Ctx) { ruleM7(c, false) }

// RuleM7Verifier: only the table and readers the verifier depends on (barycentricWeights through ComputeBarycentricCoefficients);
// invertedDomain and the weight ratios are read by the prover's DivideOnDomain alone.
func RuleM7Verifier(c *Ctx) { ruleM7(c, true) }

func ruleM7(c *Ctx, verifierOnly bool) {
	c.Rule("M7", "table layout agreement: barycentricWeights holds A'(i) at i and 1/A'(i) at i+domainSize, invertedDomain holds 1/k at k-1 and -1/k at k-1+(domainSize-1); every reader computes the same positions (len/2 equal to the writer's midpoint); getInvertedElement is loop-free with the negative half selected by is_neg alone")
	w := c.P.Fn("ipa", "", "NewPrecomputedWeights")
	if w == nil {
		c.Unresolved("M7", "ipa.NewPrecomputedWeights")
		return
	}
	c.Saw(core.FnName(w))
	ds := c.constOf("ipa", "domainSize")
	// tables: the two make([]fr.Element, n) stored into the struct fields
	type table struct {
		name   string
		length int64
		base   ssa.Value
	}
	tables := map[string]*table{}
	core.AllInstrs(w, func(i ssa.Instruction) {
		st, ok := i.(*ssa.Store)
		if !ok {
			return
		}
		fa, ok := st.Addr.(*ssa.FieldAddr)
		if !ok || !namedIs(fa.X.Type(), "ipa", "PrecomputedWeights") {
			return
		}
		name := fieldNameOf(fa)
		t := &table{name: name, base: st.Val, length: -1}
		switch mk := st.Val.(type) {
		case *ssa.MakeSlice:
			if l := linOf(mk.Len, nil, nil); l.ok {
				t.length = l.b
			}
		case *ssa.Slice:
			if hi, ok := core.ConstInt(mk.High); ok {
				t.length = hi
			}
		}
		tables[name] = t
	})
	cls := countedLoops(w)
	// write events on a table: positions covered, as concrete index sets (the tables are a few hundred entries long)
	type wevent struct {
		desc string
		pos  []int64 // nil = could not be interpreted
	}
	events := map[string][]wevent{}
	// tableOff: v is the table itself or a constant re-slice of it; returns the table and the offset/length of the view
	var viewOf func(v ssa.Value, d int) (*table, int64, int64, bool)
	viewOf = func(v ssa.Value, d int) (*table, int64, int64, bool) {
		if d > 4 {
			return nil, 0, 0, false
		}
		for _, t := range tables {
			if v == t.base {
				return t, 0, t.length, t.length >= 0
			}
		}
		if sl, ok := v.(*ssa.Slice); ok {
			t, off, n, ok := viewOf(sl.X, d+1)
			if !ok {
				return nil, 0, 0, false
			}
			lo, hi := int64(0), n
			if sl.Low != nil {
				l := linOf(sl.Low, nil, nil)
				if !l.ok {
					return nil, 0, 0, false
				}
				lo = l.b
			}
			if sl.High != nil {
				h := linOf(sl.High, nil, nil)
				if !h.ok {
					return nil, 0, 0, false
				}
				hi = h.b
			}
			return t, off + lo, hi - lo, true
		}
		return nil, 0, 0, false
	}
	// lenOfSlice: the constant length of a slice value
	var lenOfSlice func(v ssa.Value, d int) (int64, bool)
	lenOfSlice = func(v ssa.Value, d int) (int64, bool) {
		if d > 4 {
			return 0, false
		}
		if _, _, n, ok := viewOf(v, 0); ok {
			return n, true
		}
		switch x := v.(type) {
		case *ssa.MakeSlice:
			if l := linOf(x.Len, nil, nil); l.ok {
				return l.b, true
			}
		case *ssa.Slice:
			n, ok := lenOfSlice(x.X, d+1)
			if !ok {
				return 0, false
			}
			lo, hi := int64(0), n
			if x.Low != nil {
				l := linOf(x.Low, nil, nil)
				if !l.ok {
					return 0, false
				}
				lo = l.b
			}
			if x.High != nil {
				h := linOf(x.High, nil, nil)
				if !h.ok {
					return 0, false
				}
				hi = h.b
			}
			return hi - lo, true
		case *ssa.Call:
			// a function that returns a fresh slice as long as its first argument (BatchInvert)
			if f := core.Callee(x.Common()); f != nil && len(x.Call.Args) == 1 && returnsLenOfParam0(f) {
				return lenOfSlice(x.Call.Args[0], d+1)
			}
		}
		return 0, false
	}
	loopRange := func(b *ssa.BasicBlock) (cl *countedLoop, from, to int64, ok bool) {
		cl = loopOf(cls, b)
		if cl == nil {
			return nil, 0, 0, false
		}
		a, isA := core.ConstInt(cl.init)
		bd := linOf(cl.bound, nil, nil)
		if !isA || !bd.ok || cl.step != 1 {
			return cl, 0, 0, false
		}
		switch cl.op {
		case token.LSS:
			return cl, a, bd.b, true
		case token.LEQ:
			return cl, a, bd.b + 1, true
		}
		return cl, 0, 0, false
	}
	indexed := func(ia *ssa.IndexAddr, at ssa.Instruction, how string) {
		t, off, _, ok := viewOf(ia.X, 0)
		if !ok {
			return
		}
		ev := wevent{desc: how}
		if k, isK := core.ConstInt(ia.Index); isK {
			ev.pos = []int64{off + k}
			ev.desc = fmt.Sprintf("%s at [%d]", how, off+k)
		} else if cl, from, to, okR := loopRange(at.Block()); okR {
			if f := linOf(ia.Index, cl.phi, nil); f.ok {
				ev.pos = []int64{}
				for i := from; i < to; i++ {
					ev.pos = append(ev.pos, off+f.a*i+f.b)
				}
				ev.desc = fmt.Sprintf("%s at [%d*i%+d] for i in [%d,%d)", how, f.a, off+f.b, from, to)
			}
		}
		if ev.pos == nil {
			ev.desc = how + " at an index that is not a linear function of a counted loop variable (" + c.P.Pos(at.Pos()) + ")"
		}
		events[t.name] = append(events[t.name], ev)
	}
	core.AllInstrs(w, func(i ssa.Instruction) {
		switch x := i.(type) {
		case *ssa.Store:
			if ia, ok := x.Addr.(*ssa.IndexAddr); ok {
				indexed(ia, x, "store")
			}
		case *ssa.Call:
			cc := x.Common()
			if bi, isB := cc.Value.(*ssa.Builtin); isB {
				if bi.Name() == "copy" {
					if t, off, n, ok := viewOf(cc.Args[0], 0); ok {
						ev := wevent{desc: "copy whose source length is not a constant (" + c.P.Pos(x.Pos()) + ")"}
						if m, okL := lenOfSlice(cc.Args[1], 0); okL {
							if m < n {
								n = m
							}
							ev.pos = []int64{}
							for k := int64(0); k < n; k++ {
								ev.pos = append(ev.pos, off+k)
							}
							ev.desc = fmt.Sprintf("copy into [%d,%d)", off, off+n)
						}
						events[t.name] = append(events[t.name], ev)
					}
				}
				return
			}
			if cc.IsInvoke() || len(cc.Args) == 0 {
				return
			}
			// a mutator applied to an entry: tbl[idx].Op(...)
			if ia, ok := cc.Args[0].(*ssa.IndexAddr); ok {
				callee := core.Callee(cc)
				if callee != nil && callee.Signature.Recv() != nil {
					if _, isPtr := callee.Signature.Recv().Type().(*types.Pointer); isPtr && !gnarkObservers[callee.Name()] {
						indexed(ia, x, callee.Name())
					}
				}
			}
		}
	})
	folded, _, foldErr := c.foldedWeightTables(w)
	check := func(name string, wantLen int64) {
		t := tables[name]
		key := "writer:" + name
		// exact, when the constructor folds: the table's length and which of its positions were assigned (an
		// out-of-range store would have stopped the folding)
		if tbl, ok := folded[name]; ok && foldErr == nil {
			var problems []string
			if int64(tbl.len) != wantLen {
				problems = append(problems, fmt.Sprintf("length is %d, not %d", tbl.len, wantLen))
			}
			var missing []string
			for p := 0; p < tbl.len; p++ {
				if tm, isT := tbl.o.slots[tbl.off+p].(*fterm); !isT || tm.op == "0" {
					missing = append(missing, fmt.Sprint(p))
				}
			}
			if len(missing) > 0 {
				show := missing
				if len(show) > 6 {
					show = append(show[:6:6], "...")
				}
				problems = append(problems, fmt.Sprintf("%d of its %d entries are never written and stay zero: positions %s", len(missing), tbl.len, strings.Join(show, ",")))
			}
			if t == nil {
				t = &table{name: name}
				tables[name] = t
			}
			t.length = int64(tbl.len)
			c.Check(len(problems) == 0, "M7", key, w.Pos(), fmt.Sprintf("table %s (readers index it up to %d): %s [by constant folding of the constructor]", name, wantLen-1, strings.Join(problems, "; ")),
				fmt.Sprintf("length %d; every position written (constant folding of the constructor)", tbl.len))
			return
		}
		if t == nil {
			c.Und("M7", key, w.Pos(), "table "+name+" is not built by NewPrecomputedWeights as a make + indexed stores")
			return
		}
		var descs, problems []string
		covered := map[int64]bool{}
		for _, ev := range events[name] {
			descs = append(descs, ev.desc)
			for _, p := range ev.pos {
				if p < 0 || p >= t.length {
					problems = append(problems, fmt.Sprintf("%s reaches position %d outside the table", ev.desc, p))
					break
				}
				covered[p] = true
			}
		}
		if t.length != wantLen {
			problems = append(problems, fmt.Sprintf("length is %d, not %d", t.length, wantLen))
		}
		var missing []string
		for p := int64(0); p < t.length; p++ {
			if !covered[p] {
				missing = append(missing, fmt.Sprint(p))
			}
		}
		if len(missing) > 0 {
			show := missing
			if len(show) > 6 {
				show = append(show[:6:6], "...")
			}
			problems = append(problems, fmt.Sprintf("%d of its %d entries are never written and stay zero: positions %s", len(missing), t.length, strings.Join(show, ",")))
		}
		c.Check(len(problems) == 0, "M7", key, w.Pos(), fmt.Sprintf("table %s (readers index it up to %d): %s [writes: %s]", name, wantLen-1, strings.Join(problems, "; "), strings.Join(descs, "; ")),
			fmt.Sprintf("length %d; every position written: %s", t.length, strings.Join(descs, "; ")))
	}
	check("barycentricWeights", 2*ds)
	if !verifierOnly {
		check("invertedDomain", 2*(ds-1))
	}

	// readers
	half := func(table string) func(ssa.Value) (int64, bool) {
		t := tables[table]
		return func(v ssa.Value) (int64, bool) {
			// len(preComp.<table>) / 2
			b, ok := v.(*ssa.BinOp)
			if !ok || b.Op != token.QUO || t == nil {
				return 0, false
			}
			x, isLen := core.IsLenOf(b.X)
			k, isK := core.ConstInt(b.Y)
			if isLen && isK && k == 2 && strings.HasSuffix(core.PathOf(x), "preComp."+table+")") {
				return t.length / 2, true
			}
			return 0, false
		}
	}
	reader := func(fnName, table, param string, want lin, cond string) {
		fn := c.P.Fn("ipa", "PrecomputedWeights", fnName)
		key := fmt.Sprintf("reader:%s:%s[%s]", fnName, table, param)
		if fn == nil {
			c.Unresolved("M7", "ipa.(*PrecomputedWeights)."+fnName)
			return
		}
		c.Saw(core.FnName(fn))
		sym := ssa.Value(paramNamed(fn, param))
		var formsOf func(fn *ssa.Function, sym ssa.Value, byParam bool, depth int) []lin
		formsOf = func(fn *ssa.Function, sym ssa.Value, byParam bool, depth int) []lin {
			var forms []lin
			if sym == nil {
				for _, cl := range countedLoops(fn) {
					sym = cl.phi
				}
			}
			core.AllInstrs(fn, func(i ssa.Instruction) {
				switch x := i.(type) {
				case *ssa.IndexAddr:
					if !strings.HasSuffix(core.PathOf(x.X), "preComp."+table+")") {
						return
					}
					idx := x.Index
					if !byParam {
						if cl := loopOf(countedLoops(fn), x.Block()); cl != nil {
							sym = cl.phi
						}
					}
					// a phi merging the two halves (index += midpoint under a condition)
					if phi, isPhi := core.StripConv(idx).(*ssa.Phi); isPhi && len(countedLoops(fn)) == 0 {
						for _, e := range phi.Edges {
							forms = append(forms, linOf(e, sym, half(table)))
						}
						return
					}
					forms = append(forms, linOf(idx, sym, half(table)))
				case *ssa.Call:
					// a lookup delegated to another accessor of the same tables
					callee := core.Callee(x.Common())
					if depth >= 2 || callee == nil || !core.IsMethod(callee, "/ipa", "PrecomputedWeights", callee.Name()) || len(callee.Blocks) == 0 || len(x.Call.Args) == 0 || x.Call.Args[0] != ssa.Value(fn.Params[0]) {
						return
					}
					for k := 1; k < len(x.Call.Args) && k < len(callee.Params); k++ {
						arg := linOf(x.Call.Args[k], sym, half(table))
						if !arg.ok {
							continue
						}
						for _, f := range formsOf(callee, callee.Params[k], true, depth+1) {
							if f.ok {
								forms = append(forms, lin{f.a * arg.a, f.a*arg.b + f.b, true})
							}
						}
					}
				}
			})
			return forms
		}
		forms := formsOf(fn, sym, param != "", 0)
		found := false
		for _, f := range forms {
			if f == want {
				found = true
			}
		}
		var got []string
		for _, f := range forms {
			if f.ok {
				got = append(got, fmt.Sprintf("%d*%s%+d", f.a, param, f.b))
			} else {
				got = append(got, "non-linear")
			}
		}
		c.Check(found, "M7", key, fn.Pos(), fmt.Sprintf("%s reads %s at %v; the writer placed the wanted entry at %d*%s%+d (%s)", fnName, table, got, want.a, param, want.b, cond), fmt.Sprintf("reads at %v", got))
	}
	if verifierOnly {
		reader("ComputeBarycentricCoefficients", "barycentricWeights", "", lin{1, 0, true}, "A'(i)")
		c.Floor("M7", 2, "table facts")
		return
	}
	reader("getRatioOfWeights", "barycentricWeights", "numerator", lin{1, 0, true}, "A'(numerator)")
	reader("getRatioOfWeights", "barycentricWeights", "denominator", lin{1, ds, true}, "1/A'(denominator)")
	reader("getInverseBarycentricWeight", "barycentricWeights", "i", lin{1, ds, true}, "1/A'(i)")
	reader("getInvertedElement", "invertedDomain", "element", lin{1, -1, true}, "1/element when not negative")
	reader("getInvertedElement", "invertedDomain", "element", lin{1, -1 + (ds - 1), true}, "-1/element when negative")
	reader("ComputeBarycentricCoefficients", "barycentricWeights", "", lin{1, 0, true}, "A'(i)")

	// getInvertedElement: loop-free, two paths selected by is_neg alone, negative half exactly when is_neg
	if fn := c.P.Fn("ipa", "PrecomputedWeights", "getInvertedElement"); fn != nil {
		ok := len(core.Loops(fn)) == 0
		neg := ssa.Value(paramNamed(fn, "is_neg"))
		elem := ssa.Value(paramNamed(fn, "element"))
		nIf := 0
		for _, b := range fn.Blocks {
			if ifi, isIf := b.Instrs[len(b.Instrs)-1].(*ssa.If); isIf {
				nIf++
				v, _ := core.BoolCond(ifi.Cond)
				if v != neg {
					ok = false
				}
			}
		}
		if nIf != 1 {
			ok = false
		}
		// evaluate both outcomes: index form must be element-1 (+half)
		if ok {
			for _, val := range []int64{0, 1} {
				vv := val
				var idx ssa.Value
				abs := func(v ssa.Value) (int64, bool) {
					if v == neg {
						return vv, true
					}
					return 0, false
				}
				ret, path, _ := core.Walk(fn, abs)
				if ret == nil {
					ok = false
					continue
				}
				for _, pb := range path {
					for _, ins := range pb.Instrs {
						if ia, isIA := ins.(*ssa.IndexAddr); isIA {
							idx = ia.Index
						}
					}
				}
				if idx == nil {
					ok = false
					continue
				}
				// resolve the phi along the path
				if phi, isPhi := core.StripConv(idx).(*ssa.Phi); isPhi {
					for k, pred := range phi.Block().Preds {
						for j := 0; j+1 < len(path); j++ {
							if path[j] == pred && path[j+1] == phi.Block() {
								idx = phi.Edges[k]
							}
						}
					}
				}
				got := linOf(idx, elem, half("invertedDomain"))
				want := lin{1, -1, true}
				if vv == 1 {
					want = lin{1, -1 + (ds - 1), true}
				}
				if got != want {
					ok = false
				}
			}
		}
		c.Check(ok, "M7", "getInvertedElement:two-paths-by-is_neg", fn.Pos(), "getInvertedElement does not select index element-1 when is_neg is false and element-1+len/2 when it is true, by is_neg alone (e.g. an extra condition on the magnitude)", "is_neg=false -> element-1; is_neg=true -> element-1+len/2; no other condition")
	}
	c.Floor("M7", 9, "table facts")
}

// returnsLenOfParam0: every return of f hands back a slice made with len(first parameter) entries.
func returnsLenOfParam0(f *ssa.Function) bool {
	if len(f.Blocks) == 0 || len(f.Params) != 1 {
		return false
	}
	rets := core.Returns(f)
	if len(rets) == 0 {
		return false
	}
	for _, r := range rets {
		if len(r.Results) != 1 {
			return false
		}
		mk, ok := r.Results[0].(*ssa.MakeSlice)
		if !ok {
			return false
		}
		x, isLen := core.IsLenOf(mk.Len)
		if !isLen || x != ssa.Value(f.Params[0]) {
			return false
		}
	}
	return true
}
