package rules

// constx — constants, limb alignment, endianness tables, protocol sizes (DESIGN §3.5 K1, K2, K4, K6).

import (
	"fmt"
	"go/ast"
	"go/constant"
	"go/token"
	"go/types"
	"math/big"
	"strings"

	"golang.org/x/tools/go/ssa"

	"verif/checker/core"
)

type limbRole struct {
	family string
	limb   int
}

type frConsts struct {
	q       *big.Int
	roles   map[string][]limbRole // decimal value -> roles
	legExp  *big.Int
	sqrtExp *big.Int
	e       int
	bits    int
	R       *big.Int
}

func limbsOf(x *big.Int) [4]*big.Int {
	var out [4]*big.Int
	mask := new(big.Int).Sub(new(big.Int).Lsh(big.NewInt(1), 64), big.NewInt(1))
	t := new(big.Int).Set(x)
	for i := 0; i < 4; i++ {
		out[i] = new(big.Int).And(t, mask)
		t.Rsh(t, 64)
	}
	return out
}

func (fc *frConsts) addFamily(name string, x *big.Int) {
	for i, l := range limbsOf(x) {
		fc.roles[l.String()] = append(fc.roles[l.String()], limbRole{name, i})
	}
}

// frModulus finds the decimal modulus string: the literal passed to _modulus.SetString(…, 10) in package fr.
func (c *Ctx) frModulus() (*big.Int, token.Pos) {
	pk := c.P.Pkg("bandersnatch/fr")
	if pk == nil {
		return nil, 0
	}
	var q *big.Int
	var pos token.Pos
	n := 0
	for _, f := range pk.Syntax {
		ast.Inspect(f, func(x ast.Node) bool {
			call, ok := x.(*ast.CallExpr)
			if !ok || len(call.Args) != 2 {
				return true
			}
			sel, ok := call.Fun.(*ast.SelectorExpr)
			if !ok || sel.Sel.Name != "SetString" {
				return true
			}
			id, ok := sel.X.(*ast.Ident)
			if !ok || id.Name != "_modulus" {
				return true
			}
			tv := pk.TypesInfo.Types[call.Args[0]]
			if tv.Value == nil || tv.Value.Kind() != constant.String {
				return true
			}
			if v, ok := new(big.Int).SetString(constant.StringVal(tv.Value), 10); ok {
				q, pos = v, call.Pos()
				n++
			}
			return true
		})
	}
	if n != 1 {
		return nil, 0
	}
	return q, pos
}

func (c *Ctx) frConstants() *frConsts {
	q, _ := c.frModulus()
	if q == nil {
		return nil
	}
	fc := &frConsts{q: q, roles: map[string][]limbRole{}}
	R := new(big.Int).Lsh(big.NewInt(1), 256)
	fc.R = R
	fc.addFamily("q", q)
	fc.addFamily("one", new(big.Int).Mod(R, q))
	fc.addFamily("rSquare", new(big.Int).Mod(new(big.Int).Mul(R, R), q))
	half := new(big.Int).Sub(q, big.NewInt(1))
	half.Rsh(half, 1)
	fc.legExp = new(big.Int).Set(half)
	fc.addFamily("half+1", new(big.Int).Add(half, big.NewInt(1)))
	w := new(big.Int).Lsh(big.NewInt(1), 64)
	qinv := new(big.Int).ModInverse(q, w)
	qinv.Sub(w, qinv)
	fc.roles[qinv.String()] = append(fc.roles[qinv.String()], limbRole{"qInvNeg", 0})
	s := new(big.Int).Sub(q, big.NewInt(1))
	for s.Bit(0) == 0 {
		s.Rsh(s, 1)
		fc.e++
	}
	fc.sqrtExp = new(big.Int).Rsh(new(big.Int).Sub(s, big.NewInt(1)), 1)
	fc.bits = q.BitLen()
	return fc
}

func bigOf(info *types.Info, e ast.Expr) *big.Int {
	tv, ok := info.Types[e]
	if !ok || tv.Value == nil || tv.Value.Kind() != constant.Int {
		return nil
	}
	v, ok := new(big.Int).SetString(tv.Value.ExactString(), 10)
	if !ok {
		return nil
	}
	return v
}

func constIndex(info *types.Info, e ast.Expr) (string, int, bool) {
	ix, ok := ast.Unparen(e).(*ast.IndexExpr)
	if !ok {
		return "", 0, false
	}
	k := bigOf(info, ix.Index)
	if k == nil || !k.IsInt64() {
		return "", 0, false
	}
	return types.ExprString(ix.X), int(k.Int64()), true
}

var bigThreshold = new(big.Int).Lsh(big.NewInt(1), 32)

func isBigLit(info *types.Info, e ast.Expr) (*big.Int, bool) {
	var v *big.Int
	switch x := ast.Unparen(e).(type) {
	case *ast.BasicLit:
		if x.Kind != token.INT {
			return nil, false
		}
		v = bigOf(info, x)
	case *ast.Ident, *ast.SelectorExpr:
		// a named constant standing for the literal
		v = bigOf(info, x)
	default:
		return nil, false
	}
	if v == nil || v.Cmp(bigThreshold) < 0 {
		return nil, false
	}
	return v, true
}

// RuleK1K2 — every large literal of package fr is a modulus-derived constant in the right limb position.
func RuleK1K2(c *Ctx) {
	c.Rule("K1", "derived constants: from the decimal modulus string the checker computes q, -q^-1 mod 2^64, R mod q, R^2 mod q, (q-1)/2+1, (q-1)/2, the Tonelli-Shanks split and checks every integer literal >= 2^32 and every exponent string of package fr against them; the Sqrt non-residue power g satisfies g^(2^(e-1)) = -1")
	c.Rule("K2", "limb alignment: in every carry chain, comparison cascade, composite literal, assignment and Montgomery round of package fr, limb k of an operand meets limb k of the modulus-derived constant or of the other operand; carry chains run 0,1,2,3 from a zero carry-in")
	pk := c.P.Pkg("bandersnatch/fr")
	fc := c.frConstants()
	if pk == nil || fc == nil {
		c.Unresolved("K1", "bandersnatch/fr modulus string (_modulus.SetString(dec, 10))")
		return
	}
	info := pk.TypesInfo
	nlit, nalign := 0, 0
	roleOf := func(v *big.Int) []limbRole { return fc.roles[v.String()] }
	hasLimb := func(v *big.Int, k int) (string, bool) {
		for _, r := range roleOf(v) {
			if r.limb == k {
				return r.family, true
			}
		}
		return "", false
	}
	gLits := map[*ast.BasicLit]bool{}

	for _, file := range pk.Syntax {
		fname := c.P.Fset.Position(file.Pos()).Filename
		if strings.HasSuffix(fname, "_test.go") {
			continue
		}
		for _, d := range file.Decls {
			var scope string
			switch x := d.(type) {
			case *ast.FuncDecl:
				scope = x.Name.Name
				if x.Recv != nil {
					scope = "Element." + scope
				}
			case *ast.GenDecl:
				scope = "decl"
			}
			c.Saw("bandersnatch/fr." + scope)
			// --- structural contexts (K2)
			ast.Inspect(d, func(x ast.Node) bool {
				switch n := x.(type) {
				case *ast.CompositeLit:
					if len(n.Elts) == 4 {
						var vals []*big.Int
						for _, e := range n.Elts {
							if v, ok := isBigLit(info, e); ok {
								vals = append(vals, v)
							}
						}
						if len(vals) == 4 {
							nalign++
							key := fmt.Sprintf("%s:literal-Element@%s", scope, c.relPos(d, n.Pos()))
							fam := ""
							ok := true
							for i, v := range vals {
								f, has := hasLimb(v, i)
								if !has || (fam != "" && f != fam) {
									ok = false
								}
								if fam == "" {
									fam = f
								}
							}
							if !ok && scope == "Element.Sqrt" {
								// the non-residue power: checked arithmetically below
								x := new(big.Int)
								for i := 3; i >= 0; i-- {
									x.Lsh(x, 64)
									x.Or(x, vals[i])
								}
								c.checkSqrtG(fc, x, n.Pos())
								for _, e := range n.Elts {
									gLits[ast.Unparen(e).(*ast.BasicLit)] = true
								}
								return true
							}
							c.Check(ok, "K2", key, n.Pos(), "the four limbs of this Element literal are not limbs 0..3 of one modulus-derived constant", "limbs 0..3 of "+fam)
						}
					}
				case *ast.AssignStmt:
					// z[k] = L   and   z[k] %= L
					if len(n.Lhs) == 1 && len(n.Rhs) == 1 {
						if _, k, ok := constIndex(info, n.Lhs[0]); ok {
							if v, isBig := isBigLit(info, n.Rhs[0]); isBig {
								nalign++
								f, has := hasLimb(v, k)
								c.Check(has, "K2", fmt.Sprintf("%s:assign[%d]@%s", scope, k, c.relPos(d, n.Pos())), n.Pos(), fmt.Sprintf("limb %d is assigned/reduced by a constant that is not limb %d of a modulus-derived value", k, k), fmt.Sprintf("limb %d of %s", k, f))
							}
						}
					}
					// carry chains
					c.k2Chain(info, scope, d, n, hasLimb, &nalign)
				case *ast.BinaryExpr:
					switch n.Op {
					case token.EQL, token.NEQ, token.LSS, token.GTR, token.LEQ, token.GEQ:
						_, kx, okx := constIndex(info, n.X)
						_, ky, oky := constIndex(info, n.Y)
						vx, bx := isBigLit(info, n.X)
						vy, by := isBigLit(info, n.Y)
						key := fmt.Sprintf("%s:compare@%s", scope, c.relPos(d, n.Pos()))
						switch {
						case okx && by:
							nalign++
							f, has := hasLimb(vy, kx)
							c.Check(has, "K2", key, n.Pos(), fmt.Sprintf("limb %d is compared with %s, which is not limb %d of a modulus-derived constant", kx, vy, kx), fmt.Sprintf("limb %d vs limb %d of %s", kx, kx, f))
						case oky && bx:
							nalign++
							f, has := hasLimb(vx, ky)
							c.Check(has, "K2", key, n.Pos(), fmt.Sprintf("limb %d is compared with %s, which is not limb %d of a modulus-derived constant", ky, vx, ky), fmt.Sprintf("limb %d vs limb %d of %s", ky, ky, f))
						case okx && oky:
							nalign++
							c.Check(kx == ky, "K2", key, n.Pos(), fmt.Sprintf("limb %d of one operand is compared with limb %d of the other", kx, ky), fmt.Sprintf("limb %d vs limb %d", kx, ky))
						}
					case token.MUL:
						// m := x[0] * qInvNeg
						for _, pr := range [][2]ast.Expr{{n.X, n.Y}, {n.Y, n.X}} {
							if v, isBig := isBigLit(info, pr[1]); isBig {
								if _, k, ok := constIndex(info, pr[0]); ok {
									nalign++
									f, has := hasLimb(v, k)
									c.Check(has && f == "qInvNeg" && k == 0, "K2", fmt.Sprintf("%s:mont-factor@%s", scope, c.relPos(d, n.Pos())), n.Pos(), "the Montgomery factor m is not limb 0 times -q^-1 mod 2^64", "x[0] * (-q^-1 mod 2^64)")
								}
							}
						}
					}
				case *ast.BlockStmt:
					c.k2MontRound(info, scope, d, n, hasLimb, &nalign)
					c.k2ChainShape(info, scope, d, n, roleOf, &nalign)
				}
				return true
			})
			// --- every big literal has a role (K1)
			ast.Inspect(d, func(x ast.Node) bool {
				lit, ok := x.(*ast.BasicLit)
				if !ok || lit.Kind != token.INT {
					return true
				}
				v := bigOf(info, lit)
				if v == nil || v.Cmp(bigThreshold) < 0 {
					return true
				}
				nlit++
				key := fmt.Sprintf("%s:literal:%s@%s", scope, v.String(), c.relPos(d, lit.Pos()))
				if gLits[lit] {
					c.OK("K1", key, lit.Pos(), "limb of the Sqrt non-residue power (checked arithmetically)")
					return true
				}
				rs := roleOf(v)
				if len(rs) == 0 {
					c.Bad("K1", key, lit.Pos(), fmt.Sprintf("integer literal %s in package fr is not a limb of any constant derived from the modulus (q, R mod q, R^2 mod q, (q-1)/2+1, -q^-1 mod 2^64)", v))
					return true
				}
				c.OK("K1", key, lit.Pos(), fmt.Sprintf("limb %d of %s", rs[0].limb, rs[0].family))
				return true
			})
			// --- exponent strings
			ast.Inspect(d, func(x ast.Node) bool {
				call, ok := x.(*ast.CallExpr)
				if !ok || len(call.Args) != 2 {
					return true
				}
				sel, ok := call.Fun.(*ast.SelectorExpr)
				if !ok || sel.Sel.Name != "SetString" {
					return true
				}
				tv := info.Types[call.Args[0]]
				base := bigOf(info, call.Args[1])
				if tv.Value == nil || tv.Value.Kind() != constant.String || base == nil || base.Int64() != 16 {
					return true
				}
				v, ok := new(big.Int).SetString(constant.StringVal(tv.Value), 16)
				if !ok {
					return true
				}
				nlit++
				// which variable receives it?
				target := ""
				ast.Inspect(d, func(y ast.Node) bool {
					if as, ok := y.(*ast.AssignStmt); ok {
						for i, r := range as.Rhs {
							if r == ast.Expr(call) && i < len(as.Lhs) {
								target = types.ExprString(as.Lhs[0])
							}
						}
					}
					return true
				})
				var want *big.Int
				switch target {
				case "_bLegendreExponentElement":
					want = fc.legExp
				case "_bSqrtExponentElement":
					want = fc.sqrtExp
				}
				key := "exponent:" + target
				if want == nil {
					c.Und("K1", key+"@"+c.relPos(d, call.Pos()), call.Pos(), "hexadecimal constant with no recognised role")
					return true
				}
				c.Check(v.Cmp(want) == 0, "K1", key, call.Pos(), fmt.Sprintf("%s = %x, but the value computed from the modulus is %x", target, v, want), fmt.Sprintf("= %x", want))
				return true
			})
		}
	}
	// Bits constant
	if k, ok := pk.Types.Scope().Lookup("Bits").(*types.Const); ok {
		v, _ := constInt64(k)
		c.Check(int(v) == fc.bits, "K1", "const:Bits", k.Pos(), fmt.Sprintf("Bits = %d, modulus has %d bits", v, fc.bits), fmt.Sprintf("= %d", fc.bits))
	}
	c.FloorN("K1", 100, nlit, "large literals and exponent strings in package fr") // 130 on the pinned tree; a literal repeated inline may be named once
	c.FloorN("K2", 30, nalign, "aligned contexts (chains, cascades, literals, rounds)")
}

func (c *Ctx) relPos(d ast.Decl, pos token.Pos) string {
	return fmt.Sprintf("+%d:%d", c.P.Fset.Position(pos).Line-c.P.Fset.Position(d.Pos()).Line, c.P.Fset.Position(pos).Column)
}

// checkSqrtG: the literal g (Montgomery form) is a generator of the 2^e-torsion: g^(2^(e-1)) = -1.
func (c *Ctx) checkSqrtG(fc *frConsts, gMont *big.Int, pos token.Pos) {
	rinv := new(big.Int).ModInverse(fc.R, fc.q)
	g := new(big.Int).Mul(gMont, rinv)
	g.Mod(g, fc.q)
	t := new(big.Int).Set(g)
	for i := 0; i < fc.e-1; i++ {
		t.Mul(t, t).Mod(t, fc.q)
	}
	minus1 := new(big.Int).Sub(fc.q, big.NewInt(1))
	c.Check(gMont.Cmp(fc.q) < 0 && t.Cmp(minus1) == 0, "K1", "Element.Sqrt:nonresidue-power-g", pos, fmt.Sprintf("the hard-coded g in Sqrt does not satisfy g^(2^(e-1)) = -1 (e = %d): Tonelli-Shanks would compute wrong roots", fc.e), fmt.Sprintf("g^(2^%d) = -1 mod q", fc.e-1))
}

// k2Chain: `dst[k], carry = bits.Add64/Sub64(a, b, cin)`.
func (c *Ctx) k2Chain(info *types.Info, scope string, d ast.Decl, n *ast.AssignStmt, hasLimb func(*big.Int, int) (string, bool), nalign *int) {
	if len(n.Rhs) != 1 {
		return
	}
	call, ok := n.Rhs[0].(*ast.CallExpr)
	if !ok || len(call.Args) != 3 {
		return
	}
	sel, ok := call.Fun.(*ast.SelectorExpr)
	if !ok || (sel.Sel.Name != "Add64" && sel.Sel.Name != "Sub64") {
		return
	}
	if id, ok := sel.X.(*ast.Ident); !ok || id.Name != "bits" {
		return
	}
	*nalign++
	key := fmt.Sprintf("%s:%s@%s", scope, sel.Sel.Name, c.relPos(d, n.Pos()))
	idx := -1
	ok2 := true
	var why []string
	note := func(k int, what string) {
		if idx == -1 {
			idx = k
		} else if idx != k {
			ok2 = false
			why = append(why, fmt.Sprintf("%s has limb index %d, expected %d", what, k, idx))
		}
	}
	if len(n.Lhs) == 2 {
		if _, k, ok := constIndex(info, n.Lhs[0]); ok {
			note(k, "destination")
		}
	}
	for i, a := range call.Args[:2] {
		if _, k, ok := constIndex(info, a); ok {
			note(k, fmt.Sprintf("operand %d", i))
		}
	}
	for i, a := range call.Args[:2] {
		if v, isBig := isBigLit(info, a); isBig {
			if idx == -1 {
				ok2 = false
				why = append(why, "constant operand without an indexed partner")
				continue
			}
			if _, has := hasLimb(v, idx); !has {
				ok2 = false
				why = append(why, fmt.Sprintf("operand %d is the constant %s, which is not limb %d of a modulus-derived value", i, v, idx))
			}
		}
	}
	// carry-in: constant 0 exactly at limb 0
	if cin := bigOf(info, call.Args[2]); cin != nil {
		if !(cin.Sign() == 0 && (idx == 0 || idx == -1)) {
			ok2 = false
			why = append(why, fmt.Sprintf("constant carry-in at limb %d", idx))
		}
	} else if idx == 0 {
		ok2 = false
		why = append(why, "limb 0 takes a carry-in from a variable")
	}
	c.Check(ok2, "K2", key, n.Pos(), "carry chain misaligned: "+strings.Join(why, "; "), fmt.Sprintf("all operands at limb %d", idx))
}

// k2ChainShape: the four statements of one carry chain have the same operand shape — the same
// variable (or the same constant family) in the same operand position at every limb.
func (c *Ctx) k2ChainShape(info *types.Info, scope string, d ast.Decl, blk *ast.BlockStmt, roleOf func(*big.Int) []limbRole, nalign *int) {
	type link struct {
		shape [2]string
		pos   token.Pos
		fn    string
	}
	var run []link
	flush := func() {
		if len(run) >= 2 {
			*nalign++
			ok := true
			for _, l := range run[1:] {
				if l.shape != run[0].shape || l.fn != run[0].fn {
					ok = false
				}
			}
			c.Check(ok, "K2", fmt.Sprintf("%s:chain-shape@%s", scope, c.relPos(d, run[0].pos)), run[0].pos,
				"the limbs of one carry chain do not all combine the same operands in the same order (an operand swapped or substituted at one limb)", fmt.Sprintf("%d limbs: %s(%s, %s)", len(run), run[0].fn, run[0].shape[0], run[0].shape[1]))
		}
		run = nil
	}
	for _, st := range blk.List {
		as, ok := st.(*ast.AssignStmt)
		var call *ast.CallExpr
		if ok && len(as.Rhs) == 1 {
			call, _ = as.Rhs[0].(*ast.CallExpr)
		}
		var sel *ast.SelectorExpr
		if call != nil && len(call.Args) == 3 {
			sel, _ = call.Fun.(*ast.SelectorExpr)
		}
		if sel == nil || (sel.Sel.Name != "Add64" && sel.Sel.Name != "Sub64") {
			flush()
			continue
		}
		var sh [2]string
		limbChain := false
		for _, a := range call.Args[:2] {
			if _, _, isIdx := constIndex(info, a); isIdx {
				limbChain = true
			}
		}
		if !limbChain {
			flush()
			continue // word-level helper (madd*), not a limb chain
		}
		for i, a := range call.Args[:2] {
			if base, _, isIdx := constIndex(info, a); isIdx {
				sh[i] = base
			} else if v, isBig := isBigLit(info, a); isBig {
				sh[i] = "const"
				if rs := roleOf(v); len(rs) > 0 {
					sh[i] = "const:" + rs[0].family
				}
			} else {
				sh[i] = types.ExprString(a)
			}
		}
		// a constant zero carry-in starts a new chain
		if cin := bigOf(info, call.Args[2]); cin != nil {
			flush()
		}
		run = append(run, link{sh, as.Pos(), sel.Sel.Name})
	}
	flush()
}

// k2MontRound: inside one block, the madd*(m, L, …) calls use q[0], q[1], q[2], q[3] in order.
func (c *Ctx) k2MontRound(info *types.Info, scope string, d ast.Decl, blk *ast.BlockStmt, hasLimb func(*big.Int, int) (string, bool), nalign *int) {
	var seq []*big.Int
	var first token.Pos
	for _, s := range blk.List {
		as, ok := s.(*ast.AssignStmt)
		if !ok || len(as.Rhs) != 1 {
			continue
		}
		call, ok := as.Rhs[0].(*ast.CallExpr)
		if !ok || len(call.Args) < 3 {
			continue
		}
		id, ok := call.Fun.(*ast.Ident)
		if !ok || !strings.HasPrefix(id.Name, "madd") {
			continue
		}
		if v, isBig := isBigLit(info, call.Args[1]); isBig {
			if len(seq) == 0 {
				first = call.Pos()
			}
			seq = append(seq, v)
		}
	}
	if len(seq) == 0 {
		return
	}
	*nalign++
	ok := len(seq) == 4
	if ok {
		for i, v := range seq {
			if f, has := hasLimb(v, i); !has || f != "q" {
				ok = false
			}
		}
	}
	c.Check(ok, "K2", fmt.Sprintf("%s:montgomery-round@%s", scope, c.relPos(d, first)), first, "the modulus limbs of this Montgomery reduction round are not q[0], q[1], q[2], q[3] in order", "madd(m, q[0..3]) in order")
}

// ---------------------------------------------------------------------------
// K4 endianness tables

func RuleK4(c *Ctx) {
	c.Rule("K4", "endianness tables: Bytes places limb k of the regular form at res[24-8k:32-8k] with binary.BigEndian, BytesLE at res[8k:8k+8] with binary.LittleEndian (ToBigInt like Bytes), each limb exactly once; the encoded value is z.ToRegular()")
	pk := c.P.Pkg("bandersnatch/fr")
	if pk == nil {
		c.Unresolved("K4", "bandersnatch/fr")
		return
	}
	info := pk.TypesInfo
	slots := 0
	for _, spec := range []struct {
		name    string
		order   string
		regular bool
	}{{"Bytes", "BigEndian", true}, {"BytesLE", "LittleEndian", true}, {"ToBigInt", "BigEndian", false}} {
		fn := c.P.Fn("bandersnatch/fr", "Element", spec.name)
		fd := c.P.Decl(fn)
		if fd == nil {
			c.Unresolved("K4", "fr.(*Element)."+spec.name)
			continue
		}
		c.Saw(core.FnName(fn))
		_ = info
		ok, why, nslots := k4LimbTable(c, fn, spec.order, spec.regular)
		slots += nslots
		c.Check(ok, "K4", "fr.Element."+spec.name+":limb-table", fd.Pos(), spec.name+": "+strings.Join(why, "; "), "4 limbs, "+spec.order+", offsets match")
	}
	// little-endian decoders are the big-endian decoder applied to the reversed bytes
	for _, name := range []string{"SetBytesLE", "SetBytesLECanonical"} {
		fn := c.P.Fn("bandersnatch/fr", "Element", name)
		if fn == nil {
			c.Unresolved("K4", "fr.(*Element)."+name)
			continue
		}
		c.Saw(core.FnName(fn))
		c.k4Reversal(fn, name)
	}
	c.FloorN("K4", 12, slots, "limb writes (PutUint64, loops expanded)")
}

// k4LimbTable: every PutUint64 of fn, with loop variables expanded over their constant range, as (limb, offset) pairs;
// the pairs must be exactly limb k at [8k, 8k+8) (little-endian) resp. [24-8k, 32-8k) (big-endian), once each.
func k4LimbTable(c *Ctx, fn *ssa.Function, order string, regular bool) (bool, []string, int) {
	ok := true
	var why []string
	type put struct{ limb, lo, hi int64 }
	var puts []put
	cls := countedLoops(fn)
	n := 0
	var srcs []ssa.Value
	for _, ci := range core.CallsIn(fn) {
		call, isCall := ci.(*ssa.Call)
		if !isCall {
			continue
		}
		f := core.Callee(call.Common())
		if f == nil || f.Name() != "PutUint64" || f.Pkg == nil || f.Pkg.Pkg.Path() != "encoding/binary" || len(call.Call.Args) != 3 {
			continue
		}
		n++
		recv := ""
		if r := f.Signature.Recv(); r != nil {
			recv = r.Type().String()
		}
		gotOrder := "?"
		switch {
		case strings.HasSuffix(recv, "bigEndian"):
			gotOrder = "BigEndian"
		case strings.HasSuffix(recv, "littleEndian"):
			gotOrder = "LittleEndian"
		}
		if gotOrder != order {
			ok = false
			why = append(why, "byte order "+gotOrder+" instead of "+order)
		}
		sl, isSl := call.Call.Args[1].(*ssa.Slice)
		if !isSl || sl.Low == nil && sl.High == nil {
			ok = false
			why = append(why, "PutUint64 does not write into a sub-slice of the result at "+c.P.Pos(call.Pos()))
			continue
		}
		// the limb operand: array[idx]
		var idxV, arr ssa.Value
		switch x := call.Call.Args[2].(type) {
		case *ssa.Index:
			idxV, arr = x.Index, x.X
		case *ssa.UnOp:
			if ia, isIA := x.X.(*ssa.IndexAddr); isIA && x.Op == token.MUL {
				idxV, arr = ia.Index, ia.X
			}
		}
		if idxV == nil {
			ok = false
			why = append(why, "PutUint64 is not given a limb of the element at "+c.P.Pos(call.Pos()))
			continue
		}
		srcs = append(srcs, arr)
		var sym ssa.Value
		from, to := int64(0), int64(1)
		if cl := loopOf(cls, call.Block()); cl != nil {
			a, isA := core.ConstInt(cl.init)
			bd := linOf(cl.bound, nil, nil)
			if !isA || cl.step != 1 || cl.op != token.LSS {
				ok = false
				why = append(why, "PutUint64 in a loop whose range is not constant at "+c.P.Pos(call.Pos()))
				continue
			}
			if !bd.ok {
				// range over the limb array itself
				if x, isLen := core.IsLenOf(cl.bound); isLen {
					if at, isArr := derefType(x.Type()).Underlying().(*types.Array); isArr {
						bd = lin{0, at.Len(), true}
					}
				}
			}
			if !bd.ok {
				ok = false
				why = append(why, "PutUint64 in a loop whose range is not constant at "+c.P.Pos(call.Pos()))
				continue
			}
			sym, from, to = cl.phi, a, bd.b
		}
		li := linOf(idxV, sym, nil)
		lo, hi := lin{0, 0, true}, lin{0, 32, true}
		if sl.Low != nil {
			lo = linOf(sl.Low, sym, nil)
		}
		if sl.High != nil {
			hi = linOf(sl.High, sym, nil)
		}
		if !li.ok || !lo.ok || !hi.ok {
			ok = false
			why = append(why, "limb index or byte offsets are not linear in the loop variable at "+c.P.Pos(call.Pos()))
			continue
		}
		for i := from; i < to; i++ {
			puts = append(puts, put{li.a*i + li.b, lo.a*i + lo.b, hi.a*i + hi.b})
		}
	}
	seen := map[int64]bool{}
	for _, p := range puts {
		wantLo := 8 * p.limb
		if order == "BigEndian" {
			wantLo = 24 - 8*p.limb
		}
		if p.limb < 0 || p.limb > 3 {
			ok = false
			why = append(why, fmt.Sprintf("limb index %d out of range", p.limb))
			continue
		}
		if p.lo != wantLo || p.hi != wantLo+8 {
			ok = false
			why = append(why, fmt.Sprintf("limb %d written at [%d:%d], expected [%d:%d]", p.limb, p.lo, p.hi, wantLo, wantLo+8))
		}
		if seen[p.limb] {
			ok = false
			why = append(why, fmt.Sprintf("limb %d written twice", p.limb))
		}
		seen[p.limb] = true
	}
	if len(seen) != 4 {
		ok = false
		why = append(why, fmt.Sprintf("%d of 4 limbs written", len(seen)))
	}
	if regular && ok {
		for _, arr := range srcs {
			// the limbs are those of z.ToRegular(): the array value, or the local it was stored into
			v := arr
			if al, isAl := v.(*ssa.Alloc); isAl {
				if sts := storesInto(al); len(sts) == 1 {
					v = sts[0].Val
				}
			}
			call, isCall := v.(*ssa.Call)
			if !isCall || !core.IsMethod(core.Callee(call.Common()), "bandersnatch/fr", "Element", "ToRegular") || !strings.HasPrefix(core.PathOf(call.Call.Args[0]), "p:z") && core.PathOf(call.Call.Args[0]) != "*(p:z)" {
				ok = false
				why = append(why, "the encoded limbs are not those of z.ToRegular()")
			}
		}
	}
	_ = n
	return ok, uniqStrings(why), len(puts)
}

func derefType(t types.Type) types.Type {
	if p, ok := t.Underlying().(*types.Pointer); ok {
		return p.Elem()
	}
	return t
}

// k4Reversal: the bytes handed to big.Int.SetBytes are the input with positions i and len-1-i swapped over the whole length.
func (c *Ctx) k4Reversal(fn *ssa.Function, name string) {
	// the reversal may live in the decoder itself or in a helper of the same package it delegates to
	cands := []*ssa.Function{fn}
	for _, ci := range core.CallsIn(fn) {
		if f := core.Callee(ci.Common()); f != nil && f.Pkg == fn.Pkg && len(f.Blocks) > 0 && c.P.Decl(f) != nil {
			for _, a := range ci.Common().Args {
				if derivesFromParam(a, "e") {
					cands = append(cands, f)
				}
			}
		}
	}
	for _, cand := range cands {
		if ok, detail, okFlow := c.k4ReversalIn(cand); ok {
			c.Check(okFlow, "K4", "fr.Element."+name+":byte-reversal", fn.Pos(), "the reversed bytes are not what is parsed", detail+" (in "+cand.Name()+")", "parsed by big.Int.SetBytes (big-endian)")
			return
		}
	}
	c.Und("K4", "fr.Element."+name+":byte-reversal", fn.Pos(), "the byte reversal is not the recognised full-length two-pointer swap (neither in the decoder nor in a helper it hands its input to); cannot decide that little-endian decoding is big-endian decoding of the reversed input")
}

func (c *Ctx) k4ReversalIn(fn *ssa.Function) (bool, string, bool) {
	ok := false
	var detail string
	var reversed ssa.Value // the buffer that holds the reversed bytes
	for _, l := range core.Loops(fn) {
		// i: 0, +1 ; optional mirror j: len(B)-1, -1
		var iPhi, jPhi *ssa.Phi
		var jInit ssa.Value
		var rangeVar *ssa.BinOp
		for _, ins := range l.Header.Instrs {
			phi, isPhi := ins.(*ssa.Phi)
			if !isPhi {
				break
			}
			init, step := phiInit(phi, l), phiStep(phi, l)
			sb, isB := step.(*ssa.BinOp)
			if init == nil || !isB || sb.X != ssa.Value(phi) {
				continue
			}
			k, isK := core.ConstInt(sb.Y)
			if !isK || k != 1 {
				continue
			}
			switch {
			case sb.Op == token.ADD:
				if z, isZ := core.ConstInt(init); isZ && z == 0 {
					iPhi = phi
				}
				// `for i := range e`: the counter starts at -1 and the body sees counter+1
				if z, isZ := core.ConstInt(init); isZ && z == -1 {
					iPhi, rangeVar = phi, sb
				}
			case sb.Op == token.SUB:
				jPhi, jInit = phi, init
			}
		}
		if iPhi == nil {
			continue
		}
		// element moves inside the loop: B[a] <- load B2[b]
		type move struct {
			dst, src   ssa.Value
			dIdx, sIdx ssa.Value
		}
		var moves []move
		for b := range l.Blocks {
			for _, ins := range b.Instrs {
				st, isSt := ins.(*ssa.Store)
				if !isSt {
					continue
				}
				da, okD := st.Addr.(*ssa.IndexAddr)
				ld, okL := st.Val.(*ssa.UnOp)
				if !okD || !okL || ld.Op != token.MUL {
					continue
				}
				sa, okS := ld.X.(*ssa.IndexAddr)
				if !okS {
					continue
				}
				moves = append(moves, move{da.X, sa.X, da.Index, sa.Index})
			}
		}
		if len(moves) == 0 {
			continue
		}
		base := moves[0].src
		isN := func(v ssa.Value) bool {
			x, isLen := core.IsLenOf(v)
			return isLen && (x == base || x == moves[0].dst)
		}
		leaf := func(v ssa.Value) (linN, bool) {
			switch {
			case rangeVar != nil && v == ssa.Value(rangeVar):
				return linN{1, 0, 0, true}, true
			case rangeVar != nil && v == ssa.Value(iPhi):
				return linN{1, -1, 0, true}, true
			case v == ssa.Value(iPhi):
				return linN{1, 0, 0, true}, true
			case jPhi != nil && v == ssa.Value(jPhi):
				ji := linNLeaf(jInit, func(x ssa.Value) (linN, bool) {
					if isN(x) {
						return linN{0, 0, 1, true}, true
					}
					return linN{}, false
				}, 0)
				if !ji.ok {
					return linN{}, false
				}
				return linN{-1, ji.b, ji.n, true}, true // j = jInit - i
			case isN(v):
				return linN{0, 0, 1, true}, true
			}
			return linN{}, false
		}
		fwd, mir := linN{1, 0, 0, true}, linN{-1, -1, 1, true} // i and N-1-i
		// header condition
		var cond *ssa.BinOp
		if ifi, isIf := l.Header.Instrs[len(l.Header.Instrs)-1].(*ssa.If); isIf {
			cond, _ = ifi.Cond.(*ssa.BinOp)
		}
		if cond == nil {
			continue
		}
		bodyOnTrue := l.Blocks[l.Header.Succs[0]]
		cx, cy := linNLeaf(cond.X, leaf, 0), linNLeaf(cond.Y, leaf, 0)
		halfBound := false
		if q, isQ := core.StripConv(cond.Y).(*ssa.BinOp); isQ && q.Op == token.QUO && isN(q.X) {
			if two, isK := core.ConstInt(q.Y); isK && two == 2 {
				halfBound = true
			}
		}
		switch {
		case len(moves) == 2 && moves[0].dst == moves[0].src && moves[1].dst == moves[0].dst && moves[1].src == moves[0].dst:
			// in-place swap of positions i and N-1-i
			a0, b0 := linNLeaf(moves[0].dIdx, leaf, 0), linNLeaf(moves[0].sIdx, leaf, 0)
			a1, b1 := linNLeaf(moves[1].dIdx, leaf, 0), linNLeaf(moves[1].sIdx, leaf, 0)
			swap := (a0 == fwd && b0 == mir && a1 == mir && b1 == fwd) || (a0 == mir && b0 == fwd && a1 == fwd && b1 == mir)
			// while i < N-1-i (two pointers), or while i < N/2
			stop := bodyOnTrue && cond.Op == token.LSS && ((cx == fwd && cy == mir) || (cx == fwd && halfBound))
			if swap && stop {
				ok, reversed = true, moves[0].dst
				detail = "in-place reversal: positions i and len-1-i swapped for every i below the middle, of " + core.PathOf(moves[0].dst)
			}
		case len(moves) == 1 && moves[0].dst != moves[0].src:
			// reversed copy dst[i] = src[N-1-i] (or dst[N-1-i] = src[i]) over the whole length
			a, b := linNLeaf(moves[0].dIdx, leaf, 0), linNLeaf(moves[0].sIdx, leaf, 0)
			cp := (a == fwd && b == mir) || (a == mir && b == fwd)
			whole := bodyOnTrue && ((cond.Op == token.LSS && cx == fwd && cy == (linN{0, 0, 1, true})) ||
				(cond.Op == token.GEQ && cx == mir && cy == (linN{0, 0, 0, true})))
			mk, isMk := moves[0].dst.(*ssa.MakeSlice)
			sized := false
			if isMk {
				if x, isLen := core.IsLenOf(mk.Len); isLen && x == moves[0].src {
					sized = true
				}
			}
			if cp && whole && sized {
				ok, reversed = true, moves[0].dst
				detail = "full-length reversed copy of " + core.PathOf(moves[0].src) + " into a buffer of the same length"
			}
		}
	}
	// and the reversed buffer is what big.Int.SetBytes receives, and it derives from a parameter
	sb := findCalls(fn, staticIs("math/big", "Int", "SetBytes"))
	// … or the package's own big-endian decoder (which parses with big.Int.SetBytes: rule D10)
	if fn.Name() != "SetBytes" {
		sb = append(sb, findCalls(fn, staticIs("bandersnatch/fr", "Element", "SetBytes"))...)
	}
	okFlow := false
	if len(sb) == 1 && reversed != nil {
		arg := sb[0].Common().Args[1]
		if arg == reversed || core.FlowsTo(reversed, arg, nil) {
			for _, p := range fn.Params {
				if derivesFromParam(reversed, p.Name()) || derivesFromParam(arg, p.Name()) {
					okFlow = true
				}
			}
			if _, isMake := reversed.(*ssa.MakeSlice); isMake {
				okFlow = true
			}
		}
	}
	return ok, detail, okFlow
}

// ---------------------------------------------------------------------------
// K6 protocol-size constants

func RuleK6(c *Ctx) {
	c.Rule("K6", "protocol-size constants agree: VectorLength = domainSize = supportedMSMLength; log2(VectorLength) = the literal round counts in IPAProof.Read/Equal = (folding bit index)+1; CompressedSize = 8*fp.Limbs; precomputed-table window sizes divide 64 and the top window of r-1 plus a carry stays below half the window range")
	n := 0
	vl := c.constOf("common", "VectorLength")
	ds := c.constOf("ipa", "domainSize")
	ms := c.constOf("banderwagon", "supportedMSMLength")
	n++
	c.Check(vl > 0 && vl == ds && vl == ms, "K6", "VectorLength=domainSize=supportedMSMLength", 0, fmt.Sprintf("VectorLength=%d domainSize=%d supportedMSMLength=%d differ", vl, ds, ms), fmt.Sprintf("all = %d", vl))
	rounds := int64(0)
	for x := vl; x > 1; x >>= 1 {
		rounds++
	}
	n++
	c.Check(vl == 1<<rounds, "K6", "VectorLength is a power of two", 0, "VectorLength is not a power of two", fmt.Sprintf("2^%d", rounds))
	// IPAProof.Equal: num_rounds := 8
	if fn := c.P.Fn("ipa", "IPAProof", "Equal"); fn != nil {
		c.Saw(core.FnName(fn))
		// the constant compared with len(ip.L) and bounding the loop
		var ks []int64
		for _, cd := range core.Conds(fn) {
			if _, isLen := core.IsLenOf(cd.X); isLen {
				if k, ok := core.ConstInt(cd.Y); ok {
					ks = append(ks, k)
				}
			}
		}
		n++
		c.Check(len(ks) >= 1 && allEq(ks, rounds), "K6", "IPAProof.Equal:num_rounds", fn.Pos(), fmt.Sprintf("IPAProof.Equal compares the number of L/R points with %v, protocol has %d rounds", ks, rounds), fmt.Sprintf("= %d", rounds))
	} else {
		c.Unresolved("K6", "ipa.IPAProof.Equal")
	}
	// IPAProof.Read loop counts
	if fn := c.P.Fn("ipa", "IPAProof", "Read"); fn != nil {
		c.Saw(core.FnName(fn))
		var ks []int64
		for _, cl := range countedLoops(fn) {
			if k, ok := cl.tripCount(); ok {
				ks = append(ks, k)
			} else if x, isLen := core.IsLenOf(cl.bound); isLen && cl.step == 1 && cl.op == token.LSS {
				// a loop over a receiver field that was given a fresh slice of constant length just before
				z, isZ := core.ConstInt(cl.init)
				if k, ok := freshFieldLen(fn, x, cl.loop.Header); ok && isZ && z == 0 {
					ks = append(ks, k)
				} else {
					ks = append(ks, -1)
				}
			} else {
				ks = append(ks, -1)
			}
		}
		n++
		c.Check(len(ks) == 2 && allEq(ks, rounds), "K6", "IPAProof.Read:loop-counts", fn.Pos(), fmt.Sprintf("IPAProof.Read loops %v times, protocol has %d rounds", ks, rounds), fmt.Sprintf("2 loops x %d", rounds))
	} else {
		c.Unresolved("K6", "ipa.IPAProof.Read")
	}
	// folding-scalar bit index: i & (1 << (K - challengeIdx)) with K = rounds-1
	if fn := c.P.Fn("ipa", "", "CheckIPAProof"); fn != nil {
		c.Saw(core.FnName(fn))
		var ks []int64
		core.AllInstrs(fn, func(i ssa.Instruction) {
			sh, ok := i.(*ssa.BinOp)
			if !ok || (sh.Op != token.SHL && sh.Op != token.SHR) {
				return
			}
			// the mask form 1 << (K - j), or the same bit brought down: x >> (K - j)
			if one, ok := core.ConstInt(sh.X); sh.Op == token.SHL && (!ok || one != 1) {
				return
			}
			if sub, ok := core.StripConv(sh.Y).(*ssa.BinOp); ok && sub.Op == token.SUB {
				if k, ok := core.ConstInt(sub.X); ok {
					y := core.StripConv(sub.Y)
					_, isPhi := y.(*ssa.Phi)
					if inc, isInc := y.(*ssa.BinOp); isInc && inc.Op == token.ADD {
						// the index of a `for j := range xs` loop: its header phi plus one
						if one, isOne := core.ConstInt(inc.Y); isOne && one == 1 {
							_, isPhi = core.StripConv(inc.X).(*ssa.Phi)
						}
					}
					if isPhi {
						ks = append(ks, k)
					}
				}
			}
		})
		n++
		c.Check(len(ks) == 1 && ks[0] == rounds-1, "K6", "CheckIPAProof:folding-bit-index", fn.Pos(), fmt.Sprintf("the verifier tests bit (%v - challengeIdx) of the basis index; with %d rounds it must be %d", ks, rounds, rounds-1), fmt.Sprintf("1 << (%d - challengeIdx)", rounds-1))
	}
	// CompressedSize
	cs := c.constOf("banderwagon", "CompressedSize")
	us := c.constOf("banderwagon", "UncompressedSize")
	fl := c.constOf("bandersnatch/fp", "Limbs")
	n++
	c.Check(cs == 8*fl && us == 2*cs && cs == 32, "K6", "CompressedSize=8*fp.Limbs=32", 0, fmt.Sprintf("CompressedSize=%d UncompressedSize=%d fp.Limbs=%d", cs, us, fl), "32 / 64")
	// window sizes in NewPrecompMSM
	if fn := c.P.Fn("banderwagon", "", "NewPrecompMSM"); fn != nil {
		c.Saw(core.FnName(fn))
		var sizes []int64
		for _, ci := range core.CallsIn(fn) {
			if core.IsFunc(core.Callee(ci.Common()), "/banderwagon", "NewPrecompPoint") {
				switch w := ci.Common().Args[1].(type) {
				case *ssa.Phi:
					for _, e := range w.Edges {
						if k, ok := core.ConstInt(e); ok {
							sizes = append(sizes, k)
						} else {
							sizes = append(sizes, -1)
						}
					}
				default:
					if k, ok := core.ConstInt(w); ok {
						sizes = append(sizes, k)
					} else {
						sizes = append(sizes, -1)
					}
				}
			}
		}
		q, _ := c.frModulus()
		ok := len(sizes) > 0 && q != nil
		var facts []string
		for _, w := range sizes {
			if w <= 0 || 64%w != 0 {
				ok = false
				continue
			}
			if q != nil {
				top := new(big.Int).Rsh(new(big.Int).Sub(q, big.NewInt(1)), uint(256-w))
				top.Add(top, big.NewInt(1)) // carry-in
				if top.Cmp(new(big.Int).Lsh(big.NewInt(1), uint(w-1))) > 0 {
					ok = false
				}
				facts = append(facts, fmt.Sprintf("w=%d: top window of r-1 plus carry = %s <= 2^%d", w, top, w-1))
			}
		}
		n++
		c.Check(ok, "K6", "NewPrecompMSM:window-sizes", fn.Pos(), fmt.Sprintf("window sizes %v: each must divide 64 and leave the top window of any scalar below half range (no carry out of the last window)", sizes), facts...)
	} else {
		c.Unresolved("K6", "banderwagon.NewPrecompMSM")
	}
	// identity literals
	for _, g := range [][2]string{{"banderwagon", "Identity"}, {"bandersnatch", "Identity"}} {
		n++
		c.k6Identity(g[0], g[1])
	}
	c.FloorN("K6", 9, n, "constant relations")
}

func allEq(ks []int64, v int64) bool {
	for _, k := range ks {
		if k != v {
			return false
		}
	}
	return true
}

// k6Identity: Identity = (0, 1, 1) by callee identity of the initialiser.
func (c *Ctx) k6Identity(rel, name string) {
	pk := c.P.Pkg(rel)
	if pk == nil {
		c.Unresolved("K6", rel+"."+name)
		return
	}
	var lit *ast.CompositeLit
	for _, f := range pk.Syntax {
		for _, d := range f.Decls {
			gd, ok := d.(*ast.GenDecl)
			if !ok {
				continue
			}
			for _, sp := range gd.Specs {
				vs, ok := sp.(*ast.ValueSpec)
				if !ok {
					continue
				}
				for i, nm := range vs.Names {
					if nm.Name == name && i < len(vs.Values) {
						if cl, ok := vs.Values[i].(*ast.CompositeLit); ok {
							lit = cl
						}
					}
				}
			}
		}
	}
	key := rel + "." + name + "=(0,1,1)"
	if lit == nil {
		c.Und("K6", key, 0, "initialiser not found")
		return
	}
	got := map[string]string{}
	ast.Inspect(lit, func(x ast.Node) bool {
		kv, ok := x.(*ast.KeyValueExpr)
		if !ok {
			return true
		}
		if call, ok := kv.Value.(*ast.CallExpr); ok {
			got[types.ExprString(kv.Key)] = types.ExprString(call.Fun)
		}
		return true
	})
	c.Check(got["X"] == "fp.Zero" && got["Y"] == "fp.One" && got["Z"] == "fp.One", "K6", key, lit.Pos(), fmt.Sprintf("identity initialised as X=%s Y=%s Z=%s, expected (Zero, One, One)", got["X"], got["Y"], got["Z"]), "X=fp.Zero() Y=fp.One() Z=fp.One()")
}

// ---------------------------------------------------------------------------
// K8 — an OR over the limbs of an element can only be compared with zero

// RuleK8: `(z[3] | z[2] | z[1] | z[0]) == 0` is the zero test of a multi-limb value; the same fold compared with any
// other constant is not an equality test of the value (it is also true for 1 + 2^64, 1 + 2^128, …): "z is one" is
// z[0] == 1 together with a zero fold of the other limbs.
func RuleK8(c *Ctx) {
	c.Rule("K8", "limb folds: in the field packages an OR over two or more limbs of one element is compared only with 0 (the zero test); compared with another constant it would also hold for values with that constant spread over several limbs, so 'equals k' must test limb 0 against k and the fold of the remaining limbs against 0")
	n := 0
	for _, top := range c.P.TopFuncs() {
		if top.Pkg == nil || !(strings.HasSuffix(top.Pkg.Pkg.Path(), "bandersnatch/fr") || strings.HasSuffix(top.Pkg.Pkg.Path(), "bandersnatch/fp")) {
			continue
		}
		for _, fn := range core.Family(top) {
			core.AllInstrs(fn, func(i ssa.Instruction) {
				cmp, ok := i.(*ssa.BinOp)
				if !ok || (cmp.Op != token.EQL && cmp.Op != token.NEQ) {
					return
				}
				for _, pr := range [][2]ssa.Value{{cmp.X, cmp.Y}, {cmp.Y, cmp.X}} {
					k, isK := core.ConstInt(pr[1])
					fold, isOr := pr[0].(*ssa.BinOp)
					if !isK || !isOr || fold.Op != token.OR {
						continue
					}
					// the leaves of the OR chain
					var leaves []ssa.Value
					var walk func(v ssa.Value)
					walk = func(v ssa.Value) {
						if b, isB := v.(*ssa.BinOp); isB && b.Op == token.OR {
							walk(b.X)
							walk(b.Y)
							return
						}
						leaves = append(leaves, v)
					}
					walk(fold)
					var base ssa.Value
					limbs := 0
					for _, l := range leaves {
						ld, isLd := l.(*ssa.UnOp)
						if !isLd || ld.Op != token.MUL {
							continue
						}
						ia, isIA := ld.X.(*ssa.IndexAddr)
						if !isIA {
							continue
						}
						if _, isC := core.ConstInt(ia.Index); !isC {
							continue
						}
						if base == nil || base == ia.X {
							base = ia.X
							limbs++
						}
					}
					if limbs < 2 || limbs != len(leaves) {
						continue
					}
					n++
					c.Saw(core.FnName(fn))
					key := fmt.Sprintf("%s:fold@%s", core.FnName(fn), c.relInFn(fn, cmp.Pos()))
					c.Check(k == 0, "K8", key, cmp.Pos(), fmt.Sprintf("%s compares the OR of %d limbs of one value with %d: that also holds when the bits of %d sit in different limbs, so it is not a test for the value %d", core.FnName(fn), limbs, k, k, k), "compared with 0")
				}
			})
		}
	}
	c.FloorN("K8", 3, n, "limb folds compared with a constant")
}

// ---------------------------------------------------------------------------
// K9 — the three-way Euler criterion of fr.Element.Sqrt
//
// After the squarings, t = x^((q-1)/2) is 0, 1 or something else (-1). Sqrt must answer zero for 0, go on to the
// Tonelli-Shanks loop for 1, and return nil otherwise. The decision slice that follows the squaring loop is walked
// once per class, with the tests on t answered from the class: t.IsZero(), and the limb-wise comparison of t with
// the Montgomery form of one (the constants SetOne stores).
func RuleK9(c *Ctx) {
	c.Rule("K9", "Euler criterion of fr.Element.Sqrt: the decision that follows the squarings of t = x^((q-1)/2), walked for t = 0, t = 1 and t = anything else with the tests on t (IsZero, limb-wise equality with the Montgomery one) answered from that class: 0 gives the receiver set to zero, 1 goes on to the Tonelli-Shanks loop, anything else gives nil")
	fn := c.P.Fn("bandersnatch/fr", "Element", "Sqrt")
	one := c.P.Fn("bandersnatch/fr", "Element", "SetOne")
	if fn == nil || one == nil {
		c.Unresolved("K9", "fr.Element.Sqrt / SetOne")
		return
	}
	c.Saw(core.FnName(fn))
	// the limbs of one
	oneLimb := map[int64]uint64{}
	core.AllInstrs(one, func(in ssa.Instruction) {
		st, ok := in.(*ssa.Store)
		if !ok {
			return
		}
		ia, isIA := st.Addr.(*ssa.IndexAddr)
		k, isK := st.Val.(*ssa.Const)
		if !isIA || !isK || k.Value == nil {
			return
		}
		if idx, okI := core.ConstInt(ia.Index); okI {
			if v, exact := constant.Uint64Val(constant.ToInt(k.Value)); exact {
				oneLimb[idx] = v
			}
		}
	})
	key := "Sqrt:criterion"
	if len(oneLimb) != 4 {
		c.Und("K9", key, fn.Pos(), "cannot read the four limbs of one from SetOne")
		return
	}
	// the squaring loop: the first loop of the function, squaring one cell in place
	loops := core.Loops(fn)
	var first *core.Loop
	for _, l := range loops {
		if first == nil || l.Header.Index < first.Header.Index {
			first = l
		}
	}
	var tcell ssa.Value
	if first != nil {
		for b := range first.Blocks {
			for _, in := range b.Instrs {
				if call, ok := in.(*ssa.Call); ok && core.IsMethod(core.Callee(call.Common()), "bandersnatch/fr", "Element", "Square") && len(call.Call.Args) == 2 && call.Call.Args[0] == call.Call.Args[1] {
					tcell = call.Call.Args[0]
				}
			}
		}
	}
	var start *ssa.BasicBlock
	if first != nil {
		for _, s := range first.Header.Succs {
			if !first.Blocks[s] {
				start = s
			}
		}
	}
	if tcell == nil || start == nil {
		c.Und("K9", key, fn.Pos(), "the squaring loop that computes the criterion is not recognised")
		return
	}
	inLoop := func(b *ssa.BasicBlock) bool {
		for _, l := range loops {
			if l.Blocks[b] {
				return true
			}
		}
		return false
	}
	want := map[string]string{"zero": "zero", "one": "continues", "other": "nil"}
	var bad []string
	for _, class := range []string{"zero", "one", "other"} {
		var absFor func(cell ssa.Value, top bool, depth int) core.Abstract
		absFor = func(tcell ssa.Value, top bool, depth int) core.Abstract {
			return func(v ssa.Value) (int64, bool) {
				in, isIn := v.(ssa.Instruction)
				if !isIn || in.Block() == nil || (top && inLoop(in.Block())) {
					return 0, false // later tests are on other values of the same cell
				}
				// a boolean helper of the field package applied to t (IsOne, an exported predicate): walked on its own
				if call, isCall := v.(*ssa.Call); isCall && depth < 2 {
					f := core.Callee(call.Common())
					if f != nil && core.InModule(f) && f.Name() != "IsZero" && len(call.Call.Args) == 1 && call.Call.Args[0] == tcell && len(f.Params) == 1 && len(f.Blocks) > 0 && len(f.Blocks) < 12 {
						if ret, _, _ := core.WalkFrom(f.Blocks[0], absFor(f.Params[0], false, depth+1)); ret != nil && len(ret.Results) == 1 {
							if k, ok := core.EvalInt(ret.Results[0], absFor(f.Params[0], false, depth+1)); ok {
								return k, true
							}
						}
					}
				}
				b2i := func(b bool) (int64, bool) {
					if b {
						return 1, true
					}
					return 0, true
				}
				switch x := v.(type) {
				case *ssa.Call:
					if core.IsMethod(core.Callee(x.Common()), "bandersnatch/fr", "Element", "IsZero") && len(x.Call.Args) == 1 && x.Call.Args[0] == tcell {
						return b2i(class == "zero")
					}
					// t.Equal(&one) with a local that holds one (One() or SetOne, its only definition)
					if core.IsMethod(core.Callee(x.Common()), "bandersnatch/fr", "Element", "Equal") && len(x.Call.Args) == 2 {
						other := x.Call.Args[1]
						if other == tcell {
							other = x.Call.Args[0]
						} else if x.Call.Args[0] != tcell {
							return 0, false
						}
						if cell, isCell := other.(*ssa.Alloc); isCell {
							holdsOne := false
							nDefs := 0
							for _, r := range core.Refs(cell) {
								switch y := r.(type) {
								case *ssa.Store:
									if y.Addr == ssa.Value(cell) {
										nDefs++
										if oc, isCall := y.Val.(*ssa.Call); isCall && core.IsFunc(core.Callee(oc.Common()), "bandersnatch/fr", "One") {
											holdsOne = true
										}
									}
								case *ssa.Call:
									if f := core.Callee(y.Common()); f != nil && f.Signature.Recv() != nil && len(y.Call.Args) > 0 && y.Call.Args[0] == ssa.Value(cell) && !gnarkObservers[f.Name()] && f.Name() != "Equal" {
										nDefs++
										if f.Name() == "SetOne" {
											holdsOne = true
										}
									}
								}
							}
							if holdsOne && nDefs == 1 {
								return b2i(class == "one")
							}
						}
					}
				case *ssa.BinOp:
					if x.Op != token.EQL && x.Op != token.NEQ {
						return 0, false
					}
					ld, k := x.X, x.Y
					if _, isC := ld.(*ssa.Const); isC {
						ld, k = k, ld
					}
					u, isLd := ld.(*ssa.UnOp)
					kc, isK := k.(*ssa.Const)
					if !isLd || !isK || u.Op != token.MUL || kc.Value == nil {
						return 0, false
					}
					ia, isIA := u.X.(*ssa.IndexAddr)
					if !isIA || ia.X != tcell {
						return 0, false
					}
					idx, okI := core.ConstInt(ia.Index)
					kv, exact := constant.Uint64Val(constant.ToInt(kc.Value))
					if !okI || !exact || oneLimb[idx] != kv {
						return 0, false
					}
					return b2i((class == "one") == (x.Op == token.EQL))
				}
				return 0, false
			}
		}
		abs := absFor(tcell, true, 0)
		ret, path, why := core.WalkFrom(start, abs)
		got := ""
		switch {
		case ret != nil && len(ret.Results) == 1 && core.IsNilConst(ret.Results[0]):
			got = "nil"
		case ret != nil && len(ret.Results) == 1:
			if call, isCall := ret.Results[0].(*ssa.Call); isCall && core.IsMethod(core.Callee(call.Common()), "bandersnatch/fr", "Element", "SetZero") && len(call.Call.Args) == 1 && core.PathOf(call.Call.Args[0]) == "p:z" {
				got = "zero"
			} else {
				got = "another result"
			}
		case ret == nil && len(path) > 0 && inLoop(path[len(path)-1]):
			got = "continues"
		default:
			got = "undecided (" + why + ")"
		}
		if got != want[class] {
			bad = append(bad, fmt.Sprintf("for a criterion value of class %q Sqrt %s, expected %s", class, describeK9(got), describeK9(want[class])))
		}
	}
	c.Check(len(bad) == 0, "K9", key, fn.Pos(), strings.Join(bad, "; "), "0 -> receiver set to zero; 1 -> Tonelli-Shanks loop; otherwise -> nil")
	c.FloorN("K9", 1, 1, "criterion decisions")
}

func describeK9(s string) string {
	switch s {
	case "nil":
		return "returns nil"
	case "zero":
		return "returns the receiver set to zero"
	case "continues":
		return "goes on to the Tonelli-Shanks loop"
	}
	return s
}
