package rules

// decx — decoding and serialisation rules D1–D7 (DESIGN §3.3).

import (
	"fmt"
	"go/token"
	"go/types"
	"sort"
	"strings"

	"golang.org/x/tools/go/ssa"

	"verif/checker/core"
)

// specialise: cuts that remove the edges contradicting param == val.
func specialise(fn *ssa.Function, param string, val bool) *core.Cuts {
	cuts := core.NewCuts()
	for _, b := range fn.Blocks {
		ifi, ok := b.Instrs[len(b.Instrs)-1].(*ssa.If)
		if !ok {
			continue
		}
		v, pos := core.BoolCond(ifi.Cond)
		p, ok := v.(*ssa.Parameter)
		if !ok || p.Name() != param {
			continue
		}
		// edge 0 is taken when cond is true, i.e. when param == pos
		if pos == val {
			cuts.AddEdge(b, 1)
		} else {
			cuts.AddEdge(b, 0)
		}
	}
	return cuts
}

func mergeCuts(a, b *core.Cuts) *core.Cuts {
	out := core.NewCuts()
	for _, c := range []*core.Cuts{a, b} {
		if c == nil {
			continue
		}
		for k := range c.Instrs {
			out.Instrs[k] = true
		}
		for k := range c.Edges {
			out.Edges[k] = true
		}
	}
	return out
}

// mustPassOn: on the specialised CFG (spec edges removed), every path to target passes fact.
func mustPassOn(fn *ssa.Function, spec, fact *core.Cuts, target ssa.Instruction) bool {
	if fact == nil || fact.Empty() {
		return false
	}
	return !core.ReachableAvoiding(fn, nil, mergeCuts(spec, fact), target)
}

func successReturns(fn *ssa.Function) []*ssa.Return {
	var out []*ssa.Return
	for _, r := range core.Returns(fn) {
		if len(r.Results) > 0 && core.IsNilConst(r.Results[len(r.Results)-1]) {
			out = append(out, r)
		}
	}
	return out
}

// errValue: the error-typed result of a call (the call itself or its last Extract).
func errValue(call *ssa.Call) ssa.Value {
	sig := call.Call.Signature()
	res := sig.Results()
	if res.Len() == 0 {
		return nil
	}
	last := res.At(res.Len() - 1).Type()
	if !isErrorType(last) {
		return nil
	}
	if res.Len() == 1 {
		return call
	}
	for _, r := range core.Refs(call) {
		if ex, ok := r.(*ssa.Extract); ok && ex.Index == res.Len()-1 {
			return ex
		}
	}
	return nil
}

func isErrorType(t types.Type) bool {
	n, ok := t.(*types.Named)
	return ok && n.Obj().Pkg() == nil && n.Obj().Name() == "error"
}

// nilEdge: cuts = edges on which value v (pointer or error) is known nil (want=true) or non-nil.
func nilEdges(fn *ssa.Function, v ssa.Value, wantNil bool) *core.Cuts {
	cuts := core.NewCuts()
	// a test of a phi that merges v with other values decides v too on every way that comes from v's definition,
	// provided the other ways into the merge cannot be taken after v was computed (flag style: `if !trusted { err =
	// check(x) }; if err == nil { ... }`)
	same := map[ssa.Value]bool{v: true}
	if def, isInstr := v.(ssa.Instruction); isInstr && def.Block() != nil {
		for _, b := range fn.Blocks {
			for _, in := range b.Instrs {
				phi, isPhi := in.(*ssa.Phi)
				if !isPhi {
					break
				}
				has, ok := false, true
				for i, e := range phi.Edges {
					if e == v {
						has = true
						continue
					}
					pred := b.Preds[i]
					if pred == def.Block() || core.CanReach(fn, def, pred.Instrs[len(pred.Instrs)-1]) {
						ok = false
					}
				}
				if has && ok {
					same[phi] = true
				}
			}
		}
	}
	for _, cd := range core.Conds(fn) {
		var other ssa.Value
		switch {
		case same[cd.X]:
			other = cd.Y
		case same[cd.Y]:
			other = cd.X
		default:
			continue
		}
		if !core.IsNilConst(other) {
			continue
		}
		want := token.NEQ
		if wantNil {
			want = token.EQL
		}
		if e := cd.EdgeWhere(want); e >= 0 {
			cuts.AddEdge(cd.Block, e)
		}
	}
	return cuts
}

func boolEdges(fn *ssa.Function, v ssa.Value, want bool) *core.Cuts {
	cuts := core.NewCuts()
	for _, b := range fn.Blocks {
		ifi, ok := b.Instrs[len(b.Instrs)-1].(*ssa.If)
		if !ok {
			continue
		}
		u, pos := core.BoolCond(ifi.Cond)
		if u != v {
			continue
		}
		if pos == want {
			cuts.AddEdge(b, 0)
		} else {
			cuts.AddEdge(b, 1)
		}
	}
	return cuts
}

func lenEqEdges(fn *ssa.Function, of string, k int64) *core.Cuts {
	cuts := core.NewCuts()
	for _, cd := range core.Conds(fn) {
		x, isLen := core.IsLenOf(cd.X)
		kk, isK := core.ConstInt(cd.Y)
		if !isLen || !isK || kk != k || core.PathOf(x) != of {
			continue
		}
		if e := cd.EdgeWhere(token.EQL); e >= 0 {
			cuts.AddEdge(cd.Block, e)
		}
	}
	return cuts
}

func derivesFrom(v ssa.Value, rootPath string) bool {
	for d := 0; d < 12; d++ {
		if core.PathOf(v) == rootPath {
			return true
		}
		switch x := v.(type) {
		case *ssa.Slice:
			v = x.X
		case *ssa.IndexAddr:
			v = x.X
		case *ssa.Convert:
			v = x.X
		case *ssa.ChangeType:
			v = x.X
		case *ssa.Phi:
			for _, e := range x.Edges {
				if derivesFrom(e, rootPath) {
					return true
				}
			}
			return false
		default:
			return false
		}
	}
	return false
}

func isReducingFieldDecoder(f *ssa.Function) bool {
	for _, n := range []string{"SetBytes", "SetBytesLE", "SetBigInt"} {
		if core.IsMethod(f, "bls12-381/fr", "Element", n) || core.IsMethod(f, "bandersnatch/fr", "Element", n) {
			return true
		}
	}
	return false
}

func isCanonicalFieldDecoder(f *ssa.Function) bool {
	return core.IsMethod(f, "bls12-381/fr", "Element", "SetBytesCanonical") || core.IsMethod(f, "bandersnatch/fr", "Element", "SetBytesLECanonical")
}

// ---------------------------------------------------------------------------
// D1 who may call

func RuleD1(c *Ctx) {
	c.Rule("D1", "who-may-call: from the untrusted entry points (Element.SetBytes, common.ReadPoint/ReadScalar, MultiProof.Read, IPAProof.Read) the static call graph reaches no unchecked or reducing decoder (SetBytesUnsafe, ReadUncompressedPoint, fr.SetBytes/SetBytesLE on input), and every reachable call of setBytes/SetBytesUncompressed passes trusted=false")
	entries := [][3]string{{"banderwagon", "Element", "SetBytes"}, {"common", "", "ReadPoint"}, {"common", "", "ReadScalar"}, {"", "MultiProof", "Read"}, {"ipa", "IPAProof", "Read"}}
	forbidden := func(f *ssa.Function) string {
		switch {
		case core.IsMethod(f, "/banderwagon", "Element", "SetBytesUnsafe"):
			return "the unchecked decoder SetBytesUnsafe"
		case core.IsFunc(f, "/bandersnatch", "ReadUncompressedPoint"):
			return "the unvalidated ReadUncompressedPoint"
		case core.IsMethod(f, "bandersnatch/fr", "Element", "SetBytesLE"), core.IsMethod(f, "bandersnatch/fr", "Element", "SetBytes"):
			return "a reducing scalar decoder (" + f.Name() + ")"
		case core.IsMethod(f, "bls12-381/fr", "Element", "SetBytes"):
			return "the reducing base-field decoder SetBytes"
		}
		return ""
	}
	ncalls := 0
	for _, e := range entries {
		fn := c.P.Fn(e[0], e[1], e[2])
		name := e[0] + "." + e[1] + "." + e[2]
		if fn == nil {
			c.Unresolved("D1", name)
			continue
		}
		seen := map[*ssa.Function]bool{}
		var bad []string
		var badPos token.Pos
		var walk func(f *ssa.Function, chain string)
		walk = func(f *ssa.Function, chain string) {
			if seen[f] || !core.InModule(f) || len(f.Blocks) == 0 {
				return
			}
			seen[f] = true
			c.Saw(core.FnName(f))
			for _, fam := range core.Family(f) {
				for _, ci := range core.CallsIn(fam) {
					callee := core.Callee(ci.Common())
					if callee == nil {
						continue
					}
					ncalls++
					if why := forbidden(callee); why != "" {
						bad = append(bad, fmt.Sprintf("%s -> %s reaches %s at %s", chain, core.FnName(fam), why, c.P.Pos(ci.Pos())))
						badPos = ci.Pos()
						continue
					}
					// trusted flag must be the constant false
					if core.IsMethod(callee, "/banderwagon", "Element", "setBytes") || core.IsMethod(callee, "/banderwagon", "Element", "SetBytesUncompressed") {
						args := ci.Common().Args
						b, isConst := core.ConstBool(args[len(args)-1])
						if !isConst || b {
							bad = append(bad, fmt.Sprintf("%s -> %s calls %s with trusted != false at %s", chain, core.FnName(fam), callee.Name(), c.P.Pos(ci.Pos())))
							badPos = ci.Pos()
						}
					}
					walk(callee, chain+" -> "+core.FnName(fam))
				}
			}
		}
		walk(fn, "")
		if len(bad) > 0 {
			c.Bad("D1", name, badPos, "untrusted entry point reaches a decoder that does not validate: "+strings.Join(bad, "; "))
		} else {
			c.OK("D1", name, fn.Pos(), fmt.Sprintf("%d module functions reachable, none forbidden; trusted flags constant false", len(seen)))
		}
	}
	c.FloorN("D1", 9, ncalls, "call sites traversed from the untrusted entry points")
}

// ---------------------------------------------------------------------------
// D2 / D3 untrusted decoding paths

func RuleD2D3(c *Ctx) {
	c.Rule("D2", "must-pass-through on the untrusted path (CFG specialised to trusted=false): the success return of setBytes / SetBytesUncompressed is dominated by the exact-length test, a canonical decode of x with its error propagated, the non-nil edge of GetPointFromX(x, largest) on that x, the nil-error edge of subgroupCheck on that same x, and (uncompressed) the equal edge of the byte comparison of the recomputed y with the input y")
	c.Rule("D3", "canonical-only: on the untrusted path no reducing field decoder (SetBytes/SetBytesLE/SetBigInt) is applied to bytes of the input buffer")
	nfacts, ndec := 0, 0
	for _, spec := range []struct {
		name string
		size int64
		unc  bool
	}{{"setBytes", 32, false}, {"SetBytesUncompressed", 64, true}} {
		fn := c.P.Fn("banderwagon", "Element", spec.name)
		if fn == nil {
			c.Unresolved("D2", "banderwagon.(*Element)."+spec.name)
			continue
		}
		c.Saw(core.FnName(fn))
		un := specialise(fn, "trusted", false)
		rets := successReturns(fn)
		if len(rets) == 0 {
			c.Und("D2", spec.name+":success", fn.Pos(), "no success return found")
			continue
		}
		onUntrusted := func(i ssa.Instruction) bool {
			if !core.ReachableAvoiding(fn, nil, un, i) {
				return false
			}
			for _, r := range rets {
				if core.ReachableAvoiding(fn, i, un, r) {
					return true
				}
			}
			return false
		}
		all := func(fact *core.Cuts) bool {
			for _, r := range rets {
				if !core.ReachableAvoiding(fn, nil, un, r) {
					continue // success not reachable untrusted through this return
				}
				if !mustPassOn(fn, un, fact, r) {
					return false
				}
			}
			return true
		}
		// (a) exact length
		nfacts++
		c.Check(all(lenEqEdges(fn, "p:buf", spec.size)), "D2", spec.name+":length", fn.Pos(),
			fmt.Sprintf("success is reachable without len(buf) == %d", spec.size), fmt.Sprintf("equal edge of len(buf) vs %d dominates success", spec.size))

		// decoders applied to the input buffer on the untrusted path
		var xCell ssa.Value
		canonOK := false
		for _, ci := range core.CallsIn(fn) {
			call, ok := ci.(*ssa.Call)
			if !ok {
				continue
			}
			f := core.Callee(call.Common())
			if len(call.Call.Args) < 2 || !derivesFrom(call.Call.Args[1], "p:buf") {
				continue
			}
			if !onUntrusted(call) {
				continue
			}
			switch {
			case isReducingFieldDecoder(f):
				ndec++
				c.Bad("D3", fmt.Sprintf("%s:%s(%s)", spec.name, f.Name(), core.PathOf(call.Call.Args[1])), call.Pos(),
					fmt.Sprintf("on the untrusted path %s decodes input bytes %s with the reducing decoder %s: a non-canonical coordinate (value + p) is accepted, giving two encodings of one element", spec.name, core.PathOf(call.Call.Args[1]), f.Name()))
				if isXPart(call.Call.Args[1]) {
					xCell = call.Call.Args[0]
				}
			case isCanonicalFieldDecoder(f):
				ndec++
				c.OK("D3", fmt.Sprintf("%s:%s(%s)", spec.name, f.Name(), core.PathOf(call.Call.Args[1])), call.Pos(), "canonical decoder")
				if isXPart(call.Call.Args[1]) {
					xCell = call.Call.Args[0]
					if ev := errValue(call); ev != nil && all(nilEdges(fn, ev, true)) {
						canonOK = true
					}
				}
			}
		}
		nfacts++
		c.Check(canonOK, "D2", spec.name+":canonical-x", fn.Pos(), "on the untrusted path x is not decoded by a canonical decoder whose error is propagated before success", "SetBytesCanonical on the x bytes; its nil-error edge dominates success")
		if xCell == nil {
			c.Und("D2", spec.name+":x-cell", fn.Pos(), "cannot identify the decoded x")
			continue
		}
		// (c) on-curve: GetPointFromX(xCell, true) non-nil edge
		var pt *ssa.Call
		for _, ci := range core.CallsIn(fn) {
			if call, ok := ci.(*ssa.Call); ok && core.IsFunc(core.Callee(call.Common()), "/bandersnatch", "GetPointFromX") && call.Call.Args[0] == xCell && onUntrusted(call) {
				pt = call
			}
		}
		nfacts++
		if pt == nil {
			c.Bad("D2", spec.name+":on-curve", fn.Pos(), "no GetPointFromX on the decoded x on the untrusted path")
		} else {
			largest, isK := core.ConstBool(pt.Call.Args[1])
			c.Check(all(nilEdges(fn, pt, false)) && isK && largest, "D2", spec.name+":on-curve", pt.Pos(), "success does not require a non-nil GetPointFromX(x, true) result", "non-nil edge dominates success", "choose_largest = true (sign convention of the encoder)")
		}
		// (d) subgroup check on the same x
		var sg *ssa.Call
		for _, ci := range core.CallsIn(fn) {
			if call, ok := ci.(*ssa.Call); ok && core.IsFunc(core.Callee(call.Common()), "/banderwagon", "subgroupCheck") && onUntrusted(call) {
				if u, isLoad := call.Call.Args[0].(*ssa.UnOp); isLoad && u.X == xCell {
					sg = call
				}
			}
		}
		nfacts++
		if sg == nil {
			c.Bad("D2", spec.name+":subgroup", fn.Pos(), "on the untrusted path no subgroupCheck is applied to the decoded x: points outside the prime-order subgroup are accepted")
		} else {
			sgCut := core.NewCuts()
			sgCut.AddInstr(sg)
			c.Check(all(sgCut) && all(nilEdges(fn, sg, true)), "D2", spec.name+":subgroup", sg.Pos(), "success is reachable without subgroupCheck(x) or without its nil-error edge", "the call and its nil-error edge dominate success")
		}
		// (e) y comparison
		if spec.unc {
			nfacts++
			var cmp *ssa.Call
			for _, ci := range core.CallsIn(fn) {
				call, ok := ci.(*ssa.Call)
				if !ok || !core.IsFunc(core.Callee(call.Common()), "bytes", "Equal") || !onUntrusted(call) {
					continue
				}
				a0, a1 := call.Call.Args[0], call.Call.Args[1]
				if derivesFrom(a0, "p:buf") {
					a0, a1 = a1, a0
				}
				if !derivesFrom(a1, "p:buf") || !isYPart(a1) {
					continue
				}
				// a0 must be the canonical bytes of the recomputed point's Y
				okSrc := false
				if sl, isSl := a0.(*ssa.Slice); isSl && sl.Low == nil && sl.High == nil {
					if al, isAl := sl.X.(*ssa.Alloc); isAl && pt != nil {
						for _, r := range core.Refs(al) {
							if st, isSt := r.(*ssa.Store); isSt {
								if bc, isCall := st.Val.(*ssa.Call); isCall && core.IsMethod(core.Callee(bc.Common()), "bls12-381/fr", "Element", "Bytes") {
									if fa, isFA := bc.Call.Args[0].(*ssa.FieldAddr); isFA && fa.X == ssa.Value(pt) && fa.Field == 1 {
										okSrc = true
									}
								}
							}
						}
					}
				}
				if okSrc {
					cmp = call
				}
			}
			// the same comparison by value: [32]byte == [32]byte, one side the encoding of the recomputed Y, the other
			// the y half of the input viewed as an array
			var arrCmp *ssa.BinOp
			if cmp == nil {
				isCalcY := func(v ssa.Value) bool {
					bc, isCall := v.(*ssa.Call)
					if ld, isLd := v.(*ssa.UnOp); isLd && ld.Op == token.MUL {
						if al, isAl := ld.X.(*ssa.Alloc); isAl {
							if sts := storesInto(al); len(sts) == 1 {
								bc, isCall = sts[0].Val.(*ssa.Call)
							}
						}
					}
					if !isCall || !core.IsMethod(core.Callee(bc.Common()), "bls12-381/fr", "Element", "Bytes") {
						return false
					}
					fa, isFA := bc.Call.Args[0].(*ssa.FieldAddr)
					return isFA && pt != nil && fa.X == ssa.Value(pt) && fa.Field == 1
				}
				isInputY := func(v ssa.Value) bool {
					ld, isLd := v.(*ssa.UnOp)
					if !isLd || ld.Op != token.MUL {
						return false
					}
					sp, isSP := ld.X.(*ssa.SliceToArrayPointer)
					return isSP && derivesFrom(sp.X, "p:buf") && isYPart(sp.X)
				}
				core.AllInstrs(fn, func(in ssa.Instruction) {
					bo, ok := in.(*ssa.BinOp)
					if !ok || (bo.Op != token.EQL && bo.Op != token.NEQ) || !onUntrusted(bo) {
						return
					}
					if (isCalcY(bo.X) && isInputY(bo.Y)) || (isCalcY(bo.Y) && isInputY(bo.X)) {
						arrCmp = bo
					}
				})
			}
			if arrCmp != nil {
				c.Check(all(boolEdges(fn, arrCmp, arrCmp.Op == token.EQL)), "D2", spec.name+":y-matches", arrCmp.Pos(), "success is reachable without the equal edge of the y comparison", "equal edge of the array comparison dominates success")
			} else if cmp == nil {
				c.Bad("D2", spec.name+":y-matches", fn.Pos(), "on the untrusted path the supplied y bytes are not compared with the canonical encoding of the recomputed y")
			} else {
				c.Check(all(boolEdges(fn, cmp, true)), "D2", spec.name+":y-matches", cmp.Pos(), "success is reachable without the equal edge of the y comparison", "equal edge dominates success")
			}
		}
	}
	c.FloorN("D2", 9, nfacts, "dominance facts")
	c.FloorN("D3", 2, ndec, "decode calls on untrusted paths")
}

// isXPart / isYPart: which half of the input buffer a slice expression denotes.
func isXPart(v ssa.Value) bool {
	switch x := v.(type) {
	case *ssa.Parameter:
		return true // the whole (compressed) buffer is x
	case *ssa.Slice:
		return x.Low == nil
	}
	return false
}

func isYPart(v ssa.Value) bool {
	if x, ok := v.(*ssa.Slice); ok {
		return x.Low != nil
	}
	return false
}

// ---------------------------------------------------------------------------
// D4 finite-outcome decisions

type outcomeSpec struct {
	rule, key string
	fn        *ssa.Function
	vars      []ssa.Value // abstract leaves
	domains   [][]int64
	classify  func(ret *ssa.Return, path []*ssa.BasicBlock) string
	want      func(vals []int64) string
}

func (c *Ctx) evalOutcomes(o outcomeSpec) int {
	n := 1
	for _, d := range o.domains {
		n *= len(d)
	}
	for k := 0; k < n; k++ {
		vals := make([]int64, len(o.vars))
		r := k
		for i, d := range o.domains {
			vals[i] = d[r%len(d)]
			r /= len(d)
		}
		abs := func(v ssa.Value) (int64, bool) {
			for i, x := range o.vars {
				if x == v {
					return vals[i], true
				}
			}
			return 0, false
		}
		key := fmt.Sprintf("%s:outcome%v", o.key, vals)
		start := o.fn.Blocks[0]
		if ins, ok := o.vars[0].(ssa.Instruction); ok {
			start = ins.Block() // decision slice: from the block that produces the compared value
		}
		ret, path, why := core.WalkFrom(start, abs)
		if ret == nil {
			c.Und(o.rule, key, o.fn.Pos(), "cannot evaluate the decision: "+why)
			continue
		}
		got, want := o.classify(ret, path), o.want(vals)
		c.Check(contains(strings.Split(want, "|"), got), o.rule, key, ret.Pos(), fmt.Sprintf("decision %s on outcome %v takes %q, must take %q", o.key, vals, got, want), "evaluated to "+got)
	}
	// the decision cannot be bypassed: every success return passes the instruction producing the compared value
	if ins, ok := o.vars[0].(ssa.Instruction); ok && ins.Block() != o.fn.Blocks[0] {
		cut := core.NewCuts()
		cut.AddInstr(ins)
		okAll := true
		for _, r := range successReturns(o.fn) {
			if !core.MustPass(o.fn, cut, r) {
				okAll = false
			}
		}
		c.Check(okAll, o.rule, o.key+":not-bypassed", ins.Pos(), "a success return is reachable without evaluating the comparison", "every success return passes the comparison")
	}
	return n
}

func callsOnPath(path []*ssa.BasicBlock, pred func(*ssa.CallCommon) bool) []*ssa.Call {
	var out []*ssa.Call
	for _, b := range path {
		for _, ins := range b.Instrs {
			if call, ok := ins.(*ssa.Call); ok && pred(call.Common()) {
				out = append(out, call)
			}
		}
	}
	return out
}

func retErrClass(ret *ssa.Return, _ []*ssa.BasicBlock) string {
	if core.IsNilConst(ret.Results[len(ret.Results)-1]) {
		return "accept"
	}
	return "reject"
}

// RuleD4 evaluates the named decisions.
func RuleD4(which ...string) Rule {
	return func(c *Ctx) {
		c.Rule("D4", "finite-outcome decisions: the accept/reject (or branch) decision is evaluated on every abstract outcome of the comparison it rests on (Legendre/Cmp in {-1,0,1}, booleans) and must select exactly the specified outcomes; the compared operands are identified by value")
		total := 0
		for _, w := range which {
			switch w {
			case "legendre":
				fn := c.P.Fn("banderwagon", "", "subgroupCheck")
				if fn == nil {
					c.Unresolved("D4", "banderwagon.subgroupCheck")
					continue
				}
				c.Saw(core.FnName(fn))
				cs := findCalls(fn, staticIs("bls12-381/fr", "Element", "Legendre"))
				if len(cs) != 1 {
					c.Bad("D4", "subgroupCheck:legendre-call", fn.Pos(), "subgroupCheck does not rest on exactly one Legendre symbol")
					continue
				}
				total += c.evalOutcomes(outcomeSpec{rule: "D4", key: "subgroupCheck(Legendre)", fn: fn, vars: []ssa.Value{cs[0].(ssa.Value)}, domains: [][]int64{{-1, 0, 1}},
					classify: retErrClass, want: func(v []int64) string {
						if v[0] == 1 {
							return "accept"
						}
						return "reject"
					}})
				c.d4SubgroupOperand(fn, cs[0].(*ssa.Call))
			case "canonical":
				fn := c.P.Fn("bandersnatch/fr", "Element", "SetBytesLECanonical")
				if fn == nil {
					c.Unresolved("D4", "fr.(*Element).SetBytesLECanonical")
					continue
				}
				c.Saw(core.FnName(fn))
				cs := findCalls(fn, staticIs("math/big", "Int", "Cmp"))
				if len(cs) != 1 {
					c.Bad("D4", "SetBytesLECanonical:cmp", fn.Pos(), "the canonical decoder does not rest on exactly one comparison with the modulus")
					continue
				}
				cmp := cs[0].(*ssa.Call)
				total += c.evalOutcomes(outcomeSpec{rule: "D4", key: "SetBytesLECanonical(Cmp(v,r))", fn: fn, vars: []ssa.Value{cmp}, domains: [][]int64{{-1, 0, 1}},
					classify: retErrClass, want: func(v []int64) string {
						if v[0] == -1 {
							return "accept"
						}
						return "reject"
					}})
				// operands: receiver is the integer built from the input bytes, argument is &_modulus
				okOps := core.PathOf(cmp.Call.Args[1]) == "g:fr._modulus"
				built := false
				for _, sb := range findCalls(fn, staticIs("math/big", "Int", "SetBytes")) {
					if sb.Common().Args[0] == cmp.Call.Args[0] && derivesFromParam(sb.Common().Args[1], "e") && core.Precedes(fn, sb, cmp) {
						built = true
					}
				}
				// the accepted value is what the element is set from
				setFrom := false
				for _, sb := range findCalls(fn, staticIs("bandersnatch/fr", "Element", "SetBigInt")) {
					if sb.Common().Args[1] == cmp.Call.Args[0] && core.PathOf(sb.Common().Args[0]) == "p:z" {
						setFrom = true
					}
				}
				c.Check(okOps && built && setFrom, "D4", "SetBytesLECanonical:operands", cmp.Pos(), "the comparison is not between the integer built from the input bytes and the package modulus, or the element is not set from that integer", "Cmp(bigint(SetBytes(e)), &_modulus)", "z.SetBigInt(same integer)")
			case "bvector":
				fn := c.P.Fn("ipa", "", "computeBVector")
				if fn == nil {
					c.Unresolved("D4", "ipa.computeBVector")
					continue
				}
				c.Saw(core.FnName(fn))
				cs := findCalls(fn, staticIs("bandersnatch/fr", "Element", "Cmp"))
				if len(cs) != 1 {
					c.Bad("D4", "computeBVector:cmp", fn.Pos(), "the in/out-of-domain switch does not rest on exactly one comparison")
					continue
				}
				cmp := cs[0].(*ssa.Call)
				total += c.evalOutcomes(outcomeSpec{rule: "D4", key: "computeBVector(Cmp(evalPoint,255))", fn: fn, vars: []ssa.Value{cmp}, domains: [][]int64{{-1, 0, 1}},
					classify: func(ret *ssa.Return, path []*ssa.BasicBlock) string {
						if call, ok := ret.Results[0].(*ssa.Call); ok && core.IsMethod(core.Callee(call.Common()), "/ipa", "PrecomputedWeights", "ComputeBarycentricCoefficients") {
							return "barycentric"
						}
						return "unit-vector"
					}, want: func(v []int64) string {
						if v[0] == 1 {
							return "barycentric"
						}
						return "unit-vector"
					}})
				okOps := core.PathOf(cmp.Call.Args[0]) == "&p:evalPoint" && core.PathOf(cmp.Call.Args[1]) == "g:ipa.maxEvalPointInsideDomain"
				c.Check(okOps, "D4", "computeBVector:operands", cmp.Pos(), "the comparison is not evalPoint vs maxEvalPointInsideDomain", "Cmp(&evalPoint, &maxEvalPointInsideDomain)")
				c.d4MaxInit()
			case "sign":
				fn := c.P.Fn("bandersnatch", "", "computeY")
				if fn == nil {
					c.Unresolved("D4", "bandersnatch.computeY")
					continue
				}
				c.Saw(core.FnName(fn))
				sq := findCalls(fn, staticIs("bandersnatch/fp", "", "SqrtPrecomp"))
				ll := findCalls(fn, staticIs("bls12-381/fr", "Element", "LexicographicallyLargest"))
				var choose ssa.Value = paramNamed(fn, "choose_largest")
				if len(sq) != 1 || len(ll) != 1 || choose == nil {
					c.Bad("D4", "computeY:shape", fn.Pos(), "computeY no longer selects the root from one SqrtPrecomp result, one LexicographicallyLargest test and the choose_largest flag")
					continue
				}
				root := sq[0].(*ssa.Call)
				isl := ll[0].(*ssa.Call)
				if isl.Call.Args[0] != ssa.Value(root) {
					c.Bad("D4", "computeY:largest-of-root", isl.Pos(), "LexicographicallyLargest is not applied to the computed root")
				}
				// abstract: root non-nil (pointer compare evaluated structurally): treat `root == nil` as 0
				nilCmp := map[ssa.Value]bool{}
				for _, cd := range core.Conds(fn) {
					if (cd.X == ssa.Value(root) && core.IsNilConst(cd.Y)) || (cd.Y == ssa.Value(root) && core.IsNilConst(cd.X)) {
						nilCmp[cd.If.Cond] = true
					}
				}
				for _, chooseV := range []int64{0, 1} {
					for _, islV := range []int64{0, 1} {
						cv, iv := chooseV, islV
						abs := func(v ssa.Value) (int64, bool) {
							switch {
							case v == choose:
								return cv, true
							case v == ssa.Value(isl):
								return iv, true
							case nilCmp[v]:
								if b, ok := v.(*ssa.BinOp); ok && b.Op == token.EQL {
									return 0, true
								}
								return 1, true
							}
							return 0, false
						}
						key := fmt.Sprintf("computeY(sign):outcome[choose_largest=%d is_largest=%d]", cv, iv)
						total++
						ret, path, why := core.Walk(fn, abs)
						if ret == nil {
							c.Und("D4", key, fn.Pos(), "cannot evaluate: "+why)
							continue
						}
						// what is returned: the root itself (possibly through the result of root.Neg(root), which is root),
						// negated in place exactly when a Neg(root, root) was executed on this path
						negs := 0
						var negCall *ssa.Call
						otherWrite := false
						for _, call := range callsOnPath(path, func(cc *ssa.CallCommon) bool {
							return len(cc.Args) > 0 && cc.Args[0] == ssa.Value(root) && !cc.IsInvoke()
						}) {
							f := core.Callee(call.Common())
							switch {
							case core.IsMethod(f, "bls12-381/fr", "Element", "Neg") && len(call.Call.Args) == 2 && call.Call.Args[1] == ssa.Value(root):
								negs++
								negCall = call
							case f != nil && gnarkObservers[f.Name()]:
							default:
								otherWrite = true
							}
						}
						got := "other"
						retIsRoot := ret.Results[0] == ssa.Value(root) || (negCall != nil && ret.Results[0] == ssa.Value(negCall))
						switch {
						case otherWrite || !retIsRoot || negs > 1:
						case negs == 0:
							got = "root"
						case negs == 1:
							got = "negated root"
						}
						want := "negated root"
						if cv == iv {
							want = "root"
						}
						c.Check(got == want, "D4", key, ret.Pos(), fmt.Sprintf("sign selection returns %s, must return %s", got, want), "returns "+got)
					}
				}
			case "setbigint":
				fn := c.P.Fn("bandersnatch/fr", "Element", "SetBigInt")
				if fn == nil {
					c.Unresolved("D4", "fr.(*Element).SetBigInt")
					continue
				}
				c.Saw(core.FnName(fn))
				cs := findCalls(fn, staticIs("math/big", "Int", "Cmp"))
				var cmpMod, cmpZero *ssa.Call
				for _, x := range cs {
					call := x.(*ssa.Call)
					if core.PathOf(call.Call.Args[0]) != "p:v" {
						continue
					}
					if core.PathOf(call.Call.Args[1]) == "g:fr._modulus" {
						cmpMod = call
					} else if al, ok := call.Call.Args[1].(*ssa.Alloc); ok && len(storesInto(al)) == 0 {
						cmpZero = call // comparison with a zero-valued local big.Int
					}
				}
				// v.Sign() is the comparison of v with zero
				nSign := 0
				if cmpZero == nil {
					for _, x := range findCalls(fn, staticIs("math/big", "Int", "Sign")) {
						if call, isCall := x.(*ssa.Call); isCall && core.PathOf(call.Call.Args[0]) == "p:v" {
							cmpZero = call
							nSign++
						}
					}
				}
				if cmpMod == nil || cmpZero == nil || len(cs)+nSign != 2 {
					c.Bad("D4", "SetBigInt:shape", fn.Pos(), "SetBigInt no longer decides on Cmp(v, modulus) and Cmp(v, 0)")
					continue
				}
				total += c.evalOutcomes(outcomeSpec{rule: "D4", key: "SetBigInt(Cmp(v,r),Cmp(v,0))", fn: fn, vars: []ssa.Value{cmpMod, cmpZero}, domains: [][]int64{{-1, 0, 1}, {-1, 0, 1}},
					classify: func(ret *ssa.Return, path []*ssa.BasicBlock) string {
						direct := callsOnPath(path, staticIs("bandersnatch/fr", "Element", "setBigInt"))
						mods := callsOnPath(path, staticIs("math/big", "Int", "Mod"))
						switch {
						case len(direct) == 0 && len(mods) == 0:
							return "zero"
						case len(direct) == 1 && len(mods) == 0 && core.PathOf(direct[0].Call.Args[1]) == "p:v":
							return "direct"
						case len(direct) == 1 && len(mods) == 1 && direct[0].Call.Args[1] == mods[0].Call.Args[0] && core.PathOf(mods[0].Call.Args[2]) == "g:fr._modulus" && core.PathOf(mods[0].Call.Args[1]) == "p:v":
							return "reduce"
						}
						return "other"
					}, want: func(v []int64) string {
						// the reducing path is right for every v; the shortcuts only where they agree with it
						switch {
						case v[0] == 0:
							return "zero|reduce"
						case v[0] == -1 && v[1] >= 0:
							return "direct|reduce"
						}
						return "reduce"
					}})
				// the zero outcome relies on z.SetZero() dominating the returns
				sz := findCalls(fn, staticIs("bandersnatch/fr", "Element", "SetZero"))
				c.Check(len(sz) >= 1 && core.PostDominatesEntry(fn, sz[0]) && core.PathOf(sz[0].Common().Args[0]) == "p:z", "D4", "SetBigInt:zero-first", fn.Pos(), "the v == r outcome returns z without it having been zeroed", "z.SetZero() on every path")
			case "absint":
				fn := c.P.Fn("ipa", "", "absInt")
				if fn == nil {
					c.Unresolved("D4", "ipa.absInt")
					continue
				}
				c.Saw(core.FnName(fn))
				x := fn.Params[0]
				for _, sign := range []int64{-5, 0, 5} {
					sv := sign
					abs := func(v ssa.Value) (int64, bool) {
						if v == ssa.Value(x) {
							return sv, true
						}
						return 0, false
					}
					total++
					key := fmt.Sprintf("absInt:outcome[x=%d]", sv)
					ret, path, why := core.Walk(fn, abs)
					if ret == nil {
						c.Und("D4", key, fn.Pos(), "cannot evaluate: "+why)
						continue
					}
					mag, ok1 := core.EvalOnPath(path, ret.Results[0], abs)
					neg, ok2 := core.EvalOnPath(path, ret.Results[1], abs)
					// results may be phis: re-evaluate through Walk's phi handling is not available; accept direct forms only
					wantMag, wantNeg := sv, int64(0)
					if sv < 0 {
						wantMag, wantNeg = -sv, 1
					}
					if !ok1 || !ok2 {
						c.Und("D4", key, ret.Pos(), "cannot evaluate the returned values")
						continue
					}
					c.Check(mag == wantMag && neg == wantNeg, "D4", key, ret.Pos(), fmt.Sprintf("absInt(%d) = (%d,%d), want (%d,%d)", sv, mag, neg, wantMag, wantNeg), fmt.Sprintf("(%d,%v)", mag, neg == 1))
				}
			}
		}
		c.FloorN("D4", 3*len(which), total, "outcomes evaluated")
	}
}

func storesInto(a *ssa.Alloc) []*ssa.Store {
	var out []*ssa.Store
	for _, r := range core.Refs(a) {
		if st, ok := r.(*ssa.Store); ok && st.Addr == ssa.Value(a) {
			out = append(out, st)
		}
	}
	return out
}

func derivesFromParam(v ssa.Value, name string) bool {
	seen := map[ssa.Value]bool{}
	var walk func(v ssa.Value) bool
	walk = func(v ssa.Value) bool {
		if seen[v] {
			return false
		}
		seen[v] = true
		switch x := v.(type) {
		case *ssa.Parameter:
			return x.Name() == name
		case *ssa.Slice:
			return walk(x.X)
		case *ssa.Convert:
			return walk(x.X)
		case *ssa.ChangeType:
			return walk(x.X)
		case *ssa.Phi:
			for _, e := range x.Edges {
				if walk(e) {
					return true
				}
			}
		case *ssa.Call:
			if b, ok := x.Call.Value.(*ssa.Builtin); ok && b.Name() == "append" {
				for _, a := range x.Call.Args {
					if walk(a) {
						return true
					}
				}
			}
		case *ssa.MakeSlice:
			// a fresh buffer as long as the parameter, filled element by element from it (a reversed or plain copy)
			if l, isLen := core.IsLenOf(x.Len); isLen && derivesFromParam(l, name) {
				for _, r := range core.Refs(x) {
					ia, isIA := r.(*ssa.IndexAddr)
					if !isIA || ia.X != ssa.Value(x) {
						continue
					}
					for _, u := range core.Refs(ia) {
						if st, isSt := u.(*ssa.Store); isSt && st.Addr == ssa.Value(ia) {
							if ld, isLd := st.Val.(*ssa.UnOp); isLd && ld.Op == token.MUL {
								if src, isSrc := ld.X.(*ssa.IndexAddr); isSrc && derivesFromParam(src.X, name) {
									return true
								}
							}
						}
					}
				}
			}
		}
		return false
	}
	return walk(v)
}

// d4SubgroupOperand: the Legendre symbol is taken of 1 - A*x^2 for the function's argument x.
func (c *Ctx) d4SubgroupOperand(fn *ssa.Function, leg *ssa.Call) {
	// term evaluation of the field operations that precede the Legendre call (straight-line code)
	var blocks []*ssa.BasicBlock
	for _, b := range fn.Blocks {
		if b == leg.Block() || b.Dominates(leg.Block()) {
			blocks = append(blocks, b)
		}
	}
	state, _ := symEval(fn, blocks, curveTermOps("&p:x"))
	got := state[leg.Call.Args[0]]
	want := "sub(1,mul(A,sq(x)))"
	c.Check(got == want, "D4", "subgroupCheck:operand", leg.Pos(), fmt.Sprintf("the Legendre symbol is taken of %q, not of 1 - a*x^2 of the argument x (%q)", got, want), "Legendre of "+want)
}

// d4MaxInit: maxEvalPointInsideDomain is initialised to VectorLength-1 and nothing else.
func (c *Ctx) d4MaxInit() {
	g := c.P.Global("ipa", "maxEvalPointInsideDomain")
	if g == nil {
		c.Unresolved("D4", "ipa.maxEvalPointInsideDomain")
		return
	}
	var inits []*ssa.Call
	for _, top := range c.P.TopFuncs() {
		if top.Pkg != g.Pkg {
			continue
		}
		for _, f := range core.Family(top) {
			for _, ci := range core.CallsIn(f) {
				if call, ok := ci.(*ssa.Call); ok && len(call.Call.Args) > 0 && call.Call.Args[0] == ssa.Value(g) && !core.IsMethod(core.Callee(call.Common()), "bandersnatch/fr", "Element", "Cmp") {
					inits = append(inits, call)
				}
			}
		}
	}
	vl := c.constOf("common", "VectorLength")
	ok := len(inits) == 1 && core.IsMethod(core.Callee(inits[0].Common()), "bandersnatch/fr", "Element", "SetUint64") && isInit(inits[0].Parent())
	if ok {
		k, isK := core.ConstInt(inits[0].Call.Args[1])
		ok = isK && k == vl-1
	}
	pos := g.Pos()
	if len(inits) > 0 {
		pos = inits[0].Pos()
	}
	if !ok && len(inits) == 0 {
		// initialised where it is declared: the initialiser expression, constant-folded, is the scalar VectorLength-1
		fo := &folder{limit: 100_000}
		if v, err := func() (v any, err error) {
			defer func() {
				if r := recover(); r != nil {
					if fe, isFE := r.(foldErr); isFE {
						err = fmt.Errorf("%s", fe.msg)
						return
					}
					panic(r)
				}
			}()
			return fo.global(g), nil
		}(); err == nil {
			if p, isP := v.(fptr); isP && p.o != nil {
				if t, isT := p.o.slots[p.i].(*fterm); isT && t.String() == fU(vl-1).String() {
					c.OK("D4", "computeBVector:max=VectorLength-1", pos, fmt.Sprintf("the declaration's initialiser folds to the scalar %d", vl-1))
					return
				}
			}
		}
	}
	c.Check(ok, "D4", "computeBVector:max=VectorLength-1", pos, fmt.Sprintf("maxEvalPointInsideDomain is not initialised (once, in init) to VectorLength-1 = %d: the in/out-of-domain switch is displaced", vl-1), fmt.Sprintf("SetUint64(%d) in init", vl-1))
}

// constOf evaluates a package-level integer constant.
func (c *Ctx) constOf(rel, name string) int64 {
	pk := c.P.Pkg(rel)
	if pk == nil {
		return -1
	}
	if k, ok := pk.Types.Scope().Lookup(name).(*types.Const); ok {
		if v, ok := constInt64(k); ok {
			return v
		}
	}
	return -1
}

// ---------------------------------------------------------------------------
// D6 EOF probe

func RuleD6(c *Ctx) {
	c.Rule("D6", "EOF probe: a Read on an io.Reader whose error is compared with io.EOF to decide success must also constrain its byte count to zero on the accepting edge (a conforming reader may return the last byte together with io.EOF)")
	n := 0
	for _, top := range c.P.TopFuncs() {
		if inHelperPkg(top) {
			continue
		}
		for _, fn := range core.Family(top) {
			for _, ci := range core.CallsIn(fn) {
				call, ok := ci.(*ssa.Call)
				if !ok || !call.Call.IsInvoke() || call.Call.Method.Name() != "Read" {
					continue
				}
				var cnt, errv ssa.Value
				for _, r := range core.Refs(call) {
					if ex, ok := r.(*ssa.Extract); ok {
						if ex.Index == 0 {
							cnt = ex
						} else {
							errv = ex
						}
					}
				}
				if errv == nil {
					continue
				}
				// is the error compared with io.EOF?
				eofEdge := core.NewCuts()
				for _, cd := range core.Conds(fn) {
					var other ssa.Value
					if cd.X == errv {
						other = cd.Y
					} else if cd.Y == errv {
						other = cd.X
					} else {
						continue
					}
					if core.PathOf(other) != "*(g:io.EOF)" {
						continue
					}
					if e := cd.EdgeWhere(token.EQL); e >= 0 {
						eofEdge.AddEdge(cd.Block, e)
					}
				}
				if eofEdge.Empty() {
					continue
				}
				n++
				key := core.FnName(fn) + ":eof-probe"
				zero := core.NewCuts()
				if cnt != nil {
					for _, cd := range core.Conds(fn) {
						if cd.X != cnt {
							continue
						}
						k, isK := core.ConstInt(cd.Y)
						if !isK {
							continue
						}
						switch {
						case k == 0 && cd.EdgeWhere(token.EQL) >= 0:
							zero.AddEdge(cd.Block, cd.EdgeWhere(token.EQL))
						case k == 0 && cd.Op == token.GTR:
							zero.AddEdge(cd.Block, 1)
						case k == 0 && cd.Op == token.LEQ:
							zero.AddEdge(cd.Block, 0)
						case k == 1 && cd.Op == token.LSS:
							zero.AddEdge(cd.Block, 0)
						case k == 1 && cd.Op == token.GEQ:
							zero.AddEdge(cd.Block, 1)
						}
					}
				}
				ok2 := !zero.Empty()
				for _, r := range successReturns(fn) {
					if core.ReachableAvoiding(fn, call, nil, r) && core.ReachableAvoiding(fn, call, zero, r) {
						ok2 = false
					}
				}
				c.Check(ok2, "D6", key, call.Pos(), "the EOF probe accepts on err == io.EOF whatever the byte count: trailing data delivered together with io.EOF (e.g. iotest.DataErrReader) is accepted", "count == 0 edge dominates success after the probe")
			}
		}
	}
	c.FloorN("D6", 1, n, "EOF probes")
}

// ---------------------------------------------------------------------------
// D7 error discipline

func RuleD7(targets [][3]string, floor int) Rule {
	return func(c *Ctx) {
		c.Rule("D7", "error discipline: in the (de)serialisation functions every call that returns an error has that result tested, and no success return is reachable from the call without passing the nil-error edge")
		n := 0
		for _, t := range targets {
			fn := c.P.Fn(t[0], t[1], t[2])
			if fn == nil {
				c.Unresolved("D7", strings.Join(t[:], "."))
				continue
			}
			c.Saw(core.FnName(fn))
			rets := successReturns(fn)
			idx := 0
			for _, ci := range core.CallsIn(fn) {
				call, ok := ci.(*ssa.Call)
				if !ok {
					continue
				}
				sig := call.Call.Signature()
				if sig.Results().Len() == 0 || !isErrorType(sig.Results().At(sig.Results().Len()-1).Type()) {
					continue
				}
				callee := core.CalleeName(call.Common())
				if strings.HasPrefix(callee, "fmt.") || strings.HasPrefix(callee, "errors.") {
					continue // constructors of errors
				}
				if f := core.Callee(call.Common()); f != nil && core.IsMethod(f, "bytes", "Buffer", f.Name()) && (f.Name() == "Write" || f.Name() == "WriteByte" || f.Name() == "WriteString" || f.Name() == "WriteRune") {
					continue // documented to return a nil error always (the buffer grows or panics)
				}
				n++
				idx++
				key := fmt.Sprintf("%s:call#%d:%s", core.FnName(fn), idx, shortCallee(callee))
				ev := errValue(call)
				if ev != nil && comparedWithEOF(fn, ev) {
					c.OK("D7", key, call.Pos(), "EOF probe: the error is compared with io.EOF (rule D6 decides it)")
					continue
				}
				if ev == nil {
					c.Bad("D7", key, call.Pos(), "the error result of "+callee+" is discarded")
					continue
				}
				ne := nilEdges(fn, ev, true)
				if ne.Empty() {
					// returned directly?
					direct := false
					for _, r := range core.Refs(ev) {
						if _, ok := r.(*ssa.Return); ok {
							direct = true
						}
					}
					if direct && len(core.Refs(ev)) == 1 {
						c.OK("D7", key, call.Pos(), "error returned directly to the caller")
						continue
					}
					c.Bad("D7", key, call.Pos(), "the error result of "+callee+" is never tested against nil")
					continue
				}
				ok2 := true
				for _, r := range rets {
					if core.ReachableAvoiding(fn, call, ne, r) {
						// reachable from the call without passing a nil-error edge
						ok2 = false
					}
				}
				c.Check(ok2, "D7", key, call.Pos(), "a success return is reachable after "+callee+" without passing its nil-error edge: a failure is swallowed", "nil-error edge dominates every later success return")
			}
		}
		c.FloorN("D7", floor, n, "error-returning calls")
	}
}

func comparedWithEOF(fn *ssa.Function, ev ssa.Value) bool {
	for _, cd := range core.Conds(fn) {
		if (cd.X == ev && core.PathOf(cd.Y) == "*(g:io.EOF)") || (cd.Y == ev && core.PathOf(cd.X) == "*(g:io.EOF)") {
			return true
		}
	}
	return false
}

func shortCallee(s string) string {
	s = strings.ReplaceAll(s, core.Mod+"/", "")
	s = strings.ReplaceAll(s, "github.com/consensys/gnark-crypto/ecc/bls12-381/", "gnark/")
	return s
}

var _ = sort.Strings

// ---------------------------------------------------------------------------
// D8 decoded state is a function of the input only

// RuleD8: in deserialisers, nothing stored into the receiver derives from what the receiver held before.
func RuleD8(targets [][3]string) Rule {
	return func(c *Ctx) {
		c.Rule("D8", "decoders overwrite: no value stored into the receiver of a Read/decode function derives (def-use) from a load of the receiver's previous contents, so the decoded object is a function of the input bytes alone (re-using a receiver, or retrying after an I/O error, cannot change the result)")
		n := 0
		for _, t := range targets {
			fn := c.P.Fn(t[0], t[1], t[2])
			if fn == nil {
				c.Unresolved("D8", strings.Join(t[:], "."))
				continue
			}
			c.Saw(core.FnName(fn))
			if len(fn.Params) == 0 {
				continue
			}
			recv := fn.Params[0]
			// loads of receiver memory
			fromRecv := map[ssa.Value]bool{}
			var derivedAddr func(v ssa.Value) bool
			derivedAddr = func(v ssa.Value) bool {
				switch x := v.(type) {
				case *ssa.Parameter:
					return x == recv
				case *ssa.FieldAddr:
					return derivedAddr(x.X)
				case *ssa.IndexAddr:
					return derivedAddr(x.X)
				}
				return false
			}
			var sources []ssa.Value
			// a load that only reads back what this function itself stored (every path to it passes a store to
			// the same location) is not a read of the previous contents; it is as derived as those stored values
			storesAt := map[string][]*ssa.Store{}
			core.AllInstrs(fn, func(i ssa.Instruction) {
				if st, ok := i.(*ssa.Store); ok && derivedAddr(st.Addr) {
					storesAt[core.PathOf(st.Addr)] = append(storesAt[core.PathOf(st.Addr)], st)
				}
			})
			readback := map[*ssa.UnOp][]*ssa.Store{}
			core.AllInstrs(fn, func(i ssa.Instruction) {
				if u, ok := i.(*ssa.UnOp); ok && u.Op == token.MUL && derivedAddr(u.X) {
					if sts := storesAt[core.PathOf(u.X)]; len(sts) > 0 {
						cut := core.NewCuts()
						for _, st := range sts {
							cut.AddInstr(st)
						}
						if core.MustPass(fn, cut, u) {
							readback[u] = sts
							return
						}
					}
					sources = append(sources, u)
				}
			})
			// forward closure, cut at x[:0] (storage reuse with the contents dropped) and at len/cap
			var walk func(v ssa.Value)
			walk = func(v ssa.Value) {
				if fromRecv[v] {
					return
				}
				fromRecv[v] = true
				for _, r := range core.Refs(v) {
					switch x := r.(type) {
					case *ssa.Slice:
						if x.X == v {
							if hi, ok := core.ConstInt(x.High); ok && hi == 0 && x.High != nil {
								continue
							}
							walk(x)
						}
					case *ssa.Call:
						if b, ok := x.Call.Value.(*ssa.Builtin); ok {
							if b.Name() == "append" && len(x.Call.Args) > 0 && x.Call.Args[0] == v {
								walk(x)
							}
							continue
						}
					case *ssa.Phi:
						walk(x)
					case *ssa.ChangeType:
						walk(x)
					case *ssa.Convert:
						walk(x)
					case *ssa.MakeInterface:
						walk(x)
					case *ssa.Store:
						if x.Val == v {
							if a, ok := x.Addr.(*ssa.Alloc); ok {
								// a local holding the old contents: its loads carry them on
								for _, rr := range core.Refs(a) {
									if u, ok := rr.(*ssa.UnOp); ok && u.Op == token.MUL {
										walk(u)
									}
								}
							}
						}
					}
				}
			}
			for _, s := range sources {
				walk(s)
			}
			for changed := true; changed; {
				changed = false
				for u, sts := range readback {
					if fromRecv[u] {
						continue
					}
					for _, st := range sts {
						if fromRecv[st.Val] {
							walk(u)
							changed = true
							break
						}
					}
				}
			}
			bad := false
			stores := 0
			core.AllInstrs(fn, func(i ssa.Instruction) {
				st, ok := i.(*ssa.Store)
				if !ok || !derivedAddr(st.Addr) {
					return
				}
				stores++
				if fromRecv[st.Val] {
					bad = true
					c.Bad("D8", core.FnName(fn)+":store:"+core.PathOf(st.Addr), st.Pos(), fmt.Sprintf("%s stores into %s a value that derives from the receiver's previous contents: decoding into a re-used (or partially filled) receiver gives a different object than decoding into a fresh one", core.FnName(fn), core.PathOf(st.Addr)))
				}
			})
			n++
			if !bad {
				c.OK("D8", core.FnName(fn)+":receiver-overwritten", fn.Pos(), fmt.Sprintf("%d store(s) into the receiver, none derived from %d load(s) of its previous contents", stores, len(sources)))
			}
		}
		c.FloorN("D8", len(targets), n, "decoder functions")
	}
}
