package rules

// Z3 — a zero test may only skip the terms it makes vanish.
//
// `if v.IsZero() { continue }` in front of an accumulation is a common saving: a term with a zero factor contributes
// nothing. It is right exactly when v is a factor of every product the branch skips. Z3 looks at every zero test of a
// field element inside a loop whose zero edge stays in the loop (a skipped iteration, not an error exit): each field
// multiplication that can then only be reached through the non-zero edge must have the tested element among its two
// factors. Which values are zero is not decided; the rule is about which terms a zero is allowed to remove.

import (
	"fmt"
	"go/token"
	"sort"
	"strings"

	"golang.org/x/tools/go/ssa"

	"verif/checker/core"
)

func RuleZ3(c *Ctx) {
	c.Rule("Z3", "zero-skips remove only vanishing terms: inside a loop of the proof code (packages multiproof, ipa, common), a field multiplication that is skipped when some element tests zero has that element as one of its factors")
	isFieldMethod := func(f *ssa.Function, name string) bool {
		if f == nil || f.Name() != name || f.Signature.Recv() == nil || f.Pkg == nil {
			return false
		}
		p := f.Pkg.Pkg.Path()
		return strings.HasSuffix(p, "bandersnatch/fr") || strings.HasSuffix(p, "bls12-381/fr")
	}
	var fns []*ssa.Function
	for _, top := range c.P.TopFuncs() {
		if top.Pkg == nil || len(top.Blocks) == 0 {
			continue
		}
		p := top.Pkg.Pkg.Path()
		if p != core.Mod && p != core.Mod+"/ipa" && p != core.Mod+"/common" {
			continue
		}
		fns = append(fns, core.Family(top)...)
	}
	sort.Slice(fns, func(i, j int) bool { return core.FnName(fns[i]) < core.FnName(fns[j]) })
	n := 0
	for _, fn := range fns {
		loops := core.Loops(fn)
		if len(loops) == 0 {
			continue
		}
		core.AllInstrs(fn, func(i ssa.Instruction) {
			ifi, ok := i.(*ssa.If)
			if !ok {
				return
			}
			cond := ifi.Cond
			zeroSucc := 0
			if u, isNot := cond.(*ssa.UnOp); isNot && u.Op == token.NOT {
				cond, zeroSucc = u.X, 1
			}
			call, isCall := cond.(*ssa.Call)
			if !isCall || !isFieldMethod(core.Callee(call.Common()), "IsZero") || len(call.Call.Args) != 1 {
				return
			}
			l := core.InnermostLoop(loops, ifi.Block())
			if l == nil || len(ifi.Block().Succs) != 2 {
				return
			}
			zb, nb := ifi.Block().Succs[zeroSucc], ifi.Block().Succs[1-zeroSucc]
			if !l.Blocks[zb] && zb != l.Header {
				return // the zero edge leaves the loop: an error exit, not a skipped term
			}
			if !l.Blocks[nb] || len(nb.Preds) != 1 {
				return
			}
			n++
			c.Saw(core.FnName(fn))
			tested := call.Call.Args[0]
			key := fmt.Sprintf("%s:zero-skip@%s", core.FnName(fn), c.relInFn(fn, call.Pos()))
			var bad []string
			for b := range l.Blocks {
				if !(b == nb || nb.Dominates(b)) {
					continue
				}
				for _, ins := range b.Instrs {
					m, isM := ins.(*ssa.Call)
					if !isM || !isFieldMethod(core.Callee(m.Common()), "Mul") || len(m.Call.Args) != 3 {
						continue
					}
					if sameAddr(m.Call.Args[1], tested) || sameAddr(m.Call.Args[2], tested) {
						continue
					}
					bad = append(bad, c.P.Pos(m.Pos()))
				}
			}
			sort.Strings(bad)
			if len(bad) > 0 {
				c.Bad("Z3", key, call.Pos(), fmt.Sprintf("the product at %s is skipped whenever %s is zero, but that element is not one of its factors: a term that need not vanish is dropped from the sum", strings.Join(bad, ", "), core.PathOf(tested)))
			} else {
				c.OK("Z3", key, call.Pos(), "every multiplication behind the non-zero edge has the tested element as a factor")
			}
		})
	}
	c.FloorN("Z3", 0, n, "zero tests that skip part of a loop iteration")
}

func sameAddr(a, b ssa.Value) bool {
	if a == b {
		return true
	}
	pa, pb := core.PathOf(a), core.PathOf(b)
	return pa != "" && pa == pb && core.SameExpr(a, b)
}
