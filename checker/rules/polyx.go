package rules

import (
	"go/token"
	"sort"
	"strconv"
	"strings"

	"golang.org/x/tools/go/ssa"

	"verif/checker/core"
)

// poly: integer polynomials over SSA leaves (normal form of +, -, * expressions). Leaves are interned through
// core.SameExpr, so two computations of the same pure expression are one leaf.
type polyCtx struct {
	leaves []ssa.Value
	tr     func(ssa.Value) ssa.Value    // optional: resolves a value to the one it stands for (parameters, single-store cells)
	env    func(ssa.Value) (poly, bool) // optional: values already known as polynomials (symbolic execution state)
}

type poly map[string]int64 // monomial (sorted leaf numbers joined by '*', "" = constant) -> coefficient

func leafKey(i int) string { return "v" + strconv.Itoa(i) }

func (pc *polyCtx) leaf(v ssa.Value) string {
	for i, l := range pc.leaves {
		if core.SameExpr(l, v) {
			return leafKey(i)
		}
	}
	pc.leaves = append(pc.leaves, v)
	return leafKey(len(pc.leaves) - 1)
}

// show renders a polynomial with the leaves' source-level paths.
func (pc *polyCtx) show(p poly) string {
	if len(p) == 0 {
		return "0"
	}
	var keys []string
	for k := range p {
		keys = append(keys, k)
	}
	sort.Strings(keys)
	var terms []string
	for _, k := range keys {
		var fs []string
		if k != "" {
			for _, f := range strings.Split(k, "*") {
				i, _ := strconv.Atoi(f[1:])
				name := core.PathOf(pc.leaves[i])
				if ph, isPhi := pc.leaves[i].(*ssa.Phi); isPhi && ph.Comment != "" {
					name = ph.Comment
				}
				if nm := pc.leaves[i].Name(); strings.Contains(name, "#") || name == "" {
					name = nm
				}
				fs = append(fs, name)
			}
		}
		c := p[k]
		switch {
		case k == "":
			terms = append(terms, strconv.FormatInt(c, 10))
		case c == 1:
			terms = append(terms, strings.Join(fs, "*"))
		default:
			terms = append(terms, strconv.FormatInt(c, 10)+"*"+strings.Join(fs, "*"))
		}
	}
	return strings.Join(terms, " + ")
}

// mentions: leaf key occurs in some monomial.
func (p poly) mentions(key string) bool {
	for k := range p {
		for _, f := range strings.Split(k, "*") {
			if f == key {
				return true
			}
		}
	}
	return false
}

// subst replaces leaves by polynomials (simultaneously).
func (p poly) subst(m map[string]poly) poly {
	out := poly{}
	for k, c := range p {
		term := poly{"": c}
		if k != "" {
			for _, f := range strings.Split(k, "*") {
				if q, ok := m[f]; ok {
					term = term.mul(q)
				} else {
					term = term.mul(poly{f: 1})
				}
			}
		}
		out = out.add(term, 1)
	}
	return out.norm()
}

func (pc *polyCtx) of(v ssa.Value, d int) poly {
	if pc.env != nil {
		if q, ok := pc.env(v); ok {
			return q
		}
	}
	v = core.StripConv(v)
	if pc.env != nil {
		if q, ok := pc.env(v); ok {
			return q
		}
	}
	if pc.tr != nil {
		v = core.StripConv(pc.tr(v))
	}
	if k, isK := core.ConstInt(v); isK {
		return poly{"": k}.norm()
	}
	// the length of a freshly made slice is the length it was made with
	if x, isLen := core.IsLenOf(v); isLen && d < 16 {
		if mk, isMk := core.StripConv(x).(*ssa.MakeSlice); isMk {
			return pc.of(mk.Len, d+1)
		}
	}
	if bo, isB := v.(*ssa.BinOp); isB && d < 16 {
		switch bo.Op {
		case token.ADD:
			return pc.of(bo.X, d+1).add(pc.of(bo.Y, d+1), 1)
		case token.SUB:
			return pc.of(bo.X, d+1).add(pc.of(bo.Y, d+1), -1)
		case token.MUL:
			return pc.of(bo.X, d+1).mul(pc.of(bo.Y, d+1))
		case token.REM:
			// X % Y = X - Y*(X/Y) when the function also computes that quotient (same operands as polynomials)
			if fn := bo.Parent(); fn != nil {
				X, Y := pc.of(bo.X, d+1), pc.of(bo.Y, d+1)
				var quo *ssa.BinOp
				core.AllInstrs(fn, func(in ssa.Instruction) {
					if q, ok := in.(*ssa.BinOp); ok && quo == nil && q.Op == token.QUO && pc.of(q.X, d+1).eq(X) && pc.of(q.Y, d+1).eq(Y) {
						quo = q
					}
				})
				if quo != nil {
					return X.add(Y.mul(pc.leafPoly(quo)), -1)
				}
			}
		}
	}
	return poly{pc.leaf(v): 1}
}

func (p poly) norm() poly {
	for k, c := range p {
		if c == 0 {
			delete(p, k)
		}
	}
	return p
}

func (p poly) add(q poly, sign int64) poly {
	out := poly{}
	for k, c := range p {
		out[k] += c
	}
	for k, c := range q {
		out[k] += sign * c
	}
	return out.norm()
}

func (p poly) mul(q poly) poly {
	out := poly{}
	for k1, c1 := range p {
		for k2, c2 := range q {
			ls := []string{}
			for _, s := range strings.Split(k1, "*") {
				if s != "" {
					ls = append(ls, s)
				}
			}
			for _, s := range strings.Split(k2, "*") {
				if s != "" {
					ls = append(ls, s)
				}
			}
			sort.Strings(ls)
			out[strings.Join(ls, "*")] += c1 * c2
		}
	}
	return out.norm()
}

func (p poly) eq(q poly) bool { return len(p.add(q, -1)) == 0 }

func (pc *polyCtx) leafPoly(v ssa.Value) poly { return poly{pc.leaf(core.StripConv(v)): 1} }

// constant: the polynomial is a constant.
func (p poly) constant() (int64, bool) {
	switch {
	case len(p) == 0:
		return 0, true
	case len(p) == 1:
		if c, ok := p[""]; ok {
			return c, true
		}
	}
	return 0, false
}
