package rules

// M12 — contents of the barycentric tables: what NewPrecomputedWeights leaves at each position is the value the
// readers expect there (M7 decides the positions only), and computeBarycentricWeightForElement is the product
// A'(x) = prod_{i != x} (x - i) over the whole domain. Both by constant folding of the closed constructor (foldx.go).

import (
	"fmt"
	"go/token"
	"go/types"
	"strings"

	"golang.org/x/tools/go/ssa"

	"verif/checker/core"
)

func RuleM12(c *Ctx) { ruleM12(c, false) }

// RuleM12Verifier: the weights table only (what ComputeBarycentricCoefficients reads).
func RuleM12Verifier(c *Ctx) { ruleM12(c, true) }

func ruleM12(c *Ctx, verifierOnly bool) {
	c.Rule("M12", "table contents, by constant folding of NewPrecomputedWeights (integers, slice headers and control flow folded exactly, scalar-field values kept as terms): position p of barycentricWeights holds A'(p) = computeBarycentricWeightForElement(p) and position p+domainSize its inverse; position p of invertedDomain holds 1/(p+1) and position p+(domainSize-1) the negation of that inverse, and the tables have exactly these lengths; computeBarycentricWeightForElement(x), folded for every x of the domain, is the product of (x - i) over every i of the domain except x")
	w := c.P.Fn("ipa", "", "NewPrecomputedWeights")
	if w == nil {
		c.Unresolved("M12", "ipa.NewPrecomputedWeights")
		return
	}
	c.Saw(core.FnName(w))
	ds := c.constOf("ipa", "domainSize")
	wf := c.P.Fn("ipa", "", "computeBarycentricWeightForElement")
	fo := &folder{limit: 4_000_000}
	fo.opaque = func(call *ssa.Call, callee *ssa.Function, args []any) (any, bool) {
		if wf != nil && callee == wf && len(args) == 1 {
			if k, ok := args[0].(int64); ok {
				return &fterm{op: "W", n: k}, true
			}
		}
		return nil, false
	}
	res, err := fo.Fold(w, nil)
	n := 0
	if err != nil {
		c.Und("M12", "NewPrecomputedWeights:fold", w.Pos(), "cannot fold the constructor: "+err.Error())
	} else {
		obj, _ := res.(fptr)
		st := structOf(w)
		type want struct {
			field string
			at    func(p int64) *fterm
			ln    int64
		}
		wants := []want{{"barycentricWeights", func(p int64) *fterm {
			if p < ds {
				return &fterm{op: "W", n: p}
			}
			return fInv(&fterm{op: "W", n: p - ds})
		}, 2 * ds}}
		if !verifierOnly {
			wants = append(wants, want{"invertedDomain", func(p int64) *fterm {
				if p < ds-1 {
					return fInv(fU(p + 1))
				}
				return fNeg(fInv(fU(p - (ds - 1) + 1)))
			}, 2 * (ds - 1)})
		}
		for _, wt := range wants {
			key := wt.field + ":contents"
			idx := -1
			if st != nil {
				for i := 0; i < st.NumFields(); i++ {
					if st.Field(i).Name() == wt.field {
						idx = i
					}
				}
			}
			if obj.o == nil || idx < 0 || idx >= len(obj.o.slots) {
				c.Und("M12", key, w.Pos(), "the constructor does not return a PrecomputedWeights with a field "+wt.field)
				continue
			}
			tbl, ok := obj.o.slots[obj.i+idx].(fslice)
			if !ok || tbl.o == nil {
				c.Und("M12", key, w.Pos(), "field "+wt.field+" is not a table built by the constructor")
				continue
			}
			n++
			var bad []string
			if int64(tbl.len) != wt.ln {
				bad = append(bad, fmt.Sprintf("length %d, expected %d", tbl.len, wt.ln))
			}
			nbad := 0
			for p := int64(0); p < wt.ln && p < int64(tbl.len); p++ {
				got := "?"
				if t, isT := tbl.o.slots[tbl.off+int(p)].(*fterm); isT {
					got = t.String()
				}
				if exp := wt.at(p).String(); got != exp {
					nbad++
					if len(bad) < 4 {
						bad = append(bad, fmt.Sprintf("position %d holds %s, the readers expect %s", p, got, exp))
					}
				}
			}
			if nbad > 3 {
				bad = append(bad, fmt.Sprintf("%d positions in all", nbad))
			}
			c.Check(len(bad) == 0, "M12", key, w.Pos(), "table "+wt.field+": "+strings.Join(bad, "; "), fmt.Sprintf("all %d positions hold the expected term (%d folding steps)", wt.ln, fo.steps))
		}
	}
	// the weight itself, for every element of the domain
	if wf == nil {
		c.Unresolved("M12", "ipa.computeBarycentricWeightForElement")
	} else {
		c.Saw(core.FnName(wf))
		key := "computeBarycentricWeightForElement:product"
		var bad []string
		nbad := 0
		steps := 0
		for x := int64(0); x < ds; x++ {
			f2 := &folder{limit: 400_000}
			r, err := f2.Fold(wf, []any{x})
			steps += f2.steps
			if err != nil {
				bad = append(bad, fmt.Sprintf("x = %d: cannot fold: %v", x, err))
				nbad++
				break
			}
			exp := fOne
			for i := int64(0); i < ds; i++ {
				if i != x {
					exp = fComm("mul", fOne, exp, fSub(fU(x), fU(i)))
				}
			}
			got := "?"
			if t, ok := r.(*fterm); ok {
				got = t.String()
			}
			if got != exp.String() {
				nbad++
				if len(bad) < 3 {
					bad = append(bad, fmt.Sprintf("x = %d: the result is not the product of (x - i) over i != x (%d factor(s) instead of %d)", x, strings.Count(got, "sub(")+strings.Count(got, "neg(")+strings.Count(got, ",u("), ds-1))
				}
			}
		}
		n++
		c.Check(nbad == 0, "M12", key, wf.Pos(), strings.Join(bad, "; "), fmt.Sprintf("for each x in 0..%d the folded result is prod_{i != x} (u(x) - u(i)) (%d folding steps)", ds-1, steps))
	}
	c.FloorN("M12", 2, n, "tables and weight function folded")
}

// structOf: the struct type NewPrecomputedWeights returns a pointer to.
func structOf(fn *ssa.Function) *types.Struct {
	res := fn.Signature.Results()
	if res.Len() != 1 {
		return nil
	}
	t := res.At(0).Type()
	if p, ok := t.Underlying().(*types.Pointer); ok {
		t = p.Elem()
	}
	st, _ := t.Underlying().(*types.Struct)
	return st
}

// ---------------------------------------------------------------------------
// X1 — evaluation points enter the field as themselves
//
// The multiproof prover and verifier turn a domain index z (a byte of zs, or the counter of a loop over the domain)
// into the scalar z. F3/F6 decide that the converted value is what gets absorbed and divided by; X1 decides that the
// conversion is the identity embedding: domainToFr(in), where it exists, is SetUint64(uint64(in)) and nothing else,
// and wherever the root package converts an integer (domainToFr or fr.Element.SetUint64) the integer is a plain
// value — a parameter, a loop counter, an element loaded from a slice, or a constant — with no arithmetic on it.
func RuleX1(c *Ctx) {
	c.Rule("X1", "evaluation points enter the field as themselves: domainToFr(in), folded for every index 0..255, is SetUint64(uint64(in)), and every integer the multiproof package converts with domainToFr or fr.Element.SetUint64 is a parameter, loop counter, loaded element or constant with no arithmetic applied")
	n := 0
	if fn := c.P.Fn("", "", "domainToFr"); fn != nil {
		c.Saw(core.FnName(fn))
		n++
		key := "domainToFr:identity-embedding"
		var bad []string
		for in := int64(0); in < 256 && len(bad) < 3; in++ {
			fo := &folder{limit: 100_000}
			r, err := fo.Fold(fn, []any{in})
			if err != nil {
				bad = append(bad, fmt.Sprintf("cannot fold domainToFr(%d): %v (a lookup table must be shown complete and correct entry by entry)", in, err))
				break
			}
			got := "?"
			if t, ok := r.(*fterm); ok {
				got = t.String()
			}
			if got != fU(in).String() {
				bad = append(bad, fmt.Sprintf("domainToFr(%d) is %s", in, got))
			}
		}
		if len(bad) > 0 && strings.HasPrefix(bad[0], "cannot fold") {
			c.Und("X1", key, fn.Pos(), bad[0])
		} else {
			c.Check(len(bad) == 0, "X1", key, fn.Pos(), strings.Join(bad, "; "), "folded for every index 0..255: the result is SetUint64 of the index")
		}
	}
	for _, top := range c.P.TopFuncs() {
		if top.Pkg == nil || top.Pkg.Pkg.Path() != core.Mod {
			continue
		}
		for _, fn := range core.Family(top) {
			for _, ci := range core.CallsIn(fn) {
				call, isCall := ci.(*ssa.Call)
				if !isCall {
					continue
				}
				f := core.Callee(call.Common())
				var arg ssa.Value
				switch {
				case core.IsFunc(f, "go-ipa", "domainToFr") && len(call.Call.Args) == 1:
					arg = call.Call.Args[0]
				case core.IsMethod(f, "bandersnatch/fr", "Element", "SetUint64") && len(call.Call.Args) == 2:
					arg = call.Call.Args[1]
				default:
					continue
				}
				n++
				key := fmt.Sprintf("%s:convert@%s", core.FnName(top), c.relInFn(top, call.Pos()))
				v := arg
				for {
					if cv, isConv := v.(*ssa.Convert); isConv {
						v = cv.X
						continue
					}
					break
				}
				plain := false
				what := ""
				for _, cl := range countedLoops(fn) {
					if v == cl.phi {
						plain, what = true, "loop counter"
					}
				}
				switch x := v.(type) {
				case *ssa.Parameter:
					plain, what = true, "parameter "+x.Name()
				case *ssa.Const:
					plain, what = true, "constant"
				case *ssa.UnOp:
					if x.Op == token.MUL {
						plain, what = true, "loaded element "+core.PathOf(x.X)
					}
				case *ssa.FreeVar:
					plain, what = true, "captured variable"
				case *ssa.Extract, *ssa.Next:
					plain, what = true, "range value"
				}
				if plain {
					c.OK("X1", key, call.Pos(), what)
				} else {
					c.Und("X1", key, call.Pos(), fmt.Sprintf("the integer converted to a scalar is computed (%T), not a plain index: cannot show that the scalar equals the evaluation point it stands for", v))
				}
			}
		}
	}
	c.FloorN("X1", 4, n, "conversions of indices to scalars")
}

// foldedWeightTables: the tables NewPrecomputedWeights leaves in the struct it returns, by constant folding
// (computeBarycentricWeightForElement kept opaque); nil when the constructor cannot be folded.
func (c *Ctx) foldedWeightTables(w *ssa.Function) (map[string]fslice, int, error) {
	wf := c.P.Fn("ipa", "", "computeBarycentricWeightForElement")
	fo := &folder{limit: 4_000_000}
	fo.opaque = func(call *ssa.Call, callee *ssa.Function, args []any) (any, bool) {
		if wf != nil && callee == wf && len(args) == 1 {
			if k, ok := args[0].(int64); ok {
				return &fterm{op: "W", n: k}, true
			}
		}
		return nil, false
	}
	res, err := fo.Fold(w, nil)
	if err != nil {
		return nil, fo.steps, err
	}
	obj, _ := res.(fptr)
	st := structOf(w)
	out := map[string]fslice{}
	if obj.o == nil || st == nil {
		return nil, fo.steps, fmt.Errorf("the constructor does not return a pointer to a struct it built")
	}
	for i := 0; i < st.NumFields() && obj.i+i < len(obj.o.slots); i++ {
		if tbl, ok := obj.o.slots[obj.i+i].(fslice); ok && tbl.o != nil {
			out[st.Field(i).Name()] = tbl
		}
	}
	return out, fo.steps, nil
}
