package rules

// msmx — pairing, dispatch, chunk coverage, guarded decrement (DESIGN §3.4 M1–M5, T1).

import (
	"fmt"
	"go/ast"
	"go/token"
	"go/types"
	"sort"
	"strings"

	"golang.org/x/tools/go/ssa"

	"verif/checker/core"
)

// msmFuncs: the msmCk functions of package bandersnatch, by their window width.
func (c *Ctx) msmFuncs() map[int64]*ssa.Function {
	out := map[int64]*ssa.Function{}
	sp := c.P.SPkgs[core.Mod+"/bandersnatch"]
	if sp == nil {
		return out
	}
	for name, m := range sp.Members {
		fn, ok := m.(*ssa.Function)
		if !ok || !strings.HasPrefix(name, "msmC") {
			continue
		}
		var k int64
		if _, err := fmt.Sscanf(name, "msmC%d", &k); err == nil {
			out[k] = fn
		}
	}
	return out
}

// reducerCall returns the call of msmReduceChunkPointAffine(DMA) in an msmCk.
func reducerCall(fn *ssa.Function) *ssa.Call {
	for _, ci := range core.CallsIn(fn) {
		if call, ok := ci.(*ssa.Call); ok {
			f := core.Callee(call.Common())
			if core.IsFunc(f, "/bandersnatch", "msmReduceChunkPointAffine") || core.IsFunc(f, "/bandersnatch", "msmReduceChunkPointAffineDMA") {
				return call
			}
		}
	}
	return nil
}

// processCalls: every call of msmProcessChunkPointAffine(DMA) in the family of fn.
func processCalls(fn *ssa.Function) []*ssa.Call {
	var out []*ssa.Call
	for _, f := range core.Family(fn) {
		for _, ci := range core.CallsIn(f) {
			if call, ok := ci.(*ssa.Call); ok {
				g := core.Callee(call.Common())
				if core.IsFunc(g, "/bandersnatch", "msmProcessChunkPointAffine") || core.IsFunc(g, "/bandersnatch", "msmProcessChunkPointAffineDMA") {
					out = append(out, call)
				}
			}
		}
	}
	return out
}

func arrayLenOfSliceArg(v ssa.Value) int64 {
	if sl, ok := v.(*ssa.Slice); ok {
		if p, ok := sl.X.Type().Underlying().(*types.Pointer); ok {
			if a, ok := p.Elem().Underlying().(*types.Array); ok && sl.Low == nil && sl.High == nil {
				return a.Len()
			}
		}
	}
	return -1
}

// RuleM3 — dispatch exhaustiveness and constant agreement.
func RuleM3(c *Ctx) {
	c.Rule("M3", "dispatch exhaustiveness and constant agreement: every window width the cost model can choose has a case in msmInnerPointProj; case k calls a function whose own constant c equals k; in each msmCk the bucket arrays have 1<<(c-1) entries (1<<(lastC-1) for the short top window), the chunk array has ceil(256/c) entries, and the width handed to the chunk workers is c")
	fns := c.msmFuncs()
	disp := c.P.Fn("bandersnatch", "", "msmInnerPointProj")
	me := c.P.Fn("bandersnatch", "", "MultiExp")
	if disp == nil || me == nil {
		c.Unresolved("M3", "bandersnatch.msmInnerPointProj / MultiExp")
		return
	}
	c.Saw(core.FnName(disp))
	// implemented widths: the []uint64 literal inside MultiExp
	var widths []int64
	if fd := c.P.Decl(me); fd != nil {
		info := c.P.Info(me)
		ast.Inspect(fd, func(n ast.Node) bool {
			cl, ok := n.(*ast.CompositeLit)
			if !ok {
				return true
			}
			if tv, ok := info.Types[cl]; ok {
				var elem types.Type
				switch u := tv.Type.Underlying().(type) {
				case *types.Slice:
					elem = u.Elem()
				case *types.Array:
					elem = u.Elem()
				}
				if elem != nil {
					if b, ok := elem.Underlying().(*types.Basic); ok && b.Kind() == types.Uint64 && len(cl.Elts) > 3 {
						for _, e := range cl.Elts {
							if v := bigOf(info, e); v != nil {
								widths = append(widths, v.Int64())
							}
						}
					}
				}
			}
			return true
		})
	}
	if len(widths) == 0 {
		c.Und("M3", "MultiExp:implemented-widths", me.Pos(), "cannot find the list of implemented window widths")
		return
	}
	// dispatch table: c == k -> callee
	cases := map[int64]*ssa.Function{}
	for _, cd := range core.Conds(disp) {
		// c == k, either way round
		if _, isConstX := core.ConstInt(cd.X); isConstX {
			cd.X, cd.Y = cd.Y, cd.X
		}
		if p, ok := cd.X.(*ssa.Parameter); !ok || p.Name() != "c" {
			continue
		}
		k, isK := core.ConstInt(cd.Y)
		e := cd.EdgeWhere(token.EQL)
		if !isK || e < 0 {
			continue
		}
		blk := cd.Block.Succs[e]
		// dispatch through a function variable: the case selects msmCk as the value of a phi that is called afterwards
		for _, succ := range blk.Succs {
			for _, ins := range succ.Instrs {
				phi, isPhi := ins.(*ssa.Phi)
				if !isPhi {
					break
				}
				for pi, pred := range succ.Preds {
					if pred != blk {
						continue
					}
					f, isFn := phi.Edges[pi].(*ssa.Function)
					if !isFn || !strings.HasPrefix(f.Name(), "msmC") {
						continue
					}
					// the phi is the value of one call that forwards the dispatcher's arguments
					for _, r := range core.Refs(phi) {
						call, isCall := r.(*ssa.Call)
						if !isCall || call.Call.Value != ssa.Value(phi) {
							continue
						}
						cases[k] = f
						okArgs := len(call.Call.Args) == 4
						for i, a := range call.Call.Args {
							if i < 4 && okArgs && a != ssa.Value(disp.Params[[]int{0, 2, 3, 4}[i]]) {
								okArgs = false
							}
						}
						c.Check(okArgs, "M3", fmt.Sprintf("dispatch:case %d:args", k), call.Pos(), "the dispatcher does not forward (p, points, scalars, splitFirstChunk) unchanged", "arguments forwarded unchanged")
					}
				}
			}
		}
		for _, ins := range blk.Instrs {
			if call, ok := ins.(*ssa.Call); ok {
				if f := core.Callee(call.Common()); f != nil && strings.HasPrefix(f.Name(), "msmC") {
					cases[k] = f
					// arguments passed through unchanged
					okArgs := len(call.Call.Args) == 4
					for i, a := range call.Call.Args {
						if i < len(disp.Params) && okArgs {
							want := []int{0, 2, 3, 4}[i]
							if a != ssa.Value(disp.Params[want]) {
								okArgs = false
							}
						}
					}
					c.Check(okArgs, "M3", fmt.Sprintf("dispatch:case %d:args", k), call.Pos(), "the dispatcher does not forward (p, points, scalars, splitFirstChunk) unchanged", "arguments forwarded unchanged")
				}
			}
		}
	}
	for _, w := range widths {
		f, ok := cases[w]
		key := fmt.Sprintf("dispatch:width %d", w)
		if !ok {
			c.Bad("M3", key, disp.Pos(), fmt.Sprintf("the cost model may choose window width %d but msmInnerPointProj has no case for it (panics)", w))
			continue
		}
		if fns[w] != f {
			c.Bad("M3", key, disp.Pos(), fmt.Sprintf("case %d dispatches to %s", w, f.Name()))
			continue
		}
		c.OK("M3", key, disp.Pos(), "case present, dispatches to "+f.Name())
	}
	// per function constants
	var ks []int64
	for k := range cases {
		ks = append(ks, k)
	}
	sort.Slice(ks, func(i, j int) bool { return ks[i] < ks[j] })
	for _, k := range ks {
		f := cases[k]
		c.Saw(core.FnName(f))
		key := fmt.Sprintf("%s:constants", f.Name())
		rc := reducerCall(f)
		if rc == nil {
			c.Bad("M3", key, f.Pos(), "no reducer call")
			continue
		}
		cc, isK := core.ConstInt(rc.Call.Args[1])
		ok := isK && cc == k
		var why []string
		if !ok {
			why = append(why, fmt.Sprintf("reducer is given width %d in the function dispatched for %d", cc, k))
		}
		nb := int64(256) / k
		nch := nb
		lastC := int64(256) - k*nb
		if lastC != 0 {
			nch++
		}
		if got := arrayLenOfSliceArg(rc.Call.Args[2]); got != nch {
			ok = false
			why = append(why, fmt.Sprintf("chunk array has %d entries, ceil(256/%d) = %d", got, k, nch))
		}
		for _, pc := range processCalls(f) {
			w, isW := core.ConstInt(pc.Call.Args[3])
			if !isW || w != k {
				ok = false
				why = append(why, fmt.Sprintf("a chunk worker is given width %d", w))
			}
			bl := arrayLenOfSliceArg(pc.Call.Args[2])
			want := int64(1) << uint(k-1)
			// the short top window: chunk index == nb (constant)
			arg := core.StripConv(chunkArgInParent(pc))
			ch, isCh := core.ConstInt(arg)
			if !isCh {
				// the loop variable at a spawn site that only one value of it reaches (`case j == nbChunks: go …`)
				for _, s := range c.spawnSites() {
					if s.parent != f || s.target != pc.Parent() {
						continue
					}
					if cl := loopOf(countedLoops(f), s.at.Block()); cl != nil && cl.phi == arg {
						if vs, okV := cl.valuesAt(f, s.at.Block()); okV && len(vs) == 1 {
							ch, isCh = vs[0], true
						}
					}
				}
			}
			if isCh && ch == nb && lastC != 0 {
				want = int64(1) << uint(lastC-1)
			}
			if bl != want {
				ok = false
				why = append(why, fmt.Sprintf("bucket array has %d entries, expected %d", bl, want))
			}
		}
		c.Check(ok, "M3", key, f.Pos(), strings.Join(why, "; "), fmt.Sprintf("c=%d nbChunks=%d lastC=%d buckets=%d", k, nch, lastC, int64(1)<<uint(k-1)))
	}
	c.FloorN("M3", 15, len(widths), "implemented widths")
}

// chunkArgInParent: the chunk argument of a process call, resolved through the spawned closure's own parameter when constant at the spawn.
func chunkArgInParent(pc *ssa.Call) ssa.Value {
	v := core.StripConv(pc.Call.Args[0])
	p, ok := v.(*ssa.Parameter)
	if !ok {
		return v
	}
	fn := pc.Parent()
	idx := -1
	for i, q := range fn.Params {
		if q == p {
			idx = i
		}
	}
	par := fn.Parent()
	if par == nil || idx < 0 {
		return v
	}
	var found ssa.Value
	n := 0
	for _, f := range core.Family(par) {
		for _, ci := range core.CallsIn(f) {
			t, _ := closureOf(ci.Common().Value)
			if t == nil {
				t = core.Callee(ci.Common())
			}
			if t == fn && idx < len(ci.Common().Args) {
				n++
				found = ci.Common().Args[idx]
			}
		}
	}
	if n == 1 {
		return found
	}
	return v
}

// ---------------------------------------------------------------------------
// M4 chunk coverage

type chunkSend struct {
	site    *spawnSite
	chunk   ssa.Value // in the parent's frame
	chanIdx ssa.Value // index into the chunk-channel array, nil when the channel is not an element of it
	chRoot  ssa.Value
	cond    string // always | split | nosplit
}

func RuleM4(c *Ctx) {
	c.Rule("M4", "chunk coverage: in each msmCk every chunk index 0..len(chChunks)-1 is handed to exactly one worker on every path (constant, constant-trip loop, or one of the two branches of splitFirstChunk), the worker for chunk j sends on channel j, each dedicated channel receives exactly one send, the split channel has two senders and two receives, and the reducer receives once from every channel")
	sites := c.spawnSites()
	fns := c.msmFuncs()
	n := 0
	var ks []int64
	for k := range fns {
		ks = append(ks, k)
	}
	sort.Slice(ks, func(i, j int) bool { return ks[i] < ks[j] })
	for _, k := range ks {
		fn := fns[k]
		n++
		key := fn.Name() + ":chunk-coverage"
		c.Saw(core.FnName(fn))
		rc := reducerCall(fn)
		if rc == nil {
			c.Bad("M4", key, fn.Pos(), "no reducer call")
			continue
		}
		nch := arrayLenOfSliceArg(rc.Call.Args[2])
		dma := core.IsFunc(core.Callee(rc.Common()), "/bandersnatch", "msmReduceChunkPointAffineDMA")
		arr := chanRoot(rc.Call.Args[2])
		if dma {
			arr = addrRoot(rc.Call.Args[2])
		}
		split := paramNamed(fn, "splitFirstChunk")
		condOf := func(b *ssa.BasicBlock) string {
			if split == nil {
				return "always"
			}
			for _, want := range []bool{true, false} {
				cut := boolEdges(fn, split, want)
				if !cut.Empty() && len(b.Instrs) > 0 && core.MustPass(fn, cut, b.Instrs[0]) {
					if want {
						return "split"
					}
					return "nosplit"
				}
			}
			return "always"
		}
		cls := countedLoops(fn)
		// per path: chunk index -> number of producers
		cover := map[string]map[int64]int{"split": {}, "nosplit": {}}
		add := func(cond string, idx int64) {
			for _, p := range []string{"split", "nosplit"} {
				if cond == "always" || cond == p {
					cover[p][idx]++
				}
			}
		}
		bad := ""
		splitSenders, mergerOK := 0, false
		var splitRoot ssa.Value
		valuesOf := func(v ssa.Value, at *ssa.BasicBlock) ([]int64, bool) {
			v = core.StripConv(v)
			if k, ok := core.ConstInt(v); ok {
				return []int64{k}, true
			}
			for _, cl := range cls {
				if cl.phi == v && cl.loop.Blocks[at] {
					return cl.valuesAt(fn, at)
				}
			}
			// … or an affine function of the loop variable (j := nbChunks - k)
			for _, cl := range cls {
				if !cl.loop.Blocks[at] {
					continue
				}
				if f := linOf(v, cl.phi, nil); f.ok && f.a != 0 {
					if vs, ok := cl.valuesAt(fn, at); ok {
						out := make([]int64, len(vs))
						for i, x := range vs {
							out[i] = f.a*x + f.b
						}
						return out, true
					}
				}
			}
			return nil, false
		}
		if dma {
			// msmC4 form: workers write result slot j directly
			for _, f := range core.Family(fn) {
				for _, ci := range core.CallsIn(f) {
					call, ok := ci.(*ssa.Call)
					if !ok || core.Callee(call.Common()) == nil || core.Callee(call.Common()).Parent() != fn || len(call.Call.Args) != 4 {
						continue
					}
					// processChunk(j, points, scalars, &slot)
					jv, slot := call.Call.Args[0], call.Call.Args[3]
					blk := call.Block()
					var cond string
					if f == fn {
						cond = condOf(blk)
					} else {
						// inside a goroutine literal: condition of its creation site
						for _, s := range sites {
							if s.target == f {
								cond = condOf(s.at.Block())
								blk = s.at.Block()
							}
						}
					}
					// a worker that is handed its chunk number or its slot as an argument, or captures a pointer to
					// the slot taken by the spawning code: read them at the spawn
					if f != fn {
						for _, s := range sites {
							if s.target == f {
								jv = throughSpawn(jv, f, s)
								slot = throughSpawn(slot, f, s)
							}
						}
					}
					// resolve j through per-iteration cell
					jv = resolveCell(jv)
					ia, isIA := slot.(*ssa.IndexAddr)
					if !isIA {
						bad = "a chunk worker writes something that is not an indexed result slot"
						continue
					}
					base := addrRoot(ia)
					idxV := resolveCell(ia.Index)
					vals, okV := valuesOf(jv, blk)
					if !okV {
						bad = "cannot enumerate the chunk indexes of a worker"
						continue
					}
					if base == arr {
						if core.StripConv(idxV) != core.StripConv(jv) {
							if a, ok1 := core.ConstInt(idxV); !ok1 || len(vals) != 1 || vals[0] != a {
								bad = fmt.Sprintf("worker for chunk %s writes result slot %s", jv.Name(), idxV.Name())
							}
						}
						for _, v := range vals {
							add(cond, v)
						}
					} else {
						// split halves: chunk 0 into a two-element scratch, merged into slot 0 afterwards
						if len(vals) == 1 && vals[0] == 0 {
							splitSenders++
						} else {
							bad = "split worker processes a chunk other than 0"
						}
					}
				}
			}
			// merged store chChunks[0] = chSplits[0] on the split path
			core.AllInstrs(fn, func(i ssa.Instruction) {
				if st, ok := i.(*ssa.Store); ok {
					if ia, ok := st.Addr.(*ssa.IndexAddr); ok && addrRoot(ia) == arr {
						if k0, ok := core.ConstInt(ia.Index); ok && k0 == 0 && condOf(st.Block()) == "split" {
							mergerOK = true
							add("split", 0)
						}
					}
				}
			})
			if splitSenders != 2 || !mergerOK {
				bad = fmt.Sprintf("split path: %d half-workers, merged into slot 0: %v", splitSenders, mergerOK)
			}
		} else {
			for _, s := range sites {
				if s.parent != fn || s.kind != "go" || s.target == nil {
					continue
				}
				cond := condOf(s.at.Block())
				pcs := processCalls(s.target)
				if len(pcs) == 0 {
					// the merger: receives twice from the split channel, sends once on chChunks[0]
					sends := c.sendsOf(s.target, 0)
					recvs := 0
					core.AllInstrs(s.target, func(i ssa.Instruction) {
						if u, ok := i.(*ssa.UnOp); ok && u.Op == token.ARROW {
							recvs++
							splitRoot = chanRoot(u.X)
						}
					})
					if len(sends) == 1 && sends[0].last && recvs == 2 && chanRoot(sends[0].ch) == arr {
						// the channel sent on: chChunks[0] read in the literal, or handed to it as an argument
						chv := core.StripConv(sends[0].send.Chan)
						for d := 0; d < 3; d++ {
							if ct, isCT := chv.(*ssa.ChangeType); isCT {
								chv = ct.X
								continue
							}
							if pp, isP := chv.(*ssa.Parameter); isP {
								if b := core.LiteralParamBinding(pp); b != nil {
									chv = b
									continue
								}
							}
							break
						}
						var chAddr ssa.Value
						if u, isLoad := chv.(*ssa.UnOp); isLoad && u.Op == token.MUL {
							chAddr = u.X
						}
						if ia := firstIndex(chAddr); chAddr != nil && ia != nil {
							if k0, ok := core.ConstInt(ia.Index); ok && k0 == 0 {
								mergerOK = true
								add(cond, 0)
								continue
							}
						}
					}
					bad = "a goroutine that is neither a chunk worker nor the split merger"
					continue
				}
				if len(pcs) != 1 || !core.PostDominatesEntry(s.target, pcs[0]) {
					bad = "a worker does not process exactly one chunk on every path"
					continue
				}
				pc := pcs[0]
				chunk := core.StripConv(pc.Call.Args[0])
				ch := core.StripConv(pc.Call.Args[1])
				// translate parameters of the spawned function to the actual arguments
				tr := func(v ssa.Value) ssa.Value {
					if p, ok := v.(*ssa.Parameter); ok {
						for i, q := range s.target.Params {
							if q == p && i < len(s.args) {
								return core.StripConv(s.args[i])
							}
						}
					}
					return v
				}
				chunkP := tr(chunk)
				var chanIdx ssa.Value
				var root ssa.Value
				if u, ok := ch.(*ssa.UnOp); ok && u.Op == token.MUL {
					// chChunks[j] inside the literal: index expressed by its own parameter
					if ia, ok := u.X.(*ssa.IndexAddr); ok {
						chanIdx = tr(core.StripConv(ia.Index))
						root = chanRoot(ia)
					}
				} else {
					a := tr(ch)
					root = chanRoot(a)
					if u, ok := a.(*ssa.UnOp); ok && u.Op == token.MUL {
						if ia, ok := u.X.(*ssa.IndexAddr); ok {
							chanIdx = core.StripConv(ia.Index)
						}
					}
				}
				vals, okV := valuesOf(chunkP, s.at.Block())
				if !okV {
					bad = "cannot enumerate the chunk indexes of the worker spawned at " + c.P.Pos(s.at.Pos())
					continue
				}
				if root == arr {
					same := chanIdx != nil && (chanIdx == chunkP)
					if !same && chanIdx != nil {
						a, ok1 := core.ConstInt(chanIdx)
						same = ok1 && len(vals) == 1 && vals[0] == a
					}
					if !same {
						bad = fmt.Sprintf("the worker spawned at %s processes chunk %s but sends on channel index %v: results would be combined at the wrong position", c.P.Pos(s.at.Pos()), chunkP.Name(), nameOf(chanIdx))
						continue
					}
					for _, v := range vals {
						add(cond, v)
					}
				} else {
					if len(vals) == 1 && vals[0] == 0 && cond == "split" {
						splitSenders++
						if splitRoot != nil && root != splitRoot {
							bad = "split halves send on different channels"
						}
						splitRoot = root
					} else {
						bad = "a worker sends on a channel outside the chunk array without being a split half of chunk 0"
					}
				}
			}
			if split != nil && (splitSenders != 2 || !mergerOK) {
				bad = fmt.Sprintf("split path: %d half-workers for chunk 0 (need 2), merger forwarding to channel 0: %v", splitSenders, mergerOK)
			}
			// capacity of the split channel
			if mk, ok := splitRoot.(*ssa.MakeChan); ok {
				if cp, isK := core.ConstInt(mk.Size); !isK || cp < int64(splitSenders) {
					bad = "split channel capacity is smaller than its number of senders"
				}
			}
		}
		if bad == "" {
			for _, p := range []string{"split", "nosplit"} {
				for j := int64(0); j < nch; j++ {
					if cover[p][j] != 1 {
						bad = fmt.Sprintf("on the %s path chunk %d is produced %d times (must be exactly once)", p, j, cover[p][j])
					}
				}
				for j := range cover[p] {
					if j < 0 || j >= nch {
						bad = fmt.Sprintf("chunk index %d outside 0..%d", j, nch-1)
					}
				}
			}
		}
		c.Check(bad == "", "M4", key, fn.Pos(), bad, fmt.Sprintf("%d chunks, each produced exactly once on both paths; chunk j -> slot/channel j; split: 2 halves merged into 0", nch))
	}
	// the reducers
	for _, name := range []string{"msmReduceChunkPointAffine", "msmReduceChunkPointAffineDMA"} {
		fn := c.P.Fn("bandersnatch", "", name)
		if fn == nil {
			c.Unresolved("M4", "bandersnatch."+name)
			continue
		}
		n++
		c.Saw(core.FnName(fn))
		c.m4Reducer(fn)
	}
	c.FloorN("M4", 16, n, "msmCk functions and reducers")
}

func nameOf(v ssa.Value) string {
	if v == nil {
		return "<none>"
	}
	return v.Name()
}

// resolveCell: load of a single-assignment cell (per-iteration copy `j := j`) -> the stored value.
func resolveCell(v ssa.Value) ssa.Value {
	v = core.StripConv(v)
	for d := 0; d < 4; d++ {
		// a parameter of a literal run at one site: the argument it is given there
		if p, isP := v.(*ssa.Parameter); isP {
			if b := core.LiteralParamBinding(p); b != nil {
				v = core.StripConv(b)
				continue
			}
		}
		u, ok := v.(*ssa.UnOp)
		if !ok || u.Op != token.MUL {
			return v
		}
		var cell *ssa.Alloc
		switch a := u.X.(type) {
		case *ssa.Alloc:
			cell = a
		case *ssa.FreeVar:
			cell, _ = core.FreeVarBinding(a).(*ssa.Alloc)
		}
		if cell == nil {
			return v
		}
		sts := storesInto(cell)
		if len(sts) != 1 {
			return v
		}
		v = core.StripConv(sts[0].Val)
	}
	return v
}

// m4Reducer: the reducer consumes element len-1 first, then len-2 .. 0, each exactly once, with c doublings in between.
func (c *Ctx) m4Reducer(fn *ssa.Function) {
	key := fn.Name() + ":consumes-every-chunk-once"
	arr := paramNamed(fn, "chChunks")
	cw := paramNamed(fn, "c")
	if arr == nil || cw == nil {
		c.Und("M4", key, fn.Pos(), "parameters chChunks / c not found")
		return
	}
	var reads []*ssa.IndexAddr
	core.AllInstrs(fn, func(i ssa.Instruction) {
		if ia, ok := i.(*ssa.IndexAddr); ok && ia.X == ssa.Value(arr) {
			reads = append(reads, ia)
		}
	})
	cls := countedLoops(fn)
	// delegation: every chunk result is received once, into the slot of the same index of a local list as long as
	// chChunks, and the list is handed (with the same c and destination) to the reducer for directly addressed results
	if len(reads) == 1 {
		if del := callsTo(fn, "/bandersnatch", "", "msmReduceChunkPointAffineDMA"); len(del) == 1 && fn.Name() != "msmReduceChunkPointAffineDMA" && len(del[0].Call.Args) == 3 {
			okDel := true
			var whyD []string
			cl := loopOf(cls, reads[0].Block())
			if cl == nil || core.StripConv(reads[0].Index) != core.StripConv(cl.phi) {
				okDel = false
				whyD = append(whyD, "the chunk results are not received in a loop over their index")
			} else {
				vs := valuesSym(cl, arr)
				if !vs {
					okDel = false
					whyD = append(whyD, "the receiving loop does not run over 0 .. len(chChunks)-1")
				}
			}
			// the received value goes to totals[j]
			var list ssa.Value
			for _, r := range core.Refs(reads[0]) {
				ld, isLd := r.(*ssa.UnOp)
				if !isLd || ld.Op != token.MUL {
					continue
				}
				for _, rr := range core.Refs(ld) {
					rc, isRc := rr.(*ssa.UnOp)
					if !isRc || rc.Op != token.ARROW {
						continue
					}
					for _, u := range core.Refs(rc) {
						if st, isSt := u.(*ssa.Store); isSt && st.Val == ssa.Value(rc) {
							if dst, isIA := st.Addr.(*ssa.IndexAddr); isIA && core.StripConv(dst.Index) == core.StripConv(reads[0].Index) {
								list = dst.X
							}
						}
					}
				}
			}
			if list == nil {
				okDel = false
				whyD = append(whyD, "a received chunk result is not stored at its own index of the list")
			} else {
				mk, isMk := list.(*ssa.MakeSlice)
				ln, isLen := ssa.Value(nil), false
				if isMk {
					ln, isLen = core.IsLenOf(mk.Len)
				}
				if !isMk || !isLen || ln != ssa.Value(arr) {
					okDel = false
					whyD = append(whyD, "the list is not make(..., len(chChunks))")
				}
				if del[0].Call.Args[2] != list || del[0].Call.Args[1] != ssa.Value(cw) || del[0].Call.Args[0] != ssa.Value(paramNamed(fn, "p")) {
					okDel = false
					whyD = append(whyD, "the list, c and the destination are not what is handed to msmReduceChunkPointAffineDMA")
				}
				if cl != nil && !core.PostDominatesEntry(fn, del[0]) {
					okDel = false
					whyD = append(whyD, "the delegation is conditional")
				}
			}
			c.Check(okDel, "M4", key, fn.Pos(), strings.Join(whyD, "; "), "every chChunks[j] received once into list[j]; the list reduced by msmReduceChunkPointAffineDMA with the same c")
			return
		}
	}
	ok := len(reads) == 2
	var why []string
	if ok {
		first, loopRead := reads[0], reads[1]
		if loopOf(cls, first.Block()) != nil {
			first, loopRead = loopRead, first
		}
		ev := func(v ssa.Value, sym ssa.Value, d int) linN {
			return linNOf(v, sym, func(x ssa.Value) bool {
				l, isLen := core.IsLenOf(x)
				return isLen && l == ssa.Value(arr)
			}, d)
		}
		if f := ev(first.Index, nil, 0); !f.ok || f.k != 0 || f.b != -1 || f.n != 1 || loopOf(cls, first.Block()) != nil {
			ok = false
			why = append(why, "the first element consumed is not chChunks[len-1]")
		}
		cl := loopOf(cls, loopRead.Block())
		if cl == nil || (cl.step != 1 && cl.step != -1) {
			ok = false
			why = append(why, "the remaining elements are not consumed by a unit-step loop")
		} else {
			idx := ev(loopRead.Index, cl.phi, 0)
			init, bound := ev(cl.init, nil, 0), ev(cl.bound, nil, 0)
			lastI := bound
			switch {
			case cl.step == 1 && cl.op == token.LEQ, cl.step == -1 && cl.op == token.GEQ:
			case cl.step == 1 && cl.op == token.LSS:
				lastI.b--
			case cl.step == -1 && cl.op == token.GTR:
				lastI.b++
			default:
				lastI.ok = false
			}
			if !idx.ok || !init.ok || !lastI.ok || init.k != 0 || lastI.k != 0 {
				ok = false
				why = append(why, "the indices of the consuming loop are not linear in the loop variable and len(chChunks)")
			} else {
				at := func(i linN) linN { return linN{0, idx.k*i.b + idx.b, idx.k*i.n + idx.n, true} }
				f, l := at(init), at(lastI)
				if idx.k*cl.step != -1 {
					ok = false
					why = append(why, "the remaining elements are not consumed from the most significant chunk downwards")
				}
				if !(f.b == -2 && f.n == 1 && l.b == 0 && l.n == 0) {
					ok = false
					why = append(why, fmt.Sprintf("the consuming loop reads chChunks[%d%+d*len] .. chChunks[%d%+d*len], not chChunks[len-2] .. chChunks[0]", f.b, f.n, l.b, l.n))
				}
			}
		}
		if !core.Precedes(fn, first, loopRead) {
			ok = false
			why = append(why, "chChunks[len-1] is not consumed before the loop")
		}
		// doublings: an inner loop l < c with one Double
		var dbl *countedLoop
		for _, il := range cls {
			if cl != nil && il != cl && cl.loop.Blocks[il.loop.Header] && (il.bound == ssa.Value(cw) || il.init == ssa.Value(cw)) {
				dbl = il
			}
		}
		nd := 0
		if dbl != nil {
			for b := range dbl.loop.Blocks {
				for _, ins := range b.Instrs {
					if call, isCall := ins.(*ssa.Call); isCall && core.IsMethod(core.Callee(call.Common()), "bls12-381/bandersnatch", "PointProj", "Double") {
						nd++
					}
				}
			}
			// exactly c iterations: l = 0; l < c; l++  |  l = 1; l <= c; l++  |  l = c; l > 0; l--  |  l = c; l >= 1; l--
			zi, isKi := core.ConstInt(dbl.init)
			zb, isKb := core.ConstInt(dbl.bound)
			switch {
			case dbl.bound == ssa.Value(cw) && isKi && zi == 0 && dbl.step == 1 && dbl.op == token.LSS:
			case dbl.bound == ssa.Value(cw) && isKi && zi == 1 && dbl.step == 1 && dbl.op == token.LEQ:
			case dbl.init == ssa.Value(cw) && isKb && zb == 0 && dbl.step == -1 && dbl.op == token.GTR:
			case dbl.init == ssa.Value(cw) && isKb && zb == 1 && dbl.step == -1 && dbl.op == token.GEQ:
			default:
				nd = -1
			}
		}
		if nd != 1 {
			ok = false
			why = append(why, "between two chunks the accumulator is not doubled exactly c times")
		}
	} else {
		why = append(why, fmt.Sprintf("%d indexings of chChunks, expected 2", len(reads)))
	}
	c.Check(ok, "M4", key, fn.Pos(), strings.Join(why, "; "), "chChunks[len-1] first, then a loop j = len-2..0, c doublings per step")
}

// ---------------------------------------------------------------------------
// M5 guarded decrement index

func RuleM5(c *Ctx) {
	c.Rule("M5", "guarded decrement: an index v-1 on an unsigned v is reachable only through the non-zero edge of a test of that same value")
	n := 0
	for _, top := range c.P.TopFuncs() {
		if inHelperPkg(top) {
			continue
		}
		for _, fn := range core.Family(top) {
			core.AllInstrs(fn, func(i ssa.Instruction) {
				ia, ok := i.(*ssa.IndexAddr)
				if !ok {
					return
				}
				sub, ok := core.StripConv(ia.Index).(*ssa.BinOp)
				if !ok || sub.Op != token.SUB {
					return
				}
				k, isK := core.ConstInt(sub.Y)
				b, isBasic := sub.X.Type().Underlying().(*types.Basic)
				if !isK || k != 1 || !isBasic || b.Info()&types.IsUnsigned == 0 {
					return
				}
				n++
				key := fmt.Sprintf("%s:index[%s-1]@%s", core.FnName(fn), sub.X.Name(), c.relInFn(fn, ia.Pos()))
				c.Saw(core.FnName(fn))
				// an induction variable that starts at >= 1 and only increases is never zero
				if phi, isPhi := sub.X.(*ssa.Phi); isPhi {
					for _, cl := range countedLoops(fn) {
						if cl.phi == phi {
							if a, isA := core.ConstInt(cl.init); isA && a >= 1 && cl.step > 0 {
								c.OK("M5", key, ia.Pos(), fmt.Sprintf("induction variable starting at %d, step +%d", a, cl.step))
								return
							}
						}
					}
				}
				guard := core.NewCuts()
				for _, f := range nonZeroFacts(fn) {
					if f.a == core.PathOf(sub.X) {
						for e := range f.cut.Edges {
							guard.Edges[e] = true
						}
					}
				}
				c.Check(!guard.Empty() && core.MustPass(fn, guard, ia), "M5", key, ia.Pos(), fmt.Sprintf("index %s-1 (unsigned) is reachable with %s == 0: it wraps to 2^64-1 and the access panics", sub.X.Name(), sub.X.Name()), "dominated by the non-zero edge of a test of the same value")
			})
		}
	}
	c.FloorN("M5", 3, n, "decrement indexes on unsigned values")
}

// ---------------------------------------------------------------------------
// M2 flag pass-through

func RuleM2(c *Ctx) {
	c.Rule("M2", "flag pass-through: banderwagon.(*Element).MultiExp copies each field of its config into the same-named field of the bandersnatch.MultiExpConfig it passes on; ipa.MultiScalar declares its (Montgomery-form) scalars with ScalarsMont: true")
	// banderwagon wrapper
	if fn := c.P.Fn("banderwagon", "Element", "MultiExp"); fn == nil {
		c.Unresolved("M2", "banderwagon.(*Element).MultiExp")
	} else {
		c.Saw(core.FnName(fn))
		// a whole-struct conversion bandersnatch.MultiExpConfig(config) carries every field (identical underlying types)
		wholeConv := false
		for _, call := range callsTo(fn, "/bandersnatch", "", "MultiExp") {
			for _, a := range call.Call.Args {
				v := a
				if al, isAl := v.(*ssa.Alloc); isAl {
					if sts := storesInto(al); len(sts) == 1 {
						v = sts[0].Val
					}
				}
				if u, isLoad := v.(*ssa.UnOp); isLoad && u.Op == token.MUL {
					if al, isAl := u.X.(*ssa.Alloc); isAl {
						if sts := storesInto(al); len(sts) == 1 {
							v = sts[0].Val
						}
					}
				}
				if ct, isCT := v.(*ssa.ChangeType); isCT && namedIs(ct.Type(), "bandersnatch", "MultiExpConfig") {
					if p := core.PathOf(ct.X); p == "p:config" || p == "*(&p:config)" {
						wholeConv = true
					}
				}
			}
		}
		for _, field := range []string{"NbTasks", "ScalarsMont"} {
			ok := wholeConv
			core.AllInstrs(fn, func(i ssa.Instruction) {
				st, isSt := i.(*ssa.Store)
				if !isSt {
					return
				}
				fa, isFA := st.Addr.(*ssa.FieldAddr)
				if !isFA || !strings.HasSuffix(core.PathOf(fa), "."+field) || !namedIs(fa.X.Type(), "bandersnatch", "MultiExpConfig") {
					return
				}
				src := core.PathOf(st.Val)
				if src == "*(&p:config."+field+")" || src == "p:config."+field {
					ok = true
				}
			})
			c.Check(ok, "M2", "banderwagon.MultiExp:config."+field, fn.Pos(), fmt.Sprintf("the caller's %s setting does not reach bandersnatch.MultiExp (e.g. the Montgomery flag is ignored or hard-wired)", field), "config."+field+" -> MultiExpConfig."+field)
		}
	}
	if fn := c.P.Fn("ipa", "", "MultiScalar"); fn == nil {
		c.Unresolved("M2", "ipa.MultiScalar")
	} else {
		c.Saw(core.FnName(fn))
		ok := false
		core.AllInstrs(fn, func(i ssa.Instruction) {
			if st, isSt := i.(*ssa.Store); isSt {
				if fa, isFA := st.Addr.(*ssa.FieldAddr); isFA && strings.HasSuffix(core.PathOf(fa), ".ScalarsMont") {
					if b, isK := core.ConstBool(st.Val); isK && b {
						ok = true
					}
				}
			}
		})
		c.Check(ok, "M2", "ipa.MultiScalar:ScalarsMont=true", fn.Pos(), "ipa.MultiScalar hands Montgomery-form fr.Elements to the MSM without declaring them as such", "ScalarsMont: true")
	}
}

// ---------------------------------------------------------------------------
// M1 aligned pairs at call sites of the MSM stack

func isPointsParam(p *ssa.Parameter) bool  { return p.Name() == "points" || p.Name() == "groupElements" }
func isScalarsParam(p *ssa.Parameter) bool { return p.Name() == "scalars" || p.Name() == "polynomial" }

func pairParams(fn *ssa.Function) (int, int) {
	pi, si := -1, -1
	for i, p := range fn.Params {
		if isPointsParam(p) {
			pi = i
		}
		if isScalarsParam(p) {
			si = i
		}
	}
	return pi, si
}

// pairBase strips slicing and cell loads: returns the base value and the list of (low, high) bounds applied.
func pairBase(v ssa.Value) (ssa.Value, [][2]ssa.Value) {
	var bounds [][2]ssa.Value
	for d := 0; d < 12; d++ {
		switch x := v.(type) {
		case *ssa.Slice:
			bounds = append(bounds, [2]ssa.Value{x.Low, x.High})
			v = x.X
			continue
		case *ssa.UnOp:
			if x.Op == token.MUL {
				switch a := x.X.(type) {
				case *ssa.Alloc:
					sts := storesInto(a)
					if len(sts) >= 1 {
						// a captured variable: all stores considered by the caller through allStores
						v = a
						return v, bounds
					}
				case *ssa.FreeVar:
					if b := core.FreeVarBinding(a); b != nil {
						v = b
						return v, bounds
					}
				}
			}
		}
		break
	}
	return v, bounds
}

func sameBound(a, b ssa.Value) bool {
	if a == nil || b == nil {
		return a == nil && b == nil
	}
	return core.SameExpr(a, b)
}

func RuleM1(c *Ctx) {
	c.Rule("M1", "aligned pairs: at every call from a function of the MSM stack to another, the (points, scalars) arguments are the caller's own pair, or slices of it with the same bounds on both; element-wise maps (projective->affine, digit partitioning) write index i from index i")
	inStack := func(f *ssa.Function) bool {
		if f == nil || !core.InModule(f) {
			return false
		}
		pi, si := pairParams(f)
		return pi >= 0 && si >= 0
	}
	n := 0
	for _, top := range c.P.TopFuncs() {
		if inHelperPkg(top) {
			continue
		}
		for _, fn := range core.Family(top) {
			for _, ci := range core.CallsIn(fn) {
				callee, _ := closureOf(ci.Common().Value)
				if callee == nil {
					callee = core.Callee(ci.Common())
				}
				if !inStack(callee) {
					continue
				}
				if tpi, tsi := pairParams(top); tpi < 0 || tsi < 0 {
					continue // protocol code choosing which vectors to combine is algebra, not pairing (DESIGN 3.4 M1)
				}
				pi, si := pairParams(callee)
				args := ci.Common().Args
				if pi >= len(args) || si >= len(args) {
					continue
				}
				n++
				key := fmt.Sprintf("%s->%s@%s", core.FnName(fn), callee.Name(), c.relInFn(fn, ci.Pos()))
				c.Saw(core.FnName(fn))
				pb, pbounds := pairBase(args[pi])
				sb, sbounds := pairBase(args[si])
				ok := len(pbounds) == len(sbounds)
				var why string
				if !ok {
					why = "points and scalars are sliced a different number of times"
				}
				for i := 0; ok && i < len(pbounds); i++ {
					if !sameBound(pbounds[i][0], sbounds[i][0]) || !sameBound(pbounds[i][1], sbounds[i][1]) {
						ok = false
						why = fmt.Sprintf("points are sliced [%s:%s] but scalars [%s:%s]", optP(pbounds[i][0]), optP(pbounds[i][1]), optP(sbounds[i][0]), optP(sbounds[i][1]))
					}
				}
				if ok {
					ok, why = c.alignedBases(fn, pb, sb)
				}
				c.Check(ok, "M1", key, ci.Pos(), "points and scalars handed to "+callee.Name()+" are no longer paired element by element: "+why, "same bases, same slice bounds")
			}
		}
	}
	c.FloorN("M1", 60, n, "paired call sites")
}

func optP(v ssa.Value) string {
	if v == nil {
		return ""
	}
	return core.PathOf(v)
}

// alignedBases: (pb, sb) is the enclosing function's own pair (parameters, their spill cells, captured
// cells of the parent's pair), or an element-wise image of it.
func (c *Ctx) alignedBases(fn *ssa.Function, pb, sb ssa.Value) (bool, string) {
	classify := func(v ssa.Value) string { return c.imageOf(v) }
	cp, cs := classify(pb), classify(sb)
	if cp == "P" && cs == "S" {
		return true, ""
	}
	return false, fmt.Sprintf("the points argument derives from %s and the scalars argument from %s, not from the caller's own (points, scalars) pair", descBase(pb, cp), descBase(sb, cs))
}

func descBase(v ssa.Value, k string) string {
	if k != "" {
		return k
	}
	return core.PathOf(v)
}

// imageOf: value is the points/scalars parameter or an element-wise image of it ("P"/"S"); "" = neither.
func (c *Ctx) imageOf(v ssa.Value) string {
	k := c.imageOfD(v, map[ssa.Value]bool{})
	if k == "*" {
		return ""
	}
	return k
}

func (c *Ctx) combineStores(a *ssa.Alloc, seen map[ssa.Value]bool) string {
	all := ""
	for _, st := range storesInto(a) {
		k := c.imageOfD(st.Val, seen)
		if k == "*" {
			continue // the variable re-assigned from an image of itself
		}
		if k == "" || (all != "" && all != k) {
			return ""
		}
		all = k
	}
	if all == "" {
		return "*"
	}
	return all
}

func (c *Ctx) imageOfD(v ssa.Value, seen map[ssa.Value]bool) string {
	if seen[v] {
		return "*"
	}
	seen[v] = true
	switch x := v.(type) {
	case *ssa.Parameter:
		if isPointsParam(x) {
			return "P"
		}
		if isScalarsParam(x) {
			return "S"
		}
	case *ssa.Extract:
		if call, ok := x.Tuple.(*ssa.Call); ok && x.Index == 0 && core.IsFunc(core.Callee(call.Common()), "/bandersnatch", "partitionScalars") {
			return c.imageOfD(call.Call.Args[0], seen)
		}
	case *ssa.Call:
		f := core.Callee(x.Common())
		if core.IsFunc(f, "/banderwagon", "batchProjToAffine") {
			return c.imageOfD(x.Call.Args[0], seen)
		}
	case *ssa.Alloc:
		if p := core.ParamSpill(x); p != nil {
			return c.imageOfD(p, seen)
		}
		return c.combineStores(x, seen)
	case *ssa.FreeVar:
		if b := core.FreeVarBinding(x); b != nil {
			return c.imageOfD(b, seen)
		}
	case *ssa.UnOp:
		if x.Op == token.MUL {
			return c.imageOfD(x.X, seen)
		}
	case *ssa.Slice:
		// make([]T, len(points)) lowered to new [n]T + slice, or a full slice of an image
		if x.Low == nil && x.High == nil {
			return c.imageOfD(x.X, seen)
		}
	case *ssa.MakeSlice:
		// make([]T, len(points)) filled element-wise (projPoints[i] = points[i].inner): the indexes are decided by the tuple rule
		if l, ok := core.IsLenOf(x.Len); ok {
			return c.imageOfD(l, seen)
		}
	case *ssa.Phi:
		// out = append(out, f(X[i])) once per iteration of a loop over the whole of X, starting empty: an image of X
		if _, isSlice := x.Type().Underlying().(*types.Slice); !isSlice {
			return ""
		}
		elem, cl, ok := appendFill(x)
		if !ok {
			return ""
		}
		src, isLen := core.IsLenOf(cl.bound)
		if !isLen {
			return ""
		}
		// the element is computed from src[i] for the loop variable i
		reach := core.ReachFrom([]ssa.Value{src}, nil)
		fromSrc := false
		if reach[elem] {
			core.AllInstrs(x.Parent(), func(in ssa.Instruction) {
				if sia, ok := in.(*ssa.IndexAddr); ok && sia.X == src && core.StripConv(sia.Index) == cl.phi && reach[sia] {
					fromSrc = true
				}
			})
		}
		if !fromSrc {
			return ""
		}
		return c.imageOfD(src, seen)
	}
	return ""
}

// appendFill: x is the loop-header phi of a slice that starts empty and is extended by exactly one
// `x = append(x, elem)` on every iteration of a counted loop i = 0, 1, … (so after the loop x[i] is the elem of
// iteration i, as if it had been written `x[i] = elem` into a slice of the loop's length).
func appendFill(x *ssa.Phi) (elem ssa.Value, cl *countedLoop, ok bool) {
	if _, isSlice := x.Type().Underlying().(*types.Slice); !isSlice {
		return nil, nil, false
	}
	for _, l := range countedLoops(x.Parent()) {
		if l.loop.Header == x.Block() {
			cl = l
		}
	}
	if cl == nil || cl.step != 1 || cl.op != token.LSS {
		return nil, nil, false
	}
	if z, isZ := core.ConstInt(cl.init); !isZ || z != 0 {
		return nil, nil, false
	}
	for i, e := range x.Edges {
		pred := x.Block().Preds[i]
		if !cl.loop.Blocks[pred] {
			// entry: an empty slice
			empty := false
			switch in := e.(type) {
			case *ssa.MakeSlice:
				if k, isK := core.ConstInt(in.Len); isK && k == 0 {
					empty = true
				}
			case *ssa.Slice:
				if in.High != nil {
					if k, isK := core.ConstInt(in.High); isK && k == 0 {
						empty = true
					}
				}
			case *ssa.Const:
				empty = in.IsNil()
			}
			if !empty {
				return nil, nil, false
			}
			continue
		}
		// back edge: append(phi, one element), on every iteration
		app, isCall := e.(*ssa.Call)
		if !isCall {
			return nil, nil, false
		}
		if bi, isB := app.Call.Value.(*ssa.Builtin); !isB || bi.Name() != "append" || app.Call.Args[0] != ssa.Value(x) {
			return nil, nil, false
		}
		if !app.Block().Dominates(pred) {
			return nil, nil, false
		}
		found := appendedElem(app)
		if found == nil || (elem != nil && elem != found) {
			return nil, nil, false
		}
		elem = found
	}
	return elem, cl, elem != nil
}

// appendedElem: the single value e of `append(s, e)` (lowered to a one-element varargs array), or nil.
func appendedElem(app *ssa.Call) ssa.Value {
	if bi, isB := app.Call.Value.(*ssa.Builtin); !isB || bi.Name() != "append" || len(app.Call.Args) != 2 {
		return nil
	}
	sl, isSl := app.Call.Args[1].(*ssa.Slice)
	if !isSl || !isArrayOfLen(sl.X.Type(), 1) {
		return nil
	}
	arr, isAl := sl.X.(*ssa.Alloc)
	if !isAl {
		return nil
	}
	var found ssa.Value
	n := 0
	for _, r := range core.Refs(arr) {
		if ia, ok := r.(*ssa.IndexAddr); ok {
			for _, rr := range core.Refs(ia) {
				if st, ok := rr.(*ssa.Store); ok && st.Addr == ssa.Value(ia) {
					found = st.Val
					n++
				}
			}
		}
	}
	if n != 1 {
		return nil
	}
	return found
}

// ---------------------------------------------------------------------------
// LG length guard: a mismatch of two parallel inputs is an error before any indexing/slicing

func RuleLG(targets [][4]string) Rule {
	return func(c *Ctx) {
		c.Rule("LG", "length guard: in functions taking two parallel slices, every indexing/slicing of either, every call handing them on, and the success return are reachable only through the equal edge of a comparison of their lengths (a mismatch yields an error, not a panic or a silently truncated result)")
		n := 0
		for _, t := range targets {
			fn := c.P.Fn(t[0], "", t[1])
			if fn == nil {
				c.Unresolved("LG", t[0]+"."+t[1])
				continue
			}
			c.Saw(core.FnName(fn))
			a, b := "len(p:"+t[2]+")", "len(p:"+t[3]+")"
			// canonical names look through the cell a captured/reassigned parameter lives in
			canon := func(v ssa.Value) string {
				if x, isLen := core.IsLenOf(v); isLen {
					if p := paramBehind(x); p != nil {
						return "len(p:" + p.Name() + ")"
					}
				}
				return core.PathOf(v)
			}
			var facts []eqFact
			for _, cd := range core.Conds(fn) {
				if e := cd.EdgeWhere(token.EQL); e >= 0 {
					cut := core.NewCuts()
					cut.AddEdge(cd.Block, e)
					facts = append(facts, eqFact{canon(cd.X), canon(cd.Y), cut, cd.If.Pos()})
				}
			}
			check := func(at ssa.Instruction, what string) {
				n++
				ok, used := connected(fn, facts, at, []string{a, b})
				c.Check(ok, "LG", fmt.Sprintf("%s:%s@%s", t[1], what, c.relInFn(fn, at.Pos())), at.Pos(), fmt.Sprintf("%s is reachable without len(%s) == len(%s) having been established", what, t[2], t[3]), used...)
			}
			for _, r := range successReturns(fn) {
				check(r, "success return")
			}
			isOurs := func(v ssa.Value) string {
				if p := paramBehind(v); p != nil && (p.Name() == t[2] || p.Name() == t[3]) {
					return p.Name()
				}
				return ""
			}
			core.AllInstrs(fn, func(i ssa.Instruction) {
				switch x := i.(type) {
				case *ssa.IndexAddr:
					if p := isOurs(x.X); p != "" {
						check(x, "index of "+p)
					}
				case *ssa.Slice:
					if p := isOurs(x.X); p != "" {
						check(x, "slice of "+p)
					}
				case *ssa.Call:
					if f := core.Callee(x.Common()); f != nil && core.InModule(f) {
						for _, a := range x.Call.Args {
							if p := isOurs(a); p != "" {
								check(x, "call of "+f.Name()+" with "+p)
								break
							}
						}
					}
				}
			})
		}
		c.FloorN("LG", len(targets)*2, n, "guarded uses")
	}
}

// idxWithinLen: over the iteration space of the unit-step loop cl, the index expression (affine in the loop variable)
// stays within [0, len(p)-1], decided on affine forms in which len(p) is a symbol.
func idxWithinLen(cl *countedLoop, idx ssa.Value, p *ssa.Parameter) bool {
	if cl.step != 1 && cl.step != -1 {
		return false
	}
	one := aff{nil, nil, 1, true}
	init, bound := affOf(cl.init, 0), affOf(cl.bound, 0)
	var lo, hi aff
	switch {
	case cl.step == 1 && cl.op == token.LSS:
		lo, hi = init, bound.add(one, -1)
	case cl.step == 1 && cl.op == token.LEQ:
		lo, hi = init, bound
	case cl.step == -1 && cl.op == token.GTR:
		lo, hi = bound.add(one, 1), init
	case cl.step == -1 && cl.op == token.GEQ:
		lo, hi = bound, init
	default:
		return false
	}
	// idx = k*var + rest
	f := affOfStop(idx, cl.phi, 0)
	if !f.ok {
		return false
	}
	k := int64(0)
	rest := aff{nil, nil, f.c, true}
	for j, l := range f.leaves {
		if l == cl.phi || core.StripConv(l) == cl.phi {
			k += f.coefs[j]
			continue
		}
		rest.leaves = append(rest.leaves, l)
		rest.coefs = append(rest.coefs, f.coefs[j])
	}
	if k == 0 {
		return false
	}
	imin, imax := lo.scale(k).add(rest, 1), hi.scale(k).add(rest, 1)
	if k < 0 {
		imin, imax = imax, imin
	}
	// len(p) as one symbol
	var lenLeaf ssa.Value
	canonLen := func(a aff) aff {
		out := aff{nil, nil, a.c, a.ok}
		for j, l := range a.leaves {
			if x, isLen := core.IsLenOf(l); isLen && paramBehind(x) == p {
				if lenLeaf == nil {
					lenLeaf = l
				}
				l = lenLeaf
			}
			out = out.add(aff{[]ssa.Value{l}, []int64{a.coefs[j]}, 0, true}, 1)
		}
		return out
	}
	imin, imax = canonLen(imin), canonLen(imax)
	if lenLeaf == nil {
		return false
	}
	constNonNeg := func(a aff) bool {
		if !a.ok || a.c < 0 {
			return false
		}
		for _, c := range a.coefs {
			if c != 0 {
				return false
			}
		}
		return true
	}
	slack := aff{[]ssa.Value{lenLeaf}, []int64{1}, -1, true}.add(imax, -1)
	return constNonNeg(imin) && constNonNeg(slack)
}

// RuleLGOwn — wrappers that leave the length comparison to the routine they delegate to (rule LG decides it there,
// rule M1 that both vectors are handed on whole) must not pair the two vectors themselves.
func RuleLGOwn(targets [][5]string) Rule {
	return func(c *Ctx) {
		c.Rule("LG", "length guard, delegating wrappers: a wrapper that hands two parallel slices on to a routine that compares their lengths indexes each of them only by a loop variable bounded by that slice's own length, unless it has established len(a) == len(b) itself (indexing one by the other's range panics or silently truncates before the comparison is ever made)")
		n := 0
		for _, t := range targets {
			fn := c.P.Fn(t[0], t[1], t[2])
			if fn == nil {
				c.Unresolved("LG", strings.Join(t[:3], "."))
				continue
			}
			c.Saw(core.FnName(fn))
			a, b := "len(p:"+t[3]+")", "len(p:"+t[4]+")"
			canon := func(v ssa.Value) string {
				if x, isLen := core.IsLenOf(v); isLen {
					if p := paramBehind(x); p != nil {
						return "len(p:" + p.Name() + ")"
					}
				}
				return core.PathOf(v)
			}
			var facts []eqFact
			for _, cd := range core.Conds(fn) {
				if e := cd.EdgeWhere(token.EQL); e >= 0 {
					cut := core.NewCuts()
					cut.AddEdge(cd.Block, e)
					facts = append(facts, eqFact{canon(cd.X), canon(cd.Y), cut, cd.If.Pos()})
				}
			}
			cls := countedLoops(fn)
			for _, f := range core.Family(fn) {
				core.AllInstrs(f, func(i ssa.Instruction) {
					var base, idx ssa.Value
					what := ""
					switch x := i.(type) {
					case *ssa.IndexAddr:
						base, idx, what = x.X, x.Index, "index"
					case *ssa.Index:
						base, idx, what = x.X, x.Index, "index"
					case *ssa.Slice:
						if x.Low != nil || x.High != nil {
							base, what = x.X, "slice"
						}
					}
					if base == nil {
						return
					}
					p := paramBehind(base)
					if p == nil || p.Parent() != fn || (p.Name() != t[3] && p.Name() != t[4]) {
						return
					}
					n++
					key := fmt.Sprintf("%s.%s:%s of %s@%s", t[1], t[2], what, p.Name(), c.relInFn(fn, i.Pos()))
					if f == fn {
						if ok, used := connected(fn, facts, i, []string{a, b}); ok {
							c.OK("LG", key, i.Pos(), used...)
							return
						}
					}
					own := false
					if idx != nil && f == fn {
						for _, cl := range cls {
							if cl.loop.Blocks[i.Block()] && idxWithinLen(cl, idx, p) {
								own = true
							}
						}
					}
					c.Check(own, "LG", key, i.Pos(), fmt.Sprintf("%s: %s of %s by something other than a loop over %s itself, and len(%s) == len(%s) has not been established: with vectors of different length this panics or silently drops the tail instead of returning the length error of the routine it delegates to", core.FnName(fn), what, p.Name(), p.Name(), t[3], t[4]), "indexed by a loop variable bounded by its own length")
				})
			}
		}
		c.FloorN("LG", len(targets), n, "indexings in delegating wrappers")
	}
}

// ---------------------------------------------------------------------------
// T1 termination of MultiExp's sizing loop [idiom]

func RuleT1(c *Ctx) {
	c.Rule("T1", "termination of MultiExp's sizing loop: the loop continues only while nbChunks < NbTasks; NbTasks was normalised to NumCPU when <= 0; on every path around the loop nbSplits is doubled and nbChunks is recomputed as a positive multiple of nbSplits")
	fn := c.P.Fn("bandersnatch", "", "MultiExp")
	if fn == nil {
		c.Unresolved("T1", "bandersnatch.MultiExp")
		return
	}
	c.Saw(core.FnName(fn))
	var hdr *core.CondEdge
	loops := core.Loops(fn)
	// the task bound: config.NbTasks itself (normalised in place), or a local that is NbTasks, replaced by NumCPU when <= 0
	isRaw := func(v ssa.Value) bool { return strings.HasSuffix(core.PathOf(v), "config.NbTasks)") }
	normLocal := map[ssa.Value]bool{}
	isBound := func(v ssa.Value) bool {
		if isRaw(v) {
			return true
		}
		phi, ok := v.(*ssa.Phi)
		if !ok || len(phi.Edges) != 2 {
			return false
		}
		for i, e := range phi.Edges {
			o := phi.Edges[1-i]
			call, isCall := e.(*ssa.Call)
			if !isCall || !core.IsFunc(core.Callee(call.Common()), "runtime", "NumCPU") || !isRaw(o) {
				continue
			}
			// the NumCPU edge is taken exactly when the raw value is <= 0
			pred := phi.Block().Preds[i]
			for _, cd := range core.Conds(fn) {
				if cd.X == o && (cd.Op == token.LEQ || cd.Op == token.LSS) {
					if k, isK := core.ConstInt(cd.Y); isK && ((cd.Op == token.LEQ && k == 0) || (cd.Op == token.LSS && k == 1)) && cd.Block.Succs[0] == pred && len(pred.Preds) == 1 {
						normLocal[v] = true
						return true
					}
				}
			}
		}
		return false
	}
	for _, cd := range core.Conds(fn) {
		cd := cd
		if cd.Op != token.LSS {
			continue
		}
		if isBound(cd.Y) {
			for _, l := range loops {
				if l.Header == cd.Block {
					if _, isPhi := cd.X.(*ssa.Phi); isPhi {
						hdr = &cd
					}
				}
			}
		}
	}
	if hdr == nil {
		c.Und("T1", "MultiExp:sizing-loop", fn.Pos(), "the sizing loop `for nbChunks < config.NbTasks` is not recognised")
		return
	}
	var loop *core.Loop
	for _, l := range loops {
		if l.Header == hdr.Block {
			loop = l
		}
	}
	nbChunks := hdr.X.(*ssa.Phi)
	// nbSplits: the phi in the header whose back-edge value is itself or itself << 1
	var nbSplits *ssa.Phi
	for _, ins := range hdr.Block.Instrs {
		phi, ok := ins.(*ssa.Phi)
		if !ok {
			break
		}
		if k, isK := core.ConstInt(phiInit(phi, loop)); isK && k == 1 {
			nbSplits = phi
		}
	}
	ok := nbSplits != nil
	var why []string
	if ok {
		var m ssa.Value
		for i, pred := range hdr.Block.Preds {
			if !loop.Blocks[pred] {
				continue
			}
			nc := nbChunks.Edges[i]
			if m != nil && m != nc {
				ok = false
				why = append(why, "nbChunks is recomputed differently on different paths")
			}
			m = nc
			mul, isMul := nc.(*ssa.BinOp)
			if !isMul || mul.Op != token.MUL || (mul.X != ssa.Value(nbSplits) && mul.Y != ssa.Value(nbSplits)) {
				ok = false
				why = append(why, "nbChunks is not recomputed as a multiple of nbSplits")
			}
			ns := nbSplits.Edges[i]
			if sh, isSh := ns.(*ssa.BinOp); isSh && sh.X == ssa.Value(nbSplits) {
				if k, isK := core.ConstInt(sh.Y); isK && ((sh.Op == token.SHL && k >= 1) || (sh.Op == token.MUL && k >= 2)) {
					continue // progress: nbSplits at least doubles
				}
			}
			if ns == ssa.Value(nbSplits) {
				// unchanged: only on the edge where the recomputed nbChunks is already >= NbTasks (the loop then exits)
				exits := false
				if ifi, isIf := pred.Instrs[len(pred.Instrs)-1].(*ssa.If); isIf {
					if cmp, isCmp := ifi.Cond.(*ssa.BinOp); isCmp && cmp.Op == token.LSS && cmp.X == nc && isBound(cmp.Y) && pred.Succs[1] == hdr.Block {
						exits = true
					}
				}
				if exits {
					continue
				}
			}
			ok = false
			why = append(why, "on a path around the loop nbSplits neither doubles nor is the exit condition already met")
		}
	} else {
		why = append(why, "no nbSplits variable starting at 1")
	}
	// normalisation NbTasks <= 0 -> NumCPU dominates the loop
	norm := normLocal[hdr.Y]
	for _, cd := range core.Conds(fn) {
		if strings.HasSuffix(core.PathOf(cd.X), "config.NbTasks)") {
			if k, isK := core.ConstInt(cd.Y); isK && k == 0 && (cd.Op == token.LEQ || cd.Op == token.LSS) && cd.Block.Dominates(hdr.Block) {
				// the taken branch stores NumCPU into config.NbTasks
				tb := cd.Block.Succs[0]
				for _, ins := range tb.Instrs {
					if st, isSt := ins.(*ssa.Store); isSt && strings.HasSuffix(core.PathOf(st.Addr), "config.NbTasks") {
						if call, isCall := st.Val.(*ssa.Call); isCall && core.IsFunc(core.Callee(call.Common()), "runtime", "NumCPU") {
							norm = true
						}
					}
				}
			}
		}
	}
	if !norm {
		ok = false
		why = append(why, "NbTasks <= 0 is not replaced by NumCPU before the loop")
	}
	c.Check(ok, "T1", "MultiExp:sizing-loop", hdr.If.Pos(), "the sizing loop may not terminate: "+strings.Join(why, "; "), "continues only while nbChunks < NbTasks", "nbSplits doubles on the continuing path", "nbChunks = k * nbSplits", "NbTasks normalised")
}

// paramBehind: the parameter a value denotes, looking through the cell a captured or reassigned parameter is kept in.
func paramBehind(v ssa.Value) *ssa.Parameter {
	v = core.StripConv(v)
	switch x := v.(type) {
	case *ssa.Parameter:
		return x
	case *ssa.UnOp:
		if x.Op == token.MUL {
			if a, ok := x.X.(*ssa.Alloc); ok {
				for _, st := range storesInto(a) {
					if p, ok := st.Val.(*ssa.Parameter); ok {
						return p
					}
				}
			}
		}
	}
	return nil
}

// ---------------------------------------------------------------------------
// M8 digit-window coverage of the scalar recoding

func RuleM8(c *Ctx) {
	c.Rule("M8", "digit-window coverage: partitionScalars recodes every (non-zero) scalar over all ceil(256/c) windows — the per-scalar digit loop runs chunk = 0..nbChunks-1 with the very nbChunks that sizes the selector table, reads selectors[chunk], and nbChunks is 256/c plus one when c does not divide 256 — so a carry can never be dropped by a shortened loop")
	fn := c.P.Fn("bandersnatch", "", "partitionScalars")
	if fn == nil {
		c.Unresolved("M8", "bandersnatch.partitionScalars")
		return
	}
	c.Saw(core.FnName(fn))
	// selector table and its length
	var selLen ssa.Value
	var selCell ssa.Value
	core.AllInstrs(fn, func(i ssa.Instruction) {
		if ms, ok := i.(*ssa.MakeSlice); ok && strings.Contains(ms.Type().String(), "selector") {
			selLen = ms.Len
			for _, r := range core.Refs(ms) {
				if st, ok := r.(*ssa.Store); ok && st.Val == ssa.Value(ms) {
					selCell = st.Addr
				}
			}
		}
	})
	// made empty and grown by one append per iteration of a loop 0 .. B-1: its length is B
	if z, isZ := core.ConstInt(selLen); selLen != nil && isZ && z == 0 {
		selLen = nil
		if cell, isCell := selCell.(*ssa.Alloc); isCell {
			var fills []*ssa.Store
			other := 0
			for _, st := range allStoresTo(fn, cell) {
				if app, isApp := st.Val.(*ssa.Call); isApp && appendedElem(app) != nil && cellOfLoad(app.Call.Args[0]) == cell {
					fills = append(fills, st)
				} else if _, isMake := st.Val.(*ssa.MakeSlice); !isMake {
					other++
				}
			}
			if len(fills) == 1 && other == 0 {
				if cl := loopOf(countedLoops(fn), fills[0].Block()); cl != nil && cl.step == 1 && cl.op == token.LSS {
					every := true
					for _, p := range cl.loop.Header.Preds {
						if cl.loop.Blocks[p] && !fills[0].Block().Dominates(p) {
							every = false
						}
					}
					if z0, isZ0 := core.ConstInt(cl.init); isZ0 && z0 == 0 && every {
						selLen = cl.bound
					}
				}
			}
		}
	}
	if selLen == nil {
		c.Und("M8", "partitionScalars:selectors", fn.Pos(), "the selector table is not recognised")
		return
	}
	// nbChunks = 256/c (+1 if 256%c != 0)
	nb := core.StripConv(selLen)
	{
		// walk back from the sizing value through copies (cells, phis, conversions, results handed out of a spliced
		// helper): somewhere it is 256/c, and somewhere that plus one
		okDef := false
		var quo ssa.Value
		seen := map[ssa.Value]bool{}
		var back func(v ssa.Value, d int)
		back = func(v ssa.Value, d int) {
			v = core.StripConv(v)
			if v == nil || seen[v] || d > 12 {
				return
			}
			seen[v] = true
			switch x := v.(type) {
			case *ssa.UnOp:
				if x.Op == token.MUL {
					var cell *ssa.Alloc
					switch a := x.X.(type) {
					case *ssa.Alloc:
						cell = a
					case *ssa.FreeVar:
						cell, _ = core.FreeVarBinding(a).(*ssa.Alloc)
					}
					if cell != nil {
						for _, st := range storesInto(cell) {
							back(st.Val, d+1)
						}
					}
				}
			case *ssa.Phi:
				for _, e := range x.Edges {
					back(e, d+1)
				}
			case *ssa.BinOp:
				if x.Op == token.QUO {
					if k, isK := core.ConstInt(x.X); isK && k == 256 && isParamCThrough(x.Y) {
						quo = x
					}
				}
				if x.Op == token.ADD {
					if k, isK := core.ConstInt(x.Y); isK && k == 1 {
						okDef = true
						back(x.X, d+1)
					}
				}
			}
		}
		back(nb, 0)
		remTest := false
		for _, cd := range core.Conds(fn) {
			if r, isR := core.StripConv(cd.X).(*ssa.BinOp); isR && r.Op == token.REM {
				if k, isK := core.ConstInt(r.X); isK && k == 256 && isParamCThrough(r.Y) {
					if z, isZ := core.ConstInt(cd.Y); isZ && z == 0 {
						remTest = true
					}
				}
			}
			// the same remainder written out: 256 - c*(256/c) compared with zero
			if sb, isS := core.StripConv(cd.X).(*ssa.BinOp); isS && sb.Op == token.SUB && quo != nil {
				if k, isK := core.ConstInt(sb.X); isK && k == 256 {
					if ml, isM := core.StripConv(sb.Y).(*ssa.BinOp); isM && ml.Op == token.MUL {
						a, b := core.StripConv(ml.X), core.StripConv(ml.Y)
						isQ := func(v ssa.Value) bool {
							if v == ssa.Value(quo) {
								return true
							}
							// nbChunks itself before the increment (a phi-free copy of the quotient)
							if q2, ok := v.(*ssa.BinOp); ok && q2.Op == token.QUO && core.SameExpr(q2, quo) {
								return true
							}
							// a load of the cell the quotient was stored into, before anything else is stored there
							if ld, ok := v.(*ssa.UnOp); ok && ld.Op == token.MUL {
								if cell, isCell := ld.X.(*ssa.Alloc); isCell {
									hasQ := false
									for _, st := range storesInto(cell) {
										if core.StripConv(st.Val) == ssa.Value(quo) {
											hasQ = true
										} else if core.CanReach(fn, st, ld) {
											return false
										}
									}
									return hasQ
								}
							}
							return false
						}
						if (isParamCThrough(a) && isQ(b)) || (isParamCThrough(b) && isQ(a)) {
							if z, isZ := core.ConstInt(cd.Y); isZ && z == 0 {
								remTest = true
							}
						}
					}
				}
			}
		}
		c.Check(quo != nil && okDef && remTest, "M8", "partitionScalars:nbChunks=ceil(256/c)", fn.Pos(), "nbChunks is not 256/c, incremented when 256 % c != 0", "nbChunks = 256/c (+1 if 256%c != 0)")
	}
	// the digit loop inside the worker literal
	found := 0
	for _, lit := range core.Family(fn)[1:] {
		for _, cl := range countedLoops(lit) {
			// does the body index the selector table with the loop variable?
			reads := false
			for b := range cl.loop.Blocks {
				for _, ins := range b.Instrs {
					if ia, ok := ins.(*ssa.IndexAddr); ok && ia.Index == ssa.Value(cl.phi) {
						if root := chanRoot(ia.X); root == selCell || core.PathOf(ia.X) == core.PathOf(selCell) {
							reads = true
						}
						if u, ok := ia.X.(*ssa.UnOp); ok {
							if fv, ok := u.X.(*ssa.FreeVar); ok && core.FreeVarBinding(fv) == selCell {
								reads = true
							}
						}
					}
				}
			}
			if !reads {
				continue
			}
			found++
			z, isZ := core.ConstInt(cl.init)
			// the bound may be a copy of the cell taken once (a field of a grouping struct, a parameter binding)
			bcell := cellOfLoad(cl.bound)
			for d := 0; d < 3 && bcell != nil && bcell != cellOfLoad(nb); d++ {
				sts := storesInto(bcell)
				if len(sts) != 1 {
					break
				}
				src := cellOfLoad(sts[0].Val)
				if src == nil {
					break
				}
				// copied after the last write of the source
				final := true
				for _, st := range storesInto(src) {
					if st.Parent() != sts[0].Parent() || core.CanReach(st.Parent(), sts[0], st) {
						final = false
					}
				}
				if !final {
					break
				}
				bcell = src
			}
			sameCell := bcell != nil && bcell == cellOfLoad(nb)
			copied := false
			if bcell != nil && !sameCell {
				if sts := storesInto(bcell); len(sts) == 1 && (core.StripConv(sts[0].Val) == core.StripConv(nb) || core.SameExpr(core.StripConv(sts[0].Val), nb)) {
					copied = true // a cell holding the very value that sizes the table
				}
			}
			if sameCell {
				// the cell is final once the table has been sized
				for _, st := range storesInto(cellOfLoad(nb)) {
					if ms, ok := selLen.(ssa.Instruction); ok && core.CanReach(fn, ms, st) {
						sameCell = false
					}
				}
			}
			// ranging over the selector table itself visits exactly the windows it was sized for
			overTable := false
			if x, isLen := core.IsLenOf(cl.bound); isLen {
				if root := chanRoot(x); root == selCell || core.PathOf(x) == core.PathOf(selCell) {
					overTable = true
				}
				if u, ok := x.(*ssa.UnOp); ok {
					if fv, ok := u.X.(*ssa.FreeVar); ok && core.FreeVarBinding(fv) == selCell {
						overTable = true
					}
				}
			}
			okLoop := isZ && z == 0 && cl.step == 1 && cl.op == token.LSS && (sameCell || copied || overTable || core.SameExpr(core.StripConv(cl.bound), nb))
			c.Check(okLoop, "M8", "partitionScalars:digit-loop-covers-all-windows", cl.phi.Pos(), fmt.Sprintf("the per-scalar digit loop does not run chunk = 0 .. nbChunks-1 with the nbChunks that sizes the selector table (its bound is %s): a carry into a window that is not visited is lost", core.PathOf(cl.bound)), "for chunk := 0; chunk < nbChunks; chunk++ over selectors[chunk]")
		}
	}
	if found != 1 {
		c.Und("M8", "partitionScalars:digit-loop", fn.Pos(), fmt.Sprintf("expected exactly one loop over the selector table in the worker, found %d", found))
	}
}

func isParamC(v ssa.Value) bool {
	p := core.PathOf(core.StripConv(v))
	return p == "p:c" || p == "*(&p:c)"
}

func cellOfLoad(v ssa.Value) *ssa.Alloc {
	u, ok := core.StripConv(v).(*ssa.UnOp)
	if !ok || u.Op != token.MUL {
		return nil
	}
	switch a := u.X.(type) {
	case *ssa.Alloc:
		return a
	case *ssa.FreeVar:
		al, _ := core.FreeVarBinding(a).(*ssa.Alloc)
		return al
	}
	return nil
}

// ---------------------------------------------------------------------------
// M9 window coverage of the fixed-base scalar multiplication

func RuleM9(c *Ctx) {
	c.Rule("M9", "window coverage: PrecompPoint.ScalarMul walks every window of the scalar — the limb loop runs l = 0..fr.Limbs-1 (a constant), the window loop w = 0..64/windowSize-1, the table is indexed by l*(64/windowSize)+w — so a carry out of any window is always consumed by the next one (the top window cannot carry out: rule K6); NewPrecompPoint builds 256/windowSize window tables")
	fn := c.P.Fn("banderwagon", "PrecompPoint", "ScalarMul")
	if fn == nil {
		c.Unresolved("M9", "banderwagon.(*PrecompPoint).ScalarMul")
		return
	}
	c.Saw(core.FnName(fn))
	limbs := c.constOf("bandersnatch/fr", "Limbs")
	cls := countedLoops(fn)
	var outer, inner *countedLoop
	for _, cl := range cls {
		for _, cl2 := range cls {
			if cl != cl2 && cl.loop.Blocks[cl2.loop.Header] {
				outer, inner = cl, cl2
			}
		}
	}
	ok := outer != nil && inner != nil
	var why []string
	isNW := func(v ssa.Value) bool { // 64 / pp.windowSize
		q, isQ := core.StripConv(v).(*ssa.BinOp)
		if !isQ || q.Op != token.QUO {
			return false
		}
		n64, is64 := core.ConstInt(q.X)
		return is64 && n64 == 64 && strings.HasSuffix(core.PathOf(q.Y), "pp.windowSize)")
	}
	if !ok && len(cls) == 1 {
		// one running window index k = 0 .. Limbs*(64/windowSize)-1 with l = k/(64/ws), w = k%(64/ws), table[k]
		cl := cls[0]
		ok = true
		z, isZ := core.ConstInt(cl.init)
		okBound := false
		if m, isM := core.StripConv(cl.bound).(*ssa.BinOp); isM && m.Op == token.MUL {
			for _, pr := range [][2]ssa.Value{{m.X, m.Y}, {m.Y, m.X}} {
				if k, isK := core.ConstInt(pr[0]); isK && k == limbs && isNW(pr[1]) {
					okBound = true
				}
			}
		}
		if !isZ || z != 0 || cl.step != 1 || cl.op != token.LSS || !okBound {
			ok = false
			why = append(why, "the single window loop does not run k = 0 .. fr.Limbs*(64/windowSize)-1")
		}
		limbOK, shiftOK, idxOK := false, false, true
		nTab := 0
		core.AllInstrs(fn, func(i ssa.Instruction) {
			switch x := i.(type) {
			case *ssa.BinOp:
				if x.X == cl.phi && isNW(x.Y) {
					if x.Op == token.QUO {
						for _, r := range core.Refs(x) {
							if ia, isIA := r.(*ssa.IndexAddr); isIA && strings.Contains(core.PathOf(ia.X), "scalar") {
								limbOK = true
							}
						}
					}
					if x.Op == token.REM {
						shiftOK = true
					}
				}
			case *ssa.IndexAddr:
				if strings.HasSuffix(core.PathOf(x.X), "pp.windows)") {
					nTab++
					if core.StripConv(x.Index) != cl.phi {
						idxOK = false
					}
				}
			}
		})
		if !limbOK || !shiftOK || !idxOK || nTab == 0 {
			ok = false
			why = append(why, "with one running window index k the limb is not scalar[k/(64/windowSize)], the position not k%(64/windowSize), or the table not windows[k]")
		}
	} else if !ok {
		why = append(why, fmt.Sprintf("the nested limb/window loops are not recognised (%d counted loops)", len(cls)))
	} else {
		z1, k1 := core.ConstInt(outer.init)
		b1, kb := core.ConstInt(outer.bound)
		if !k1 || z1 != 0 || !kb || b1 != limbs || outer.step != 1 || outer.op != token.LSS {
			ok = false
			why = append(why, fmt.Sprintf("the limb loop does not run l = 0 .. fr.Limbs-1 = %d (bound %s): windows of the upper limbs, and a carry into them, can be skipped", limbs-1, core.PathOf(outer.bound)))
		}
		z2, k2 := core.ConstInt(inner.init)
		nw, isQ := core.StripConv(inner.bound).(*ssa.BinOp)
		okNW := isQ && nw.Op == token.QUO
		if okNW {
			n64, is64 := core.ConstInt(nw.X)
			okNW = is64 && n64 == 64 && strings.HasSuffix(core.PathOf(nw.Y), "pp.windowSize)")
		}
		if !k2 || z2 != 0 || inner.step != 1 || inner.op != token.LSS || !okNW {
			ok = false
			why = append(why, "the window loop does not run w = 0 .. 64/windowSize-1")
		}
		// table index
		idxOK := false
		core.AllInstrs(fn, func(i ssa.Instruction) {
			ia, isIA := i.(*ssa.IndexAddr)
			if !isIA || !strings.HasSuffix(core.PathOf(ia.X), "pp.windows)") {
				return
			}
			if cursorCountsWindows(core.StripConv(ia.Index), outer, inner) {
				idxOK = true
				return
			}
			add, isAdd := core.StripConv(ia.Index).(*ssa.BinOp)
			if !isAdd || add.Op != token.ADD {
				idxOK = false
				return
			}
			mul, isMul := add.X.(*ssa.BinOp)
			if isMul && mul.Op == token.MUL && mul.X == ssa.Value(outer.phi) && core.SameExpr(mul.Y, inner.bound) && add.Y == ssa.Value(inner.phi) {
				idxOK = true
			}
		})
		if !idxOK {
			ok = false
			why = append(why, "the window table is not indexed by l*(64/windowSize)+w")
		}
	}
	c.Check(ok, "M9", "PrecompPoint.ScalarMul:all-windows", fn.Pos(), strings.Join(why, "; "), fmt.Sprintf("l = 0..%d, w = 0..64/windowSize-1, table[l*(64/windowSize)+w]", limbs-1))
	// table count in NewPrecompPoint
	if np := c.P.Fn("banderwagon", "", "NewPrecompPoint"); np != nil {
		c.Saw(core.FnName(np))
		n := 0
		good := 0
		core.AllInstrs(np, func(i ssa.Instruction) {
			ms, isMS := i.(*ssa.MakeSlice)
			if !isMS || !strings.Contains(ms.Type().String(), "[][]") {
				return
			}
			n++
			if q, isQ := core.StripConv(ms.Len).(*ssa.BinOp); isQ && q.Op == token.QUO {
				if k, isK := core.ConstInt(q.X); isK && k == 64*limbs && paramBehind(q.Y) != nil && paramBehind(q.Y).Name() == "windowSize" {
					good++
				}
			}
		})
		c.Check(n >= 1 && good == n, "M9", "NewPrecompPoint:256/windowSize-tables", np.Pos(), "the number of window tables is not 256/windowSize", fmt.Sprintf("%d table slices of length %d/windowSize", n, 64*limbs))
	} else {
		c.Unresolved("M9", "banderwagon.NewPrecompPoint")
	}
}

// ---------------------------------------------------------------------------
// M10 split coverage of MultiExp; PW powers recurrence

func RuleM10(c *Ctx) {
	c.Rule("M10", "split coverage: MultiExp hands msmInnerPointProj the ranges [i*nbPoints, (i+1)*nbPoints) for i = 0..nbSplits-2 and the open-ended tail [(nbSplits-1)*nbPoints:] (nbSplits*nbPoints may be smaller than the input after repeated halving), one result slot per spawned split, every slot added exactly once")
	fn := c.P.Fn("bandersnatch", "", "MultiExp")
	if fn == nil {
		c.Unresolved("M10", "bandersnatch.MultiExp")
		return
	}
	c.Saw(core.FnName(fn))
	var site *spawnSite
	for _, s := range c.spawnSites() {
		if s.parent == fn && s.kind == "go" {
			site = s
		}
	}
	ok := true
	var why []string
	var nbPoints, nbSpawned poly
	pc := &polyCtx{}
	var cl *countedLoop
	if site == nil || site.target == nil {
		ok = false
		why = append(why, "the goroutine per split is not recognised")
	} else {
		cl = loopOf(countedLoops(fn), site.at.Block())
		// values of the spawned function expressed in the parent: its parameters stand for the go statement's arguments
		var tr func(v ssa.Value) ssa.Value
		tr = func(v ssa.Value) ssa.Value {
			v = core.StripConv(v)
			if p, isP := v.(*ssa.Parameter); isP && p.Parent() == site.target {
				for i, q := range site.target.Params {
					if q == p && i < len(site.args) {
						return core.StripConv(site.args[i])
					}
				}
			}
			// the length of a slice made in this function is the length it was made with
			if x, isLen := core.IsLenOf(v); isLen {
				if mk, isMk := core.StripConv(x).(*ssa.MakeSlice); isMk && mk.Parent() == fn {
					return tr(mk.Len)
				}
			}
			// … or a captured variable declared (and assigned once) inside the spawn loop's body
			if ld, isLd := v.(*ssa.UnOp); isLd && ld.Op == token.MUL && cl != nil {
				if cell, isCell := ld.X.(*ssa.Alloc); isCell && cell.Parent() == fn && cl.loop.Blocks[cell.Block()] {
					if sts := allStoresTo(fn, cell); len(sts) == 1 && sts[0].Block() == cell.Block() && core.Precedes(fn, sts[0], ld) {
						return tr(sts[0].Val)
					}
				}
				if fv, isFV := ld.X.(*ssa.FreeVar); isFV && fv.Parent() == site.target {
					if cell, isCell := core.FreeVarBinding(fv).(*ssa.Alloc); isCell && cell.Parent() == fn && cl.loop.Blocks[cell.Block()] {
						if sts := allStoresTo(fn, cell); len(sts) == 1 && sts[0].Block() == cell.Block() {
							return tr(sts[0].Val)
						}
					}
				}
			}
			return v
		}
		pc.tr = tr
		inner := callsTo(site.target, "/bandersnatch", "", "msmInnerPointProj")
		if cl == nil || len(inner) != 1 {
			ok = false
			why = append(why, "the goroutine per split is not recognised")
		} else {
			// both vectors sliced [i*nbPoints : i*nbPoints+nbPoints] of the caller's points / scalars
			for k, a := range inner[0].Call.Args[2:4] {
				sl, isSl := tr(a).(*ssa.Slice)
				if !isSl || sl.Low == nil || sl.High == nil {
					ok = false
					why = append(why, "a split does not process a bounded range [start:end] of the input")
					continue
				}
				wantBase, wantImg := "points", "P"
				if k == 1 {
					wantBase, wantImg = "scalars", "S"
				}
				if c.imageOf(sl.X) != wantImg {
					ok = false
					why = append(why, "a split does not slice the caller's "+wantBase)
				}
				// as polynomials in the loop variable i: low = i*P and high = (i+1)*P for one stride P
				iP := pc.of(cl.phi, 0) // in a range loop the variable is the header phi plus one
				lo, hi := pc.of(sl.Low, 0), pc.of(sl.High, 0)
				var P poly
				for _, l := range append([]ssa.Value{}, pc.leaves...) {
					if cand := pc.leafPoly(l); !cand.eq(iP) && lo.eq(iP.mul(cand)) {
						P = cand
					}
				}
				if P == nil {
					ok = false
					why = append(why, "split i does not start at i*nbPoints")
					continue
				}
				if !hi.eq(lo.add(P, 1)) {
					ok = false
					why = append(why, "split i does not get [i*nbPoints, i*nbPoints+nbPoints)")
				}
				if nbPoints == nil {
					nbPoints = P
				} else if !nbPoints.eq(P) {
					ok = false
					why = append(why, "points and scalars are split with different strides")
				}
			}
			z, isZ := core.ConstInt(cl.init)
			if !isZ || z != 0 || cl.step != 1 || cl.op != token.LSS {
				ok = false
				why = append(why, "the spawn loop does not run i = 0 .. nbSplits-2")
			} else {
				nbSpawned = pc.of(cl.bound, 0)
			}
		}
	}
	// the tail processed by the caller: [B*P:] where the spawned splits are i = 0 .. B-1
	var tail *ssa.Call
	for _, call := range callsTo(fn, "/bandersnatch", "", "msmInnerPointProj") {
		tail = call
	}
	if tail == nil {
		ok = false
		why = append(why, "no tail call of msmInnerPointProj")
	} else if nbPoints != nil && nbSpawned != nil {
		for _, a := range tail.Call.Args[2:4] {
			sl, isSl := a.(*ssa.Slice)
			good := isSl && sl.High == nil && sl.Low != nil
			if good {
				good = pc.of(sl.Low, 0).eq(nbSpawned.mul(nbPoints))
			}
			if !good {
				ok = false
				why = append(why, "the last split is not the open-ended tail [(nbSplits-1)*nbPoints:]: when nbSplits*nbPoints < len(points) the trailing points are dropped from the sum")
				break
			}
		}
	}
	c.Check(ok, "M10", "MultiExp:splits-cover-input", fn.Pos(), strings.Join(uniq(why), "; "), "splits [i*nb,(i+1)*nb) for i<nbSplits-1, tail [(nbSplits-1)*nb:]")
}

// RulePW — common.PowersOf is the plain recurrence.
func RulePW(c *Ctx) {
	c.Rule("PW", "powers recurrence [idiom]: common.PowersOf sets result[0] = 1 and result[i] = result[i-1] * x for i = 1 .. degree-1 (the only accepted form; anything else is undecided), so coefficient i is x^i for every length")
	fn := c.P.Fn("common", "", "PowersOf")
	if fn == nil {
		c.Unresolved("PW", "common.PowersOf")
		return
	}
	c.Saw(core.FnName(fn))
	cls := countedLoops(fn)
	muls := callsTo(fn, "bandersnatch/fr", "Element", "Mul")
	if len(cls) != 1 || len(muls) != 1 || len(core.CallsIn(fn)) != 2 || pwOtherShape(fn, cls[0], muls[0]) {
		// not the recurrence as written today: fold the function on a symbolic x for every degree 1..300 and compare
		// coefficient i with the product of i factors x
		// … but only when the function cannot behave differently for longer vectors: one loop with a straight-line
		// body (its bound test is the only branch), no closures, no arithmetic but additions, subtractions and comparisons
		if pwUniform(fn) {
			if why := pwFold(fn); why == "" {
				c.OK("PW", "PowersOf:recurrence", fn.Pos(), "one loop with a straight-line body, folded on a symbolic x for every degree 1..300: coefficient i is the product of i factors x")
				return
			} else if !strings.HasPrefix(why, "cannot fold") {
				c.Bad("PW", "PowersOf:recurrence", fn.Pos(), why)
				return
			}
		}
		c.Und("PW", "PowersOf:recurrence", fn.Pos(), fmt.Sprintf("PowersOf is no longer the single-loop recurrence (%d loops, %d multiplications, %d calls); cannot decide that coefficient i is x^i", len(cls), len(muls), len(core.CallsIn(fn))))
		return
	}
	cl, m := cls[0], muls[0]
	ok := true
	isDegree := func(v ssa.Value) bool { return core.PathOf(v) == "p:degree" }
	// running-power form: acc = result[0] (= 1); in the loop acc = acc*x, then result[i] = acc
	if acc, isAcc := m.Call.Args[0].(*ssa.Alloc); isAcc && cl.loop.Blocks[m.Block()] {
		why := ""
		a1, a2 := m.Call.Args[1], m.Call.Args[2]
		if !((a1 == ssa.Value(acc) && core.PathOf(a2) == "&p:x") || (a2 == ssa.Value(acc) && core.PathOf(a1) == "&p:x")) {
			why = "the running power is not multiplied by x"
		}
		var res ssa.Value
		var inLoop, outLoop []*ssa.Store
		for _, st := range allStoresTo(fn, acc) {
			if cl.loop.Blocks[st.Block()] {
				inLoop = append(inLoop, st)
			} else {
				outLoop = append(outLoop, st)
			}
		}
		if len(inLoop) != 0 || len(outLoop) != 1 {
			why = "the running power is assigned other than once before the loop"
		}
		// the stores of the running power into the result
		var puts []*ssa.Store
		core.AllInstrs(fn, func(i ssa.Instruction) {
			if st, isSt := i.(*ssa.Store); isSt && cl.loop.Blocks[st.Block()] {
				if ld, isLd := st.Val.(*ssa.UnOp); isLd && ld.Op == token.MUL && ld.X == ssa.Value(acc) {
					puts = append(puts, st)
				}
			}
		})
		if len(puts) != 1 {
			why = fmt.Sprintf("%d stores of the running power per iteration, expected one", len(puts))
		} else {
			ia, isIA := puts[0].Addr.(*ssa.IndexAddr)
			every := true
			for _, p := range cl.loop.Header.Preds {
				if cl.loop.Blocks[p] && !puts[0].Block().Dominates(p) {
					every = false
				}
			}
			if !isIA || !every || !core.Precedes(fn, m, puts[0]) || !core.Precedes(fn, m, puts[0].Val.(ssa.Instruction)) {
				why = "the product is not stored into the result on every iteration"
			} else {
				res = ia.X
				di := linNOf(ia.Index, cl.phi, isDegree, 0)
				init, bound := linNOf(cl.init, nil, isDegree, 0), linNOf(cl.bound, nil, isDegree, 0)
				last := bound
				switch cl.op {
				case token.LSS:
					last.b--
				case token.LEQ:
				default:
					last.ok = false
				}
				if !di.ok || !init.ok || !last.ok || cl.step != 1 || di.k != 1 || di.n != 0 ||
					init.b+di.b != 1 || init.n != 0 || last.b+di.b != -1 || last.n != 1 {
					why = "the destinations are not exactly result[1] .. result[degree-1], in that order"
				}
			}
		}
		// initial value: result[0] (set to One) or One itself
		okInit := false
		if len(outLoop) == 1 {
			switch v := outLoop[0].Val.(type) {
			case *ssa.UnOp:
				if ia, isIA := v.X.(*ssa.IndexAddr); isIA && v.Op == token.MUL && res != nil && ia.X == res {
					if z, isZ := core.ConstInt(ia.Index); isZ && z == 0 {
						// read after result[0] = One()
						core.AllInstrs(fn, func(i ssa.Instruction) {
							if st, isSt := i.(*ssa.Store); isSt {
								if ja, isJA := st.Addr.(*ssa.IndexAddr); isJA && ja.X == res {
									if z0, isZ0 := core.ConstInt(ja.Index); isZ0 && z0 == 0 && core.Precedes(fn, st, v) {
										if call, isCall := st.Val.(*ssa.Call); isCall && core.IsFunc(core.Callee(call.Common()), "bandersnatch/fr", "One") {
											okInit = true
										}
									}
								}
							}
						})
					}
				}
			case *ssa.Call:
				okInit = core.IsFunc(core.Callee(v.Common()), "bandersnatch/fr", "One")
			}
		}
		if !okInit && why == "" {
			why = "the running power does not start at result[0] = 1"
		}
		first := false
		if res != nil {
			core.AllInstrs(fn, func(i ssa.Instruction) {
				if st, isSt := i.(*ssa.Store); isSt {
					if ia, isIA := st.Addr.(*ssa.IndexAddr); isIA && ia.X == res {
						if z, isZ := core.ConstInt(ia.Index); isZ && z == 0 {
							if call, isCall := st.Val.(*ssa.Call); isCall && core.IsFunc(core.Callee(call.Common()), "bandersnatch/fr", "One") {
								first = true
							}
							// result[0] = power, read while the running power still holds its initial One()
							if ld, isLd := st.Val.(*ssa.UnOp); isLd && ld.Op == token.MUL && okInit && len(outLoop) == 1 && ld.X == outLoop[0].Addr && loopOf(countedLoops(fn), ld.Block()) == nil {
								clean := true
								for _, other := range storesInto2(fn, ld.X) {
									if other != ssa.Instruction(outLoop[0]) && core.CanReach(fn, other, ld) {
										clean = false
									}
								}
								if clean && core.Precedes(fn, outLoop[0], ld) {
									first = true
								}
							}
						}
					}
				}
			})
			if ms, isMS := res.(*ssa.MakeSlice); !isMS || core.PathOf(ms.Len) != "p:degree" {
				why = "the result is not make([]fr.Element, degree)"
			}
			for _, r := range core.Returns(fn) {
				if r.Results[0] != res {
					why = "something other than the filled slice is returned"
				}
			}
		}
		if !first && why == "" {
			why = "result[0] is not set to 1"
		}
		c.Check(why == "", "PW", "PowersOf:recurrence", fn.Pos(), "PowersOf is not result[0]=1, result[i]=result[i-1]*x for i=1..degree-1: "+why, "result[0] = 1; running power p = p*x stored into result[i], i = 1 .. degree-1")
		return
	}
	dst, isD := m.Call.Args[0].(*ssa.IndexAddr)
	a, isA := m.Call.Args[1].(*ssa.IndexAddr)
	other := m.Call.Args[2]
	if !isA {
		// x * result[i-1]
		a, isA = m.Call.Args[2].(*ssa.IndexAddr)
		other = m.Call.Args[1]
	}
	// "previous" pointer carried around the loop: starts at &result[c0] and becomes this iteration's destination,
	// so it is the destination of the iteration before (index one less, given a unit step)
	carried := false
	carriedInit := int64(-1)
	if !isA && isD {
		for k, src := range m.Call.Args[1:3] {
			phi, isPhi := src.(*ssa.Phi)
			if !isPhi || phi.Block() != cl.loop.Header || len(phi.Edges) != 2 {
				continue
			}
			init, step := phiInit(phi, cl.loop), phiStep(phi, cl.loop)
			ia0, isIA := init.(*ssa.IndexAddr)
			c0, isK := int64(0), false
			if isIA {
				c0, isK = core.ConstInt(ia0.Index)
			}
			if isIA && isK && ia0.X == dst.X && step == ssa.Value(dst) {
				carried, carriedInit = true, c0
				a, isA = dst, true
				other = m.Call.Args[1+(1-k)]
			}
		}
	}
	if !isD || !isA || dst.X != a.X || core.PathOf(other) != "&p:x" || cl.step != 1 {
		ok = false
	} else {
		// as index sets: the destination runs over exactly 1 .. degree-1 and the source is the entry just before it
		di, si := linNOf(dst.Index, cl.phi, isDegree, 0), linNOf(a.Index, cl.phi, isDegree, 0)
		init, bound := linNOf(cl.init, nil, isDegree, 0), linNOf(cl.bound, nil, isDegree, 0)
		if carried && di.ok && init.ok {
			si = linN{di.k, di.b - 1, di.n, true}
			if carriedInit != di.k*init.b+di.b-1 {
				ok = false // the carried pointer does not start at the entry just before the first destination
			}
		}
		last := bound
		switch cl.op {
		case token.LSS:
			last.b--
		case token.LEQ:
		default:
			last.ok = false
		}
		if !di.ok || !si.ok || !init.ok || !last.ok || di.k != 1 || si.k != 1 || di.n != 0 || si.n != 0 || di.b-si.b != 1 {
			ok = false
		} else if first, lst := (linN{0, init.b + di.b, init.n, true}), (linN{0, last.b + di.b, last.n, true}); !(first.b == 1 && first.n == 0 && lst.b == -1 && lst.n == 1) {
			ok = false
		}
	}
	// result[0] = fr.One(); result has length degree; returned
	first := false
	core.AllInstrs(fn, func(i ssa.Instruction) {
		if st, isSt := i.(*ssa.Store); isSt {
			if ia, isIA := st.Addr.(*ssa.IndexAddr); isIA && isD && ia.X == dst.X {
				if z, isZ := core.ConstInt(ia.Index); isZ && z == 0 {
					if call, isCall := st.Val.(*ssa.Call); isCall && core.IsFunc(core.Callee(call.Common()), "bandersnatch/fr", "One") {
						first = true
					}
				}
			}
		}
	})
	if isD {
		if ms, isMS := dst.X.(*ssa.MakeSlice); !isMS || core.PathOf(ms.Len) != "p:degree" {
			ok = false
		}
		for _, r := range core.Returns(fn) {
			if r.Results[0] != dst.X {
				ok = false
			}
		}
	}
	c.Check(ok && first, "PW", "PowersOf:recurrence", fn.Pos(), "PowersOf is not result[0]=1, result[i]=result[i-1]*x for i=1..degree-1", "result[0] = 1; result[i] = result[i-1] * x")
}

// linN: k*i + b + n*N for a loop variable i and one symbolic size N.
type linN struct {
	k, b, n int64
	ok      bool
}

// linNOf evaluates v as a linN: sym is the loop variable, isN recognises the symbolic size.
func linNOf(v ssa.Value, sym ssa.Value, isN func(ssa.Value) bool, d int) linN {
	v = core.StripConv(v)
	if d > 12 {
		return linN{}
	}
	if sym != nil && v == sym {
		return linN{1, 0, 0, true}
	}
	if isN != nil && isN(v) {
		return linN{0, 0, 1, true}
	}
	if _, isC := v.(*ssa.Const); isC {
		if k, isK := core.ConstInt(v); isK {
			return linN{0, k, 0, true}
		}
	}
	if bo, isB := v.(*ssa.BinOp); isB {
		x, y := linNOf(bo.X, sym, isN, d+1), linNOf(bo.Y, sym, isN, d+1)
		if !x.ok || !y.ok {
			return linN{}
		}
		switch bo.Op {
		case token.ADD:
			return linN{x.k + y.k, x.b + y.b, x.n + y.n, true}
		case token.SUB:
			return linN{x.k - y.k, x.b - y.b, x.n - y.n, true}
		case token.MUL:
			if x.k == 0 && x.n == 0 {
				return linN{x.b * y.k, x.b * y.b, x.b * y.n, true}
			}
			if y.k == 0 && y.n == 0 {
				return linN{y.b * x.k, y.b * x.b, y.b * x.n, true}
			}
		}
	}
	return linN{}
}

// RuleM11 — the table-based MSM visits every scalar position.
func RuleM11(c *Ctx) {
	c.Rule("M11", "full traversal of the fixed-base MSM: MSMPrecomp.MSM calls precompPoints[i].ScalarMul(scalars[i], …) inside one loop i = 0 .. len(scalars)-1, and an iteration skips the call only on the zero edge of scalars[i].IsZero(); any other partition of the positions (batches, ranges computed by division) cannot be shown complete by this rule and is reported")
	fn := c.P.Fn("banderwagon", "MSMPrecomp", "MSM")
	if fn == nil {
		c.Unresolved("M11", "banderwagon.(*MSMPrecomp).MSM")
		return
	}
	n := 0
	for _, f := range core.Family(fn) {
		cls := countedLoops(f)
		for _, call := range callsTo(f, "/banderwagon", "PrecompPoint", "ScalarMul") {
			n++
			c.Saw(core.FnName(f))
			key := fmt.Sprintf("MSM:ScalarMul@%s", c.relInFn(fn, call.Pos()))
			cl := loopOf(cls, call.Block())
			if cl == nil {
				c.Und("M11", key, call.Pos(), "the table lookup is not inside a counted loop")
				continue
			}
			z, isZ := core.ConstInt(cl.init)
			x, isLen := core.IsLenOf(cl.bound)
			// a private copy made with the scalars' length has that length
			if ms, isMS := x.(*ssa.MakeSlice); isLen && isMS {
				if y, isLen2 := core.IsLenOf(ms.Len); isLen2 {
					x = y
				}
			}
			whole := isZ && z == 0 && cl.step == 1 && cl.op == token.LSS && isLen && paramBehind(x) != nil && paramBehind(x).Name() == "scalars" && f == fn
			if !whole {
				c.Und("M11", key, call.Pos(), "the loop around the table lookup does not run i = 0 .. len(scalars)-1 in MSM itself (its range is "+core.PathOf(cl.init)+" .. "+core.PathOf(cl.bound)+"): that every coefficient takes part cannot be shown")
				continue
			}
			// skipped only for zero scalars: within an iteration the latch cannot be reached without the call or the
			// zero edge of scalars[i].IsZero()
			cut := core.NewCuts()
			cut.AddInstr(call)
			for _, zc := range callsTo(f, "bandersnatch/fr", "Element", "IsZero") {
				ia, isIA := zc.Call.Args[0].(*ssa.IndexAddr)
				if !isIA || core.StripConv(ia.Index) != cl.phi {
					continue
				}
				isScalars := paramBehind(ia.X) != nil && paramBehind(ia.X).Name() == "scalars"
				// … or of a private copy: make([]T, len(scalars)) filled by copy(x, scalars) and written by nothing else
				if ms, isMS := ia.X.(*ssa.MakeSlice); isMS && !isScalars {
					if y, isLen := core.IsLenOf(ms.Len); isLen && paramBehind(y) != nil && paramBehind(y).Name() == "scalars" {
						copied, other := false, false
						for _, r := range core.Refs(ms) {
							switch u := r.(type) {
							case *ssa.Call:
								if b, isB := u.Call.Value.(*ssa.Builtin); isB && b.Name() == "copy" && u.Call.Args[0] == ssa.Value(ms) && paramBehind(u.Call.Args[1]) != nil && paramBehind(u.Call.Args[1]).Name() == "scalars" && core.Precedes(f, u, zc) {
									copied = true
								} else if !isB || b.Name() != "len" {
									other = true
								}
							case *ssa.IndexAddr:
								for _, rr := range core.Refs(u) {
									if st, isSt := rr.(*ssa.Store); isSt && st.Addr == ssa.Value(u) {
										other = true
									}
								}
							}
						}
						isScalars = copied && !other
					}
				}
				if isScalars {
					cut = mergeCuts(cut, boolEdges(f, zc, true))
				}
			}
			hdr := cl.loop.Header.Instrs[len(cl.loop.Header.Instrs)-1]
			// can the header be re-entered (the next iteration started) without the call and without the zero edge?
			skipped := core.ReachableAvoiding(f, hdr, cut, cl.loop.Header.Instrs[0])
			c.Check(!skipped, "M11", key, call.Pos(), "an iteration can skip the table lookup although its scalar is not zero", "every position 0..len(scalars)-1, skipped only when scalars[i] is zero")
		}
	}
	c.FloorN("M11", 1, n, "table lookups in MSM")
}

// linNLeaf is linNOf with caller-supplied leaves (loop variable, mirrored pointer, symbolic size).
func linNLeaf(v ssa.Value, leaf func(ssa.Value) (linN, bool), d int) linN {
	v = core.StripConv(v)
	if d > 12 {
		return linN{}
	}
	if l, ok := leaf(v); ok {
		return l
	}
	if _, isC := v.(*ssa.Const); isC {
		if k, isK := core.ConstInt(v); isK {
			return linN{0, k, 0, true}
		}
	}
	if bo, isB := v.(*ssa.BinOp); isB {
		x, y := linNLeaf(bo.X, leaf, d+1), linNLeaf(bo.Y, leaf, d+1)
		if !x.ok || !y.ok {
			return linN{}
		}
		switch bo.Op {
		case token.ADD:
			return linN{x.k + y.k, x.b + y.b, x.n + y.n, true}
		case token.SUB:
			return linN{x.k - y.k, x.b - y.b, x.n - y.n, true}
		case token.MUL:
			if x.k == 0 && x.n == 0 {
				return linN{x.b * y.k, x.b * y.b, x.b * y.n, true}
			}
			if y.k == 0 && y.n == 0 {
				return linN{y.b * x.k, y.b * x.b, y.b * x.n, true}
			}
		}
	}
	return linN{}
}

// isParamCThrough: the window parameter c, possibly through plain copies (a rebinding c := c of a spliced helper).
func isParamCThrough(v ssa.Value) bool {
	for d := 0; d < 4; d++ {
		v = core.StripConv(v)
		if isParamC(v) {
			return true
		}
		u, ok := v.(*ssa.UnOp)
		if !ok || u.Op != token.MUL {
			return false
		}
		var cell *ssa.Alloc
		switch a := u.X.(type) {
		case *ssa.Alloc:
			cell = a
		case *ssa.FreeVar:
			cell, _ = core.FreeVarBinding(a).(*ssa.Alloc)
		}
		if cell == nil {
			return false
		}
		if p := core.ParamSpill(cell); p != nil {
			return p.Name() == "c"
		}
		sts := storesInto(cell)
		if len(sts) != 1 {
			return false
		}
		v = sts[0].Val
	}
	return false
}

// valuesSym: the counted loop runs its variable over exactly 0 .. len(arr)-1 (upwards or downwards, unit step).
func valuesSym(cl *countedLoop, arr ssa.Value) bool {
	isLenArr := func(v ssa.Value) bool {
		l, isLen := core.IsLenOf(core.StripConv(v))
		return isLen && l == arr
	}
	zero := func(v ssa.Value) bool { k, ok := core.ConstInt(v); return ok && k == 0 }
	lenMinus1 := func(v ssa.Value) bool {
		b, ok := core.StripConv(v).(*ssa.BinOp)
		if !ok || b.Op != token.SUB {
			return false
		}
		k, isK := core.ConstInt(b.Y)
		return isK && k == 1 && isLenArr(b.X)
	}
	switch {
	case cl.step == 1 && cl.op == token.LSS && zero(cl.init) && isLenArr(cl.bound):
		return true
	case cl.step == -1 && cl.op == token.GEQ && lenMinus1(cl.init) && zero(cl.bound):
		return true
	}
	return false
}

// storesInto2: everything that writes the cell at addr in fn — stores to it and field-element methods with it as
// receiver.
func storesInto2(fn *ssa.Function, addr ssa.Value) []ssa.Instruction {
	var out []ssa.Instruction
	core.AllInstrs(fn, func(i ssa.Instruction) {
		switch x := i.(type) {
		case *ssa.Store:
			if x.Addr == addr {
				out = append(out, x)
			}
		case *ssa.Call:
			if f := core.Callee(x.Common()); f != nil && f.Signature.Recv() != nil && len(x.Call.Args) > 0 && x.Call.Args[0] == addr && !gnarkObservers[f.Name()] {
				out = append(out, x)
			}
		}
	})
	return out
}

// pwOtherShape: the single multiplication does not write an element of the result or a local running power, i.e. the
// structural reading below has nothing to hold on to (a cursor pointer, a helper).
func pwOtherShape(fn *ssa.Function, cl *countedLoop, m *ssa.Call) bool {
	switch m.Call.Args[0].(type) {
	case *ssa.Alloc, *ssa.IndexAddr:
		return false
	}
	return true
}

// pwFold folds PowersOf(x, n) for n = 1..300 on a symbolic x. "" when every coefficient is x^i.
func pwFold(fn *ssa.Function) string {
	if len(fn.Params) != 2 {
		return "cannot fold: unexpected signature"
	}
	x := &fterm{op: "sym", s: "x"}
	for n := int64(1); n <= 300; n++ {
		fo := &folder{limit: 500_000}
		res, err := fo.Fold(fn, []any{x, n})
		if err != nil {
			return "cannot fold PowersOf: " + err.Error()
		}
		out, ok := res.(fslice)
		if !ok || int64(out.len) != n {
			return fmt.Sprintf("PowersOf(x, %d) does not return %d coefficients", n, n)
		}
		want := fOne
		for i := int64(0); i < n; i++ {
			got := "?"
			if t, isT := out.o.slots[out.off+int(i)].(*fterm); isT {
				got = t.String()
			}
			if got != want.String() {
				return fmt.Sprintf("PowersOf(x, %d): coefficient %d is %s, expected x^%d", n, i, clip(got, 80), i)
			}
			want = fComm("mul", fOne, want, x)
		}
	}
	return ""
}

// cursorCountsWindows: idx is a running cursor that starts at 0, is incremented by one on every iteration of the inner
// loop and by nothing else, and is read before the increment: with the inner loop running its full count each time
// (left only through its bound test) its value in iteration (l, w) is l*N + w.
func cursorCountsWindows(idx ssa.Value, outer, inner *countedLoop) bool {
	pi, ok := idx.(*ssa.Phi)
	if !ok || pi.Block() != inner.loop.Header {
		return false
	}
	// the inner loop is left only from its header
	for b := range inner.loop.Blocks {
		if b == inner.loop.Header {
			continue
		}
		for _, s := range b.Succs {
			if !inner.loop.Blocks[s] {
				return false
			}
		}
	}
	var po *ssa.Phi
	for i, e := range pi.Edges {
		pred := pi.Block().Preds[i]
		if inner.loop.Blocks[pred] {
			inc, isInc := e.(*ssa.BinOp)
			if !isInc || inc.Op != token.ADD || inc.X != ssa.Value(pi) {
				return false
			}
			if one, isOne := core.ConstInt(inc.Y); !isOne || one != 1 {
				return false
			}
			continue
		}
		p, isPhi := e.(*ssa.Phi)
		if !isPhi || p.Block() != outer.loop.Header || (po != nil && po != p) {
			return false
		}
		po = p
	}
	if po == nil {
		return false
	}
	for i, e := range po.Edges {
		pred := po.Block().Preds[i]
		if outer.loop.Blocks[pred] {
			if e != ssa.Value(pi) {
				return false
			}
			continue
		}
		if z, isZ := core.ConstInt(e); !isZ || z != 0 {
			return false
		}
	}
	return true
}

// throughSpawn: a value inside a spawned function literal, expressed at the spawn: a parameter becomes the actual
// argument of the go statement, a load of a captured single-assignment local becomes the value assigned to it.
func throughSpawn(v ssa.Value, f *ssa.Function, s *spawnSite) ssa.Value {
	if p, ok := v.(*ssa.Parameter); ok && p.Parent() == f {
		for i, q := range f.Params {
			if q == p && i < len(s.args) {
				return s.args[i]
			}
		}
		return v
	}
	ld, ok := v.(*ssa.UnOp)
	if !ok || ld.Op != token.MUL {
		return v
	}
	fv, ok := ld.X.(*ssa.FreeVar)
	if !ok || s.parent == nil {
		return v
	}
	k := -1
	for i, x := range f.FreeVars {
		if x == fv {
			k = i
		}
	}
	var mc *ssa.MakeClosure
	core.AllInstrs(s.parent, func(i ssa.Instruction) {
		if m, isMC := i.(*ssa.MakeClosure); isMC && m.Fn == ssa.Value(f) {
			mc = m
		}
	})
	if k < 0 || mc == nil || k >= len(mc.Bindings) {
		return v
	}
	cell, ok := mc.Bindings[k].(*ssa.Alloc)
	if !ok {
		return v
	}
	if sts := storesInto(cell); len(sts) == 1 {
		if _, isAddr := sts[0].Val.(*ssa.IndexAddr); isAddr {
			return sts[0].Val
		}
	}
	return v
}

// pwUniform: one loop whose bound test is the only branch of the function, no function literals, goroutines or
// defers, and integer arithmetic limited to additions, subtractions and comparisons: nothing by which a longer
// vector could be treated differently from a shorter one.
func pwUniform(fn *ssa.Function) bool {
	loops := core.Loops(fn)
	if len(loops) != 1 || len(fn.AnonFuncs) != 0 {
		return false
	}
	ok := true
	nIf := 0
	core.AllInstrs(fn, func(i ssa.Instruction) {
		switch x := i.(type) {
		case *ssa.If:
			nIf++
			if x.Block() != loops[0].Header {
				ok = false
			}
		case *ssa.Go, *ssa.Defer, *ssa.MakeClosure, *ssa.Select, *ssa.Send:
			ok = false
		case *ssa.BinOp:
			switch x.Op {
			case token.ADD, token.SUB, token.LSS, token.LEQ, token.GTR, token.GEQ, token.EQL, token.NEQ:
			default:
				ok = false
			}
		case *ssa.Call:
			if f := core.Callee(x.Common()); f != nil && f.Pkg != nil && !strings.HasSuffix(f.Pkg.Pkg.Path(), "bandersnatch/fr") {
				ok = false
			}
		}
	})
	return ok && nIf == 1
}
