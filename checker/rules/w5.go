package rules

// W5 — field/limb-granular alias hazards (DESIGN §3.1).

import (
	"fmt"
	"go/token"
	"go/types"
	"sort"
	"strings"

	"golang.org/x/tools/go/ssa"

	"verif/checker/core"
)

// paramPath: for an address derived from a pointer parameter by FieldAddr / constant IndexAddr,
// returns the parameter and the path (".X", "[2]", ".inner.X", "" for the whole object).
func paramPath(v ssa.Value) (*ssa.Parameter, string, bool) {
	path := ""
	for d := 0; d < 16; d++ {
		switch x := v.(type) {
		case *ssa.Parameter:
			if _, isPtr := x.Type().Underlying().(*types.Pointer); isPtr {
				return x, path, true
			}
			return nil, "", false
		case *ssa.FieldAddr:
			path = "." + fieldNameOf(x) + path
			v = x.X
		case *ssa.IndexAddr:
			if k, ok := core.ConstInt(x.Index); ok {
				path = fmt.Sprintf("[%d]", k) + path
			} else {
				path = "[*]" + path
			}
			v = x.X
		default:
			return nil, "", false
		}
	}
	return nil, "", false
}

func fieldNameOf(fa *ssa.FieldAddr) string {
	t := fa.X.Type().Underlying().(*types.Pointer).Elem().Underlying().(*types.Struct)
	return t.Field(fa.Field).Name()
}

// overlaps: two paths denote overlapping memory (one is a prefix of the other, `[*]` matches any index).
func overlaps(a, b string) bool {
	ta, tb := splitPath(a), splitPath(b)
	n := len(ta)
	if len(tb) < n {
		n = len(tb)
	}
	for i := 0; i < n; i++ {
		if ta[i] == tb[i] || ta[i] == "[*]" && strings.HasPrefix(tb[i], "[") || tb[i] == "[*]" && strings.HasPrefix(ta[i], "[") {
			continue
		}
		return false
	}
	return true
}

func splitPath(p string) []string {
	var out []string
	cur := ""
	for _, r := range p {
		if (r == '.' || r == '[') && cur != "" {
			out = append(out, cur)
			cur = ""
		}
		cur += string(r)
	}
	if cur != "" {
		out = append(out, cur)
	}
	return out
}

type w5event struct {
	reads  [][2]interface{} // (param, path)
	writes [][2]interface{}
	at     ssa.Instruction
}

// RuleW5 — no read of an operand field/limb after the same field/limb of a possibly-aliased output was written.
func RuleW5(c *Ctx) {
	c.Rule("W5", "alias hazard: in every routine whose output pointer may alias an operand pointer of the same type, no path reads a field/limb of the operand after the same field/limb of the output has been written (calls to leaf field operations are atomic: operands read, then receiver written)")
	st := c.wfxGet()
	n := 0
	for _, fn := range st.tops {
		if len(fn.Blocks) == 0 || inHelperPkg(fn) || isInit(fn) {
			continue
		}
		s := st.sums[fn]
		if s == nil {
			continue
		}
		// output params: written pointer params; operand params: other pointer params with identical pointee type
		var outs, ins []*ssa.Parameter
		for i, p := range fn.Params {
			if _, isPtr := p.Type().Underlying().(*types.Pointer); !isPtr {
				continue
			}
			if s.W[i] {
				outs = append(outs, p)
			}
		}
		for _, p := range fn.Params {
			pt, isPtr := p.Type().Underlying().(*types.Pointer)
			if !isPtr {
				continue
			}
			for _, o := range outs {
				if o != p && types.Identical(o.Type().Underlying().(*types.Pointer).Elem(), pt.Elem()) {
					ins = append(ins, p)
					break
				}
			}
		}
		if len(outs) == 0 || len(ins) == 0 {
			continue
		}
		isOut := func(p *ssa.Parameter) bool {
			for _, o := range outs {
				if o == p {
					return true
				}
			}
			return false
		}
		// call sites of unexported helpers decide whether two parameters can alias at all
		distinctAtAllSites := func(a, b *ssa.Parameter) bool {
			if fn.Object() != nil && fn.Object().Exported() {
				return false
			}
			ia, ib := -1, -1
			for i, p := range fn.Params {
				if p == a {
					ia = i
				}
				if p == b {
					ib = i
				}
			}
			sites := 0
			for _, top := range st.tops {
				for _, f := range core.Family(top) {
					for _, ci := range core.CallsIn(f) {
						if core.Callee(ci.Common()) != fn {
							continue
						}
						sites++
						args := ci.Common().Args
						x, okx := args[ia].(*ssa.Alloc)
						y, oky := args[ib].(*ssa.Alloc)
						if !okx || !oky || x == y {
							return false
						}
					}
				}
			}
			return sites > 0
		}
		mayAlias := func(in, out *ssa.Parameter) bool {
			if in == out || !types.Identical(in.Type().Underlying().(*types.Pointer).Elem(), out.Type().Underlying().(*types.Pointer).Elem()) {
				return false
			}
			if isOut(in) {
				return false // two in/out operands: aliasing them has no defined meaning (e.g. Butterfly(a, a))
			}
			return !distinctAtAllSites(in, out)
		}
		n++
		name := core.FnName(fn)
		c.Saw(name)
		// events per instruction
		events := func(i ssa.Instruction) (reads, writes [][2]interface{}) {
			switch x := i.(type) {
			case *ssa.UnOp:
				if x.Op == token.MUL {
					if p, path, ok := paramPath(x.X); ok {
						reads = append(reads, [2]interface{}{p, path})
					}
				}
			case *ssa.Store:
				if p, path, ok := paramPath(x.Addr); ok {
					writes = append(writes, [2]interface{}{p, path})
				}
			case ssa.CallInstruction:
				cc := x.Common()
				if _, isB := cc.Value.(*ssa.Builtin); isB || cc.IsInvoke() {
					return
				}
				callee := core.Callee(cc)
				var cs *wsummary
				if callee != nil {
					if st.scope(callee) && len(callee.Blocks) > 0 {
						cs = st.sums[callee]
						if cs == nil {
							cs = st.onDemand(callee)
						}
					} else {
						cs = trustSummary(c.P, callee)
					}
				}
				for k, a := range cc.Args {
					p, path, ok := paramPath(a)
					if !ok {
						continue
					}
					reads = append(reads, [2]interface{}{p, path})
					if cs == nil || cs.W[k] {
						writes = append(writes, [2]interface{}{p, path})
					}
				}
			}
			return
		}
		// forward may-written dataflow
		type wset map[string]bool // "param|path"
		in := map[*ssa.BasicBlock]wset{}
		for _, b := range fn.Blocks {
			in[b] = wset{}
		}
		var hazard string
		var hazardAt ssa.Instruction
		for changed, iter := true, 0; changed && iter < 50; iter++ {
			changed = false
			for _, b := range fn.Blocks {
				cur := wset{}
				for k := range in[b] {
					cur[k] = true
				}
				for _, ins2 := range b.Instrs {
					reads, writes := events(ins2)
					for _, r := range reads {
						rp := r[0].(*ssa.Parameter)
						for k := range cur {
							parts := strings.SplitN(k, "|", 2)
							var wp *ssa.Parameter
							for _, o := range outs {
								if o.Name() == parts[0] {
									wp = o
								}
							}
							if wp == nil || !mayAlias(rp, wp) {
								continue
							}
							if overlaps(parts[1], r[1].(string)) && hazard == "" {
								hazard = fmt.Sprintf("reads %s%s after %s%s was written; if %s aliases %s the operand has already been overwritten", rp.Name(), r[1], wp.Name(), parts[1], rp.Name(), wp.Name())
								hazardAt = ins2
							}
						}
					}
					for _, w := range writes {
						wp := w[0].(*ssa.Parameter)
						if isOut(wp) {
							cur[wp.Name()+"|"+w[1].(string)] = true
						}
					}
				}
				for _, succ := range b.Succs {
					for k := range cur {
						if !in[succ][k] {
							in[succ][k] = true
							changed = true
						}
					}
				}
			}
		}
		var on []string
		for _, o := range outs {
			on = append(on, o.Name())
		}
		var inn []string
		for _, p := range ins {
			inn = append(inn, p.Name())
		}
		sort.Strings(on)
		sort.Strings(inn)
		if hazard != "" {
			c.Bad("W5", name, hazardAt.Pos(), name+" "+hazard)
		} else {
			c.OK("W5", name, fn.Pos(), fmt.Sprintf("outputs %v, possibly aliased operands %v: no operand field/limb is read after the same field/limb of an output was written", on, inn))
		}
	}
	c.FloorN("W5", 25, n, "routines with possibly aliased output and operand")
}
