package rules

// concx — goroutine, channel and pool discipline (DESIGN §3.6).

import (
	"fmt"
	"go/token"
	"go/types"
	"sort"
	"strings"

	"golang.org/x/tools/go/ssa"

	"verif/checker/core"
)

type spawnSite struct {
	kind    string // go | Execute | errgroup
	at      ssa.CallInstruction
	parent  *ssa.Function // function containing the spawn
	top     *ssa.Function
	target  *ssa.Function    // spawned function (literal or named)
	closure *ssa.MakeClosure // when the target is a literal created here
	args    []ssa.Value      // actual arguments of the spawned call (go only)
}

func topOf(fn *ssa.Function) *ssa.Function {
	for fn.Parent() != nil {
		fn = fn.Parent()
	}
	return fn
}

func closureOf(v ssa.Value) (*ssa.Function, *ssa.MakeClosure) {
	switch x := v.(type) {
	case *ssa.MakeClosure:
		f, _ := x.Fn.(*ssa.Function)
		return f, x
	case *ssa.Function:
		return x, nil
	case *ssa.UnOp:
		if a, ok := x.X.(*ssa.Alloc); ok && x.Op == token.MUL {
			for _, r := range core.Refs(a) {
				if st, ok := r.(*ssa.Store); ok && st.Addr == ssa.Value(a) {
					return closureOf(st.Val)
				}
			}
		}
	}
	return nil, nil
}

func (c *Ctx) spawnSites() []*spawnSite {
	var out []*spawnSite
	for _, top := range c.P.TopFuncs() {
		if inHelperPkg(top) {
			continue
		}
		for _, fn := range core.Family(top) {
			for _, ci := range core.CallsIn(fn) {
				var s *spawnSite
				switch x := ci.(type) {
				case *ssa.Go:
					t, mc := closureOf(x.Call.Value)
					if t == nil {
						t = core.Callee(&x.Call)
					}
					s = &spawnSite{kind: "go", at: x, target: t, closure: mc, args: x.Call.Args}
				case *ssa.Call:
					f := core.Callee(&x.Call)
					switch {
					case core.IsFunc(f, "common/parallel", "Execute"):
						t, mc := closureOf(x.Call.Args[1])
						s = &spawnSite{kind: "Execute", at: x, target: t, closure: mc}
					case core.IsMethod(f, "x/sync/errgroup", "Group", "Go"):
						t, mc := closureOf(x.Call.Args[1])
						s = &spawnSite{kind: "errgroup", at: x, target: t, closure: mc}
					}
				}
				if s != nil {
					s.parent, s.top = fn, top
					out = append(out, s)
				}
			}
		}
	}
	return out
}

func (s *spawnSite) key(c *Ctx) string {
	tn := "<unresolved>"
	if s.target != nil {
		tn = s.target.Name()
	}
	return fmt.Sprintf("%s:%s->%s@%s", core.FnName(s.parent), s.kind, tn, c.relInFn(s.parent, s.at.Pos()))
}

func (c *Ctx) relInFn(fn *ssa.Function, pos token.Pos) string {
	base := topOf(fn).Pos()
	return fmt.Sprintf("+%d:%d", c.P.Fset.Position(pos).Line-c.P.Fset.Position(base).Line, c.P.Fset.Position(pos).Column)
}

// ---------------------------------------------------------------------------
// index provenance: does an index derive only from the goroutine's own parameters /
// a loop over them / a per-iteration cell of the spawning loop?

type ownCtx struct {
	site  *spawnSite
	loops map[*ssa.Function][]*core.Loop
	seen  map[ssa.Value]bool
}

func (o *ownCtx) own(v ssa.Value) bool {
	if o.seen[v] {
		return true // recursive phi: decided by its other edges
	}
	o.seen[v] = true
	defer delete(o.seen, v)
	switch x := v.(type) {
	case *ssa.Const:
		return true
	case *ssa.Parameter:
		// a scalar parameter of the spawned function (each goroutine gets its own copy)
		return !pointerful(x.Type())
	case *ssa.Phi:
		for _, e := range x.Edges {
			if !o.own(e) {
				return false
			}
		}
		return true
	case *ssa.BinOp:
		return o.own(x.X) && o.own(x.Y)
	case *ssa.Convert:
		return o.own(x.X)
	case *ssa.ChangeType:
		return o.own(x.X)
	case *ssa.UnOp:
		if x.Op == token.MUL {
			// load of a cell: own if the cell is a spilled scalar parameter of the spawned function,
			// or a free variable bound to a per-iteration cell of the spawning function
			switch a := x.X.(type) {
			case *ssa.Alloc:
				if p := core.ParamSpill(a); p != nil && !pointerful(p.Type()) {
					// re-assigned parameter (e.g. `end = len(fs)`): all stores must be own
					return true
				}
				return o.localScalarCell(a)
			case *ssa.FreeVar:
				return o.perIterationCell(a)
			}
		}
		return x.Op != token.MUL && x.Op != token.ARROW && o.own(x.X)
	case *ssa.Call:
		if b, ok := x.Call.Value.(*ssa.Builtin); ok && (b.Name() == "len" || b.Name() == "cap" || b.Name() == "min" || b.Name() == "max") {
			return true // lengths of shared read-only data are the same for everyone; used only as bounds
		}
	case *ssa.Field:
		// field of a by-value struct loaded from shared read-only data, e.g. selectors[chunk].index:
		// accepted only as a secondary index (see classifyAddr)
		return false
	}
	return false
}

// localScalarCell: an Alloc of the spawned function whose stores are all own values.
func (o *ownCtx) localScalarCell(a *ssa.Alloc) bool {
	if pointerful(a.Type().Underlying().(*types.Pointer).Elem()) {
		return false
	}
	for _, r := range core.Refs(a) {
		if st, ok := r.(*ssa.Store); ok && st.Addr == ssa.Value(a) {
			if !o.own(st.Val) {
				return false
			}
		}
	}
	return true
}

// perIterationCell: free variable bound to a scalar cell that the spawning function allocates
// per iteration of the spawning loop and never stores after the spawn (or a scalar never re-stored at all).
func (o *ownCtx) perIterationCell(fv *ssa.FreeVar) bool {
	b := core.FreeVarBinding(fv)
	a, ok := b.(*ssa.Alloc)
	if !ok {
		return false
	}
	if pointerful(a.Type().Underlying().(*types.Pointer).Elem()) {
		return false
	}
	pf := a.Parent()
	spawnBlock := o.site.at.Block()
	if fv.Parent() != o.site.target {
		// nested literal: find the MakeClosure that binds it
		spawnBlock = nil
	}
	loops := o.loops[pf]
	if loops == nil {
		loops = core.Loops(pf)
		o.loops[pf] = loops
	}
	// allocated inside every loop that contains the spawn?
	if spawnBlock != nil && spawnBlock.Parent() == pf {
		for _, l := range loops {
			if l.Blocks[spawnBlock] && !l.Blocks[a.Block()] {
				return false // shared across iterations
			}
		}
	}
	// never stored after the spawn without passing a fresh allocation
	cut := core.NewCuts()
	cut.AddInstr(a)
	for _, r := range core.Refs(a) {
		if st, ok := r.(*ssa.Store); ok && st.Addr == ssa.Value(a) {
			if o.site.at.Parent() == pf && core.ReachableAvoiding(pf, o.site.at, cut, st) {
				return false
			}
		}
	}
	return true
}

// ---------------------------------------------------------------------------
// G1 per-goroutine slots

type writeEvt struct {
	at   ssa.Instruction
	addr ssa.Value
	how  string
	in   *ssa.Function
}

// writesOf lists the write events of the spawned code: stores, map updates, copy/append
// destinations, and arguments handed to callees that write through that parameter.
func (c *Ctx) writesOf(target *ssa.Function) []writeEvt {
	st := c.wfxGet()
	var out []writeEvt
	seen := map[*ssa.Function]bool{}
	var visit func(fn *ssa.Function)
	visit = func(fn *ssa.Function) {
		if seen[fn] {
			return
		}
		seen[fn] = true
		for _, f := range core.Family(fn) {
			core.AllInstrs(f, func(i ssa.Instruction) {
				switch x := i.(type) {
				case *ssa.Store:
					out = append(out, writeEvt{x, x.Addr, "store", f})
				case *ssa.MapUpdate:
					out = append(out, writeEvt{x, x.Map, "map update", f})
				case *ssa.Send:
					out = append(out, writeEvt{x, x.Chan, "send", f})
				case ssa.CallInstruction:
					cc := x.Common()
					if b, ok := cc.Value.(*ssa.Builtin); ok {
						switch b.Name() {
						case "copy", "append":
							out = append(out, writeEvt{x, cc.Args[0], b.Name(), f})
						case "close":
							out = append(out, writeEvt{x, cc.Args[0], "close", f})
						}
						return
					}
					if cc.IsInvoke() {
						if s := trustInvoke(cc.Method); s != nil {
							args := append([]ssa.Value{cc.Value}, cc.Args...)
							for k := range s.W {
								if k < len(args) {
									out = append(out, writeEvt{x, args[k], "invoke " + cc.Method.Name(), f})
								}
							}
						}
						return
					}
					callee := core.Callee(cc)
					if callee == nil {
						return
					}
					var s *wsummary
					switch {
					case st.scope(callee) && len(callee.Blocks) > 0:
						s = st.sums[callee]
						if s == nil {
							s = st.onDemand(callee)
						}
					default:
						s = trustSummary(c.P, callee)
					}
					if s == nil {
						return
					}
					for k := range s.W {
						if k < len(cc.Args) {
							out = append(out, writeEvt{x, cc.Args[k], "call " + core.FnName(callee) + " (writes its parameter " + fmt.Sprint(k) + ")", f})
						}
					}
				}
			})
		}
	}
	visit(target)
	return out
}

type addrClass struct {
	shared   bool   // rooted in captured state or a pointer-like parameter
	root     string // description of the root
	rootVal  ssa.Value
	firstIdx ssa.Value      // first index applied to the shared container (program order from the root)
	slot     *ssa.IndexAddr // the IndexAddr of that first index
	derefAft bool           // a reference stored in that element is followed afterwards (writes the pointee)
}

// classifyAddr walks a written address back to its root and records, in program order from the
// root, which indexes and loads are applied.
func classifyAddr(v ssa.Value) addrClass {
	var ac addrClass
	type step struct {
		idx  *ssa.IndexAddr
		load bool // load of a pointer or slice header (following a stored reference)
	}
	var rev []step
loop:
	for d := 0; d < 40; d++ {
		switch x := v.(type) {
		case *ssa.IndexAddr:
			rev = append(rev, step{idx: x})
			v = x.X
		case *ssa.FieldAddr:
			v = x.X
		case *ssa.Slice:
			v = x.X
		case *ssa.ChangeType:
			v = x.X
		case *ssa.Convert:
			v = x.X
		case *ssa.UnOp:
			if x.Op != token.MUL {
				break loop
			}
			rev = append(rev, step{load: true})
			v = x.X
		case *ssa.FreeVar:
			ac.shared, ac.root, ac.rootVal = true, "captured "+x.Name(), x
			break loop
		case *ssa.Parameter:
			if pointerful(x.Type()) {
				ac.shared, ac.root, ac.rootVal = true, "parameter "+x.Name(), x
			}
			break loop
		case *ssa.Global:
			ac.shared, ac.root, ac.rootVal = true, "global "+x.Name(), x
			break loop
		case *ssa.Alloc:
			if p := core.ParamSpill(x); p != nil && pointerful(p.Type()) {
				ac.shared, ac.root, ac.rootVal = true, "parameter "+p.Name(), p
			}
			break loop
		default:
			break loop
		}
	}
	// program order = reverse of rev
	seenIdx := false
	for i := len(rev) - 1; i >= 0; i-- {
		st := rev[i]
		if st.idx != nil && !seenIdx {
			seenIdx = true
			ac.firstIdx = st.idx.Index
			ac.slot = st.idx
			continue
		}
		if seenIdx && st.load {
			ac.derefAft = true
		}
	}
	return ac
}

// freshInSlot: the spawned function itself stores a freshly allocated object into the slot
// (same container, same index) before following it, e.g. windows[i] = make(...); windows[i][j] = v.
func freshInSlot(target *ssa.Function, slot *ssa.IndexAddr) bool {
	want := core.PathOf(slot)
	found := false
	for _, f := range core.Family(target) {
		core.AllInstrs(f, func(i ssa.Instruction) {
			st, ok := i.(*ssa.Store)
			if !ok || core.PathOf(st.Addr) != want {
				return
			}
			switch st.Val.(type) {
			case *ssa.MakeSlice, *ssa.Alloc, *ssa.MakeMap:
				found = true
			case *ssa.Slice:
				if sl := st.Val.(*ssa.Slice); sl != nil {
					if _, isAlloc := sl.X.(*ssa.Alloc); isAlloc {
						found = true // make([]T, const) lowered to new [n]T + slice
					}
				}
			}
		})
	}
	return found
}

func isChanType(t types.Type) bool {
	_, ok := t.Underlying().(*types.Chan)
	return ok
}

func isSyncType(t types.Type) bool {
	if p, ok := t.Underlying().(*types.Pointer); ok {
		t = p.Elem()
	}
	n, ok := t.(*types.Named)
	if !ok || n.Obj().Pkg() == nil {
		return false
	}
	p := n.Obj().Pkg().Path()
	return p == "sync" || p == "golang.org/x/sync/errgroup"
}

// dupFree: the captured slice was built by appending the keys of a map (so its elements are pairwise distinct).
func dupFreeSlice(fv *ssa.FreeVar) (bool, string) {
	b := core.FreeVarBinding(fv)
	cell, ok := b.(*ssa.Alloc)
	if !ok {
		return false, "not a local cell"
	}
	nApp := 0
	ok2, why := dupFreeCell(cell, map[ssa.Value]bool{}, &nApp)
	if !ok2 {
		return false, why
	}
	if nApp == 0 {
		return false, "never appended to"
	}
	return true, "built by appending the keys of a map iteration (pairwise distinct)"
}

// dupFreeCell: every value stored into the cell is a duplicate-free slice.
func dupFreeCell(cell *ssa.Alloc, seen map[ssa.Value]bool, nApp *int) (bool, string) {
	if seen[cell] {
		return true, ""
	}
	seen[cell] = true
	sts := storesInto(cell)
	if len(sts) == 0 {
		return false, "never assigned"
	}
	for _, st := range sts {
		if ok, why := dupFreeValue(st.Val, seen, nApp); !ok {
			return false, why
		}
	}
	return true, ""
}

// dupFreeValue: v is a slice whose elements are pairwise distinct: empty, or grown only by appending the keys of a
// map iteration (in a variable, a phi, or through the result of an inlined helper).
func dupFreeValue(v ssa.Value, seen map[ssa.Value]bool, nApp *int) (bool, string) {
	if seen[v] {
		return true, ""
	}
	seen[v] = true
	switch x := v.(type) {
	case *ssa.Slice: // make([]T, 0, n) lowered to new [n]T + slice
		if x.High != nil {
			if hi, ok := core.ConstInt(x.High); !ok || hi != 0 {
				return false, "initialised from a non-empty slice"
			}
			return true, ""
		}
		return false, "initialised from a slice expression"
	case *ssa.MakeSlice:
		if l, ok := core.ConstInt(x.Len); !ok || l != 0 {
			return false, "initialised non-empty"
		}
		return true, ""
	case *ssa.Const:
		if x.IsNil() {
			return true, ""
		}
	case *ssa.Call:
		bi, ok := x.Call.Value.(*ssa.Builtin)
		if !ok || bi.Name() != "append" {
			return false, "assigned from a call"
		}
		*nApp++
		if !appendsMapKey(x) && !appendsFirstSeen(x) {
			return false, "appends something other than the key of a map iteration (or an element on its first sighting in a set)"
		}
		return dupFreeValue(x.Call.Args[0], seen, nApp)
	case *ssa.Phi:
		for _, e := range x.Edges {
			if ok, why := dupFreeValue(e, seen, nApp); !ok {
				return false, why
			}
		}
		return true, ""
	case *ssa.UnOp:
		if x.Op == token.MUL {
			if cell, ok := x.X.(*ssa.Alloc); ok {
				return dupFreeCell(cell, seen, nApp)
			}
		}
	}
	return false, "assigned from " + v.String()
}

// appendsFirstSeen: `if _, seen := m[e]; !seen { m[e] = …; s = append(s, e) }` — the append is reachable only through
// the miss edge of a comma-ok lookup of the appended value in a map, the value is inserted into that map before the
// next lookup can happen, and nothing is ever deleted from the map: the appended values are pairwise distinct.
func appendsFirstSeen(app *ssa.Call) bool {
	e := appendedElem(app)
	if e == nil {
		return false
	}
	fn := app.Parent()
	var lk *ssa.Lookup
	core.AllInstrs(fn, func(i ssa.Instruction) {
		if l, ok := i.(*ssa.Lookup); ok && l.CommaOk && l.Index == e {
			if _, isMap := l.X.Type().Underlying().(*types.Map); isMap {
				lk = l
			}
		}
	})
	if lk == nil {
		return false
	}
	var found ssa.Value
	for _, r := range core.Refs(lk) {
		if ex, ok := r.(*ssa.Extract); ok && ex.Index == 1 {
			found = ex
		}
	}
	if found == nil {
		return false
	}
	miss := boolEdges(fn, found, false)
	if miss.Empty() || !core.MustPass(fn, miss, app) {
		return false
	}
	// inserted on the way, never deleted
	var ins *ssa.MapUpdate
	deleted := false
	core.AllInstrs(fn, func(i ssa.Instruction) {
		switch x := i.(type) {
		case *ssa.MapUpdate:
			if x.Map == lk.X && x.Key == e {
				ins = x
			}
		case *ssa.Call:
			if b, ok := x.Call.Value.(*ssa.Builtin); ok && (b.Name() == "delete" || b.Name() == "clear") && len(x.Call.Args) > 0 && x.Call.Args[0] == lk.X {
				deleted = true
			}
		}
	})
	if ins == nil || deleted {
		return false
	}
	if core.Precedes(fn, ins, app) && core.MustPass(fn, miss, ins) {
		return true
	}
	// inserted after the append, before the lookup can run again
	cut := core.NewCuts()
	cut.AddInstr(ins)
	return !core.ReachableAvoiding(fn, app, cut, lk)
}

// overwritesPooled: instruction u, the first to touch a pooled object (aliases in vals), replaces its whole value.
func overwritesPooled(c *Ctx, u ssa.Instruction, vals map[ssa.Value]bool, depth int) bool {
	switch x := u.(type) {
	case *ssa.Store:
		return vals[x.Addr] && !vals[x.Val]
	case *ssa.Call:
		pos := -1
		n := 0
		for i, a := range x.Call.Args {
			if vals[a] {
				pos = i
				n++
			}
		}
		if n != 1 {
			return false
		}
		f := core.Callee(x.Common())
		if f == nil {
			return false
		}
		if strings.HasPrefix(f.String(), "(*math/big.Int).") {
			return pos == 0 && !bigObservers[f.Name()]
		}
		if core.InModule(f) && len(f.Blocks) > 0 && depth < 3 && pos < len(f.Params) {
			return paramOverwrittenFirst(c, f, f.Params[pos], depth+1)
		}
		if ow, known := externalMW(f, pos); known {
			return ow
		}
	}
	return false
}

// paramOverwrittenFirst: in f, every first use of parameter p (on any path from entry) overwrites it completely.
func paramOverwrittenFirst(c *Ctx, f *ssa.Function, p *ssa.Parameter, depth int) bool {
	vals := map[ssa.Value]bool{p: true}
	var uses []ssa.Instruction
	for _, r := range core.Refs(p) {
		if _, isDbg := r.(*ssa.DebugRef); isDbg {
			continue
		}
		uses = append(uses, r)
	}
	if len(uses) == 0 || len(f.Blocks) == 0 || len(f.Blocks[0].Instrs) == 0 {
		return false
	}
	entry := f.Blocks[0].Instrs[0]
	for _, u := range uses {
		cut := core.NewCuts()
		for _, w := range uses {
			if w != u {
				cut.AddInstr(w)
			}
		}
		if u != entry && !core.ReachableAvoiding(f, entry, cut, u) {
			continue
		}
		if !overwritesPooled(c, u, vals, depth) {
			return false
		}
	}
	return true
}

func appendsMapKey(app *ssa.Call) bool {
	if len(app.Call.Args) != 2 {
		return false
	}
	// varargs: slice of a [1]T alloc whose element 0 is stored with the key
	sl, ok := app.Call.Args[1].(*ssa.Slice)
	if !ok {
		return false
	}
	arr, ok := sl.X.(*ssa.Alloc)
	if !ok {
		return false
	}
	for _, r := range core.Refs(arr) {
		ia, ok := r.(*ssa.IndexAddr)
		if !ok {
			continue
		}
		for _, rr := range core.Refs(ia) {
			if st, ok := rr.(*ssa.Store); ok {
				if ex, ok := st.Val.(*ssa.Extract); ok && ex.Index == 1 {
					if nx, ok := ex.Tuple.(*ssa.Next); ok && !nx.IsString {
						if rg, ok := nx.Iter.(*ssa.Range); ok {
							if _, isMap := rg.X.Type().Underlying().(*types.Map); isMap {
								return true
							}
						}
					}
				}
			}
		}
	}
	return false
}

func RuleG1(c *Ctx) { ruleG1(c, "", 99) }

// RuleG1In restricts G1 to the spawn sites of functions whose name contains sub.
func RuleG1In(sub string, floor int) Rule { return func(c *Ctx) { ruleG1(c, sub, floor) } }

func ruleG1(c *Ctx, only string, floor int) {
	c.Rule("G1", "per-goroutine slots: a spawned function writes shared state only as (i) an element X[e] whose index derives solely from its own parameters, a loop over them, or a per-iteration cell; (i') a field of the object such an element of a duplicate-free pointer slice points to; (ii) a distinct constant index per spawn site; (iii) a channel operation; (iv) a sync/errgroup method")
	all := c.spawnSites()
	var sites []*spawnSite
	for _, s := range all {
		if only == "" || strings.Contains(core.FnName(s.top), only) {
			sites = append(sites, s)
		}
	}
	constIdx := map[string]map[int64][]string{} // root@parent -> const index -> sites
	for _, s := range sites {
		key := s.key(c)
		if s.target == nil {
			c.Und("G1", key, s.at.Pos(), "cannot resolve the spawned function")
			continue
		}
		c.Saw(core.FnName(s.parent))
		if !core.InModule(s.target) || len(s.target.Blocks) == 0 {
			c.OK("G1", key, s.at.Pos(), "spawned function is outside the module")
			continue
		}
		oc := &ownCtx{site: s, loops: map[*ssa.Function][]*core.Loop{}, seen: map[ssa.Value]bool{}}
		var facts []string
		bad := false
		for _, w := range c.writesOf(s.target) {
			ac := classifyAddr(w.addr)
			if !ac.shared {
				continue // the goroutine's own frame / fresh memory
			}
			t := w.addr.Type()
			switch {
			case isChanType(t) || w.how == "send" || w.how == "close":
				facts = append(facts, "channel "+w.how+" on "+ac.root)
				continue
			case isSyncType(t):
				facts = append(facts, "sync method on "+ac.root)
				continue
			}
			// a function-typed parameter being called is not a write; pointer parameters of the spawned
			// function that are written must be checked at the spawn's actual argument
			if p, isParam := ac.rootVal.(*ssa.Parameter); isParam && p.Parent() == s.target && s.kind == "go" {
				// substitute the actual argument
				idx := -1
				for i, q := range s.target.Params {
					if q == p {
						idx = i
					}
				}
				if idx >= 0 && idx < len(s.args) {
					aac := classifyAddr(s.args[idx])
					if !aac.shared && !isAddrOfSharedLocal(s.args[idx]) {
						continue
					}
					if isChanType(s.args[idx].Type()) {
						facts = append(facts, "channel argument")
						continue
					}
					// the actual argument itself must be an own slot of the parent's container
					if aac.firstIdx != nil {
						if k, isK := core.ConstInt(aac.firstIdx); isK {
							rk := aac.root + "@" + core.FnName(s.top)
							if constIdx[rk] == nil {
								constIdx[rk] = map[int64][]string{}
							}
							constIdx[rk][k] = append(constIdx[rk][k], key)
							facts = append(facts, fmt.Sprintf("constant slot %s[%d] via argument", aac.root, k))
							continue
						}
					}
					// &X[i] evaluated at the go statement, i the variable of the loop that spawns: a different slot per goroutine
					if aac.firstIdx != nil {
						if cl := loopOf(countedLoops(s.parent), s.at.Block()); cl != nil && cl.step != 0 && core.StripConv(aac.firstIdx) == cl.phi {
							facts = append(facts, fmt.Sprintf("slot %s[i] of the spawn loop's own variable, handed over as an argument", aac.root))
							continue
						}
					}
					bad = true
					c.Bad("G1", key, w.at.Pos(), fmt.Sprintf("goroutine writes through its parameter %s (%s at %s), whose actual argument is shared state not indexed by a per-goroutine value", p.Name(), w.how, c.P.Pos(w.at.Pos())))
					continue
				}
			}
			if fv, isFV := ac.rootVal.(*ssa.FreeVar); isFV {
				if root, k, isConst := capturedConstSlot(s, fv); isConst && loadsTo(w.addr) == 1 && !multiInstance(s.kind, s.parent, s.at) {
					rk := root + "@" + core.FnName(s.top)
					if constIdx[rk] == nil {
						constIdx[rk] = map[int64][]string{}
					}
					constIdx[rk][k] = append(constIdx[rk][k], key)
					facts = append(facts, fmt.Sprintf("constant slot %s[%d], captured as a pointer", root, k))
					continue
				}
				if slot, loads := capturedOwnSlot(s, fv), loadsTo(w.addr); slot != "" {
					if loads == 1 {
						facts = append(facts, fmt.Sprintf("own slot %s, taken by the spawning loop for this goroutine and captured as a pointer", slot))
						continue
					}
					if loads == 2 && freshThroughCapture(s.target, fv) {
						facts = append(facts, fmt.Sprintf("object freshly allocated by this goroutine into its own slot %s (captured as a pointer)", slot))
						continue
					}
				}
			}
			if ac.firstIdx == nil && ownWindow(oc, w.addr) {
				facts = append(facts, fmt.Sprintf("own window of %s (%s into a view whose lower bound is per-goroutine)", ac.root, w.how))
				continue
			}
			if ac.firstIdx == nil {
				bad = true
				c.Bad("G1", key, w.at.Pos(), fmt.Sprintf("goroutine writes shared %s directly (%s at %s): not an element of a per-goroutine slot", ac.root, w.how, c.P.Pos(w.at.Pos())))
				continue
			}
			if k, isK := core.ConstInt(ac.firstIdx); isK {
				rk := ac.root + "@" + core.FnName(s.top)
				if constIdx[rk] == nil {
					constIdx[rk] = map[int64][]string{}
				}
				constIdx[rk][k] = append(constIdx[rk][k], key)
				facts = append(facts, fmt.Sprintf("constant slot %s[%d]", ac.root, k))
				continue
			}
			// an index computed from constants alone (for j := 0; j < 256; j++) is the same for every instance of a
			// worker that runs more than once: the instances write the same elements
			if oc.own(ac.firstIdx) && !oc.perInstance(ac.firstIdx) && !perInstanceView(oc, w.addr) && multiInstance(s.kind, s.parent, s.at) {
				bad = true
				c.Bad("G1", key, w.at.Pos(), fmt.Sprintf("goroutine writes shared %s at an index (%s) that runs over the same constant range in every worker (%s at %s): the workers write the same elements", ac.root, ac.firstIdx.Name(), w.how, c.P.Pos(w.at.Pos())))
				continue
			}
			if !oc.own(ac.firstIdx) {
				bad = true
				c.Bad("G1", key, w.at.Pos(), fmt.Sprintf("goroutine writes shared %s at an index (%s) that does not derive only from its own parameters or a per-iteration cell (%s at %s): two goroutines may write the same element", ac.root, ac.firstIdx.Name(), w.how, c.P.Pos(w.at.Pos())))
				continue
			}
			if ac.derefAft && ac.slot != nil && freshInSlot(s.target, ac.slot) {
				facts = append(facts, fmt.Sprintf("object freshly allocated by this goroutine into its own slot of %s", ac.root))
				continue
			}
			if ac.derefAft {
				fv, isFV := ac.rootVal.(*ssa.FreeVar)
				if !isFV {
					bad = true
					c.Bad("G1", key, w.at.Pos(), "goroutine writes the object an element of "+ac.root+" points to, and the container cannot be shown duplicate-free")
					continue
				}
				ok, why := dupFreeSlice(fv)
				if !ok {
					bad = true
					c.Bad("G1", key, w.at.Pos(), fmt.Sprintf("goroutine writes the object that %s[i] points to, but the slice is not shown duplicate-free (%s): two goroutines may write the same object", ac.root, why))
					continue
				}
				facts = append(facts, fmt.Sprintf("pointee of own element of %s (%s)", ac.root, why))
				continue
			}
			facts = append(facts, fmt.Sprintf("own element of %s (index %s)", ac.root, ac.firstIdx.Name()))
		}
		if !bad {
			sort.Strings(facts)
			c.OK("G1", key, s.at.Pos(), uniq(facts)...)
			if len(facts) == 0 {
				c.Obs[len(c.Obs)-1].Facts = []string{"no write to shared state"}
			}
		}
	}
	// (ii) distinct constants per spawn site
	for rk, m := range constIdx {
		for k, ss := range m {
			if len(ss) > 1 && !sameSiteSet(ss) {
				c.Bad("G1", fmt.Sprintf("const-slot:%s[%d]", rk, k), 0, fmt.Sprintf("several spawn sites write the same constant slot %s[%d]: %v", rk, k, uniq(ss)))
			}
		}
	}
	c.FloorN("G1", floor, len(sites), "spawn sites")
}

func sameSiteSet(ss []string) bool {
	return len(uniq(ss)) == 1
}

// isAddrOfSharedLocal: &X[k] where X is a local array/slice of the spawning function (shared with siblings).
func isAddrOfSharedLocal(v ssa.Value) bool {
	for d := 0; d < 8; d++ {
		switch x := v.(type) {
		case *ssa.IndexAddr:
			return true
		case *ssa.FieldAddr:
			v = x.X
		default:
			return false
		}
	}
	return false
}

// ---------------------------------------------------------------------------
// G5 no shared loop variable / no parent store to captured cells after the spawn

func RuleG5(c *Ctx) {
	c.Rule("G5", "no cell captured by a spawned closure is stored by the spawning function at a point reachable from the spawn (without passing a fresh allocation of that cell)")
	n := 0
	for _, s := range c.spawnSites() {
		if s.closure == nil {
			continue
		}
		for i, b := range s.closure.Bindings {
			cell, ok := b.(*ssa.Alloc)
			if !ok || cell.Parent() != s.parent {
				continue
			}
			n++
			fv := s.target.FreeVars[i]
			key := s.key(c) + "#" + fv.Name()
			if isSyncType(cell.Type()) {
				c.OK("G5", key, s.at.Pos(), "synchronisation object")
				continue
			}
			cut := core.NewCuts()
			cut.AddInstr(cell)
			var offender *ssa.Store
			for _, st := range storesInto(cell) {
				if core.ReachableAvoiding(s.parent, s.at, cut, st) {
					offender = st
				}
			}
			if offender != nil {
				c.Bad("G5", key, offender.Pos(), fmt.Sprintf("variable %s is captured by the goroutine spawned at %s and assigned again by the parent at %s while the goroutine may run", fv.Name(), c.P.Pos(s.at.Pos()), c.P.Pos(offender.Pos())))
				continue
			}
			c.OK("G5", key, s.at.Pos(), "no parent store reachable after the spawn")
		}
	}
	c.FloorN("G5", 30, n, "captured cells")
}

// ---------------------------------------------------------------------------
// G6 pool discipline

func RuleG6(c *Ctx) {
	c.Rule("G6", "pool discipline: a value obtained from bigIntPool.Get() is never used after Put on any path, never returned, stored outside the frame, sent or captured, and is put back at most once on every path (explicit and deferred Puts together); the first thing done to it on every path from Get overwrites it completely (a big.Int setter with the object as receiver only, a whole-value store, or a module function whose first use of that parameter does), so no state travels from one user of the pool to the next")
	n := 0
	for _, top := range c.P.TopFuncs() {
		for _, fn := range core.Family(top) {
			for _, ci := range core.CallsIn(fn) {
				call, ok := ci.(*ssa.Call)
				if !ok || !core.IsMethod(core.Callee(call.Common()), "sync", "Pool", "Get") {
					continue
				}
				if core.PathOf(call.Call.Args[0]) != "g:fr.bigIntPool" && !strings.Contains(core.PathOf(call.Call.Args[0]), "Pool") {
					continue
				}
				n++
				key := fmt.Sprintf("%s:Get#%d", core.FnName(fn), n)
				// the pooled object: type-asserted value(s)
				vals := map[ssa.Value]bool{call: true}
				for changed := true; changed; {
					changed = false
					for v := range vals {
						for _, r := range core.Refs(v) {
							switch x := r.(type) {
							case *ssa.TypeAssert, *ssa.ChangeInterface, *ssa.MakeInterface, *ssa.Phi, *ssa.FieldAddr, *ssa.IndexAddr, *ssa.Slice:
								// pointers into the pooled object (and slices of a pooled array) are the pooled object
								if fa, isFA := x.(*ssa.FieldAddr); isFA && fa.X != v {
									continue
								}
								if ia, isIA := x.(*ssa.IndexAddr); isIA && ia.X != v {
									continue
								}
								if sl, isSl := x.(*ssa.Slice); isSl && sl.X != v {
									continue
								}
								if !vals[x.(ssa.Value)] {
									vals[x.(ssa.Value)] = true
									changed = true
								}
							case *ssa.Extract:
								if !vals[x] {
									vals[x] = true
									changed = true
								}
							case *ssa.Store:
								// spilled into a local cell (named/defer-spilled results, temporaries): its loads carry the value
								if a, isAl := x.Addr.(*ssa.Alloc); isAl && x.Val == v {
									for _, rr := range core.Refs(a) {
										if u, isLoad := rr.(*ssa.UnOp); isLoad && u.Op == token.MUL && !vals[u] {
											vals[u] = true
											changed = true
										}
									}
								}
							case *ssa.Call:
								// methods returning their receiver (big.Int, field elements) alias the pooled value
								if f := core.Callee(x.Common()); f != nil && len(x.Call.Args) > 0 && vals[x.Call.Args[0]] {
									if _, isPtr := x.Type().Underlying().(*types.Pointer); isPtr {
										aliases := false
										if strings.HasPrefix(f.String(), "(*math/big.Int).") && !bigObservers[f.Name()] {
											aliases = true
										} else if sm := trustSummary(c.P, f); sm != nil && sm.Ret[0] {
											aliases = true
										} else if st := c.wfxGet(); st.sums[f] != nil && st.sums[f].Ret[0] {
											aliases = true
										}
										if aliases && !vals[x] {
											vals[x] = true
											changed = true
										}
									}
								}
							}
						}
					}
				}
				var puts, deferred []ssa.Instruction
				var uses []ssa.Instruction
				var escapes []string
				for v := range vals {
					for _, r := range core.Refs(v) {
						switch x := r.(type) {
						case *ssa.Return:
							escapes = append(escapes, "returned at "+c.P.Pos(x.Pos()))
						case *ssa.Store:
							if x.Val == v {
								if a, isAlloc := x.Addr.(*ssa.Alloc); !isAlloc || a.Heap {
									escapes = append(escapes, "stored at "+c.P.Pos(x.Pos()))
								}
							}
						case *ssa.Send:
							escapes = append(escapes, "sent at "+c.P.Pos(x.Pos()))
						case *ssa.MakeClosure:
							escapes = append(escapes, "captured at "+c.P.Pos(x.Pos()))
						case *ssa.Go:
							escapes = append(escapes, "passed to a goroutine at "+c.P.Pos(x.Pos()))
						case *ssa.Defer:
							if core.IsMethod(core.Callee(x.Common()), "sync", "Pool", "Put") {
								// deferred Put runs at function exit: after every other use
								deferred = append(deferred, x)
								continue
							}
							// defer func(v T) { pool.Put(v) }(obj): the same thing through a literal
							if lit, _ := closureOf(x.Call.Value); lit != nil || func() bool { f, ok := x.Call.Value.(*ssa.Function); lit = f; return ok }() {
								onlyPut := lit != nil && len(lit.Blocks) > 0
								for pi, a := range x.Call.Args {
									if !vals[a] || lit == nil || pi >= len(lit.Params) {
										continue
									}
									for _, r := range core.Refs(lit.Params[pi]) {
										switch y := r.(type) {
										case *ssa.MakeInterface:
											for _, rr := range core.Refs(y) {
												if pc, isCall := rr.(*ssa.Call); !isCall || !core.IsMethod(core.Callee(pc.Common()), "sync", "Pool", "Put") {
													onlyPut = false
												}
											}
										case *ssa.DebugRef:
										default:
											onlyPut = false
										}
									}
								}
								if onlyPut {
									deferred = append(deferred, x)
									continue
								}
							}
							uses = append(uses, x)
						case *ssa.Call:
							if core.IsMethod(core.Callee(x.Common()), "sync", "Pool", "Put") {
								puts = append(puts, x)
								continue
							}
							uses = append(uses, x)
						case *ssa.TypeAssert, *ssa.Extract, *ssa.Phi, *ssa.ChangeInterface, *ssa.MakeInterface:
							// value plumbing
						default:
							uses = append(uses, r)
						}
					}
				}
				ok2 := len(escapes) == 0
				why := strings.Join(escapes, "; ")
				for _, p := range puts {
					for _, u := range uses {
						if core.CanReach(fn, p, u) {
							ok2 = false
							why += fmt.Sprintf(" used at %s after Put at %s;", c.P.Pos(u.Pos()), c.P.Pos(p.Pos()))
						}
					}
				}
				// at most one Put per Get on every path: an object put twice is handed to two later Get calls at once
				for i, p := range puts {
					for j, q := range puts {
						if i != j && core.CanReach(fn, p, q) {
							ok2 = false
							why += fmt.Sprintf(" put back twice on one path (%s and %s): two later Get calls can receive the same object;", c.P.Pos(p.Pos()), c.P.Pos(q.Pos()))
						}
					}
					for _, d := range deferred {
						if core.CanReach(fn, d, p) || core.CanReach(fn, p, d) {
							ok2 = false
							why += fmt.Sprintf(" put back by the deferred Put at %s and again by the Put at %s: two later Get calls can receive the same object;", c.P.Pos(d.Pos()), c.P.Pos(p.Pos()))
						}
					}
				}
				for i, d := range deferred {
					for j, e := range deferred {
						if i != j && core.CanReach(fn, d, e) {
							ok2 = false
							why += fmt.Sprintf(" two deferred Puts (%s, %s);", c.P.Pos(d.Pos()), c.P.Pos(e.Pos()))
						}
					}
				}
				// hygiene: whatever touches the object first on a path from Get overwrites it completely, so nothing a
				// previous user left in it can reach this user's result
				for _, u := range uses {
					cut := core.NewCuts()
					for _, w := range uses {
						if _, isDefer := w.(*ssa.Defer); w != u && !isDefer {
							cut.AddInstr(w)
						}
					}
					if !core.ReachableAvoiding(fn, call, cut, u) {
						continue // some other use comes first on every path
					}
					if _, isDefer := u.(*ssa.Defer); isDefer {
						continue // registering a deferred call touches nothing yet (what it does at exit is a use like any other)
					}
					if !overwritesPooled(c, u, vals, 0) {
						ok2 = false
						why += fmt.Sprintf(" first touched at %s by something that does not overwrite it completely: what a previous user of the pool left in it can be read;", c.P.Pos(u.Pos()))
					}
				}
				c.Check(ok2, "G6", key, call.Pos(), "a pooled object escapes, is used after being returned to the pool, or is returned to it twice: "+why, fmt.Sprintf("%d uses, %d Put(s), none after Put; no escape", len(uses), len(puts)))
			}
		}
	}
	c.FloorN("G6", 4, n, "sync.Pool Get sites")
}

// perInstance: the value depends on something each instance of the worker has for itself (a scalar parameter, a
// per-iteration cell of the spawning loop) — as opposed to constants and lengths only.
func (o *ownCtx) perInstance(v ssa.Value) bool {
	seen := map[ssa.Value]bool{}
	var walk func(v ssa.Value) bool
	walk = func(v ssa.Value) bool {
		if seen[v] {
			return false
		}
		seen[v] = true
		switch x := v.(type) {
		case *ssa.Parameter:
			return !pointerful(x.Type())
		case *ssa.Phi:
			for _, e := range x.Edges {
				if walk(e) {
					return true
				}
			}
		case *ssa.BinOp:
			return walk(x.X) || walk(x.Y)
		case *ssa.Convert:
			return walk(x.X)
		case *ssa.ChangeType:
			return walk(x.X)
		case *ssa.UnOp:
			if x.Op == token.MUL {
				switch a := x.X.(type) {
				case *ssa.Alloc:
					if p := core.ParamSpill(a); p != nil && !pointerful(p.Type()) {
						return true
					}
					for _, st := range storesInto(a) {
						if walk(st.Val) {
							return true
						}
					}
					return false
				case *ssa.FreeVar:
					return o.perIterationCell(a)
				}
				return false
			}
			return walk(x.X)
		}
		return false
	}
	return walk(v)
}

// multiInstance: the spawned function may run more than once concurrently: an Execute callback, or a go statement
// inside a loop of its parent.
func multiInstance(kind string, parent *ssa.Function, at ssa.Instruction) bool {
	if kind != "go" {
		return true
	}
	if parent == nil || at == nil || at.Block() == nil {
		return true
	}
	for _, l := range core.Loops(parent) {
		if l.Blocks[at.Block()] {
			return true
		}
	}
	return false
}

// perInstanceView: the element written lies in a view base[lo:...] whose lower bound is a per-instance value (the
// worker's own window of the shared slice, then indexed from 0).
func perInstanceView(o *ownCtx, addr ssa.Value) bool {
	v := addr
	for d := 0; d < 8; d++ {
		switch x := v.(type) {
		case *ssa.FieldAddr:
			v = x.X
		case *ssa.IndexAddr:
			base := x.X
			for k := 0; k < 4; k++ {
				sl, isSl := base.(*ssa.Slice)
				if !isSl {
					// a local holding the view: single definition
					if ld, isLd := base.(*ssa.UnOp); isLd && ld.Op == token.MUL {
						if cell, isCell := ld.X.(*ssa.Alloc); isCell {
							if sts := storesInto(cell); len(sts) == 1 {
								base = sts[0].Val
								continue
							}
						}
					}
					break
				}
				if sl.Low != nil && o.own(sl.Low) && o.perInstance(sl.Low) {
					return true
				}
				base = sl.X
			}
			v = x.X
		case *ssa.UnOp:
			if x.Op != token.MUL {
				return false
			}
			v = x.X
		default:
			return false
		}
	}
	return false
}

// ownWindow: the value written through is itself a view base[lo:...] of shared memory whose lower bound is a
// per-instance value of the worker (a bulk copy into the worker's own window).
func ownWindow(o *ownCtx, addr ssa.Value) bool {
	base := addr
	for k := 0; k < 4; k++ {
		sl, isSl := base.(*ssa.Slice)
		if !isSl {
			if ld, isLd := base.(*ssa.UnOp); isLd && ld.Op == token.MUL {
				if cell, isCell := ld.X.(*ssa.Alloc); isCell {
					if sts := storesInto(cell); len(sts) == 1 {
						base = sts[0].Val
						continue
					}
				}
			}
			return false
		}
		if sl.Low != nil && o.own(sl.Low) && o.perInstance(sl.Low) {
			return true
		}
		base = sl.X
	}
	return false
}

// loadsTo counts the pointer/slice-header loads on the way from an address to its root.
func loadsTo(v ssa.Value) int {
	n := 0
	for d := 0; d < 40; d++ {
		switch x := v.(type) {
		case *ssa.IndexAddr:
			v = x.X
		case *ssa.FieldAddr:
			v = x.X
		case *ssa.Slice:
			v = x.X
		case *ssa.ChangeType:
			v = x.X
		case *ssa.Convert:
			v = x.X
		case *ssa.UnOp:
			if x.Op != token.MUL {
				return n
			}
			n++
			v = x.X
		default:
			return n
		}
	}
	return n
}

// capturedOwnSlot: the captured variable is a local of the spawning loop's body, assigned once, holding &X[i] with i
// that loop's own variable: a different slot for every goroutine spawned. Returns a description of the slot, or "".
func capturedOwnSlot(s *spawnSite, fv *ssa.FreeVar) string {
	if s.parent == nil || s.target == nil || s.at == nil {
		return ""
	}
	k := -1
	for i, f := range s.target.FreeVars {
		if f == fv {
			k = i
		}
	}
	if k < 0 {
		return ""
	}
	var mc *ssa.MakeClosure
	core.AllInstrs(s.parent, func(i ssa.Instruction) {
		if m, ok := i.(*ssa.MakeClosure); ok && m.Fn == ssa.Value(s.target) {
			mc = m
		}
	})
	if mc == nil || k >= len(mc.Bindings) {
		return ""
	}
	cell, ok := mc.Bindings[k].(*ssa.Alloc)
	if !ok {
		return ""
	}
	sts := storesInto(cell)
	if len(sts) != 1 {
		return ""
	}
	cl := loopOf(countedLoops(s.parent), mc.Block())
	if cl == nil || cl.step == 0 || !cl.loop.Blocks[cell.Block()] || !cl.loop.Blocks[sts[0].Block()] {
		return ""
	}
	// the cell must not be handed to anything but its store and closures of this loop body
	ia, ok := sts[0].Val.(*ssa.IndexAddr)
	if !ok {
		return ""
	}
	idx := core.StripConv(ia.Index)
	if idx != cl.phi {
		// `i := i` copy of the loop variable made in the same iteration
		ld, isLd := idx.(*ssa.UnOp)
		if !isLd || ld.Op != token.MUL {
			return ""
		}
		ic, isCell := ld.X.(*ssa.Alloc)
		if !isCell || !cl.loop.Blocks[ic.Block()] {
			return ""
		}
		ists := storesInto(ic)
		if len(ists) != 1 || core.StripConv(ists[0].Val) != cl.phi {
			return ""
		}
	}
	return classifyAddr(ia.X).root + "[i]"
}

// freshThroughCapture: the spawned function stores a freshly made object through the captured pointer itself
// (*p = make(...)) before using what the slot holds.
func freshThroughCapture(target *ssa.Function, fv *ssa.FreeVar) bool {
	found := false
	for _, f := range core.Family(target) {
		core.AllInstrs(f, func(i ssa.Instruction) {
			st, ok := i.(*ssa.Store)
			if !ok {
				return
			}
			ld, isLd := st.Addr.(*ssa.UnOp)
			if !isLd || ld.Op != token.MUL || ld.X != ssa.Value(fv) {
				return
			}
			switch v := st.Val.(type) {
			case *ssa.MakeSlice, *ssa.Alloc, *ssa.MakeMap:
				found = true
			case *ssa.Slice:
				if _, isAlloc := v.X.(*ssa.Alloc); isAlloc {
					found = true
				}
			}
		})
	}
	return found
}

// capturedConstSlot: the captured variable is a local assigned once with &X[k], k a constant.
func capturedConstSlot(s *spawnSite, fv *ssa.FreeVar) (string, int64, bool) {
	if s.parent == nil || s.target == nil {
		return "", 0, false
	}
	k := -1
	for i, f := range s.target.FreeVars {
		if f == fv {
			k = i
		}
	}
	var mc *ssa.MakeClosure
	core.AllInstrs(s.parent, func(i ssa.Instruction) {
		if m, ok := i.(*ssa.MakeClosure); ok && m.Fn == ssa.Value(s.target) {
			mc = m
		}
	})
	if k < 0 || mc == nil || k >= len(mc.Bindings) {
		return "", 0, false
	}
	cell, ok := mc.Bindings[k].(*ssa.Alloc)
	if !ok {
		return "", 0, false
	}
	sts := storesInto(cell)
	if len(sts) != 1 {
		return "", 0, false
	}
	ia, ok := sts[0].Val.(*ssa.IndexAddr)
	if !ok {
		return "", 0, false
	}
	c, isK := core.ConstInt(ia.Index)
	if !isK {
		return "", 0, false
	}
	return classifyAddr(ia.X).root, c, true
}
