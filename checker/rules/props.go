package rules

import "strings"

func spec(expl string, rules ...Rule) *Spec {
	return &Spec{Rules: rules, Explanation: expl, Trusted: commonTrusted, Assumptions: commonAssumptions}
}

func nameHas(subs ...string) fnFilter {
	return func(n string) bool {
		for _, s := range subs {
			if strings.Contains(n, s) {
				return true
			}
		}
		return false
	}
}

func init() {
	Props["C02"] = spec("static decision of the structural soundness clauses (DESIGN 4 C02): accept only from the group-equation comparison (F5), shape checks dominate acceptance and the indexings they protect (F6), every statement/proof component is absorbed with its own index before acceptance (F3,F4), prover/verifier/spec schedules agree (F1,F2), Equal rejects the all-zero pseudo-point on all 16 outcomes (E1,E4). The verification equation itself is not decided.",
		RuleF1F2(), RuleF3, RuleF4(), RuleF5, RuleF6, RuleE1)
	Props["C13"] = spec("static may-write analysis (DESIGN 3.1): for every function of the module, the caller-visible locations it may write are within tables/purity.tsv; globals written only by initialisers; configuration fields only by constructors; commitments only through BatchNormalize. Value-level clause ('Cs stay Equal') not decided.",
		RuleW1(nil, 90), RuleW2(30), RuleW3, RuleW4)
	Props["C14"] = spec("static decision of the transcript's structural clauses (DESIGN 4 C14): unconditional complete appends, challenge hash-chain ordering and dataflow, canonical encodings absorbed, protocol label first (F7); transcript methods write only their receiver, never labels/messages (W1). SHA-256 and the numeric reduction are not decided.",
		RuleF7, RuleW1(nameHas("common.Transcript", "common.NewTranscript"), 5))
}
