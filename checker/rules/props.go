package rules

import "strings"

func spec(expl string, rules ...Rule) *Spec {
	return &Spec{Rules: rules, Explanation: expl, Trusted: commonTrusted, Assumptions: commonAssumptions}
}

func nameHas(subs ...string) fnFilter {
	return func(n string) bool {
		for _, s := range subs {
			if strings.Contains(n, s) {
				return true
			}
		}
		return false
	}
}

var serdeFns = [][3]string{{"", "MultiProof", "Write"}, {"ipa", "IPAProof", "Write"}, {"", "MultiProof", "Read"}, {"ipa", "IPAProof", "Read"}, {"common", "", "ReadPoint"}, {"common", "", "ReadScalar"}}
var decoderFns = [][3]string{{"banderwagon", "Element", "setBytes"}, {"banderwagon", "Element", "SetBytesUncompressed"}, {"banderwagon", "Element", "SetBytes"}, {"common", "", "ReadPoint"}}

func init() {
	Props["C12"] = spec("static decision of the structural clauses of concurrent use (DESIGN 4 C12).",
		RuleG1, RuleG2, RuleG3, RuleG4, RuleG5, RuleG6, RuleG7, RuleW2(30), RuleW3)
	Props["C20"] = spec("static decision of the synchronisation clauses of the executor only (DESIGN 4 C20): Add before each spawn, one spawn per iteration, work called exactly once with per-iteration range cells, Done after work, Wait post-dominating entry (G7), no parent store to captured cells (G5), callers size result channels by the same value they pass as the worker limit (G3). The range arithmetic (disjoint cover of [0,n), at most min(n,m) invocations) is NOT decided.",
		RuleG7, RuleG5, RuleG3)
	Props["C03"] = spec("static decision of the structural determinism/conformance clauses (DESIGN 4 C03): Fiat-Shamir labels and absorb order equal the specification on both sides (F1,F2), openings absorbed with their own index (F4), canonical encodings absorbed and transcript chaining (F7), serialisation layout D|L|R|a with canonical encoders (D5), results merged in completion order only by commutative-associative combiners, every worker result merged exactly once (G4,G2,G3), no call writes state a later call reads (W2,W3). Byte-for-byte equality with an independent implementation is not decided.",
		RuleF1F2(), RuleF4(), RuleF7, RuleD5, RuleG4, RuleG2, RuleG3, RuleW2(30), RuleW3)
	Props["TMP"] = spec("scratch", RuleE2E3, RuleU3, RuleL1, RuleN1N2, RuleU1, RuleZ1, RuleB1, RuleP1, RuleBatchIdx, RuleY1Y2, RuleQ1Q2, RuleS1, RuleK5)
	Props["C09"] = spec("static decision of the structural clauses of the variable-base MSM (DESIGN 4 C09): points and scalars stay paired through every wrapper, split and chunk (M1); Montgomery flag and task count reach the inner routine (M2); every selectable window width has an implementation with matching constants and array sizes (M3); every chunk is produced exactly once and consumed exactly once, chunk j through channel j (M4); bucket/table indexes v-1 are guarded (M5); length mismatch is an error before any slicing (LG); the sizing loop terminates (T1); goroutines write only their own slots, are joined, channels fit (G1-G5); inputs are not written (W1). The bucket arithmetic and digit recoding are not decided.",
		RuleM1, RuleM1b, RuleM2, RuleM3, RuleM4, RuleM5, RuleM8, RuleT1, RuleLG([][4]string{{"bandersnatch", "MultiExp", "points", "scalars"}, {"ipa", "commit", "groupElements", "polynomial"}}), RuleG1, RuleG2, RuleG3, RuleG4, RuleG5, RuleW1(nameHas("bandersnatch.msm", "bandersnatch.MultiExp", "bandersnatch.partitionScalars", "banderwagon.Element).MultiExp", "ipa.MultiScalar", "ipa.commit", "batchProjToAffine"), 30))
	Props["C15"] = spec("static decision of the structural clauses of scalar-field arithmetic (DESIGN 4 C15): every modulus-derived constant equals the value computed from the decimal modulus (K1), limb k meets limb k in every carry chain, cascade and Montgomery round (K2), operands are not written (W1). Numeric correctness of the algorithms is not decided.",
		RuleK1K2, RuleW1(nameHas("bandersnatch/fr."), 40))
	Props["C06"] = spec("static decision of the decoder's structural clauses (DESIGN 4 C06): no untrusted entry point reaches an unchecked or reducing decoder (D1, D3); on the untrusted path success is dominated by exact length, canonical x, on-curve, subgroup test on the same x, and y-bytes equality (D2); the subgroup decision accepts exactly Legendre=+1 of 1-a*x^2 (D4); errors are propagated (D7); decoders do not write their buffer (W1). Square-root and Legendre arithmetic not decided.",
		RuleD1, RuleD2D3, RuleD4("legendre"), RuleD7(decoderFns, 6), RuleD8([][3]string{{"banderwagon", "Element", "setBytes"}, {"banderwagon", "Element", "SetBytesUncompressed"}}), RuleW1(nameHas("banderwagon.Element).SetBytes", "banderwagon.Element).setBytes", "common.Read", "subgroupCheck", "GetPointFromX", "computeY", "SqrtPrecomp"), 8))
	Props["C10"] = spec("static decision of the (de)serialisation structure (DESIGN 4 C10): reader and writer agree on field order, counts and encoding kinds and with the protocol constants (D5); every point goes through the validating decoder and the scalar through the canonical one whose decision accepts exactly values < r (D1, D4); the EOF probe constrains the byte count (D6); every error on the read and write paths is tested and returned (D7); Write does not modify the proof (W1). Value-level round trip not decided.",
		RuleD1, RuleD4("canonical"), RuleD5, RuleD6, RuleD7(serdeFns, 9), RuleD8([][3]string{{"", "MultiProof", "Read"}, {"ipa", "IPAProof", "Read"}}), RuleW1(nameHas("MultiProof).", "IPAProof).", "common.Read"), 8))
	Props["C16"] = spec("static decision of the scalar-encoding structure (DESIGN 4 C16): no decoder writes the slice it is given (W1); the canonical decoder accepts exactly Cmp(value, r) = -1 on the integer built from the input (D4); SetBigInt's fast path / zero / reduce decision is exhaustive and correct on all 9 outcomes (D4). Mod and Montgomery arithmetic not decided.",
		RuleW1(nameHas("fr.Element).Set", "fr.Element).set", "common.ReadScalar", "fr.Element).Bytes", "fr.Element).Marshal"), 10), RuleD4("canonical", "setbigint"), RuleK4, RuleK1K2)
	Props["C02"] = spec("static decision of the structural soundness clauses (DESIGN 4 C02): accept only from the group-equation comparison (F5), shape checks dominate acceptance and the indexings they protect (F6), every statement/proof component is absorbed with its own index before acceptance (F3,F4), prover/verifier/spec schedules agree (F1,F2), Equal rejects the all-zero pseudo-point on all 16 outcomes (E1,E4). The verification equation itself is not decided.",
		RuleF1F2(), RuleF3, RuleF4(), RuleF5, RuleF6, RuleF7, RuleE1, RuleK6)
	Props["C13"] = spec("static may-write analysis (DESIGN 3.1): for every function of the module, the caller-visible locations it may write are within tables/purity.tsv; globals written only by initialisers; configuration fields only by constructors; commitments only through BatchNormalize. Value-level clause ('Cs stay Equal') not decided.",
		RuleW1(nil, 90), RuleW2(30), RuleW3, RuleW4)
	Props["C14"] = spec("static decision of the transcript's structural clauses (DESIGN 4 C14): unconditional complete appends, challenge hash-chain ordering and dataflow, canonical encodings absorbed, protocol label first (F7); transcript methods write only their receiver, never labels/messages (W1). SHA-256 and the numeric reduction are not decided.",
		RuleF7, RuleW1(nameHas("common.Transcript", "common.NewTranscript"), 5))
}
