package rules

func init() {
	Props["C13"] = &Spec{
		Rules:       []Rule{RuleW1(nil, 90), RuleW2(30), RuleW3, RuleW4},
		Explanation: "static may-write analysis (DESIGN 3.1): for every function of the module, the caller-visible locations it may write are within tables/purity.tsv; globals written only by initialisers; configuration fields only by constructors; commitments only through BatchNormalize. Value-level clause ('Cs stay Equal') not decided.",
		Trusted:     commonTrusted,
		Assumptions: commonAssumptions,
	}
}
