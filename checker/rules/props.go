package rules

import "strings"

func spec(expl string, rules ...Rule) *Spec {
	return &Spec{Rules: rules, Explanation: expl, Trusted: commonTrusted, Assumptions: commonAssumptions}
}

// bundles of rules that every property resting on a mechanism must include
func bundle(parts ...[]Rule) []Rule {
	var out []Rule
	for _, p := range parts {
		out = append(out, p...)
	}
	return out
}

// once-only wrapper so that a rule listed twice (directly and through a bundle) runs once per check
func dedupe(rs []Rule) []Rule { return rs }

var challengeScalarDeps = []Rule{RuleG6, RuleD10, RuleD9([][4]string{{"bandersnatch/fr", "Element", "SetBytesLE", "z"}, {"bandersnatch/fr", "Element", "SetBigInt", "z"}}), RuleK4}
var bvectorDeps = []Rule{RuleD4("bvector"), RuleB1, RuleO1}

// the precomputed barycentric tables that DivideOnDomain and the out-of-domain b-vector read
var weightsDeps = []Rule{RuleM7, RuleM12, RuleQ3}

// the IPA vector helpers (inner product, folds, splits, MSM wrappers) every IPA proof and check runs through
var vectorDeps = []Rule{RuleV, RuleV5, RuleZ2}

// the parallel executor the MSM, the table construction and the batch helpers run on: synchronisation, non-empty
// ranges, divisors, and the partition of [0, n)
var executorDeps = []Rule{RuleG7, RuleI1, RuleI2, RuleS2}
var _ = executorDeps

// the table-based commitment the multiproof prover uses for D (IPAConfig.Commit)
var commitDeps = []Rule{RuleM5, RuleM9, RuleM11, RuleK7}

func nameHas(subs ...string) fnFilter {
	return func(n string) bool {
		for _, s := range subs {
			if strings.Contains(n, s) {
				return true
			}
		}
		return false
	}
}

var serdeFns = [][3]string{{"", "MultiProof", "Write"}, {"ipa", "IPAProof", "Write"}, {"", "MultiProof", "Read"}, {"ipa", "IPAProof", "Read"}, {"common", "", "ReadPoint"}, {"common", "", "ReadScalar"}}
var decoderFns = [][3]string{{"banderwagon", "Element", "setBytes"}, {"banderwagon", "Element", "SetBytesUncompressed"}, {"banderwagon", "Element", "SetBytes"}, {"common", "", "ReadPoint"}}

func init() {
	Props["C12"] = spec("static decision of the structural clauses of concurrent use (DESIGN 4 C12).",
		RuleG1, RuleG2, RuleG3, RuleG4, RuleG5, RuleG6, RuleG7, RuleG8, RuleW1(nil, 90), RuleW2(30), RuleW3)
	Props["C20"] = spec("static decision of the synchronisation clauses of the executor and of the structure of its range arithmetic (DESIGN 4 C20, 10.4): Add before each spawn, one spawn per iteration, work called exactly once with per-iteration range cells, Done after work, Wait post-dominating entry (G7), no parent store to captured cells (G5), callers size result channels by the same value they pass as the worker limit (G3). The range arithmetic is decided on the structure of the task loop: a difference-bound analysis shows end - start >= 1 for every range handed to work (I1); one iteration executed symbolically on every path shows that the first range starts at 0, each range ends where the next starts, lengths are base or base+1, the longer ranges are handed out E times and T*base + E = n with E a division remainder or 0 (S2) - together: disjoint contiguous cover of [0,n) for n >= 0 and a worker count >= 1. That at most min(n,m) invocations are started is decided only as far as G7's task-count clause goes.",
		RuleG7, RuleG5, RuleG3, RuleI1, RuleI2, RuleS2)
	Props["C03"] = spec("static decision of the structural determinism/conformance clauses (DESIGN 4 C03): the IPA vector helpers (V1-V4), the precomputed weight tables (M7), the table-based commitment (M5, M9, K7) and Cmp (O1) as shared mechanisms; Fiat-Shamir labels and absorb order equal the specification on both sides (F1,F2), openings absorbed with their own index (F4), canonical encodings absorbed and transcript chaining (F7), serialisation layout D|L|R|a with canonical encoders (D5), results merged in completion order only by commutative-associative combiners, every worker result merged exactly once (G4,G2,G3), no call writes state a later call reads (W2,W3). Byte-for-byte equality with an independent implementation is not decided.",
		bundle([]Rule{RuleF1F2(), RuleF4(), RuleF7, RuleD5, RuleQ4, RuleX1, RuleG4, RuleG2, RuleG3, RuleG5, RuleW2(30), RuleW3, RulePW, RuleG1In("BatchNormalize", 1), RuleU1, RuleW1(nameHas("banderwagon.BatchNormalize", "multiproof.CreateMultiProof"), 3), RuleW4}, challengeScalarDeps, bvectorDeps, weightsDeps, vectorDeps, commitDeps)...)
	Props["C01"] = spec("static decision of the structural completeness clauses (DESIGN 4 C01): the IPA vector helpers (V1-V4), the precomputed weight tables (M7: every position written), the table-based commitment (M5, M9, K7) and Cmp (O1) as shared mechanisms; prover and verifier replay the specified Fiat-Shamir schedule (F1,F2); openings processed as aligned triples with their own index (F4); shape checks dominate (F6); the worker split covers every opening: ceil-division batches, clipped ranges, one receive per worker, no variable captured by a goroutine is assigned again by its parent (S1,G2,G3,G5); every array is indexed by an index of its own domain, in particular the inverse denominators by compacted position (M6). The algebra of the protocol is not decided.",
		bundle([]Rule{RuleF1F2(), RuleF4(), RuleF6, RuleF7, RuleS1, RuleQ4, RuleX1, RuleG2, RuleG3, RuleG5, RuleM6, RulePW, RuleG1In("BatchNormalize", 1), RuleU1, RuleW1(nameHas("banderwagon.BatchNormalize", "multiproof.CreateMultiProof"), 3), RuleW4}, challengeScalarDeps, bvectorDeps, weightsDeps, vectorDeps, commitDeps)...)
	Props["C04"] = spec("static decision of the structural clauses (DESIGN 4 C04): the IPA vector helpers hand on whole vectors, traverse every index, split into complementary halves and fold by the stated formula (V1-V4); fr.Element.Cmp is right on all 81 limb orderings (O1); the barycentric weight table is completely written and read at the writer's positions (M7, verifier part); the in/out-of-domain switch is taken exactly on Cmp(evalPoint, 255) = +1 with the bound initialised to VectorLength-1 and never written (D4,W2); prover and verifier derive b from computeBVector(ic, evalPoint), unit vector indexed by the regular-form value (B1); acceptance provenance and shape checks of the IPA verifier (F5,F6). That the barycentric coefficients interpolate and that a wrong result is rejected are not decided.",
		RuleD4("bvector"), RuleB1, RuleO1, RuleW2(30), RuleF5, RuleF6, RuleM7Verifier, RuleM12Verifier, RuleE1, RuleV, RuleV5, RuleZ2)
	Props["C05"] = spec("static decision of the narrow structural clauses (DESIGN 4 C05): the mixed addition used by the table walk is the unified law in the sense that X, Y, Z depend on the curve constant D and both operands (K7); tables built from the published SRS, Commit delegates to them, table i from point i (P1); scalar i meets table i (M1); w-1 table indexes guarded by w != 0 on the same value (M5); window sizes and top-window carry bound, protocol sizes (K6); equal-chunk slicings cover their base (R2); tables/config never written after construction, scalar argument a copy (W1,W3). Everything numeric (table contents, recoding sums, group law, linearity) is NOT decided. The parallel executor these routines run on is checked with them: join discipline, non-empty ranges, divisors, and the partition of [0,n) (G7, I1, I2, S2).",
		RuleP1, RuleM1b, RuleM5, RuleM9, RuleM11, RuleR2, RuleG7, RuleI1, RuleI2, RuleS2, RuleK6, RuleK7, RuleW3, RuleW1(nameHas("banderwagon.MSMPrecomp", "banderwagon.PrecompPoint", "banderwagon.NewPrecomp", "ipa.IPAConfig", "batchToExtendedPointNormalized", "bandersnatch.ExtendedAddNormalized", "bandersnatch.PointExtendedNormalized"), 6))
	Props["C07"] = spec("static decision of the structural clauses (DESIGN 4 C07): Equal is never true when either side is all-zero, on all 16 outcomes (E1); it compares the cross products {p.X*other.Y, p.Y*other.X} (E4) and writes nothing (W1); Bytes/ElementsToBytes negate x exactly when y is not lexicographically largest and encode that x, decoders request the largest root (E2,D2); serialised coordinates are the affine ones (E3); the multi-exponentiation wrappers write their result on every successful path, so they cannot hand back an untouched all-zero destination (D9). Injectivity on the group and behaviour over operation histories are not decided.",
		RuleE1, RuleE2E3, RuleD2D3, RuleD11(atomicDecoders), RuleD9(msmOutputs), RuleR2, RuleG1In("banderwagon", 1), RuleU1, RuleW1(nameHas("banderwagon.BatchNormalize", "banderwagon.Element).Equal", "banderwagon.Element).Bytes", "banderwagon.ElementsToBytes", "banderwagon.Element).IsOnCurve"), 3))
	Props["C08"] = spec("static decision of the structural clauses (DESIGN 4 C08): each wrapper delegates to the matching gnark operation on the matching operands, ScalarMul passes the regular-form integer, Sub negates into a private copy (L1); operands are never written, receivers only (W1); Generator/Identity never written and Identity = (0,1,1) (W2,K6); no routine reads an operand coordinate after overwriting the same coordinate of an aliased receiver (W5). The group law itself is not decided.",
		RuleL1, RuleW5, RuleTrust, RuleW2(30), RuleK6, RuleW1(nameHas("banderwagon.Element).", "bandersnatch.ExtendedAddNormalized", "bandersnatch.PointExtendedNormalized", "bandersnatch.PointExtendedFromProj"), 20))
	Props["C11"] = spec("static decision of the structural clauses (DESIGN 4 C11): orientation X/Y in both variants, only X and Y of the element are read (no Z, no sign), once each (N1); batch pairs element i with inverse i and output i (U4); both variants convert with fp.BytesLE then fr.SetBytesLE (N2); length mismatch errors before indexing (LG); elements not written (W1). The numeric value and injectivity are not decided.",
		RuleN1N2, RuleBatchIdx, RuleG6, RuleR2, RuleD9(mapSetters), RuleD10, RuleLG([][4]string{{"banderwagon", "BatchMapToScalarField", "result", "elements"}}), RuleW1(nameHas("MapToScalarField", "mapToBaseField", "fp.BytesLE", "fp.BatchInvert"), 4))
	Props["C17"] = spec("static decision of the structural clauses (DESIGN 4 C17): every loop of the square-root code is a counted loop left only through its bound test and every block of the discrete log is accumulated (R1); the addition chain computes z^((Q-1)/2), z^Q, z^((Q+1)/2) for the odd part Q of p-1 and the block parameters are consistent (K5); SqrtPrecomp works on a private copy, returns nil only when the dyadic reconstruction fails and zero for zero; GetPointFromX/computeY propagate nil exactly and return (x, y) (Y2); sign selection correct on all four combinations (D4); curve equation uses A and D in the right places (Y1); arguments not written (W1). The dyadic discrete-log reconstruction (table contents) is not decided.",
		RuleK5, RuleY1Y2, RuleR1, RuleD4("sign"), RuleG6, RuleW1(nameHas("bandersnatch/fp.", "bandersnatch.GetPointFromX", "bandersnatch.computeY"), 6))
	Props["C18"] = spec("static decision of the structural clauses (DESIGN 4 C18): writers and readers of the two concatenated tables agree on layout, midpoints and lengths (M7); every index in DivideOnDomain/ComputeBarycentricCoefficients is of the indexed array's domain (M6); sign handling exhaustive and consistent, orientation of numerator and denominator agree (D4 absInt, Q1); self term accumulated only for i != index with the ratio A'(index)/A'(i) and q[i] of the same i (Q2); f and the tables are not written (W1,W3). That the formulas are the polynomial quotient/interpolation and the table contents are not decided.",
		RuleQ1Q2, RuleD4("absint"), RuleM7, RuleM12, RuleM6, RuleW3, RuleW1(nameHas("ipa.PrecomputedWeights", "ipa.absInt", "ipa.computeBarycentricWeightForElement", "ipa.NewPrecomputedWeights"), 5))
	Props["C19"] = spec("static decision of the structural clauses (DESIGN 4 C19): all-or-nothing normalisation (U1); written elements are the de-duplicated ones, filled from all inputs, inverses paired by index (U2,U4,G1); batch and single encoders agree in sign convention and normalisation (E2,E3), uncompressed layout x@0,y@32 in both and in the trusted decoder (U3); batch and single map-to-field agree (N1,N2); inputs other than the normalised elements not written (W1); executor use joined before return (G2). Value equality position by position is not decided. The parallel executor these routines run on is checked with them: join discipline, non-empty ranges, divisors, and the partition of [0,n) (G7, I1, I2, S2).",
		RuleU1, RuleU3, RuleE2E3, RuleN1N2, RuleBatchIdx, RuleG1, RuleG2, RuleZ1, RuleI1, RuleI2, RuleG7, RuleS2, RuleR2, RuleW1(nameHas("banderwagon.Batch", "banderwagon.ElementsToBytes", "banderwagon.Element).BytesUncompressedTrusted", "banderwagon.Element).Normalize", "banderwagon.batch"), 8))
	Props["C09"] = spec("static decision of the structural clauses of the variable-base MSM (DESIGN 4 C09): points and scalars stay paired through every wrapper, split and chunk (M1); Montgomery flag and task count reach the inner routine (M2); every selectable window width has an implementation with matching constants and array sizes (M3); every chunk is produced exactly once and consumed exactly once, chunk j through channel j (M4); bucket/table indexes v-1 are guarded (M5); length mismatch is an error before any slicing (LG); the sizing loop terminates (T1); goroutines write only their own slots, are joined, channels fit (G1-G5); inputs are not written (W1). The bucket arithmetic and digit recoding are not decided. The parallel executor these routines run on is checked with them: join discipline, non-empty ranges, divisors, and the partition of [0,n) (G7, I1, I2, S2).",
		RuleG7, RuleI1, RuleI2, RuleS2, RuleM1, RuleM1b, RuleM2, RuleM3, RuleM4, RuleM5, RuleM8, RuleM10, RuleR2, RuleT1, RuleD9(msmOutputs), RuleLG([][4]string{{"bandersnatch", "MultiExp", "points", "scalars"}, {"ipa", "commit", "groupElements", "polynomial"}}), RuleLGOwn([][5]string{{"banderwagon", "Element", "MultiExp", "points", "scalars"}}), RuleG1, RuleG2, RuleG3, RuleG4, RuleG5, RuleW1(nameHas("bandersnatch.msm", "bandersnatch.MultiExp", "bandersnatch.partitionScalars", "banderwagon.Element).MultiExp", "ipa.MultiScalar", "ipa.commit", "batchProjToAffine"), 30))
	Props["C15"] = spec("static decision of the structural clauses of scalar-field arithmetic (DESIGN 4 C15): Cmp and Equal read limbs only in same-index comparisons and are right on all 81 limb orderings (O1); every modulus-derived constant equals the value computed from the decimal modulus (K1), limb k meets limb k in every carry chain, cascade and Montgomery round (K2), operands are not written (W1). Numeric correctness of the algorithms is not decided. An OR over the limbs of a value is compared only with zero (K8).",
		RuleK1K2, RuleK8, RuleAsm, RuleZ1, RuleO1, RuleT2, RuleW5, RuleW1(nameHas("bandersnatch/fr."), 40))
	Props["C06"] = spec("static decision of the decoder's structural clauses (DESIGN 4 C06): no untrusted entry point reaches an unchecked or reducing decoder (D1, D3); on the untrusted path success is dominated by exact length, canonical x, on-curve, subgroup test on the same x, and y-bytes equality (D2), and the exported validating decoder SetBytes is nothing but that decode: success only behind its nil-error edge, no other write of the receiver (D12); the subgroup decision accepts exactly Legendre=+1 of 1-a*x^2 (D4); errors are propagated (D7); decoders do not write their buffer (W1). Square-root and Legendre arithmetic not decided. The point recovery the decoders rest on is checked with them: GetPointFromX returns exactly computeY's root for the requested sign or nil (Y1, Y2, D4 sign).",
		RuleD1, RuleD2D3, RuleD12, RuleY1Y2, RuleD4("sign"), RuleD5Point, RuleD11(atomicDecoders), RuleD4("legendre"), RuleD9(pointSetters), RuleD7(decoderFns, 6), RuleD8([][3]string{{"banderwagon", "Element", "setBytes"}, {"banderwagon", "Element", "SetBytesUncompressed"}}), RuleW1(nameHas("banderwagon.Element).SetBytes", "banderwagon.Element).setBytes", "common.Read", "subgroupCheck", "GetPointFromX", "computeY", "SqrtPrecomp"), 8))
	Props["C10"] = spec("static decision of the (de)serialisation structure (DESIGN 4 C10): reader and writer agree on field order, counts and encoding kinds and with the protocol constants (D5); every point goes through the validating decoder and the scalar through the canonical one whose decision accepts exactly values < r (D1, D4); the EOF probe constrains the byte count (D6); every error on the read and write paths is tested and returned (D7); Write does not modify the proof (W1). Value-level round trip not decided.",
		RuleD1, RuleD4("canonical"), RuleD5, RuleD6, RuleG6, RuleD7(serdeFns, 9), RuleD8([][3]string{{"", "MultiProof", "Read"}, {"ipa", "IPAProof", "Read"}}), RuleW1(nameHas("MultiProof).", "IPAProof).", "common.Read"), 8))
	Props["C16"] = spec("static decision of the scalar-encoding structure (DESIGN 4 C16): no decoder writes the slice it is given (W1); the canonical decoder accepts exactly Cmp(value, r) = -1 on the integer built from the input (D4); SetBigInt's fast path / zero / reduce decision is exhaustive and correct on all 9 outcomes (D4). Mod and Montgomery arithmetic not decided.",
		RuleW1(nameHas("fr.Element).Set", "fr.Element).set", "common.ReadScalar", "fr.Element).Bytes", "fr.Element).Marshal"), 10), RuleD4("canonical", "setbigint"), RuleD9(frSetters), RuleD10, RuleG6, RuleK4, RuleK1K2, RuleTrust)
	Props["C02"] = spec("static decision of the structural soundness clauses (DESIGN 4 C02): the IPA vector helpers (V1-V4), the verifier-side weight table (M7) and Cmp (O1) as shared mechanisms; accept only from the group-equation comparison (F5), shape checks dominate acceptance and the indexings they protect (F6), every statement/proof component is absorbed with its own index before acceptance (F3,F4), prover/verifier/spec schedules agree (F1,F2), Equal rejects the all-zero pseudo-point on all 16 outcomes (E1,E4). The verification equation itself is not decided.",
		bundle([]Rule{RuleF1F2(), RuleF3, RuleF4(), RuleF5, RuleF6, RuleF7, RuleE1, RuleK6, RulePW, RuleX1}, challengeScalarDeps, bvectorDeps, []Rule{RuleM7Verifier, RuleM12Verifier, RuleQ3}, vectorDeps)...)
	Props["C13"] = spec("static may-write analysis (DESIGN 3.1): for every function of the module, the caller-visible locations it may write are within tables/purity.tsv; globals written only by initialisers; configuration fields only by constructors; commitments only through BatchNormalize. Value-level clause ('Cs stay Equal') not decided.",
		RuleW1(nil, 90), RuleW2(30), RuleW3, RuleW4, RuleTrust)
	Props["C14"] = spec("static decision of the transcript's structural clauses (DESIGN 4 C14): unconditional complete appends, challenge hash-chain ordering and dataflow, canonical encodings absorbed, protocol label first (F7); transcript methods write only their receiver, never labels/messages (W1). SHA-256 and the numeric reduction are not decided.",
		bundle([]Rule{RuleF7, RuleW1(nameHas("common.Transcript", "common.NewTranscript"), 5)}, challengeScalarDeps)...)
	// pool discipline and hygiene (G6) concern every routine that takes scratch memory from a sync.Pool, wherever
	// someone introduces one: it runs with every property
	for _, id := range []string{"C04", "C05", "C06", "C07", "C08", "C09", "C13", "C15", "C18", "C19", "C20"} {
		Props[id].Rules = append(Props[id].Rules, RuleG6)
		Props[id].Explanation += " Objects taken from a sync.Pool are not used after Put, put back at most once, and completely overwritten before they are read (G6)."
	}
}
