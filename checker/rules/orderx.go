package rules

// O1 — limb-wise comparisons decided over the finite set of limb orderings.
//
// fr.Element.Cmp and fr.Element.Equal touch the limbs of their operands only through same-index
// comparisons. Their result is therefore a function of the 3^4 orderings (z[i] <,=,> x[i]), and the
// rule evaluates the control-flow graph on every one of them.

import (
	"fmt"
	"go/token"
	"strings"

	"golang.org/x/tools/go/ssa"

	"verif/checker/core"
)

type limbRef struct {
	who  int       // 0 = receiver, 1 = argument
	idx  int64     // constant index, or -1
	idxV ssa.Value // the index value (a loop variable when not constant)
}

func (l limbRef) sameIndex(o limbRef) bool {
	if l.idx >= 0 || o.idx >= 0 {
		return l.idx == o.idx
	}
	return core.StripConv(l.idxV) == core.StripConv(o.idxV)
}

func (l limbRef) String() string {
	if l.idx >= 0 {
		return fmt.Sprint(l.idx)
	}
	return l.idxV.Name()
}

// limbCells: which values denote the two operands' limb arrays (the pointer parameters, and local copies of them).
// regularCells: local copies produced by ToRegular (no FromMont needed on them).
var regularCells = map[ssa.Value]bool{}

func limbCells(fn *ssa.Function) map[ssa.Value]int {
	cells := map[ssa.Value]int{}
	for i, p := range fn.Params {
		if i < 2 {
			cells[p] = i
		}
	}
	core.AllInstrs(fn, func(i ssa.Instruction) {
		st, ok := i.(*ssa.Store)
		if !ok {
			return
		}
		al, isAl := st.Addr.(*ssa.Alloc)
		// zReg := z.ToRegular(): a local copy that is already out of Montgomery form
		if call, isCall := st.Val.(*ssa.Call); isAl && isCall && core.IsMethod(core.Callee(call.Common()), "bandersnatch/fr", "Element", "ToRegular") && len(call.Call.Args) == 1 {
			src := call.Call.Args[0]
			if ld, isLd := src.(*ssa.UnOp); isLd && ld.Op == token.MUL {
				src = ld.X
			}
			if who, isParam := cells[src]; isParam {
				if _, isP := src.(*ssa.Parameter); isP && len(storesInto(al)) == 1 {
					cells[al] = who
					regularCells[al] = true
				}
			}
			return
		}
		u, isLoad := st.Val.(*ssa.UnOp)
		if !isAl || !isLoad || u.Op != token.MUL {
			return
		}
		if who, isParam := cells[u.X]; isParam {
			if _, isP := u.X.(*ssa.Parameter); isP {
				cells[al] = who
			}
		}
	})
	return cells
}

func limbOf(v ssa.Value, cells map[ssa.Value]int) (limbRef, bool) {
	u, ok := v.(*ssa.UnOp)
	if !ok || u.Op != token.MUL {
		return limbRef{}, false
	}
	ia, ok := u.X.(*ssa.IndexAddr)
	if !ok {
		return limbRef{}, false
	}
	who, ok := cells[ia.X]
	if !ok {
		return limbRef{}, false
	}
	if k, ok := core.ConstInt(ia.Index); ok {
		return limbRef{who, k, ia.Index}, true
	}
	return limbRef{who, -1, ia.Index}, true
}

// pureDecision: f consists of comparisons, branches and returns only.
func pureDecision(f *ssa.Function) bool {
	if len(f.Blocks) == 0 {
		return false
	}
	ok := true
	core.AllInstrs(f, func(i ssa.Instruction) {
		switch i.(type) {
		case *ssa.BinOp, *ssa.UnOp, *ssa.If, *ssa.Jump, *ssa.Return, *ssa.Phi, *ssa.Convert, *ssa.ChangeType, *ssa.DebugRef:
		default:
			ok = false
		}
	})
	return ok
}

// orderEval runs fn on concrete representatives: leaf supplies values for chosen SSA values.
func orderEval(fn *ssa.Function, leaf func(v ssa.Value, eval func(ssa.Value) (int64, bool)) (int64, bool), depth int) (int64, string) {
	if depth > 3 {
		return 0, "helper nesting too deep"
	}
	phiVals := map[ssa.Value]int64{}
	var val func(v ssa.Value, d int) (int64, string)
	val = func(v ssa.Value, d int) (int64, string) {
		if d > 40 {
			return 0, "expression too deep"
		}
		if k, ok := phiVals[v]; ok {
			return k, ""
		}
		if k, ok := leaf(v, func(x ssa.Value) (int64, bool) {
			r, why := val(x, d+1)
			return r, why == ""
		}); ok {
			return k, ""
		}
		if _, isC := v.(*ssa.Const); isC {
			if k, ok := core.ConstInt(v); ok {
				return k, ""
			}
			if b, ok := core.ConstBool(v); ok {
				if b {
					return 1, ""
				}
				return 0, ""
			}
		}
		switch x := v.(type) {
		case *ssa.Convert:
			return val(x.X, d+1)
		case *ssa.ChangeType:
			return val(x.X, d+1)
		case *ssa.UnOp:
			a, why := val(x.X, d+1)
			if why != "" {
				return 0, why
			}
			switch x.Op {
			case token.NOT:
				return 1 - a, ""
			case token.SUB:
				return -a, ""
			}
		case *ssa.BinOp:
			a, why := val(x.X, d+1)
			if why != "" {
				return 0, why
			}
			b, why := val(x.Y, d+1)
			if why != "" {
				return 0, why
			}
			bi := func(c bool) (int64, string) {
				if c {
					return 1, ""
				}
				return 0, ""
			}
			switch x.Op {
			case token.EQL:
				return bi(a == b)
			case token.NEQ:
				return bi(a != b)
			case token.LSS:
				return bi(a < b)
			case token.LEQ:
				return bi(a <= b)
			case token.GTR:
				return bi(a > b)
			case token.GEQ:
				return bi(a >= b)
			case token.ADD:
				return a + b, ""
			case token.SUB:
				return a - b, ""
			case token.MUL:
				return a * b, ""
			}
			return 0, "operation " + x.Op.String() + " outside the ordering abstraction"
		case *ssa.Extract:
			// the borrow out of bits.Sub64(a, b, borrowIn): a < b, or a == b with a borrow coming in — decided by the
			// ordering of a and b alone
			if call, isCall := x.Tuple.(*ssa.Call); isCall && x.Index == 1 && core.IsFunc(core.Callee(call.Common()), "math/bits", "Sub64") && len(call.Call.Args) == 3 {
				a, why := val(call.Call.Args[0], d+1)
				if why != "" {
					return 0, why
				}
				b, why := val(call.Call.Args[1], d+1)
				if why != "" {
					return 0, why
				}
				bin, why := val(call.Call.Args[2], d+1)
				if why != "" {
					return 0, why
				}
				if bin != 0 && bin != 1 {
					return 0, "borrow that is neither 0 nor 1"
				}
				if a < b+bin {
					return 1, ""
				}
				return 0, ""
			}
			return 0, "value outside the ordering abstraction: " + v.String()
		case *ssa.Call:
			callee := core.Callee(x.Common())
			if callee == nil || !core.InModule(callee) || !pureDecision(callee) {
				return 0, "call to " + core.CalleeName(x.Common()) + ", which is not a comparison-only helper"
			}
			args := map[ssa.Value]int64{}
			for i, p := range callee.Params {
				a, why := val(x.Call.Args[i], d+1)
				if why != "" {
					return 0, why
				}
				args[p] = a
			}
			return orderEval(callee, func(v ssa.Value, _ func(ssa.Value) (int64, bool)) (int64, bool) { k, ok := args[v]; return k, ok }, depth+1)
		}
		return 0, "value outside the ordering abstraction: " + v.String()
	}
	b := fn.Blocks[0]
	for steps := 0; steps < 512; steps++ {
		var next *ssa.BasicBlock
		switch x := b.Instrs[len(b.Instrs)-1].(type) {
		case *ssa.Return:
			if len(x.Results) != 1 {
				return 0, "not a single result"
			}
			return val(x.Results[0], 0)
		case *ssa.Jump:
			next = b.Succs[0]
		case *ssa.If:
			k, why := val(x.Cond, 0)
			if why != "" {
				return 0, why
			}
			next = b.Succs[1]
			if k != 0 {
				next = b.Succs[0]
			}
		default:
			return 0, "unexpected terminator"
		}
		idx := -1
		for i, p := range next.Preds {
			if p == b {
				idx = i
			}
		}
		vals := map[ssa.Value]int64{}
		for _, ins := range next.Instrs {
			phi, ok := ins.(*ssa.Phi)
			if !ok {
				break
			}
			k, why := val(phi.Edges[idx], 0)
			if why != "" {
				return 0, why
			}
			vals[phi] = k
		}
		for k, v := range vals {
			phiVals[k] = v
		}
		b = next
	}
	return 0, "too many steps"
}

// RuleO1 — Cmp / Equal of the scalar field decided on all limb orderings.
func RuleO1(c *Ctx) {
	c.Rule("O1", "limb-wise comparison: fr.Element.Cmp and fr.Element.Equal read their operands' limbs only in same-index comparisons (Cmp on local copies converted out of Montgomery form); evaluated on all 81 orderings of the four limb pairs, Cmp returns the sign of the most significant differing limb (0 if none) and Equal returns true exactly when no limb differs")
	type spec struct {
		name     string
		fromMont bool
		want     func(rel [4]int) int64
	}
	specs := []spec{
		{"Cmp", true, func(rel [4]int) int64 {
			for i := 3; i >= 0; i-- {
				if rel[i] != 0 {
					return int64(rel[i])
				}
			}
			return 0
		}},
		{"Equal", false, func(rel [4]int) int64 {
			for i := 0; i < 4; i++ {
				if rel[i] != 0 {
					return 0
				}
			}
			return 1
		}},
	}
	n := 0
	for _, sp := range specs {
		fn := c.P.Fn("bandersnatch/fr", "Element", sp.name)
		if fn == nil {
			c.Unresolved("O1", "fr.Element."+sp.name)
			continue
		}
		c.Saw(core.FnName(fn))
		cells := limbCells(fn)
		key := sp.name + ":81-orderings"
		// touch discipline
		var bad, und []string
		family := []*ssa.Function{fn}
		nLoads := 0
		core.AllInstrs(fn, func(i ssa.Instruction) {
			v, isV := i.(ssa.Value)
			if !isV {
				return
			}
			l, ok := limbOf(v, cells)
			if !ok {
				return
			}
			nLoads++
			for _, r := range *v.Referrers() {
				switch u := r.(type) {
				case *ssa.BinOp:
					other := u.X
					if other == v {
						other = u.Y
					}
					lo, okO := limbOf(other, cells)
					switch {
					case !okO:
						und = append(und, fmt.Sprintf("limb %s is combined with %s at %s", l, other.String(), c.P.Pos(u.Pos())))
					case lo.who == l.who:
						bad = append(bad, fmt.Sprintf("compares two limbs of the same operand at %s", c.P.Pos(u.Pos())))
					case !lo.sameIndex(l):
						bad = append(bad, fmt.Sprintf("compares limb %s of one operand with limb %s of the other at %s", l, lo, c.P.Pos(u.Pos())))
					}
				case *ssa.Call:
					callee := core.Callee(u.Common())
					if core.IsFunc(callee, "math/bits", "Sub64") && len(u.Call.Args) == 3 {
						// one step of a borrow chain over a same-index pair; only the borrow may be used
						a0, ok0 := limbOf(u.Call.Args[0], cells)
						a1, ok1 := limbOf(u.Call.Args[1], cells)
						switch {
						case !ok0 || !ok1 || a0.who == a1.who:
							und = append(und, fmt.Sprintf("bits.Sub64 is not given one limb of each operand at %s", c.P.Pos(u.Pos())))
						case !a0.sameIndex(a1):
							bad = append(bad, fmt.Sprintf("bits.Sub64 subtracts limb %s of one operand from limb %s of the other at %s", a1, a0, c.P.Pos(u.Pos())))
						}
						for _, rr := range *u.Referrers() {
							if ex, isEx := rr.(*ssa.Extract); isEx && ex.Index == 0 && ex.Referrers() != nil && len(*ex.Referrers()) > 0 {
								und = append(und, fmt.Sprintf("the difference computed by bits.Sub64 is used at %s", c.P.Pos(u.Pos())))
							}
						}
						continue
					}
					if callee == nil || !core.InModule(callee) || !pureDecision(callee) || len(u.Call.Args) != 2 {
						und = append(und, fmt.Sprintf("limb %s is passed to %s at %s", l, core.CalleeName(u.Common()), c.P.Pos(u.Pos())))
						continue
					}
					family = append(family, callee)
					a0, ok0 := limbOf(u.Call.Args[0], cells)
					a1, ok1 := limbOf(u.Call.Args[1], cells)
					if !ok0 || !ok1 || a0.who == a1.who {
						und = append(und, fmt.Sprintf("helper %s is not given one limb of each operand at %s", callee.Name(), c.P.Pos(u.Pos())))
					} else if !a0.sameIndex(a1) {
						bad = append(bad, fmt.Sprintf("helper %s compares limb %s of one operand with limb %s of the other at %s", callee.Name(), a0, a1, c.P.Pos(u.Pos())))
					}
				case *ssa.DebugRef:
				default:
					und = append(und, fmt.Sprintf("limb %s is used outside a comparison at %s", l, c.P.Pos(r.Pos())))
				}
			}
		})
		// whole-operand loads of the local copies may only be compared for (in)equality with each other
		core.AllInstrs(fn, func(i ssa.Instruction) {
			u, isLd := i.(*ssa.UnOp)
			if !isLd || u.Op != token.MUL {
				return
			}
			who, isCell := cells[u.X]
			if !isCell {
				return
			}
			if _, isAl := u.X.(*ssa.Alloc); !isAl {
				return // the load that makes the local copy
			}
			for _, r := range *u.Referrers() {
				switch x := r.(type) {
				case *ssa.BinOp:
					other := x.X
					if other == ssa.Value(u) {
						other = x.Y
					}
					ou, okO := other.(*ssa.UnOp)
					ow, isC := 0, false
					if okO && ou.Op == token.MUL {
						ow, isC = cells[ou.X]
					}
					if (x.Op != token.EQL && x.Op != token.NEQ) || !isC || ow == who {
						und = append(und, fmt.Sprintf("a whole operand is used other than in an equality test with the other operand at %s", c.P.Pos(x.Pos())))
					} else {
						nLoads++
					}
				case *ssa.Call:
					// ToRegular / FromMont on the copy: handled by the regular-form clause
				case *ssa.Store, *ssa.DebugRef:
				default:
					und = append(und, fmt.Sprintf("a whole operand is used outside a comparison at %s", c.P.Pos(r.Pos())))
				}
			}
		})
		if nLoads == 0 {
			und = append(und, "no limb of the operands is read")
		}
		// regular form
		if sp.fromMont {
			for cell, who := range cells {
				al, isAl := cell.(*ssa.Alloc)
				if !isAl {
					// the parameter itself must not be compared directly
					core.AllInstrs(fn, func(i ssa.Instruction) {
						if ia, ok := i.(*ssa.IndexAddr); ok && ia.X == cell {
							bad = append(bad, fmt.Sprintf("reads limbs of operand %d in Montgomery form, whose order is not the order of the values (%s)", who, c.P.Pos(ia.Pos())))
						}
					})
					continue
				}
				if regularCells[al] {
					continue
				}
				var conv []ssa.Instruction
				for _, call := range callsTo(fn, "bandersnatch/fr", "Element", "FromMont") {
					if call.Call.Args[0] == ssa.Value(al) {
						conv = append(conv, call)
					}
				}
				if len(conv) != 1 {
					bad = append(bad, fmt.Sprintf("the local copy of operand %d is converted out of Montgomery form %d times, expected once", who, len(conv)))
					continue
				}
				core.AllInstrs(fn, func(i ssa.Instruction) {
					if ia, ok := i.(*ssa.IndexAddr); ok && ia.X == cell && !core.Precedes(fn, conv[0], ia) {
						bad = append(bad, "a limb is read before the conversion out of Montgomery form at "+c.P.Pos(ia.Pos()))
					}
				})
			}
			nCopies := 0
			for cell := range cells {
				if _, isAl := cell.(*ssa.Alloc); isAl {
					nCopies++
				}
			}
			if nCopies != 2 {
				bad = append(bad, fmt.Sprintf("%d local copies of the operands, expected 2", nCopies))
			}
		}
		n++
		if len(bad) > 0 {
			c.Bad("O1", key, fn.Pos(), "fr.Element."+sp.name+": "+strings.Join(uniqStrings(bad), "; "))
			continue
		}
		if len(und) > 0 {
			c.Und("O1", key, fn.Pos(), "fr.Element."+sp.name+" is no longer a pure limb comparison: "+strings.Join(uniqStrings(und), "; "))
			continue
		}
		// all orderings
		var wrong []string
		undec := ""
		total := 0
		for code := 0; code < 81 && undec == ""; code++ {
			var rel [4]int
			k := code
			for i := 0; i < 4; i++ {
				rel[i] = k%3 - 1
				k /= 3
			}
			leaf := func(v ssa.Value, eval func(ssa.Value) (int64, bool)) (int64, bool) {
				// a load of a whole operand (compared with == / != only, see the touch discipline): a code of all
				// four limbs, equal exactly when no limb differs
				if u, isLd := v.(*ssa.UnOp); isLd && u.Op == token.MUL {
					if who, isCell := cells[u.X]; isCell {
						code := int64(1000)
						if who == 0 {
							for i := 0; i < 4; i++ {
								p := int64(1)
								for j := 0; j < i; j++ {
									p *= 3
								}
								code += int64(rel[i]) * p
							}
						}
						return code, true
					}
				}
				l, ok := limbOf(v, cells)
				if !ok {
					return 0, false
				}
				idx := l.idx
				if idx < 0 {
					k, okI := eval(l.idxV)
					if !okI {
						return 0, false
					}
					idx = k
				}
				if idx < 0 || idx > 3 {
					return 0, false
				}
				if l.who == 0 {
					return int64(5 + rel[idx]), true
				}
				return 5, true
			}
			got, why := orderEval(fn, leaf, 0)
			if why != "" {
				undec = why
				break
			}
			total++
			if want := sp.want(rel); got != want {
				sym := func(r int) string { return map[int]string{-1: "<", 0: "=", 1: ">"}[r] }
				wrong = append(wrong, fmt.Sprintf("z[3]%sx[3], z[2]%sx[2], z[1]%sx[1], z[0]%sx[0] gives %d, expected %d", sym(rel[3]), sym(rel[2]), sym(rel[1]), sym(rel[0]), got, want))
			}
		}
		switch {
		case undec != "":
			c.Und("O1", key, fn.Pos(), "cannot evaluate fr.Element."+sp.name+" on the limb orderings: "+undec)
		case len(wrong) > 0:
			show := wrong
			if len(show) > 3 {
				show = show[:3]
			}
			c.Bad("O1", key, fn.Pos(), fmt.Sprintf("fr.Element.%s is wrong on %d of 81 limb orderings, e.g. %s", sp.name, len(wrong), strings.Join(show, " | ")))
		default:
			names := []string{}
			for _, f := range family {
				names = append(names, f.Name())
			}
			c.OK("O1", key, fn.Pos(), fmt.Sprintf("%d orderings evaluated through %s; every one gives the specified result", total, strings.Join(uniqStrings(names), ", ")))
		}
	}
	c.FloorN("O1", 2, n, "limb-wise comparisons")
}
