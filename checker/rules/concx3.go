package rules

import (
	"fmt"
	"go/token"
	"go/types"
	"strings"

	"golang.org/x/tools/go/ssa"

	"verif/checker/core"
)

// ---------------------------------------------------------------------------
// G3 send / receive / capacity agreement

type sendMult struct {
	konst int64     // constant number of sends, or -1
	bound ssa.Value // symbolic bound (the sends are <= / == this value)
	desc  string
}

func (c *Ctx) spawnMult(s *spawnSite) sendMult {
	switch s.kind {
	case "Execute":
		// at most maxCpus invocations (rule G7: the task loop runs min(n, maxCpus) times)
		args := s.at.Common().Args
		if len(args) == 3 {
			if sl, ok := args[2].(*ssa.Slice); ok {
				if arr, ok := sl.X.(*ssa.Alloc); ok {
					for _, r := range core.Refs(arr) {
						if ia, ok := r.(*ssa.IndexAddr); ok {
							for _, rr := range core.Refs(ia) {
								if st, ok := rr.(*ssa.Store); ok {
									return sendMult{-1, st.Val, "at most maxCpus = " + core.PathOf(st.Val) + " invocations of the Execute closure"}
								}
							}
						}
					}
				}
			}
		}
		return sendMult{-1, nil, "Execute without an explicit worker limit (NumCPU invocations)"}
	case "go":
		cl := loopOf(countedLoops(s.parent), s.at.Block())
		if cl == nil {
			return sendMult{1, nil, "one spawn"}
		}
		if t, ok := cl.trips(); ok {
			return sendMult{t, nil, fmt.Sprintf("%d spawns (constant loop)", t)}
		}
		if z, ok := core.ConstInt(cl.init); ok && z == 0 && cl.step == 1 && cl.op == token.LSS {
			return sendMult{-1, cl.bound, "spawn loop bounded by " + core.PathOf(cl.bound)}
		}
	}
	return sendMult{-1, nil, "unknown multiplicity"}
}

func RuleG3(c *Ctx) {
	c.Rule("G3", "channel agreement: for every channel made in the module, the number of sends per run fits its capacity, or equals the number of receives with the same SSA bound value; close happens only after every sender has been received or joined")
	sites := c.spawnSites()
	n := 0
	for _, top := range c.P.TopFuncs() {
		if inHelperPkg(top) {
			continue
		}
		for _, fn := range core.Family(top) {
			core.AllInstrs(fn, func(i ssa.Instruction) {
				mk, ok := i.(*ssa.MakeChan)
				if !ok {
					return
				}
				n++
				key := fmt.Sprintf("%s:make-chan@%s", core.FnName(fn), c.relInFn(fn, mk.Pos()))
				c.Saw(core.FnName(fn))
				// array of dedicated channels?
				inArray := false
				for _, r := range core.Refs(mk) {
					if st, ok := r.(*ssa.Store); ok {
						if _, isIdx := st.Addr.(*ssa.IndexAddr); isIdx {
							inArray = true
						}
					}
				}
				capK, capConst := core.ConstInt(mk.Size)
				if inArray {
					c.Check(capConst && capK >= 1, "G3", key, mk.Pos(), "a dedicated result channel must have capacity >= 1 so that its single sender never blocks", fmt.Sprintf("array of dedicated channels, capacity %d; exactly one send and one receive each: rule M4", capK))
					return
				}
				root := ssa.Value(mk)
				// sends
				var mults []sendMult
				var senders []*spawnSite
				for _, s := range sites {
					if s.top != top || s.target == nil {
						continue
					}
					for _, si := range c.sendsOf(s.target, 0) {
						ch := core.StripConv(si.ch)
						if par, ok := ch.(*ssa.Parameter); ok {
							for k, q := range s.target.Params {
								if q == par && k < len(s.args) {
									ch = s.args[k]
								}
							}
						}
						if chanRoot(ch) != root {
							continue
						}
						m := c.spawnMult(s)
						if !si.last {
							m = sendMult{-1, nil, "send not executed exactly once per goroutine"}
						}
						mults = append(mults, m)
						senders = append(senders, s)
					}
				}
				core.AllInstrs(fn, func(j ssa.Instruction) {
					if sd, ok := j.(*ssa.Send); ok && chanRoot(sd.Chan) == root {
						mults = append(mults, sendMult{-1, nil, "send by the making function itself"})
					}
				})
				if len(mults) == 0 {
					c.Und("G3", key, mk.Pos(), "no sender found for this channel")
					return
				}
				// receives in the making function family
				type recv struct {
					at ssa.Instruction
					in *ssa.Function
				}
				var recvs []recv
				rangeRecv := false
				var closes []ssa.Instruction
				for _, f := range core.Family(top) {
					core.AllInstrs(f, func(j ssa.Instruction) {
						switch x := j.(type) {
						case *ssa.UnOp:
							if x.Op == token.ARROW && chanRoot(x.X) == root {
								if x.CommaOk {
									rangeRecv = true // `for v := range ch` / `v, ok := <-ch`: terminates on close
								} else {
									recvs = append(recvs, recv{x, f})
								}
							}
						case *ssa.Range:
							if chanRoot(x.X) == root {
								rangeRecv = true
							}
						case *ssa.Call:
							if b, ok := x.Call.Value.(*ssa.Builtin); ok && b.Name() == "close" && chanRoot(x.Call.Args[0]) == root {
								closes = append(closes, x)
							}
						}
					})
				}
				// --- capacity / matching
				total := int64(0)
				allConst := true
				var bound ssa.Value
				var descs []string
				for _, m := range mults {
					descs = append(descs, m.desc)
					if m.konst >= 0 {
						total += m.konst
						continue
					}
					allConst = false
					if m.bound == nil || (bound != nil && !core.SameExpr(bound, m.bound)) || len(mults) != 1 {
						bound = nil
						total = -1
						break
					}
					bound = m.bound
				}
				okCap := false
				var how string
				switch {
				case allConst && capConst && total <= capK:
					okCap, how = true, fmt.Sprintf("%d sends fit capacity %d", total, capK)
				case bound != nil && core.SameExpr(mk.Size, bound):
					okCap, how = true, "capacity is the same value as the bound on the number of senders ("+core.PathOf(bound)+")"
				case bound != nil:
					// receives with the same bound
					cls := countedLoops(fn)
					for _, r := range recvs {
						if r.in != fn {
							continue
						}
						if rl := loopOf(cls, r.at.Block()); rl != nil && affEq(rl.tripsAff(), affOf(bound, 0)) {
							okCap, how = true, "one receive per sender: receive loop bounded by the same value as the spawn loop ("+core.PathOf(bound)+")"
						}
					}
				}
				if !okCap {
					c.Bad("G3", key, mk.Pos(), fmt.Sprintf("cannot establish that the sends on this channel (%s) fit its capacity (%s) or are matched one-to-one by receives: a sender may block forever", strings.Join(descs, "; "), core.PathOf(mk.Size)))
					return
				}
				// --- receives must not exceed sends (a receive without a sender blocks forever)
				okRecv := true
				var rhow string
				switch {
				case rangeRecv:
					// range terminates on close: close must exist and follow the join of all senders
					okRecv = len(closes) > 0
					rhow = "received by range until close"
				case allConst:
					// constant number of plain receives, each outside loops
					cnt := int64(0)
					for _, r := range recvs {
						if loopOf(countedLoops(r.in), r.at.Block()) != nil {
							okRecv = false
						}
						cnt++
					}
					okRecv = okRecv && cnt == total
					rhow = fmt.Sprintf("%d receives for %d sends", cnt, total)
				case bound != nil:
					for _, r := range recvs {
						rl := loopOf(countedLoops(r.in), r.at.Block())
						if rl == nil || !affEq(rl.tripsAff(), affOf(bound, 0)) {
							okRecv = false
						}
					}
					okRecv = okRecv && len(recvs) > 0
					rhow = "receive loop with the senders' bound"
				}
				if !okRecv {
					c.Bad("G3", key, mk.Pos(), "the receives on this channel do not match its sends ("+rhow+"): the receiver may block forever or miss a result")
					return
				}
				// --- close only after all sends are received / senders joined
				okClose := true
				for _, cl := range closes {
					cf := cl.Parent()
					after := false
					// (a) after a synchronous Execute that ran the senders
					for _, s := range senders {
						if s.kind == "Execute" && s.parent == cf && core.Precedes(cf, s.at, cl) {
							after = true
						}
					}
					// (b) after all receives in the same function
					if !after && len(recvs) > 0 {
						all := true
						for _, r := range recvs {
							if r.in != cf {
								all = false
								continue
							}
							rl := loopOf(countedLoops(cf), r.at.Block())
							if rl != nil {
								// close must be outside and after the loop
								if rl.loop.Blocks[cl.Block()] || !rl.loop.Header.Dominates(cl.Block()) || core.CanReach(cf, cl, r.at) {
									all = false
								}
							} else if !core.Precedes(cf, r.at, cl) {
								all = false
							}
						}
						after = all
					}
					if !after {
						okClose = false
					}
				}
				c.Check(okClose, "G3", key, mk.Pos(), "the channel is closed at a point where a sender may still be running (send on closed channel panics)", how, rhow, fmt.Sprintf("%d close(s), each after the senders are joined or received", len(closes)))
			})
		}
	}
	c.FloorN("G3", 22, n, "channels made")
}

// ---------------------------------------------------------------------------
// G4 order-insensitive reduction

func RuleG4(c *Ctx) {
	c.Rule("G4", "order-insensitive reduction: wherever values are taken from a channel with several senders (arrival order), everything that consumes them is commutative and associative: fr.(*Element).Add, PointProj.Add, integer +, or a first assignment into an empty slot")
	sites := c.spawnSites()
	n := 0
	allowedCall := func(f *ssa.Function) bool {
		return core.IsMethod(f, "bandersnatch/fr", "Element", "Add") || core.IsMethod(f, "bls12-381/bandersnatch", "PointProj", "Add") ||
			core.IsMethod(f, "bls12-381/fr", "Element", "Add")
	}
	for _, top := range c.P.TopFuncs() {
		if inHelperPkg(top) {
			continue
		}
		for _, fn := range core.Family(top) {
			// receives grouped by channel root
			byRoot := map[ssa.Value][]ssa.Value{}
			core.AllInstrs(fn, func(i ssa.Instruction) {
				switch x := i.(type) {
				case *ssa.UnOp:
					if x.Op == token.ARROW {
						byRoot[chanRoot(x.X)] = append(byRoot[chanRoot(x.X)], x)
					}
				case *ssa.Next:
					if rg, ok := x.Iter.(*ssa.Range); ok && isChanType(rg.X.Type()) {
						byRoot[chanRoot(rg.X)] = append(byRoot[chanRoot(rg.X)], x)
					}
				}
			})
			for root, rvs := range byRoot {
				// several senders?
				senders := 0
				for _, s := range sites {
					if s.top != top || s.target == nil {
						continue
					}
					for _, si := range c.sendsOf(s.target, 0) {
						ch := core.StripConv(si.ch)
						if par, ok := ch.(*ssa.Parameter); ok {
							for k, q := range s.target.Params {
								if q == par && k < len(s.args) {
									ch = s.args[k]
								}
							}
						}
						if chanRoot(ch) == root {
							m := c.spawnMult(s)
							if m.konst >= 0 {
								senders += int(m.konst)
							} else {
								senders += 2
							}
						}
					}
				}
				if _, isArr := root.(*ssa.Alloc); isArr && senders <= 1 {
					continue
				}
				if _, isParam := root.(*ssa.Parameter); isParam {
					continue // dedicated channels handed to the reducer: fixed order, not arrival order
				}
				if senders < 2 {
					continue
				}
				n++
				key := fmt.Sprintf("%s:fan-in@%s", core.FnName(fn), c.relInFn(fn, rvs[0].(ssa.Instruction).Pos()))
				c.Saw(core.FnName(fn))
				derived := core.ReachFrom(rvs, nil)
				ok := true
				var why string
				var combiners []string
				core.AllInstrs(fn, func(i ssa.Instruction) {
					switch x := i.(type) {
					case *ssa.Call:
						if _, isB := x.Call.Value.(*ssa.Builtin); isB {
							return
						}
						uses := false
						for _, a := range x.Call.Args {
							if derived[a] {
								uses = true
							}
						}
						if !uses {
							return
						}
						f := core.Callee(x.Common())
						if allowedCall(f) {
							combiners = append(combiners, core.FnName(f))
							return
						}
						ok = false
						why = fmt.Sprintf("value received in arrival order is consumed by %s at %s, which is not known to be commutative and associative", core.CalleeName(x.Common()), c.P.Pos(x.Pos()))
					case *ssa.BinOp:
						if !derived[x.X] && !derived[x.Y] {
							return
						}
						switch x.Op {
						case token.ADD:
							if b, isBasic := x.Type().Underlying().(*types.Basic); isBasic && b.Info()&types.IsInteger != 0 {
								combiners = append(combiners, "integer +")
								return
							}
							ok = false
							why = "non-integer + on a value received in arrival order"
						case token.EQL, token.NEQ, token.LSS, token.GTR, token.LEQ, token.GEQ:
						default:
							ok = false
							why = fmt.Sprintf("operator %s at %s combines a value received in arrival order", x.Op, c.P.Pos(x.Pos()))
						}
					case *ssa.Store:
						if !derived[x.Val] || !pointerful(x.Val.Type()) {
							return
						}
						if _, isLocal := x.Addr.(*ssa.Alloc); isLocal {
							return
						}
						// the one-element argument array of an append: the value joins a local list (in arrival order);
						// what consumes the list is derived from it and judged like any other consumer
						if ia, isIA := x.Addr.(*ssa.IndexAddr); isIA {
							if al, isAl := ia.X.(*ssa.Alloc); isAl && al.Comment == "varargs" {
								return
							}
						}
						// first assignment: dominated by the nil edge of a test of the same slot
						slot := core.PathOf(x.Addr)
						first := false
						for _, cd := range core.Conds(fn) {
							if core.PathOf(cd.X) == "*("+slot+")" && core.IsNilConst(cd.Y) {
								if e := cd.EdgeWhere(token.EQL); e >= 0 {
									cut := core.NewCuts()
									cut.AddEdge(cd.Block, e)
									if core.MustPass(fn, cut, x) {
										first = true
									}
								}
							}
						}
						if first {
							combiners = append(combiners, "first assignment into an empty slot")
							return
						}
						ok = false
						why = fmt.Sprintf("a value received in arrival order overwrites %s at %s without the slot being known empty", slot, c.P.Pos(x.Pos()))
					}
				})
				c.Check(ok && len(combiners) > 0, "G4", key, rvs[0].(ssa.Instruction).Pos(), "arrival order can change the result: "+why, uniq(combiners)...)
			}
		}
	}
	c.FloorN("G4", 18, n, "fan-in points")
}

// ---------------------------------------------------------------------------
// G8 acquire/release pairing on shared (package-level or captured-by-many) channels used as semaphores

func RuleG8(c *Ctx) {
	c.Rule("G8", "acquire/release pairing: a function that sends on a package-level channel (a semaphore/limiter shared by all calls) receives from it again on every path to every return - otherwise a slot leaks and later calls block forever; and nothing in the module sends on a package-level channel without such a release")
	n := 0
	for _, top := range c.P.TopFuncs() {
		if inHelperPkg(top) {
			continue
		}
		for _, fn := range core.Family(top) {
			core.AllInstrs(fn, func(i ssa.Instruction) {
				sd, ok := i.(*ssa.Send)
				if !ok {
					return
				}
				g := globalChan(sd.Chan)
				if g == nil {
					return
				}
				n++
				key := fmt.Sprintf("%s:acquire:%s@%s", core.FnName(fn), g.Name(), c.relInFn(fn, sd.Pos()))
				rel := core.NewCuts()
				deferred := false
				core.AllInstrs(fn, func(j ssa.Instruction) {
					switch x := j.(type) {
					case *ssa.UnOp:
						if x.Op == token.ARROW && globalChan(x.X) == g {
							rel.AddInstr(x)
						}
					case *ssa.Defer:
						// defer func() { <-sem }()
						if f, _ := closureOf(x.Call.Value); f != nil {
							core.AllInstrs(f, func(k ssa.Instruction) {
								if u, ok := k.(*ssa.UnOp); ok && u.Op == token.ARROW && globalChan(u.X) == g && core.Precedes(fn, sd, x) == false && core.CanReach(fn, sd, x) {
									deferred = true
								}
							})
						}
					}
				})
				okAll := deferred
				if !deferred {
					okAll = !rel.Empty()
					for _, r := range core.Returns(fn) {
						if core.ReachableAvoiding(fn, sd, rel, r) {
							okAll = false
						}
					}
				}
				c.Check(okAll, "G8", key, sd.Pos(), fmt.Sprintf("%s acquires a slot of the shared channel %s and can return without releasing it (e.g. on an error path): after enough such returns every later call blocks forever", core.FnName(fn), g.Name()), "every return after the acquire passes a release")
			})
		}
	}
	if n == 0 {
		c.OK("G8", "no-shared-semaphores", 0, "no send on a package-level channel anywhere in the module")
	}
}

func globalChan(v ssa.Value) *ssa.Global {
	for d := 0; d < 6; d++ {
		switch x := v.(type) {
		case *ssa.UnOp:
			if x.Op == token.MUL {
				v = x.X
				continue
			}
		case *ssa.Global:
			if isChanType(x.Type().Underlying().(*types.Pointer).Elem()) {
				return x
			}
		case *ssa.ChangeType:
			v = x.X
			continue
		}
		return nil
	}
	return nil
}
