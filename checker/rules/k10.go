package rules

// K10 — setBigInt consumes every word of the big integer.
//
// fr.Element.setBigInt copies the words of v.Bits() into the limbs. Which loop does that depends on the word size of
// the target (one word per limb on 64-bit targets, two on 32-bit ones); the test suite only ever runs one of them.
// go/ssa keeps both arms of the `bits.UintSize == 64` test, so both loops are analysed in every configuration. The
// rule is the same for either: every read of the word slice is vBits[i] with i the variable of a loop that runs
// i = 0; i < len(vBits); i++, so no word of the value is left out. (Which half of which limb a word lands in is not
// decided.)

import (
	"fmt"
	"go/token"
	"go/types"

	"golang.org/x/tools/go/ssa"

	"verif/checker/core"
)

func RuleK10(c *Ctx) {
	c.Rule("K10", "fr.Element.setBigInt reads every word of v.Bits(): each read of the word slice is at the variable of a loop running from 0 to len-1 in unit steps (both the one-word-per-limb loop of 64-bit targets and the two-words-per-limb loop of 32-bit targets, which the suite never runs)")
	fn := c.P.Fn("bandersnatch/fr", "Element", "setBigInt")
	if fn == nil {
		c.Unresolved("K10", "bandersnatch/fr.(*Element).setBigInt")
		return
	}
	c.Saw(core.FnName(fn))
	// the word slice(s): results of (*big.Int).Bits
	words := map[ssa.Value]bool{}
	core.AllInstrs(fn, func(i ssa.Instruction) {
		if call, ok := i.(*ssa.Call); ok {
			if f := core.Callee(call.Common()); f != nil && f.Name() == "Bits" && f.Pkg != nil && f.Pkg.Pkg.Path() == "math/big" {
				words[call] = true
			}
		}
	})
	if len(words) == 0 {
		c.Und("K10", "setBigInt:words", fn.Pos(), "setBigInt no longer takes the words of its argument from (*big.Int).Bits; how it reads the value has to be decided anew")
		c.FloorN("K10", 1, 0, "reads of the word slice")
		return
	}
	isWords := func(v ssa.Value) bool {
		v = core.StripConv(v)
		if words[v] {
			return true
		}
		// a local holding the slice
		if ld, ok := v.(*ssa.UnOp); ok && ld.Op == token.MUL {
			if cell, isCell := ld.X.(*ssa.Alloc); isCell {
				sts := storesInto(cell)
				return len(sts) == 1 && words[core.StripConv(sts[0].Val)]
			}
		}
		return false
	}
	cls := countedLoops(fn)
	n := 0
	core.AllInstrs(fn, func(i ssa.Instruction) {
		var idx ssa.Value
		switch x := i.(type) {
		case *ssa.IndexAddr:
			if isWords(x.X) {
				idx = x.Index
			}
		case *ssa.Index:
			if isWords(x.X) {
				idx = x.Index
			}
		case *ssa.Slice:
			if isWords(x.X) && (x.Low != nil || x.High != nil) {
				n++
				c.Und("K10", fmt.Sprintf("setBigInt:read#%d", n), x.Pos(), "the word slice is re-sliced; that every word is still consumed is not decided")
			}
		}
		if idx == nil {
			return
		}
		n++
		key := fmt.Sprintf("setBigInt:read#%d", n)
		cl := loopOf(cls, i.Block())
		switch {
		case cl == nil:
			c.Und("K10", key, i.Pos(), "a word of v.Bits() is read outside a recognised counted loop; that every word is consumed is not decided")
		case core.StripConv(idx) != cl.phi:
			c.Und("K10", key, i.Pos(), "the word read is not the one at the variable of the loop around it; that the positions visited cover every word of the value is not decided by this rule")
		default:
			z, isK := core.ConstInt(cl.init)
			l, isLen := core.IsLenOf(cl.bound)
			if !(isK && z == 0 && cl.step == 1 && cl.op == token.LSS && isLen && isWords(l)) {
				c.Bad("K10", key, i.Pos(), "the loop reading the words does not run i = 0; i < len(words); i++: some word of the value is never read")
				return
			}
			c.OK("K10", key, i.Pos(), "words[i], i = 0 .. len(words)-1 in unit steps")
		}
	})
	// a word must be widened to 64 bits before it is shifted into the upper half of a limb: big.Word is as wide as
	// the machine word, and on a 32-bit target a shift by 32 or more of a 32-bit value is zero
	core.AllInstrs(fn, func(i ssa.Instruction) {
		sh, ok := i.(*ssa.BinOp)
		if !ok || sh.Op != token.SHL {
			return
		}
		bt, isBasic := sh.X.Type().Underlying().(*types.Basic)
		if !isBasic {
			return
		}
		switch bt.Kind() {
		case types.Uint, types.Uintptr, types.Int:
		default:
			return
		}
		if k, isK := core.ConstInt(sh.Y); isK && k >= 0 && k < 32 {
			return
		}
		if _, isC := sh.X.(*ssa.Const); isC {
			return // a mask such as 1 << k
		}
		n++
		c.Bad("K10", fmt.Sprintf("setBigInt:shift@%s", c.relInFn(fn, sh.Pos())), sh.Pos(), "a machine-word value is shifted left before being widened to uint64: on 32-bit targets the bits shifted past position 31 are lost, so the upper half of the limb stays zero")
	})
	c.FloorN("K10", 1, n, "reads of the word slice")
}
