package rules

// Stream-effect analysis of the transcript (part of F7).
//
// The transcript's logical content is the byte stream "hash state, then pending buffer". Every method is
// interpreted over an abstract state (S, B) of symbolic tokens, on every path of its (loop-free) CFG, with
// calls to other methods of the same transcript interpreted in place. What a method must do to the stream is
// then a statement about token sequences, independent of how the code is cut into helpers.

import (
	"fmt"
	"go/token"
	"go/types"
	"strings"

	"golang.org/x/tools/go/ssa"

	"verif/checker/core"
)

type strmState struct {
	S, B   []string
	sums   [][]string           // S at each state.Sum
	cells  map[ssa.Value]string // content token of local cells (challenge)
	vals   map[ssa.Value]string // tokens of call results computed on this path (digest)
	ints   map[ssa.Value]int64  // concrete values of integer phis (loops over a literal list of chunks)
	ret    string
	notes  []string
	undec  string
	defers []strmDefer // deferred calls that touch the transcript, innermost frame last
}

type strmDefer struct {
	fr *strmFrame
	d  *ssa.Defer
}

func (s *strmState) clone() *strmState {
	n := &strmState{S: append([]string(nil), s.S...), B: append([]string(nil), s.B...), ret: s.ret, undec: s.undec}
	for _, x := range s.sums {
		n.sums = append(n.sums, append([]string(nil), x...))
	}
	n.cells = map[ssa.Value]string{}
	for k, v := range s.cells {
		n.cells[k] = v
	}
	n.vals = map[ssa.Value]string{}
	for k, v := range s.vals {
		n.vals[k] = v
	}
	n.ints = map[ssa.Value]int64{}
	for k, v := range s.ints {
		n.ints[k] = v
	}
	n.notes = append([]string(nil), s.notes...)
	n.defers = append([]strmDefer(nil), s.defers...)
	return n
}

type strmFrame struct {
	fn   *ssa.Function
	recv ssa.Value
	toks map[ssa.Value]string
}

func (c *Ctx) strmTok(v ssa.Value, fr *strmFrame, st *strmState, d int) string {
	if d > 8 {
		return "?deep"
	}
	if t, ok := st.vals[v]; ok {
		return t
	}
	switch x := v.(type) {
	case *ssa.Parameter:
		if t, ok := fr.toks[x]; ok {
			return t
		}
		return "p:" + x.Name()
	case *ssa.Const:
		if x.IsNil() {
			return "nil"
		}
		return "const:" + x.Value.String()
	case *ssa.Slice:
		inner := ""
		if al, isAl := x.X.(*ssa.Alloc); isAl {
			if sts := storesInto(al); len(sts) == 1 {
				// the one store must be what the array holds here: it is executed before this use on every path, and
				// nothing else (a call given a part of the array, an element store) writes the array
				sole := sts[0].Block() == x.Block() || sts[0].Block().Dominates(x.Block())
				if sts[0].Block() == x.Block() && !core.Precedes(x.Parent(), sts[0], x) {
					sole = false
				}
				for _, r := range core.Refs(al) {
					switch y := r.(type) {
					case *ssa.Store, *ssa.UnOp, *ssa.DebugRef:
					case *ssa.Slice:
						// other slices of the array: fine when they are only read as whole messages like this one
						if y != x {
							for _, rr := range core.Refs(y) {
								if call, isCall := rr.(ssa.CallInstruction); isCall {
									if f := core.Callee(call.Common()); f == nil || !core.InModule(f) {
										sole = false // handed to something that may fill it (binary.PutUint64, copy, Read…)
									}
								}
							}
						}
					default:
						sole = false
					}
				}
				if sole {
					inner = c.strmTok(sts[0].Val, fr, st, d+1)
				} else {
					inner = "?array-with-several-writers:" + al.Comment
				}
			}
		}
		if inner == "" {
			inner = c.strmTok(x.X, fr, st, d+1)
		}
		if x.Low == nil && x.High == nil && x.Max == nil {
			return inner
		}
		if hi, isK := core.ConstInt(x.High); x.High != nil && isK && hi == 0 {
			return "ε"
		}
		return fmt.Sprintf("part(%s)[%s:%s]", inner, optP(x.Low), optP(x.High))
	case *ssa.Call:
		f := core.Callee(x.Common())
		if f != nil && f.Signature.Recv() != nil && len(x.Call.Args) == 1 {
			switch f.Name() {
			case "BytesLE", "Bytes":
				// the encoded object, whether the encoder takes it by value or by pointer
				return f.Name() + "(" + strings.TrimLeft(c.strmTok(x.Call.Args[0], fr, st, d+1), "*&") + ")"
			}
		}
		// append(a, b...): the bytes of a followed by the bytes of b
		if bi, isB := x.Call.Value.(*ssa.Builtin); isB && bi.Name() == "append" && len(x.Call.Args) == 2 {
			if _, isSlice := x.Call.Args[1].Type().Underlying().(*types.Slice); isSlice {
				return c.strmTok(x.Call.Args[0], fr, st, d+1) + " ++ " + c.strmTok(x.Call.Args[1], fr, st, d+1)
			}
		}
		return "?call:" + core.CalleeName(x.Common())
	case *ssa.MakeSlice:
		if k, isK := core.ConstInt(x.Len); isK && k == 0 {
			return "ε"
		}
	case *ssa.UnOp:
		if x.Op == token.MUL {
			// element k of a literal list: the value stored at that position
			if ia, isIA := x.X.(*ssa.IndexAddr); isIA {
				if k, okK := strmInt(ia.Index, st); okK {
					base := ia.X
					if sl, isSl := base.(*ssa.Slice); isSl && sl.Low == nil {
						base = sl.X
					}
					if al, isAl := base.(*ssa.Alloc); isAl {
						for _, r := range core.Refs(al) {
							if ea, ok := r.(*ssa.IndexAddr); ok {
								if kk, isK := core.ConstInt(ea.Index); isK && kk == k {
									for _, rr := range core.Refs(ea) {
										if stt, ok := rr.(*ssa.Store); ok && stt.Addr == ssa.Value(ea) {
											return c.strmTok(stt.Val, fr, st, d+1)
										}
									}
								}
							}
						}
					}
				}
			}
			if t, ok := st.cells[x.X]; ok {
				return "*{" + t + "}"
			}
			inner := c.strmTok(x.X, fr, st, d+1)
			if strings.HasPrefix(inner, "&") {
				return "*" + inner[1:]
			}
			return "*" + inner
		}
	case *ssa.Alloc:
		if t, ok := st.cells[x]; ok {
			return "&{" + t + "}"
		}
		return "&" + x.Comment
	case *ssa.MakeInterface:
		return c.strmTok(x.X, fr, st, d+1)
	}
	return "?" + v.Name()
}

// recvField: v is a load of the named field of this frame's transcript.
func recvField(v ssa.Value, fr *strmFrame) string {
	u, ok := v.(*ssa.UnOp)
	if !ok || u.Op != token.MUL {
		return ""
	}
	fa, ok := u.X.(*ssa.FieldAddr)
	if !ok || fa.X != fr.recv {
		return ""
	}
	return fieldNameOf(fa)
}

// strmRun interprets fn on every path; returns the exit states.
func (c *Ctx) strmRun(fr *strmFrame, st *strmState, depth int) []*strmState {
	if depth > 5 {
		st.undec = "helper nesting too deep"
		return []*strmState{st}
	}
	if len(fr.fn.Blocks) == 0 {
		st.undec = "no body: " + core.FnName(fr.fn)
		return []*strmState{st}
	}
	var out []*strmState
	var walk func(b, pred *ssa.BasicBlock, st *strmState, visits map[*ssa.BasicBlock]int, budget *int)
	walk = func(b, pred *ssa.BasicBlock, st *strmState, visits map[*ssa.BasicBlock]int, budget *int) {
		if *budget <= 0 {
			st.undec = "too many paths"
			out = append(out, st)
			return
		}
		*budget--
		// phis: integers concretely (a loop over a literal list of chunks is simply run), everything else as tokens
		if pred != nil {
			idx := -1
			for i, p := range b.Preds {
				if p == pred {
					idx = i
				}
			}
			newInts := map[ssa.Value]int64{}
			newVals := map[ssa.Value]string{}
			for _, ins := range b.Instrs {
				phi, ok := ins.(*ssa.Phi)
				if !ok {
					break
				}
				if idx < 0 {
					continue
				}
				if k, ok := strmInt(phi.Edges[idx], st); ok {
					newInts[phi] = k
				} else {
					delete(st.ints, phi)
					newVals[phi] = c.strmTok(phi.Edges[idx], fr, st, 0)
				}
			}
			for k, v := range newInts {
				st.ints[k] = v
			}
			for k, v := range newVals {
				st.vals[k] = v
			}
		}
		visits[b]++
		defer func() { visits[b]-- }()
		if visits[b] > 40 {
			st.undec = "loop in " + core.FnName(fr.fn) + " that does not terminate on concrete values"
			out = append(out, st)
			return
		}
		states := []*strmState{st}
		for _, ins := range b.Instrs {
			var next []*strmState
			for _, s := range states {
				next = append(next, c.strmStep(ins, fr, s, depth)...)
			}
			states = next
		}
		for _, s := range states {
			if s.undec != "" {
				out = append(out, s)
				continue
			}
			switch x := b.Instrs[len(b.Instrs)-1].(type) {
			case *ssa.Return:
				if len(x.Results) > 0 {
					s.ret = c.strmTok(x.Results[0], fr, s, 0)
				}
				out = append(out, s)
			case *ssa.Panic:
				// aborting: no obligation
			case *ssa.If:
				if k, ok := strmInt(x.Cond, s); ok {
					// decided on concrete integers
					succ := b.Succs[1]
					if k != 0 {
						succ = b.Succs[0]
					}
					walk(succ, b, s, visits, budget)
					continue
				}
				if visits[b] > 1 {
					s.undec = "loop in " + core.FnName(fr.fn)
					out = append(out, s)
					continue
				}
				walk(b.Succs[0], b, s.clone(), visits, budget)
				walk(b.Succs[1], b, s, visits, budget)
			default:
				for _, succ := range b.Succs {
					walk(succ, b, s, visits, budget)
				}
			}
		}
	}
	budget := 2000
	walk(fr.fn.Blocks[0], nil, st, map[*ssa.BasicBlock]int{}, &budget)
	return out
}

// strmInt: the concrete value of an integer/boolean expression on this path.
func strmInt(v ssa.Value, st *strmState) (int64, bool) {
	return core.EvalInt(v, func(x ssa.Value) (int64, bool) {
		if k, ok := st.ints[x]; ok {
			return k, true
		}
		if call, ok := x.(*ssa.Call); ok {
			if b, isB := call.Call.Value.(*ssa.Builtin); isB && b.Name() == "len" {
				return constLen(call.Call.Args[0], 0)
			}
		}
		return 0, false
	})
}

func (c *Ctx) strmStep(ins ssa.Instruction, fr *strmFrame, st *strmState, depth int) []*strmState {
	// deferred calls of this frame run, last first, where the function runs its defers
	if _, isRD := ins.(*ssa.RunDefers); isRD {
		states := []*strmState{st}
		for {
			var next []*strmState
			progressed := false
			for _, s := range states {
				k := -1
				for i := len(s.defers) - 1; i >= 0; i-- {
					if s.defers[i].fr == fr {
						k = i
						break
					}
				}
				if k < 0 || s.undec != "" {
					next = append(next, s)
					continue
				}
				d := s.defers[k]
				s.defers = append(s.defers[:k:k], s.defers[k+1:]...)
				progressed = true
				next = append(next, c.strmApply(d.d.Common(), nil, d.d, fr, s, depth)...)
			}
			states = next
			if !progressed {
				break
			}
		}
		return states
	}
	ci, ok := ins.(ssa.CallInstruction)
	if !ok {
		return []*strmState{st}
	}
	if d, isDefer := ins.(*ssa.Defer); isDefer {
		cc := d.Common()
		touches := false
		for _, a := range cc.Args {
			if a == fr.recv || recvField(a, fr) != "" {
				touches = true
			}
		}
		if cc.IsInvoke() && recvField(cc.Value, fr) != "" {
			touches = true
		}
		if touches {
			st.defers = append(st.defers, strmDefer{fr, d})
		}
		return []*strmState{st}
	}
	if _, isCall := ins.(*ssa.Call); !isCall {
		cc := ci.Common()
		// a go statement touching the transcript: outside the model
		for _, a := range cc.Args {
			if a == fr.recv || recvField(a, fr) != "" {
				st.undec = "the transcript is used in a go statement at " + c.P.Pos(ins.Pos())
			}
		}
		return []*strmState{st}
	}
	call := ins.(*ssa.Call)
	return c.strmApply(call.Common(), call, ins, fr, st, depth)
}

// strmApply: the effect of one call (an ordinary call, or a deferred one when the defers run) on the stream state.
func (c *Ctx) strmApply(cc *ssa.CallCommon, call *ssa.Call, ins ssa.Instruction, fr *strmFrame, st *strmState, depth int) []*strmState {
	if cc.IsInvoke() {
		if recvField(cc.Value, fr) == "state" {
			switch cc.Method.Name() {
			case "Write":
				arg := cc.Args[0]
				if bc, isCall := arg.(*ssa.Call); isCall && core.IsMethod(core.Callee(bc.Common()), "bytes", "Buffer", "Bytes") && recvField(bc.Call.Args[0], fr) == "buff" {
					st.S = append(st.S, st.B...)
				} else {
					st.S = append(st.S, splitToks(c.strmTok(arg, fr, st, 0))...)
				}
			case "Sum":
				if !core.IsNilConst(cc.Args[0]) {
					st.notes = append(st.notes, "Sum is given a prefix")
				}
				st.sums = append(st.sums, append([]string(nil), st.S...))
				if call != nil {
					st.vals[call] = "H[" + strings.Join(st.S, " ") + "]"
				}
			case "Reset":
				st.S = nil
			default:
				st.undec = "hash method " + cc.Method.Name() + " at " + c.P.Pos(ins.Pos())
			}
		}
		return []*strmState{st}
	}
	f := core.Callee(cc)
	if f == nil {
		return []*strmState{st}
	}
	switch {
	case core.IsMethod(f, "bytes", "Buffer", f.Name()) && len(cc.Args) > 0 && recvField(cc.Args[0], fr) == "buff":
		switch f.Name() {
		case "Write":
			st.B = append(st.B, splitToks(c.strmTok(cc.Args[1], fr, st, 0))...)
		case "Reset":
			st.B = nil
		case "Bytes", "Len", "Cap", "Grow":
		case "WriteTo":
			// drains the buffer into the writer and leaves it empty; the hash never reports a short write
			w := cc.Args[1]
			for d := 0; d < 3; d++ {
				switch x := w.(type) {
				case *ssa.ChangeInterface:
					w = x.X
					continue
				case *ssa.MakeInterface:
					w = x.X
					continue
				}
				break
			}
			if recvField(w, fr) == "state" {
				st.S = append(st.S, st.B...)
				st.B = nil
			} else {
				st.undec = "the pending buffer is drained into something other than the hash state at " + c.P.Pos(ins.Pos())
			}
		default:
			st.undec = "buffer method " + f.Name() + " at " + c.P.Pos(ins.Pos())
		}
		return []*strmState{st}
	case core.IsMethod(f, "bandersnatch/fr", "Element", "SetBytesLE") || core.IsMethod(f, "bandersnatch/fr", "Element", "SetBytes") || core.IsMethod(f, "bandersnatch/fr", "Element", "SetBytesLECanonical"):
		st.cells[cc.Args[0]] = f.Name() + "(" + c.strmTok(cc.Args[1], fr, st, 0) + ")"
		return []*strmState{st}
	case len(cc.Args) > 0 && cc.Args[0] == fr.recv && f.Signature.Recv() != nil && core.InModule(f):
		// another method of the same transcript: interpret in place
		nf := &strmFrame{fn: f, recv: f.Params[0], toks: map[ssa.Value]string{}}
		for i, p := range f.Params {
			if i == 0 {
				continue
			}
			nf.toks[p] = c.strmTok(cc.Args[i], fr, st, 0)
		}
		exits := c.strmRun(nf, st, depth+1)
		for _, e := range exits {
			if e.ret != "" && call != nil {
				e.vals[call] = e.ret
			}
			e.ret = ""
		}
		return exits
	}
	// anything else that is handed the transcript or one of its fields escapes the model
	for _, a := range cc.Args {
		if a == fr.recv || recvField(a, fr) != "" {
			st.undec = "the transcript (or its buffer/state) is passed to " + core.CalleeName(cc) + " at " + c.P.Pos(ins.Pos())
		}
	}
	return []*strmState{st}
}

// strmCheck runs method `name` from the initial stream (S0 | B0) and hands every exit state to check.
func (c *Ctx) strmCheck(name, key, expectDesc string, check func(e *strmState) string) bool {
	fn := c.P.Fn("common", "Transcript", name)
	if fn == nil {
		c.Unresolved("F7", "common.(*Transcript)."+name)
		return false
	}
	c.Saw(core.FnName(fn))
	fr := &strmFrame{fn: fn, recv: fn.Params[0], toks: map[ssa.Value]string{}}
	st := &strmState{S: []string{"S0"}, B: []string{"B0"}, cells: map[ssa.Value]string{}, vals: map[ssa.Value]string{}, ints: map[ssa.Value]int64{}}
	exits := c.strmRun(fr, st, 0)
	if len(exits) == 0 {
		c.Und("F7", key, fn.Pos(), name+" has no returning path")
		return false
	}
	var bad []string
	for _, e := range exits {
		if e.undec != "" {
			c.Und("F7", key, fn.Pos(), "cannot follow the transcript through "+name+": "+e.undec)
			return false
		}
		if why := check(e); why != "" {
			bad = append(bad, why)
		}
	}
	return c.Check(len(bad) == 0, "F7", key, fn.Pos(), name+": on some path "+strings.Join(uniqStrings(bad), "; ")+" — expected "+expectDesc, fmt.Sprintf("%d path(s): %s", len(exits), expectDesc))
}

func streamOf(e *strmState) string {
	return strings.Join(append(append([]string(nil), e.S...), e.B...), " ")
}

// strmFacts: the stream obligations of F7.
func (c *Ctx) strmFacts() int {
	n := 0
	appendExpect := func(name string, want []string) {
		desc := "the stream grows by exactly [" + strings.Join(want, " ") + "], after everything absorbed before"
		n++
		c.strmCheck(name, name+":stream", desc, func(e *strmState) string {
			got := streamOf(e)
			exp := "S0 B0 " + strings.Join(want, " ")
			if got != exp {
				return fmt.Sprintf("the logical stream (hash state then pending buffer) becomes [%s]", got)
			}
			if len(e.sums) > 0 {
				return "a digest is taken while appending"
			}
			return ""
		})
	}
	appendExpect("AppendMessage", []string{"p:label", "p:message"})
	appendExpect("DomainSep", []string{"p:label"})
	appendExpect("AppendScalar", []string{"p:label", "BytesLE(p:scalar)"})
	appendExpect("AppendPoint", []string{"p:label", "Bytes(p:point)"})
	chal := "SetBytesLE(H[S0 B0 p:label])"
	n++
	c.strmCheck("ChallengeScalar", "ChallengeScalar:stream", "one digest over [S0 B0 p:label]; afterwards the stream is exactly [p:label BytesLE(challenge)]; the challenge (little-endian reduction of the digest) is returned", func(e *strmState) string {
		if len(e.sums) != 1 {
			return fmt.Sprintf("%d digests are taken", len(e.sums))
		}
		if got := strings.Join(e.sums[0], " "); got != "S0 B0 p:label" {
			return "the digest is taken over [" + got + "]"
		}
		if got, want := streamOf(e), "p:label BytesLE({"+chal+"})"; got != want {
			return "the stream after the challenge (hash state then pending buffer) is [" + got + "], not [" + want + "]: the state must be reset after the digest and hold nothing but the re-absorbed challenge under its label"
		}
		if e.ret != "*{"+chal+"}" {
			return "the returned value is " + e.ret + ", not the re-absorbed challenge"
		}
		return ""
	})
	return n
}

// splitToks: a message assembled with append is the sequence of its parts; the empty slice contributes nothing.
func splitToks(t string) []string {
	var out []string
	for _, p := range strings.Split(t, " ++ ") {
		if p != "ε" && p != "nil" { // writing an empty or nil slice appends nothing
			out = append(out, p)
		}
	}
	return out
}
