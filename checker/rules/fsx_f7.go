package rules

import (
	"fmt"
	"go/token"
	"go/types"
	"strings"

	"golang.org/x/tools/go/ssa"

	"verif/checker/core"
)

func findCalls(fn *ssa.Function, pred func(*ssa.CallCommon) bool) []ssa.CallInstruction {
	var out []ssa.CallInstruction
	for _, ci := range core.CallsIn(fn) {
		if pred(ci.Common()) {
			out = append(out, ci)
		}
	}
	return out
}

func staticIs(pkgSuffix, typ, name string) func(*ssa.CallCommon) bool {
	return func(c *ssa.CallCommon) bool {
		f := core.Callee(c)
		if typ == "" {
			return core.IsFunc(f, pkgSuffix, name)
		}
		return core.IsMethod(f, pkgSuffix, typ, name)
	}
}

func invokeIs(name string) func(*ssa.CallCommon) bool {
	return func(c *ssa.CallCommon) bool { return c.IsInvoke() && c.Method.Name() == name }
}

// one: exactly one matching call, post-dominating entry.
func (c *Ctx) f7one(fn *ssa.Function, what string, pred func(*ssa.CallCommon) bool) ssa.CallInstruction {
	cs := findCalls(fn, pred)
	key := core.FnName(fn) + ":" + what
	if len(cs) != 1 {
		c.Bad("F7", key, fn.Pos(), fmt.Sprintf("expected exactly one %s in %s, found %d", what, core.FnName(fn), len(cs)))
		return nil
	}
	if _, isGo := cs[0].(*ssa.Go); isGo {
		c.Bad("F7", key, cs[0].Pos(), what+" is started as a goroutine")
		return nil
	}
	if _, isDefer := cs[0].(*ssa.Defer); isDefer {
		c.Bad("F7", key, cs[0].Pos(), what+" is deferred")
		return nil
	}
	if !core.PostDominatesEntry(fn, cs[0]) {
		c.Bad("F7", key, cs[0].Pos(), what+" is not executed on every path through "+core.FnName(fn)+" (it is conditional)")
		return nil
	}
	c.OK("F7", key, cs[0].Pos(), "unique, on every path from entry to return")
	return cs[0]
}

func (c *Ctx) f7order(fn *ssa.Function, a, b ssa.CallInstruction, what string) {
	if a == nil || b == nil {
		return
	}
	key := core.FnName(fn) + ":order:" + what
	c.Check(core.Precedes(fn, a, b) && !core.CanReach(fn, b, a), "F7", key, b.Pos(), "ordering violated: "+what, "every path to the second passes the first; no path back")
}

func isLoadOfField(v ssa.Value, recv string, field string) bool {
	return core.PathOf(v) == "*(p:"+recv+"."+field+")"
}

// RuleF7 — transcript internals.
func RuleF7(c *Ctx) {
	c.Rule("F7", "transcript internals: appends are unconditional and complete (label then message, the parameters themselves); a challenge hashes everything pending exactly once before the buffer is cleared, takes the digest before resetting the state, re-absorbs and returns the same little-endian-reduced scalar; points/scalars are absorbed as their canonical encodings; the protocol label is hashed first")
	facts := 0
	count := func() { facts++ }

	// (a) what each method does to the logical stream (hash state, then pending buffer), on every path,
	// with helper methods interpreted in place
	facts += c.strmFacts()

	// (b) ChallengeScalar
	if fn := c.P.Fn("common", "Transcript", "ChallengeScalar"); fn == nil {
		c.Unresolved("F7", "common.(*Transcript).ChallengeScalar")
	} else {
		c.Saw(core.FnName(fn))
		sum := c.f7one(fn, "state.Sum", invokeIs("Sum"))
		sr := c.f7one(fn, "state.Reset()", invokeIs("Reset"))
		dec := c.f7one(fn, "fr.SetBytesLE(digest)", staticIs("/fr", "Element", "SetBytesLE"))
		as := c.f7one(fn, "AppendScalar(challenge,label)", staticIs("/common", "Transcript", "AppendScalar"))
		c.f7order(fn, sum, sr, "state.Sum before state.Reset")
		c.f7order(fn, sr, as, "state.Reset before re-absorbing the challenge")
		c.f7order(fn, sum, dec, "digest before decoding")
		c.f7order(fn, dec, as, "decode before re-absorbing")
		facts += 4
		if sum != nil && sr != nil && dec != nil && as != nil {
			ok := true
			var why []string
			req := func(cond bool, msg string) {
				if !cond {
					ok = false
					why = append(why, msg)
				}
			}
			req(isLoadOfField(sum.Common().Value, "t", "state") && isLoadOfField(sr.Common().Value, "t", "state"), "Sum/Reset not on t.state")
			// decode: receiver is a local cell, argument is the Sum result
			cell, isAlloc := dec.Common().Args[0].(*ssa.Alloc)
			req(isAlloc, "challenge is not decoded into a local")
			req(dec.Common().Args[1] == sum.(ssa.Value), "the decoded bytes are not the digest returned by Sum")
			req(as.Common().Args[1] == ssa.Value(cell), "the re-absorbed scalar is not the decoded challenge")
			req(core.PathOf(as.Common().Args[2]) == "p:label", "the challenge is not re-absorbed under its label")
			// no other store to the cell; the return value is a load of the cell
			if isAlloc {
				for _, r := range core.Refs(cell) {
					if st, isStore := r.(*ssa.Store); isStore && st.Addr == cell {
						req(false, "the challenge cell is overwritten")
					}
				}
				for _, r := range core.Returns(fn) {
					u, isLoad := r.Results[0].(*ssa.UnOp)
					req(isLoad && u.Op == token.MUL && u.X == ssa.Value(cell), "the returned value is not the re-absorbed challenge")
				}
			}
			c.Check(ok, "F7", "ChallengeScalar:dataflow", fn.Pos(), "challenge derivation deviates from the specification: "+fmt.Sprint(why),
				"hash input = t.buff.Bytes()", "digest -> fr.SetBytesLE (little-endian, reducing) -> local", "same local re-absorbed under label and returned")
			facts += 3
		}
		// no use of the canonical (rejecting) decoder for the digest
		n := len(findCalls(fn, staticIs("/fr", "Element", "SetBytesLECanonical"))) + len(findCalls(fn, staticIs("/fr", "Element", "SetBytes")))
		c.Check(n == 0, "F7", "ChallengeScalar:reducing-LE-decoder", fn.Pos(), "the digest must be reduced little-endian (SetBytesLE), not decoded big-endian or rejected when >= r", "only SetBytesLE is applied")
		count()
	}

	// (d) NewTranscript
	if fn := c.P.Fn("common", "", "NewTranscript"); fn == nil {
		c.Unresolved("F7", "common.NewTranscript")
	} else {
		c.Saw(core.FnName(fn))
		nw := c.f7one(fn, "sha256.New()", staticIs("crypto/sha256", "", "New"))
		// digest.Write(label), or the same through io.WriteString(digest, label)
		var w ssa.CallInstruction
		var wHash, wData ssa.Value
		if ws := findCalls(fn, staticIs("io", "", "WriteString")); len(ws) == 1 && len(findCalls(fn, invokeIs("Write"))) == 0 {
			w = c.f7one(fn, "digest.Write(label)", staticIs("io", "", "WriteString"))
			if w != nil {
				wHash, wData = w.Common().Args[0], w.Common().Args[1]
				for d := 0; d < 3; d++ {
					switch x := wHash.(type) {
					case *ssa.MakeInterface:
						wHash = x.X
					case *ssa.ChangeInterface:
						wHash = x.X
					}
				}
			}
		} else {
			w = c.f7one(fn, "digest.Write(label)", invokeIs("Write"))
			if w != nil {
				wHash, wData = w.Common().Value, w.Common().Args[0]
			}
		}
		// the pending buffer: bytes.NewBuffer over an empty slice, or a zero-value bytes.Buffer that nothing writes before it is stored
		var nbVal ssa.Value
		empty := false
		nbCalls := findCalls(fn, staticIs("bytes", "", "NewBuffer"))
		core.AllInstrs(fn, func(i ssa.Instruction) {
			if st, isStore := i.(*ssa.Store); isStore {
				if fa, isFA := st.Addr.(*ssa.FieldAddr); isFA && fieldNameOf(fa) == "buff" {
					if _, isT := fa.X.Type().Underlying().(*types.Pointer); isT && strings.HasSuffix(fa.X.Type().String(), "common.Transcript") {
						nbVal = st.Val
					}
				}
			}
		})
		switch x := nbVal.(type) {
		case *ssa.Call:
			if len(nbCalls) == 1 && nbCalls[0] == ssa.CallInstruction(x) {
				arg := x.Call.Args[0]
				if sl, isSlice := arg.(*ssa.Slice); isSlice && sl.High != nil {
					if k, isK := core.ConstInt(sl.High); isK && k == 0 {
						empty = true
					}
				}
				if ms, isMS := arg.(*ssa.MakeSlice); isMS {
					if k, isK := core.ConstInt(ms.Len); isK && k == 0 {
						empty = true
					}
				}
			}
		case *ssa.Alloc:
			// &bytes.Buffer{} / new(bytes.Buffer): zero value is an empty buffer; its only use must be the store into the transcript
			if strings.HasSuffix(x.Type().String(), "*bytes.Buffer") && len(nbCalls) == 0 {
				empty = true
				for _, r := range *x.Referrers() {
					if st, isStore := r.(*ssa.Store); isStore && st.Val == ssa.Value(x) {
						continue
					}
					if _, isDbg := r.(*ssa.DebugRef); isDbg {
						continue
					}
					// reserving capacity leaves the buffer empty
					if gc, isCall := r.(*ssa.Call); isCall && core.IsMethod(core.Callee(gc.Common()), "bytes", "Buffer", "Grow") {
						continue
					}
					empty = false
				}
			}
		}
		if nbVal == nil {
			c.Bad("F7", "common.NewTranscript:buffer", fn.Pos(), "NewTranscript never stores a pending buffer into the transcript it returns")
		}
		if nw != nil && w != nil && nbVal != nil {
			// the Write is on the hash object: the sha256.New() value itself, or the state field it was stored into
			onHash := wHash == nw.(ssa.Value)
			if u, isLoad := wHash.(*ssa.UnOp); isLoad && u.Op == token.MUL {
				if fa, isFA := u.X.(*ssa.FieldAddr); isFA && fieldNameOf(fa) == "state" && strings.HasSuffix(fa.X.Type().String(), "common.Transcript") {
					for _, st := range allStoresToField(fn, fa.X, "state") {
						if st.Val == nw.(ssa.Value) && core.Precedes(fn, st, w) {
							onHash = true
						}
					}
				}
			}
			ok := onHash && core.FlowsTo(fn.Params[0], wData, nil)
			var stState bool
			stBuff := true
			core.AllInstrs(fn, func(i ssa.Instruction) {
				if st, isStore := i.(*ssa.Store); isStore {
					if fa, isFA := st.Addr.(*ssa.FieldAddr); isFA && fieldNameOf(fa) == "state" && strings.HasSuffix(fa.X.Type().String(), "common.Transcript") {
						stState = st.Val == nw.(ssa.Value)
					}
				}
			})
			c.Check(ok && stState && stBuff && empty, "F7", "NewTranscript:label-first", fn.Pos(), "NewTranscript must hash the protocol label into the state it stores, and start with an empty pending buffer",
				"state = sha256.New() after Write(label)", "buff = empty bytes.Buffer")
			count()
		}
	}
	c.FloorN("F7", 12, facts, "stream/ordering/dataflow facts")
}

// wholeSlice: v is `x[:]` of a local array (no bounds), i.e. the complete encoding.
func wholeSlice(v ssa.Value) bool {
	sl, ok := v.(*ssa.Slice)
	return ok && sl.Low == nil && sl.High == nil && sl.Max == nil
}

// allStoresToField: stores into field `name` of the object base points to.
func allStoresToField(fn *ssa.Function, base ssa.Value, name string) []*ssa.Store {
	var out []*ssa.Store
	core.AllInstrs(fn, func(i ssa.Instruction) {
		if st, ok := i.(*ssa.Store); ok {
			if fa, ok := st.Addr.(*ssa.FieldAddr); ok && fa.X == base && fieldNameOf(fa) == name {
				out = append(out, st)
			}
		}
	})
	return out
}
