package rules

// D9 — setters/decoders overwrite their receiver completely before reading it (no stale state leaks into the result).

import (
	"fmt"
	"go/token"
	"go/types"
	"sort"
	"strings"

	"golang.org/x/tools/go/ssa"

	"verif/checker/core"
)

type mwKey struct {
	fn *ssa.Function
	pi int
}

type mwState struct {
	c    *Ctx
	memo map[mwKey]*mwResult
	busy map[mwKey]bool
}

type mwResult struct {
	ok  bool
	why string
	pos token.Pos
}

// pathFrom: addr derived from parameter p by constant field/index steps -> path ("" = p itself).
func pathFrom(v ssa.Value, p *ssa.Parameter) (string, bool) {
	q, path, ok := paramPath(v)
	if !ok || q != p {
		return "", false
	}
	return path, true
}

// complete: do the written paths cover the whole object of type t (prefix = path of the object)?
func complete(written map[string]bool, prefix string, t types.Type, depth int) bool {
	if written[prefix] {
		return true
	}
	if depth > 6 {
		return false
	}
	switch u := t.Underlying().(type) {
	case *types.Array:
		if u.Len() > 16 {
			return false
		}
		for k := int64(0); k < u.Len(); k++ {
			if !complete(written, fmt.Sprintf("%s[%d]", prefix, k), u.Elem(), depth+1) {
				return false
			}
		}
		return u.Len() > 0
	case *types.Struct:
		for i := 0; i < u.NumFields(); i++ {
			if !complete(written, prefix+"."+u.Field(i).Name(), u.Field(i).Type(), depth+1) {
				return false
			}
		}
		return u.NumFields() > 0
	}
	return false
}

func covered(written map[string]bool, path string) bool {
	// path or any prefix of it written
	parts := splitPath(path)
	cur := ""
	if written[""] {
		return true
	}
	for _, p := range parts {
		cur += p
		if written[cur] {
			return true
		}
	}
	return false
}

// externalMW: callees without analysable body that fully overwrite the given argument position.
func externalMW(f *ssa.Function, pos int) (overwrites bool, known bool) {
	if f == nil {
		return false, false
	}
	if core.InModule(f) && len(f.Blocks) == 0 {
		switch f.Name() {
		case "add", "sub", "neg", "double", "mul":
			return pos == 0, true
		default: // fromMont, reduce, MulBy*, Butterfly: in/out operands
			return false, true
		}
	}
	if core.IsMethod(f, "bls12-381/fr", "Element", f.Name()) && pos == 0 {
		if gnarkObservers[f.Name()] {
			return false, true
		}
		switch f.Name() {
		case "FromMont", "ToMont", "Reduce":
			return false, true
		}
		return true, true // gnark mutators compute the receiver from their operands
	}
	if r := f.Signature.Recv(); r != nil {
		t := r.Type()
		if p, ok := t.(*types.Pointer); ok {
			t = p.Elem()
		}
		if n, ok := t.(*types.Named); ok && n.Obj().Pkg() != nil && strings.HasSuffix(n.Obj().Pkg().Path(), "bls12-381/bandersnatch") {
			return pos == 0, true
		}
	}
	return false, false
}

func (m *mwState) mustOverwrite(fn *ssa.Function, pi int) *mwResult {
	k := mwKey{fn, pi}
	if r, ok := m.memo[k]; ok {
		return r
	}
	if m.busy[k] {
		return &mwResult{false, "recursive", fn.Pos()}
	}
	m.busy[k] = true
	r := m.compute(fn, pi)
	delete(m.busy, k)
	m.memo[k] = r
	return r
}

func (m *mwState) compute(fn *ssa.Function, pi int) *mwResult {
	if pi >= len(fn.Params) || len(fn.Blocks) == 0 {
		return &mwResult{false, "no body", fn.Pos()}
	}
	p := fn.Params[pi]
	pt, ok := p.Type().Underlying().(*types.Pointer)
	if !ok {
		return &mwResult{false, "not a pointer parameter", fn.Pos()}
	}
	// must-written sets per block entry; nil = not yet reached (top)
	in := map[*ssa.BasicBlock]map[string]bool{fn.Blocks[0]: {}}
	var viol *mwResult
	note := func(why string, pos token.Pos) {
		if viol == nil {
			viol = &mwResult{false, why, pos}
		}
	}
	out := map[*ssa.BasicBlock]map[string]bool{}
	transfer := func(b *ssa.BasicBlock, st map[string]bool, report bool) map[string]bool {
		cur := map[string]bool{}
		for k := range st {
			cur[k] = true
		}
		for _, ins := range b.Instrs {
			switch x := ins.(type) {
			case *ssa.Store:
				if path, ok := pathFrom(x.Addr, p); ok {
					cur[path] = true
				}
			case *ssa.UnOp:
				if x.Op == token.MUL {
					if path, ok := pathFrom(x.X, p); ok && !covered(cur, path) && !complete(cur, "", pt.Elem(), 0) {
						// reading a part that this function has not written yet
						if report {
							note(fmt.Sprintf("reads %s%s before it has been overwritten", p.Name(), path), x.Pos())
						}
					}
				}
			case ssa.CallInstruction:
				cc := x.Common()
				if _, isB := cc.Value.(*ssa.Builtin); isB || cc.IsInvoke() {
					continue
				}
				var positions []int
				var paths []string
				for ai, a := range cc.Args {
					if path, ok := pathFrom(a, p); ok {
						positions = append(positions, ai)
						paths = append(paths, path)
					}
				}
				if len(positions) == 0 {
					continue
				}
				callee := core.Callee(cc)
				var cands []*ssa.Function
				if callee != nil {
					cands = []*ssa.Function{callee}
				} else {
					cands = core.CalleeCandidates(cc) // dispatch through a function variable: every candidate must overwrite
				}
				for j, ai := range positions {
					path := paths[j]
					ow := len(cands) > 0
					for _, cand := range cands {
						one := false
						if o, known := externalMW(cand, ai); known {
							one = o
						} else if core.InModule(cand) && len(cand.Blocks) > 0 {
							one = m.mustOverwrite(cand, ai).ok
						}
						if !one {
							ow = false
						}
					}
					// the same object passed in another position is an operand: a read
					readElsewhere := false
					for j2 := range positions {
						if j2 != j && overlaps(paths[j2], path) {
							readElsewhere = true
						}
					}
					partComplete := covered(cur, path) || complete(cur, path, typeAt(pt.Elem(), path), 0)
					if (!ow || readElsewhere) && !partComplete {
						if report {
							cn := "a callee"
							if callee != nil {
								cn = core.FnName(callee)
							}
							note(fmt.Sprintf("hands %s%s to %s, which reads it, before it has been completely overwritten (stale contents leak into the result)", p.Name(), path, cn), x.Pos())
						}
					}
					if ow {
						cur[path] = true
					}
				}
			}
		}
		return cur
	}
	// iterate: must-analysis (intersection over predecessors)
	for changed, iter := true, 0; changed && iter < 60; iter++ {
		changed = false
		for _, b := range fn.Blocks {
			st, reached := in[b]
			if !reached {
				continue
			}
			o := transfer(b, st, false)
			out[b] = o
			for _, s := range b.Succs {
				old, had := in[s]
				if !had {
					cp := map[string]bool{}
					for k := range o {
						cp[k] = true
					}
					in[s] = cp
					changed = true
					continue
				}
				for k := range old {
					if !o[k] {
						delete(old, k)
						changed = true
					}
				}
			}
		}
	}
	for _, b := range fn.Blocks {
		if st, reached := in[b]; reached {
			transfer(b, st, true)
		}
	}
	if viol != nil {
		return viol
	}
	// completeness at every success return
	for _, r := range core.Returns(fn) {
		if n := len(r.Results); n > 0 && isErrorType(r.Results[n-1].Type()) && !core.IsNilConst(r.Results[n-1]) {
			continue // error return: no obligation
		}
		// returning nil pointer result (e.g. Sqrt's "no root"): no obligation
		if len(r.Results) > 0 && core.IsNilConst(r.Results[0]) {
			if _, isPtr := r.Results[0].Type().Underlying().(*types.Pointer); isPtr {
				continue
			}
		}
		st := out[r.Block()]
		if st == nil || !complete(st, "", pt.Elem(), 0) {
			var ws []string
			for k := range st {
				ws = append(ws, p.Name()+k)
			}
			sort.Strings(ws)
			return &mwResult{false, fmt.Sprintf("returns successfully with %s only partly overwritten (written: %v)", p.Name(), ws), r.Pos()}
		}
	}
	return &mwResult{true, "", fn.Pos()}
}

func typeAt(t types.Type, path string) types.Type {
	for _, part := range splitPath(path) {
		switch u := t.Underlying().(type) {
		case *types.Struct:
			name := strings.TrimPrefix(part, ".")
			found := false
			for i := 0; i < u.NumFields(); i++ {
				if u.Field(i).Name() == name {
					t = u.Field(i).Type()
					found = true
				}
			}
			if !found {
				return t
			}
		case *types.Array:
			t = u.Elem()
		default:
			return t
		}
	}
	return t
}

// RuleD9 — listed setters/decoders completely overwrite the named parameter before reading it.
func RuleD9(targets [][4]string) Rule {
	return func(c *Ctx) {
		c.Rule("D9", "setters and decoders overwrite: on every successful path the output object is completely overwritten (whole-value store, all limbs/fields, or a callee that does so) before any of it is read, so the result never depends on what the destination held before")
		m := &mwState{c: c, memo: map[mwKey]*mwResult{}, busy: map[mwKey]bool{}}
		n := 0
		for _, t := range targets {
			fn := c.P.Fn(t[0], t[1], t[2])
			if fn == nil {
				c.Unresolved("D9", strings.Join(t[:3], "."))
				continue
			}
			pi := -1
			for i, p := range fn.Params {
				if p.Name() == t[3] {
					pi = i
				}
			}
			if pi < 0 {
				c.Unresolved("D9", strings.Join(t[:], "."))
				continue
			}
			n++
			c.Saw(core.FnName(fn))
			r := m.mustOverwrite(fn, pi)
			key := core.FnName(fn) + "#" + t[3]
			if r.ok {
				c.OK("D9", key, fn.Pos(), "completely overwritten before any read on every successful path")
			} else {
				c.Bad("D9", key, r.pos, core.FnName(fn)+" "+r.why+": decoding/setting into a destination that already holds a value gives a different result than into a fresh one")
			}
		}
		c.FloorN("D9", len(targets), n, "setters/decoders")
	}
}

var frSetters = [][4]string{
	{"bandersnatch/fr", "Element", "SetBytes", "z"}, {"bandersnatch/fr", "Element", "SetBytesLE", "z"}, {"bandersnatch/fr", "Element", "SetBytesLECanonical", "z"},
	{"bandersnatch/fr", "Element", "SetBigInt", "z"}, {"bandersnatch/fr", "Element", "SetString", "z"}, {"bandersnatch/fr", "Element", "SetUint64", "z"},
	{"bandersnatch/fr", "Element", "SetOne", "z"}, {"bandersnatch/fr", "Element", "SetZero", "z"}, {"bandersnatch/fr", "Element", "Set", "z"},
}

var pointSetters = [][4]string{
	{"banderwagon", "Element", "SetBytes", "p"}, {"banderwagon", "Element", "SetBytesUnsafe", "p"}, {"banderwagon", "Element", "SetBytesUncompressed", "p"},
	{"banderwagon", "Element", "setBytes", "p"}, {"banderwagon", "Element", "SetIdentity", "p"}, {"banderwagon", "Element", "Set", "p"},
}

var mapSetters = [][4]string{
	{"banderwagon", "Element", "MapToScalarField", "res"},
	{"bandersnatch/fr", "Element", "SetBytesLE", "z"},
}

// the output point of the variable-base MSM's inner routines: written on every path (an untouched accumulator is
// the all-zero pseudo-point, not the identity)
var msmOutputs = [][4]string{
	{"banderwagon", "Element", "MultiExp", "p"},
	{"bandersnatch", "", "MultiExp", "p"},
	{"bandersnatch", "", "msmInnerPointProj", "p"},
	{"bandersnatch", "", "msmReduceChunkPointAffine", "p"},
	{"bandersnatch", "", "msmReduceChunkPointAffineDMA", "p"},
}

// RuleD10 — the reducing byte decoders reduce through math/big only.
func RuleD10(c *Ctx) {
	c.Rule("D10", "reducing decoders: fr.Element.SetBytes and SetBytesLE hand the complete input to a big.Int (big.Int.SetBytes) and set the receiver through z.SetBigInt(thatInt) on every path to return; nothing else in them writes the receiver. The reduction itself is then SetBigInt's (decided by D4/D9); a hand-written limb reduction on some path is not something these rules can vouch for and is reported")
	n := 0
	for _, name := range []string{"SetBytes", "SetBytesLE"} {
		fn := c.P.Fn("bandersnatch/fr", "Element", name)
		if fn == nil {
			c.Unresolved("D10", "fr.Element."+name)
			continue
		}
		c.Saw(core.FnName(fn))
		n++
		z, e := fn.Params[0], fn.Params[1]
		key := name + ":through-SetBigInt"
		var sets []*ssa.Call
		var others []string
		for _, f := range core.Family(fn) {
			for _, ci := range core.CallsIn(f) {
				cc := ci.Common()
				touches := false
				for _, a := range cc.Args {
					if p, _, ok := paramPath(a); ok && p == z && f == fn {
						touches = true
					}
				}
				if !touches {
					continue
				}
				callee := core.Callee(cc)
				if call, isCall := ci.(*ssa.Call); isCall && core.IsMethod(callee, "bandersnatch/fr", "Element", "SetBigInt") && cc.Args[0] == ssa.Value(z) {
					sets = append(sets, call)
					continue
				}
				// SetBytesLE may hand the (reordered) input to the big-endian sibling, which has this obligation itself
				if call, isCall := ci.(*ssa.Call); isCall && name == "SetBytesLE" && core.IsMethod(callee, "bandersnatch/fr", "Element", "SetBytes") && cc.Args[0] == ssa.Value(z) {
					sets = append(sets, call)
					continue
				}
				if callee != nil && gnarkObservers[callee.Name()] {
					continue
				}
				others = append(others, fmt.Sprintf("%s at %s", core.CalleeName(cc), c.P.Pos(ci.Pos())))
			}
		}
		core.AllInstrs(fn, func(i ssa.Instruction) {
			if st, ok := i.(*ssa.Store); ok {
				if p, _, ok := paramPath(st.Addr); ok && p == z {
					others = append(others, "a direct limb store at "+c.P.Pos(st.Pos()))
				}
			}
		})
		var why []string
		if len(others) > 0 {
			sort.Strings(others)
			why = append(why, "the receiver is also written by "+strings.Join(others, ", ")+": a reduction other than SetBigInt's")
		}
		if len(sets) == 0 {
			why = append(why, "no z.SetBigInt call")
		}
		for _, r := range core.Returns(fn) {
			cut := core.NewCuts()
			for _, s := range sets {
				cut.AddInstr(s)
			}
			if len(sets) > 0 && !core.MustPass(fn, cut, r) {
				why = append(why, "the return at "+c.P.Pos(r.Pos())+" is reachable without z.SetBigInt")
			}
		}
		for _, s := range sets {
			// the integer: big.Int.SetBytes(x) on the same *big.Int before, x the (possibly reordered) complete input
			v := s.Call.Args[1]
			fed := false
			if core.IsMethod(core.Callee(s.Common()), "bandersnatch/fr", "Element", "SetBytes") {
				fed = v == ssa.Value(e) || wholeOfValue(v, e) || core.FlowsTo(e, v, func(call *ssa.Call, argIdx int) bool { return true })
				if !fed {
					why = append(why, "the bytes handed to z.SetBytes at "+c.P.Pos(s.Pos())+" do not come from the input")
				}
				continue
			}
			for _, bs := range callsTo(fn, "math/big", "Int", "SetBytes") {
				if bs.Call.Args[0] != v || !core.Precedes(fn, bs, s) {
					continue
				}
				x := bs.Call.Args[1]
				if x == ssa.Value(e) || wholeOfValue(x, e) || core.FlowsTo(e, x, func(call *ssa.Call, argIdx int) bool { return true }) {
					fed = true
				}
			}
			if !fed {
				why = append(why, "the big.Int handed to SetBigInt at "+c.P.Pos(s.Pos())+" is not filled from the input by big.Int.SetBytes beforehand")
			}
		}
		c.Check(len(why) == 0, "D10", key, fn.Pos(), "fr.Element."+name+": "+strings.Join(uniqStrings(why), "; "), "input -> big.Int.SetBytes -> z.SetBigInt on every path; no other write of z")
	}
	c.FloorN("D10", 2, n, "reducing decoders")
}

func wholeOfValue(v, base ssa.Value) bool {
	if sl, ok := v.(*ssa.Slice); ok && wholeSlice(sl) {
		return sl.X == base || wholeOfValue(sl.X, base)
	}
	return false
}

// RuleD11 — all-or-nothing decoding: a rejected input leaves the destination untouched.
func RuleD11(targets [][4]string) Rule {
	return func(c *Ctx) {
		c.Rule("D11", "all-or-nothing decoding: in the listed decoders no write to the destination can be followed by an error return — every check is made on locals and the destination is assigned only once the input has been accepted (a rejected input must not leave a half-updated element behind)")
		st := c.wfxGet()
		n := 0
		for _, t := range targets {
			fn := c.P.Fn(t[0], t[1], t[2])
			if fn == nil {
				c.Unresolved("D11", strings.Join(t[:3], "."))
				continue
			}
			s := st.sums[fn]
			if s == nil {
				s = st.onDemand(fn)
			}
			if s == nil {
				c.Und("D11", core.FnName(fn), fn.Pos(), "no write summary")
				continue
			}
			c.Saw(core.FnName(fn))
			n++
			key := core.FnName(fn) + "#" + t[3]
			var writes []ssa.Instruction
			for _, cz := range s.Causes["param:"+t[3]] {
				if cz.at == nil || cz.at.Parent() != fn {
					continue
				}
				// a call to another listed decoder is all-or-nothing by its own obligation
				if ci, isCall := cz.at.(ssa.CallInstruction); isCall {
					if callee := core.Callee(ci.Common()); callee != nil {
						listed := false
						for _, t2 := range targets {
							if c.P.Fn(t2[0], t2[1], t2[2]) == callee {
								listed = true
							}
						}
						if listed {
							continue
						}
					}
				}
				writes = append(writes, cz.at)
			}
			var errRets []*ssa.Return
			for _, r := range core.Returns(fn) {
				if k := len(r.Results); k > 0 && isErrorType(r.Results[k-1].Type()) && !core.IsNilConst(r.Results[k-1]) {
					errRets = append(errRets, r)
				}
			}
			ok := true
			why := ""
			for _, w := range writes {
				for _, r := range errRets {
					if core.CanReach(fn, w, r) {
						ok = false
						why = fmt.Sprintf("the error return at %s is reachable after the write to %s at %s: a rejected input leaves the destination partly overwritten", c.P.Pos(r.Pos()), t[3], c.P.Pos(w.Pos()))
					}
				}
			}
			c.Check(ok, "D11", key, fn.Pos(), core.FnName(fn)+": "+why, fmt.Sprintf("%d write point(s), %d error return(s), none reachable after a write", len(writes), len(errRets)))
		}
		c.FloorN("D11", len(targets), n, "decoders")
	}
}

var atomicDecoders = [][4]string{
	{"banderwagon", "Element", "setBytes", "p"},
	{"banderwagon", "Element", "SetBytesUncompressed", "p"},
	{"banderwagon", "Element", "SetBytes", "p"},
	{"banderwagon", "Element", "SetBytesUnsafe", "p"},
	{"bandersnatch/fr", "Element", "SetBytesLECanonical", "z"},
}

// RuleZ2 — group-element locals are set before they are used as operands.
func RuleZ2(c *Ctx) {
	c.Rule("Z2", "no zero-value points: every local of a group-element type (banderwagon.Element, the bandersnatch point types) is written — assigned, or the receiver/output of an operation — on every path before it is read as an operand or observed; the Go zero value (0,0,0) is not a point, is absorbing under addition, and compares equal to everything under the cross-product test")
	st := c.wfxGet()
	isPointType := func(t types.Type) bool {
		if p, ok := t.Underlying().(*types.Pointer); ok {
			t = p.Elem()
		}
		n, ok := t.(*types.Named)
		if !ok || n.Obj().Pkg() == nil {
			return false
		}
		path, name := n.Obj().Pkg().Path(), n.Obj().Name()
		switch {
		case strings.HasSuffix(path, "/banderwagon") && name == "Element":
			return true
		case strings.HasSuffix(path, "/bandersnatch") && (name == "PointProj" || name == "PointAffine" || name == "PointExtended" || name == "PointExtendedNormalized"):
			return true
		}
		return false
	}
	n := 0
	for _, top := range c.P.TopFuncs() {
		if inHelperPkg(top) || isInit(top) {
			continue
		}
		for _, fn := range core.Family(top) {
			core.AllInstrs(fn, func(i ssa.Instruction) {
				al, ok := i.(*ssa.Alloc)
				if !ok || core.ParamSpill(al) != nil || !isPointType(al.Type()) {
					return
				}
				// captured by a closure: out of reach of an intraprocedural rule
				for _, r := range core.Refs(al) {
					if _, isMC := r.(*ssa.MakeClosure); isMC {
						return
					}
				}
				cuts := core.NewCuts()
				var reads []ssa.Instruction
				rooted := func(v ssa.Value) bool {
					for d := 0; d < 6; d++ {
						if v == ssa.Value(al) {
							return true
						}
						fa, ok := v.(*ssa.FieldAddr)
						if !ok {
							return false
						}
						v = fa.X
					}
					return false
				}
				core.AllInstrs(fn, func(u ssa.Instruction) {
					switch x := u.(type) {
					case *ssa.Store:
						if rooted(x.Addr) {
							cuts.AddInstr(x)
						}
					case *ssa.UnOp:
						if x.Op == token.MUL && rooted(x.X) {
							// a load nothing uses (`_ = x`) observes nothing
							if rs := x.Referrers(); rs != nil && len(*rs) == 0 {
								return
							}
							reads = append(reads, x)
						}
					case ssa.CallInstruction:
						cc := x.Common()
						if cc.IsInvoke() {
							return
						}
						callee := core.Callee(cc)
						var sum *wsummary
						if callee != nil {
							if st.scope(callee) && len(callee.Blocks) > 0 {
								sum = st.sums[callee]
								if sum == nil {
									sum = st.onDemand(callee)
								}
							} else {
								sum = trustSummary(c.P, callee)
							}
						}
						wrote, read := false, false
						for k, a := range cc.Args {
							if !rooted(a) {
								continue
							}
							if sum == nil || sum.W[k] {
								wrote = true
							} else {
								read = true
							}
						}
						// the same local as output and as operand: p.Add(&p, &q) reads p
						if wrote {
							cnt := 0
							for _, a := range cc.Args {
								if rooted(a) {
									cnt++
								}
							}
							if cnt > 1 {
								read = true
							}
						}
						if read {
							reads = append(reads, x)
						}
						if wrote && !read {
							cuts.AddInstr(x)
						}
					}
				})
				if len(reads) == 0 {
					return
				}
				n++
				c.Saw(core.FnName(fn))
				key := fmt.Sprintf("%s:%s@%s", core.FnName(fn), al.Comment, c.relInFn(fn, al.Pos()))
				bad := ""
				for _, r := range reads {
					if cuts.Empty() || !core.MustPass(fn, cuts, r) {
						bad = fmt.Sprintf("the local %s is read at %s on a path where it still holds the zero value (it is set only on some paths, or not at all)", al.Comment, c.P.Pos(r.Pos()))
						break
					}
				}
				c.Check(bad == "", "Z2", key, al.Pos(), core.FnName(fn)+": "+bad, "written on every path before every read")
			})
		}
	}
	c.FloorN("Z2", 10, n, "group-element locals")
}

// RuleD12 — the validating entry point is nothing but the validated decode.
func RuleD12(c *Ctx) {
	c.Rule("D12", "untrusted entry point: banderwagon.(*Element).SetBytes sets its receiver only through p.setBytes(buf, false) on its own receiver and buffer, and every non-error return either forwards that call's error value or lies behind its nil-error edge (no shortcut — a cache, a fast path, a second decoder — lets bytes become an element without the curve and subgroup tests of rule D2)")
	fn := c.P.Fn("banderwagon", "Element", "SetBytes")
	if fn == nil {
		c.Unresolved("D12", "banderwagon.(*Element).SetBytes")
		return
	}
	c.Saw(core.FnName(fn))
	target := c.P.Fn("banderwagon", "Element", "setBytes")
	var valid []*ssa.Call
	for _, ci := range core.CallsIn(fn) {
		call, ok := ci.(*ssa.Call)
		if !ok || target == nil || core.Callee(call.Common()) != target || len(call.Call.Args) != 3 {
			continue
		}
		trusted, isK := core.ConstBool(call.Call.Args[2])
		buf := call.Call.Args[1]
		if sl, isSl := buf.(*ssa.Slice); isSl && wholeSlice(sl) {
			buf = sl.X
		}
		if isK && !trusted && call.Call.Args[0] == ssa.Value(fn.Params[0]) && buf == ssa.Value(fn.Params[1]) {
			valid = append(valid, call)
		}
	}
	key := "SetBytes:only-the-validated-decode"
	if len(valid) == 0 {
		c.Bad("D12", key, fn.Pos(), "banderwagon.(*Element).SetBytes does not call p.setBytes(buf, false) on its own receiver and buffer: untrusted bytes are not validated")
		return
	}
	var why []string
	// returns
	okValue := func(v ssa.Value) bool {
		for _, call := range valid {
			if v == errValue(call) {
				return true
			}
		}
		return false
	}
	passes := func(at ssa.Instruction) bool {
		for _, call := range valid {
			if ev := errValue(call); ev != nil {
				if cuts := nilEdges(fn, ev, true); !cuts.Empty() && core.MustPass(fn, cuts, at) {
					return true
				}
			}
		}
		return false
	}
	for _, r := range core.Returns(fn) {
		if len(r.Results) != 1 {
			continue
		}
		var check func(v ssa.Value, at ssa.Instruction, d int) bool
		check = func(v ssa.Value, at ssa.Instruction, d int) bool {
			switch {
			case okValue(v):
				return true
			case core.IsNilConst(v):
				return passes(at)
			}
			if phi, isPhi := v.(*ssa.Phi); isPhi && d < 4 {
				for k, e := range phi.Edges {
					pred := phi.Block().Preds[k]
					term := pred.Instrs[len(pred.Instrs)-1]
					if core.IsNilConst(e) {
						// the edge itself may be the nil-error edge of the validating call
						edgeOK := false
						if ifi, isIf := term.(*ssa.If); isIf {
							for _, call := range valid {
								if ev := errValue(call); ev != nil {
									for _, cd := range core.Conds(fn) {
										if cd.Block == pred && cd.If == ifi && (cd.X == ev || cd.Y == ev) {
											if idx := cd.EdgeWhere(token.EQL); idx >= 0 && pred.Succs[idx] == phi.Block() {
												edgeOK = true
											}
										}
									}
								}
							}
						}
						if !edgeOK && !passes(term) {
							return false
						}
						continue
					}
					if !check(e, term, d+1) {
						return false
					}
				}
				return true
			}
			// any other value is an error made here: rejecting is always allowed
			return !core.IsNilConst(v)
		}
		if !check(r.Results[0], r, 0) {
			why = append(why, "the return at "+c.P.Pos(r.Pos())+" can report success without the validated decode having succeeded")
		}
	}
	// writes of the receiver
	st := c.wfxGet()
	s := st.sums[fn]
	if s == nil {
		s = st.onDemand(fn)
	}
	if s == nil {
		c.Und("D12", key, fn.Pos(), "no write summary")
		return
	}
	for _, cz := range s.Causes["param:"+fn.Params[0].Name()] {
		if cz.at == nil || cz.at.Parent() != fn {
			continue
		}
		isValid := false
		for _, call := range valid {
			if cz.at == ssa.Instruction(call) {
				isValid = true
			}
		}
		if !isValid {
			why = append(why, "the receiver is also written at "+c.P.Pos(cz.at.Pos())+", not by the validated decode")
		}
	}
	c.Check(len(why) == 0, "D12", key, fn.Pos(), "banderwagon.(*Element).SetBytes: "+strings.Join(uniqStrings(why), "; "), fmt.Sprintf("%d validated decode call(s); all returns forward its error or lie behind its nil edge; no other write of the receiver", len(valid)))
}
