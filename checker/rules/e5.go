package rules

// E5 — scalar multiplication and the points with x = 0.
//
// Element.ScalarMul delegates to the GLV routine of gnark-crypto, which starts from phi(P), the curve endomorphism in
// projective coordinates. E5 folds that function — the dependency's own source, loaded with the module — on a point
// with X = 0 and arbitrary Y and Z (the two representatives of Banderwagon's identity). If the fold shows that the
// image has Z = 0, which is no point at all, every multiplication that reaches the routine with such an operand is
// wrong; the wrapper must then decide those operands itself: the call of ScalarMultiplication has to lie behind the
// non-zero arm of a test of the operand's X.

import (
	"fmt"
	"go/token"
	"go/types"
	"strings"

	"golang.org/x/tools/go/ssa"

	"verif/checker/core"
)

func RuleE5(c *Ctx) {
	c.Rule("E5", "scalar multiplication of the identity class: the endomorphism phi that gnark-crypto's GLV multiplication starts from is constant-folded from the dependency's source on a point with X = 0 (Y, Z symbolic); when its image has Z = 0 (not a point), banderwagon.Element.ScalarMul must reach PointProj.ScalarMultiplication only behind the X != 0 arm of a test of the multiplied element's X")
	wrap := c.P.Fn("banderwagon", "Element", "ScalarMul")
	if wrap == nil {
		c.Unresolved("E5", "banderwagon.(*Element).ScalarMul")
		return
	}
	c.Saw(core.FnName(wrap))
	// the delegated call
	var del *ssa.Call
	for _, ci := range core.CallsIn(wrap) {
		if call, ok := ci.(*ssa.Call); ok {
			if f := core.Callee(call.Common()); f != nil && f.Name() == "ScalarMultiplication" && f.Pkg != nil && strings.HasSuffix(f.Pkg.Pkg.Path(), "bls12-381/bandersnatch") {
				del = call
			}
		}
	}
	key := "ScalarMul:x=0-operands"
	if del == nil {
		c.Und("E5", key, wrap.Pos(), "ScalarMul no longer delegates to gnark-crypto's PointProj.ScalarMultiplication; what it does for the identity class has to be decided anew")
		c.FloorN("E5", 1, 0, "delegations folded")
		return
	}
	// phi of the dependency
	var phi *ssa.Function
	glv := core.Callee(del.Common())
	seen := map[*ssa.Function]bool{}
	var find func(f *ssa.Function, d int)
	find = func(f *ssa.Function, d int) {
		if f == nil || seen[f] || d > 3 {
			return
		}
		seen[f] = true
		for _, ci := range core.CallsIn(f) {
			g := core.Callee(ci.Common())
			if g == nil || g.Pkg == nil || !strings.HasSuffix(g.Pkg.Pkg.Path(), "bls12-381/bandersnatch") {
				continue
			}
			if g.Name() == "phi" {
				phi = g
			}
			find(g, d+1)
		}
	}
	find(glv, 0)
	if phi == nil {
		c.OK("E5", key, del.Pos(), "the delegated multiplication does not go through an endomorphism")
		c.FloorN("E5", 1, 1, "delegations folded")
		return
	}
	// fold phi on (0, y, z)
	mk := func(vals ...any) fptr { return fptr{&fobj{slots: vals}, 0} }
	fo := &folder{limit: 100_000, symGlobals: true, enterDeps: true}
	recv := mk(fZero, fZero, fZero)
	arg := mk(fZero, &fterm{op: "sym", s: "y"}, &fterm{op: "sym", s: "z"})
	nSlots := 0
	if pt, ok := phi.Params[0].Type().Underlying().(*types.Pointer); ok {
		if st, isSt := pt.Elem().Underlying().(*types.Struct); isSt {
			nSlots = st.NumFields()
		}
	}
	if len(phi.Params) != 2 || nSlots != 3 {
		c.Und("E5", key, del.Pos(), "the endomorphism of the dependency does not have the expected shape phi(*PointProj) on (X, Y, Z)")
		c.FloorN("E5", 1, 0, "delegations folded")
		return
	}
	if _, err := fo.Fold(phi, []any{recv, arg}); err != nil {
		c.Und("E5", key, del.Pos(), "cannot fold the dependency's endomorphism: "+err.Error())
		c.FloorN("E5", 1, 0, "delegations folded")
		return
	}
	img := make([]string, 3)
	for i := 0; i < 3; i++ {
		if t, ok := recv.o.slots[i].(*fterm); ok {
			img[i] = t.String()
		} else {
			img[i] = "?"
		}
	}
	if img[2] != "0" {
		c.OK("E5", key, del.Pos(), fmt.Sprintf("phi(0, y, z) = (%s, %s, %s): a projective point", img[0], img[1], img[2]))
		c.FloorN("E5", 1, 1, "delegations folded")
		return
	}
	// the hazard is real: the wrapper must keep x = 0 operands away from the routine
	var guard *core.Cuts
	for _, ci := range core.CallsIn(wrap) {
		call, ok := ci.(*ssa.Call)
		if !ok {
			continue
		}
		f := core.Callee(call.Common())
		if f == nil || f.Name() != "IsZero" || len(call.Call.Args) != 1 {
			continue
		}
		p := core.PathOf(call.Call.Args[0])
		if !strings.Contains(p, "p1") || !strings.HasSuffix(p, ".X") {
			continue
		}
		if guard == nil {
			guard = core.NewCuts()
		}
		g := boolEdges(wrap, call, false)
		for e := range g.Edges {
			guard.Edges[e] = true
		}
	}
	ok := guard != nil && !guard.Empty() && core.MustPass(wrap, guard, del)
	c.Check(ok, "E5", key, del.Pos(), fmt.Sprintf("gnark-crypto's endomorphism maps every point with X = 0 to (%s, %s, %s), which is not a point, and Element.ScalarMul hands such operands (the identity in either representation) to the GLV multiplication: s*identity comes out as a triple with Y = Z = 0 instead of the identity", img[0], img[1], img[2]),
		fmt.Sprintf("phi(0, y, z) = (%s, %s, %s) is not a point; the delegation lies behind the X != 0 arm of a test of the operand's X", img[0], img[1], img[2]))
	c.FloorN("E5", 1, 1, "delegations folded")
}

// ---------------------------------------------------------------------------
// N3 — Normalize scales by the inverse of Z

// RuleN3 folds Element.Normalize on a generic projective point (X, Y, Z symbols, Z neither zero nor one), entering the
// dependency's conversion when the wrapper delegates to it: the element must come out as (X/Z, Y/Z, 1) and the call
// must succeed; for Z = 0 it must fail and leave the element as it was.
func RuleN3(c *Ctx) {
	c.Rule("N3", "Element.Normalize folded on a generic projective point (symbols X, Y, Z; the dependency's FromProj entered when used): the element becomes (X * inv(Z), Y * inv(Z), 1) with a nil error; with Z = 0 it returns an error and writes nothing")
	fn := c.P.Fn("banderwagon", "Element", "Normalize")
	if fn == nil {
		c.Unresolved("N3", "banderwagon.(*Element).Normalize")
		return
	}
	c.Saw(core.FnName(fn))
	key := "Normalize:generic-point"
	sym := func(n string) *fterm { return &fterm{op: "sym", s: n} }
	x, y, z := sym("X"), sym("Y"), sym("Z")
	run := func(zv *fterm) (*fobj, any, error) {
		o := &fobj{slots: []any{x, y, zv}}
		fo := &folder{limit: 100_000, symGlobals: true, enterDeps: true, generic: true}
		res, err := fo.Fold(fn, []any{fptr{o, 0}})
		return o, res, err
	}
	o, res, err := run(z)
	if err != nil {
		c.Und("N3", key, fn.Pos(), "cannot fold Normalize: "+err.Error())
		c.FloorN("N3", 1, 0, "cases folded")
		return
	}
	var bad []string
	zi := fInv(z)
	want := []string{fComm("mul", fOne, x, zi).String(), fComm("mul", fOne, y, zi).String(), "1"}
	for i, nm := range []string{"X", "Y", "Z"} {
		got := "?"
		if t, ok := o.slots[i].(*fterm); ok {
			got = t.String()
		}
		if got != want[i] {
			bad = append(bad, fmt.Sprintf("%s becomes %s, expected %s", nm, got, want[i]))
		}
	}
	if res != nil {
		bad = append(bad, "a generic point is not normalised successfully (non-nil error)")
	}
	// Z = 0: an error, nothing written
	o0, res0, err0 := run(fZero)
	switch {
	case err0 != nil:
		bad = append(bad, "cannot fold the Z = 0 case: "+err0.Error())
	default:
		if t, ok := o0.slots[0].(*fterm); !ok || t != x {
			bad = append(bad, "with Z = 0 the element is written")
		}
		if res0 == nil {
			bad = append(bad, "with Z = 0 no error is returned")
		}
	}
	// Z = 1: unchanged, nil
	o1, res1, err1 := run(fOne)
	switch {
	case err1 != nil:
		bad = append(bad, "cannot fold the Z = 1 case: "+err1.Error())
	default:
		tx, okx := o1.slots[0].(*fterm)
		ty, oky := o1.slots[1].(*fterm)
		tz, okz := o1.slots[2].(*fterm)
		if !okx || !oky || !okz || tx.String() != "X" || ty.String() != "Y" || tz.String() != "1" {
			bad = append(bad, "an element with Z = 1 does not stay (X, Y, 1)")
		}
		if res1 != nil {
			bad = append(bad, "an element with Z = 1 is not normalised successfully")
		}
	}
	c.Check(len(bad) == 0, "N3", key, fn.Pos(), strings.Join(bad, "; "), "(X, Y, Z) -> (X*inv(Z), Y*inv(Z), 1), nil; Z = 1 -> unchanged; Z = 0 -> error, element untouched")
	c.FloorN("N3", 1, 1, "cases folded")
}

// RuleU5: the batch encoders and the batch map-to-field take their inverses from fp.BatchInvert and are checked on
// the assumption that position i of its result is the inverse of position i of its argument (zero for zero). That
// is what gnark-crypto's BatchInvert computes for the whole slice it is given; U5 requires every return of
// fp.BatchInvert to be that call on the whole parameter. A routine that assembles the result itself (chunks,
// workers, windows) needs a completeness argument this rule does not have: it is reported as undecided, naming the
// return.
func RuleU5(c *Ctx) {
	c.Rule("U5", "fp.BatchInvert hands back, on every return, gnark-crypto's BatchInvert of its whole parameter (position i of the result is the inverse of position i of the input); a result assembled any other way is not decided")
	fn := c.P.Fn("bandersnatch/fp", "", "BatchInvert")
	if fn == nil {
		c.Unresolved("U5", "bandersnatch/fp.BatchInvert")
		return
	}
	c.Saw(core.FnName(fn))
	n := 0
	if len(fn.Params) != 1 {
		c.Und("U5", "fp.BatchInvert:signature", fn.Pos(), "fp.BatchInvert no longer takes exactly one slice")
		return
	}
	whole := func(v ssa.Value) bool {
		v = core.StripConv(v)
		for d := 0; d < 3; d++ {
			if v == ssa.Value(fn.Params[0]) {
				return true
			}
			// the parameter spilled to a cell because a closure captures it
			if ld, isLd := v.(*ssa.UnOp); isLd && ld.Op == token.MUL {
				if cell, isCell := ld.X.(*ssa.Alloc); isCell {
					if sts := storesInto(cell); len(sts) == 1 && sts[0].Val == ssa.Value(fn.Params[0]) {
						return true
					}
				}
			}
			sl, ok := v.(*ssa.Slice)
			if !ok {
				return false
			}
			if sl.Low != nil {
				if k, isK := core.ConstInt(sl.Low); !isK || k != 0 {
					return false
				}
			}
			if sl.High != nil {
				call, isCall := sl.High.(*ssa.Call)
				if !isCall {
					return false
				}
				if b, isB := call.Call.Value.(*ssa.Builtin); !isB || b.Name() != "len" || core.StripConv(call.Call.Args[0]) != ssa.Value(fn.Params[0]) {
					return false
				}
			}
			v = core.StripConv(sl.X)
		}
		return false
	}
	for _, b := range fn.Blocks {
		if b == nil {
			continue
		}
		ret := retOfBlock(b)
		if ret == nil || len(ret.Results) != 1 {
			continue
		}
		n++
		key := fmt.Sprintf("fp.BatchInvert:return#%d", n)
		call, isCall := core.StripConv(ret.Results[0]).(*ssa.Call)
		var callee *ssa.Function
		if isCall {
			callee = core.Callee(call.Common())
		}
		switch {
		case callee != nil && callee.Name() == "BatchInvert" && callee.Pkg != nil && strings.HasSuffix(callee.Pkg.Pkg.Path(), "bls12-381/fr") && len(call.Call.Args) == 1 && whole(call.Call.Args[0]):
			c.OK("U5", key, ret.Pos(), "returns "+callee.String()+" of the whole parameter")
		default:
			c.Und("U5", key, ret.Pos(), "this return of fp.BatchInvert is not gnark-crypto's BatchInvert of the whole parameter; that every position of the slice it returns holds the inverse of the same position of the input (no position left at its zero value) cannot be decided by this rule")
		}
	}
	c.FloorN("U5", 1, n, "returns of fp.BatchInvert")
}

func retOfBlock(b *ssa.BasicBlock) *ssa.Return {
	if len(b.Instrs) == 0 {
		return nil
	}
	r, _ := b.Instrs[len(b.Instrs)-1].(*ssa.Return)
	return r
}
