package rules

// E5 — scalar multiplication and the points with x = 0.
//
// Element.ScalarMul delegates to the GLV routine of gnark-crypto, which starts from phi(P), the curve endomorphism in
// projective coordinates. E5 folds that function — the dependency's own source, loaded with the module — on a point
// with X = 0 and arbitrary Y and Z (the two representatives of Banderwagon's identity). If the fold shows that the
// image has Z = 0, which is no point at all, every multiplication that reaches the routine with such an operand is
// wrong; the wrapper must then decide those operands itself: the call of ScalarMultiplication has to lie behind the
// non-zero arm of a test of the operand's X.

import (
	"fmt"
	"go/types"
	"strings"

	"golang.org/x/tools/go/ssa"

	"verif/checker/core"
)

func RuleE5(c *Ctx) {
	c.Rule("E5", "scalar multiplication of the identity class: the endomorphism phi that gnark-crypto's GLV multiplication starts from is constant-folded from the dependency's source on a point with X = 0 (Y, Z symbolic); when its image has Z = 0 (not a point), banderwagon.Element.ScalarMul must reach PointProj.ScalarMultiplication only behind the X != 0 arm of a test of the multiplied element's X")
	wrap := c.P.Fn("banderwagon", "Element", "ScalarMul")
	if wrap == nil {
		c.Unresolved("E5", "banderwagon.(*Element).ScalarMul")
		return
	}
	c.Saw(core.FnName(wrap))
	// the delegated call
	var del *ssa.Call
	for _, ci := range core.CallsIn(wrap) {
		if call, ok := ci.(*ssa.Call); ok {
			if f := core.Callee(call.Common()); f != nil && f.Name() == "ScalarMultiplication" && f.Pkg != nil && strings.HasSuffix(f.Pkg.Pkg.Path(), "bls12-381/bandersnatch") {
				del = call
			}
		}
	}
	key := "ScalarMul:x=0-operands"
	if del == nil {
		c.Und("E5", key, wrap.Pos(), "ScalarMul no longer delegates to gnark-crypto's PointProj.ScalarMultiplication; what it does for the identity class has to be decided anew")
		c.FloorN("E5", 1, 0, "delegations folded")
		return
	}
	// phi of the dependency
	var phi *ssa.Function
	glv := core.Callee(del.Common())
	seen := map[*ssa.Function]bool{}
	var find func(f *ssa.Function, d int)
	find = func(f *ssa.Function, d int) {
		if f == nil || seen[f] || d > 3 {
			return
		}
		seen[f] = true
		for _, ci := range core.CallsIn(f) {
			g := core.Callee(ci.Common())
			if g == nil || g.Pkg == nil || !strings.HasSuffix(g.Pkg.Pkg.Path(), "bls12-381/bandersnatch") {
				continue
			}
			if g.Name() == "phi" {
				phi = g
			}
			find(g, d+1)
		}
	}
	find(glv, 0)
	if phi == nil {
		c.OK("E5", key, del.Pos(), "the delegated multiplication does not go through an endomorphism")
		c.FloorN("E5", 1, 1, "delegations folded")
		return
	}
	// fold phi on (0, y, z)
	mk := func(vals ...any) fptr { return fptr{&fobj{slots: vals}, 0} }
	fo := &folder{limit: 100_000, symGlobals: true, enterDeps: true}
	recv := mk(fZero, fZero, fZero)
	arg := mk(fZero, &fterm{op: "sym", s: "y"}, &fterm{op: "sym", s: "z"})
	nSlots := 0
	if pt, ok := phi.Params[0].Type().Underlying().(*types.Pointer); ok {
		if st, isSt := pt.Elem().Underlying().(*types.Struct); isSt {
			nSlots = st.NumFields()
		}
	}
	if len(phi.Params) != 2 || nSlots != 3 {
		c.Und("E5", key, del.Pos(), "the endomorphism of the dependency does not have the expected shape phi(*PointProj) on (X, Y, Z)")
		c.FloorN("E5", 1, 0, "delegations folded")
		return
	}
	if _, err := fo.Fold(phi, []any{recv, arg}); err != nil {
		c.Und("E5", key, del.Pos(), "cannot fold the dependency's endomorphism: "+err.Error())
		c.FloorN("E5", 1, 0, "delegations folded")
		return
	}
	img := make([]string, 3)
	for i := 0; i < 3; i++ {
		if t, ok := recv.o.slots[i].(*fterm); ok {
			img[i] = t.String()
		} else {
			img[i] = "?"
		}
	}
	if img[2] != "0" {
		c.OK("E5", key, del.Pos(), fmt.Sprintf("phi(0, y, z) = (%s, %s, %s): a projective point", img[0], img[1], img[2]))
		c.FloorN("E5", 1, 1, "delegations folded")
		return
	}
	// the hazard is real: the wrapper must keep x = 0 operands away from the routine
	var guard *core.Cuts
	for _, ci := range core.CallsIn(wrap) {
		call, ok := ci.(*ssa.Call)
		if !ok {
			continue
		}
		f := core.Callee(call.Common())
		if f == nil || f.Name() != "IsZero" || len(call.Call.Args) != 1 {
			continue
		}
		p := core.PathOf(call.Call.Args[0])
		if !strings.Contains(p, "p1") || !strings.HasSuffix(p, ".X") {
			continue
		}
		if guard == nil {
			guard = core.NewCuts()
		}
		g := boolEdges(wrap, call, false)
		for e := range g.Edges {
			guard.Edges[e] = true
		}
	}
	ok := guard != nil && !guard.Empty() && core.MustPass(wrap, guard, del)
	c.Check(ok, "E5", key, del.Pos(), fmt.Sprintf("gnark-crypto's endomorphism maps every point with X = 0 to (%s, %s, %s), which is not a point, and Element.ScalarMul hands such operands (the identity in either representation) to the GLV multiplication: s*identity comes out as a triple with Y = Z = 0 instead of the identity", img[0], img[1], img[2]),
		fmt.Sprintf("phi(0, y, z) = (%s, %s, %s) is not a point; the delegation lies behind the X != 0 arm of a test of the operand's X", img[0], img[1], img[2]))
	c.FloorN("E5", 1, 1, "delegations folded")
}
