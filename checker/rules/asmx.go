package rules

// asmx — lexer + register dataflow for the Go assembler files of package fr (DESIGN §3.5 K3, A1–A4).

import (
	"fmt"
	"math/big"
	"os"
	"path/filepath"
	"regexp"
	"strconv"
	"strings"
)

type asmIns struct {
	op   string
	args []string
	line int
}

type asmText struct {
	name string
	ins  []asmIns
	line int
}

type asmFile struct {
	path  string
	data  map[string]*big.Int // "q<>+8" -> value
	texts []*asmText
}

var (
	reDefine = regexp.MustCompile(`^#define\s+(\w+)\(([^)]*)\)\s*(.*)$`)
	reData   = regexp.MustCompile(`^DATA\s+(\S+?)\(SB\)/8,\s*\$(\S+)$`)
	reText   = regexp.MustCompile(`^TEXT\s+·(\w+)\(SB\)`)
	reMem    = regexp.MustCompile(`^(-?\d+)?\((\w+)\)$`)
	reFP     = regexp.MustCompile(`^(\w+)\+(\d+)\(FP\)$`)
	reSB     = regexp.MustCompile(`^(\w+)<>(?:\+(\d+))?\(SB\)$`)
)

func stripComment(l string) string {
	if i := strings.Index(l, "//"); i >= 0 {
		l = l[:i]
	}
	return strings.TrimSpace(l)
}

func splitArgs(s string) []string {
	var out []string
	depth := 0
	cur := ""
	for _, r := range s {
		switch r {
		case '(':
			depth++
		case ')':
			depth--
		}
		if r == ',' && depth == 0 {
			out = append(out, strings.TrimSpace(cur))
			cur = ""
			continue
		}
		cur += string(r)
	}
	if strings.TrimSpace(cur) != "" {
		out = append(out, strings.TrimSpace(cur))
	}
	return out
}

func parseAsm(path string) (*asmFile, error) {
	b, err := os.ReadFile(path)
	if err != nil {
		return nil, err
	}
	f := &asmFile{path: path, data: map[string]*big.Int{}}
	type macro struct {
		params []string
		body   []string
	}
	macros := map[string]*macro{}
	lines := strings.Split(string(b), "\n")
	var cur *asmText
	emit := func(stmt string, line int) {
		stmt = strings.TrimSpace(stmt)
		if stmt == "" {
			return
		}
		fields := strings.SplitN(stmt, " ", 2)
		op := strings.TrimSpace(fields[0])
		var args []string
		if len(fields) > 1 {
			args = splitArgs(fields[1])
		}
		if cur != nil {
			cur.ins = append(cur.ins, asmIns{op, args, line})
		}
	}
	for i := 0; i < len(lines); i++ {
		raw := lines[i]
		l := stripComment(raw)
		if l == "" || strings.HasPrefix(l, "#include") {
			continue
		}
		if m := reDefine.FindStringSubmatch(l); m != nil {
			mc := &macro{}
			for _, p := range strings.Split(m[2], ",") {
				mc.params = append(mc.params, strings.TrimSpace(p))
			}
			body := m[3]
			for strings.HasSuffix(strings.TrimSpace(body), "\\") && i+1 < len(lines) {
				body = strings.TrimSuffix(strings.TrimSpace(body), "\\")
				i++
				body += " " + stripComment(lines[i])
			}
			for _, st := range strings.Split(body, ";") {
				st = strings.TrimSpace(strings.TrimSuffix(strings.TrimSpace(st), "\\"))
				if st != "" {
					mc.body = append(mc.body, st)
				}
			}
			macros[m[1]] = mc
			continue
		}
		if m := reData.FindStringSubmatch(l); m != nil {
			v, ok := new(big.Int).SetString(strings.TrimPrefix(m[2], "0x"), 16)
			if !strings.HasPrefix(m[2], "0x") {
				v, ok = new(big.Int).SetString(m[2], 10)
			}
			if ok {
				key := m[1]
				if !strings.Contains(key, "+") {
					key += "+0"
				}
				f.data[key] = v
			}
			continue
		}
		if strings.HasPrefix(l, "GLOBL") {
			continue
		}
		if m := reText.FindStringSubmatch(l); m != nil {
			cur = &asmText{name: m[1], line: i + 1}
			f.texts = append(f.texts, cur)
			continue
		}
		if strings.HasSuffix(l, ":") && !strings.Contains(l, " ") {
			emit("LABEL "+strings.TrimSuffix(l, ":"), i+1)
			continue
		}
		// macro use?
		if j := strings.Index(l, "("); j > 0 {
			name := strings.TrimSpace(l[:j])
			if mc, ok := macros[name]; ok && strings.HasSuffix(l, ")") {
				actual := splitArgs(l[j+1 : len(l)-1])
				for _, st := range mc.body {
					for k, p := range mc.params {
						if k < len(actual) {
							st = regexp.MustCompile(`\b`+regexp.QuoteMeta(p)+`\b`).ReplaceAllString(st, actual[k])
						}
					}
					emit(st, i+1)
				}
				continue
			}
		}
		emit(l, i+1)
	}
	return f, nil
}

func immOf(a string) (*big.Int, bool) {
	if !strings.HasPrefix(a, "$") {
		return nil, false
	}
	s := strings.TrimPrefix(a, "$")
	if strings.HasPrefix(s, "0x") {
		v, ok := new(big.Int).SetString(s[2:], 16)
		return v, ok
	}
	v, ok := new(big.Int).SetString(s, 10)
	return v, ok
}

// register abstract value
type regVal struct {
	kind  string // "ptr" (parameter pointer), "limb" (limb k of parameter p / of q), ""
	param string
	limb  int
}

// RuleAsm — K3 + A1–A4 over the .s files selected by the current build configuration.
func RuleAsm(c *Ctx) {
	c.Rule("K3", "assembly constants: DATA q<>+8k is limb k of the modulus, qInv0 is -q^-1 mod 2^64, every 64-bit immediate is a modulus limb")
	c.Rule("A1", "assembly limb alignment: the k-th instruction of every ADDQ/ADCQ.. or SUBQ/SBBQ.. chain combines limb k with limb k (memory offset 8k, q<>+8k, or a register holding limb k); the MULX reductions use q[0..3] in order")
	c.Rule("A2", "assembly stores go only through pointers loaded from parameters the write-effect leaf table lists as written (or to the outgoing-argument area)")
	c.Rule("A3", "assembly load-before-store: every load through an operand pointer precedes the first store through a result pointer")
	c.Rule("A4", "the non-ADX mul/fromMont test supportAdx and otherwise call _mulGeneric/_fromMontGeneric with (res, x, y) forwarded in order")
	pk := c.P.Pkg("bandersnatch/fr")
	fc := c.frConstants()
	if pk == nil || fc == nil {
		c.Unresolved("K3", "bandersnatch/fr")
		return
	}
	var sfiles []string
	for _, f := range pk.OtherFiles {
		if strings.HasSuffix(f, ".s") {
			sfiles = append(sfiles, f)
		}
	}
	if c.P.Config.GOARCH != "amd64" {
		c.Check(len(sfiles) == 0, "K3", "no-assembly-on-"+c.P.Config.GOARCH, 0, "assembly selected on a non-amd64 configuration", "portable code only in this configuration")
		return
	}
	limbIdx := map[string]int{}
	for i, l := range limbsOf(fc.q) {
		limbIdx[l.String()] = i
	}
	w := new(big.Int).Lsh(big.NewInt(1), 64)
	qinv := new(big.Int).ModInverse(fc.q, w)
	qinv.Sub(w, qinv)
	nText, nImm := 0, 0
	for _, path := range sfiles {
		af, err := parseAsm(path)
		rel, _ := filepath.Rel(c.P.Dir, path)
		if err != nil {
			c.Und("K3", rel, 0, "cannot read: "+err.Error())
			continue
		}
		c.Saw(rel)
		// K3 data words
		okData := len(af.data) == 5
		for k := 0; k < 4; k++ {
			v := af.data[fmt.Sprintf("q<>+%d", 8*k)]
			if v == nil || v.Cmp(limbsOf(fc.q)[k]) != 0 {
				okData = false
			}
		}
		if v := af.data["qInv0<>+0"]; v == nil || v.Cmp(qinv) != 0 {
			okData = false
		}
		c.Check(okData, "K3", rel+":DATA", 0, "the DATA words q<>+0..24 / qInv0 are not the limbs of the modulus / -q^-1 mod 2^64", "q<>+8k = q[k], qInv0 = -q^-1 mod 2^64")
		for _, t := range af.texts {
			nText++
			key := rel + ":" + t.name
			leafW, known := asmLeaf[t.name]
			if !known {
				c.Und("A2", key, 0, "assembly routine without an entry in the write-effect leaf table")
				continue
			}
			// parameter names in declaration order from the Go stub
			var pnames []string
			if fn := c.P.Fn("bandersnatch/fr", "", t.name); fn != nil {
				for _, p := range fn.Params {
					pnames = append(pnames, p.Name())
				}
			}
			written := map[string]bool{}
			for _, i := range leafW {
				if i < len(pnames) {
					written[pnames[i]] = true
				}
			}
			regs := map[string]regVal{}
			var chainOp string
			chainK := 0
			var bad []string
			firstStore, lastLoad := -1, -1
			var mulxSeq []int
			adxTest := false
			var genericCall string
			var spArgs []string
			memLimb := func(a string) (string, int, bool) { // (param, limb)
				if m := reMem.FindStringSubmatch(a); m != nil {
					off := 0
					if m[1] != "" {
						off, _ = strconv.Atoi(m[1])
					}
					if r, ok := regs[m[2]]; ok && r.kind == "ptr" {
						return r.param, off / 8, true
					}
				}
				return "", 0, false
			}
			for n, in := range t.ins {
				// immediates
				for _, a := range in.args {
					if v, ok := immOf(a); ok && v.BitLen() > 32 {
						nImm++
						if _, isLimb := limbIdx[v.String()]; !isLimb {
							bad = append(bad, fmt.Sprintf("line %d: immediate %s is not a limb of the modulus", in.line, a))
						}
					}
				}
				dst := ""
				if len(in.args) > 0 {
					dst = in.args[len(in.args)-1]
				}
				src := ""
				if len(in.args) > 1 {
					src = in.args[0]
				}
				// load / store accounting
				if p, _, ok := memLimb(src); ok && in.op != "LEAQ" {
					_ = p
					lastLoad = n
				}
				if in.op == "MOVQ" {
					if p, k, ok := memLimb(dst); ok {
						if firstStore < 0 {
							firstStore = n
						}
						if r, isR := regs[src]; isR && r.kind == "limb" && r.limb != k {
							bad = append(bad, fmt.Sprintf("line %d: a register holding limb %d is stored at limb %d of %s", in.line, r.limb, k, p))
						}
						if !written[p] {
							bad = append(bad, fmt.Sprintf("line %d: store through parameter %s, which the leaf table does not list as written", in.line, p))
						}
					} else if m := reMem.FindStringSubmatch(dst); m != nil && m[2] != "SP" {
						if r := regs[m[2]]; r.kind != "ptr" {
							bad = append(bad, fmt.Sprintf("line %d: store through register %s of unknown provenance", in.line, m[2]))
						}
					}
				}
				switch in.op {
				case "MOVQ", "MOVQ.W":
					switch {
					case reFP.MatchString(src):
						m := reFP.FindStringSubmatch(src)
						regs[dst] = regVal{kind: "ptr", param: m[1]}
						if mm := reMem.FindStringSubmatch(dst); mm != nil && mm[2] == "SP" {
							spArgs = append(spArgs, m[1])
						}
					default:
						if v, ok := immOf(src); ok {
							if k, isLimb := limbIdx[v.String()]; isLimb {
								regs[dst] = regVal{kind: "limb", param: "q", limb: k}
							} else {
								delete(regs, dst)
							}
						} else if p, k, ok := memLimb(src); ok {
							regs[dst] = regVal{kind: "limb", param: p, limb: k}
						} else if r, ok := regs[src]; ok && reMem.FindStringSubmatch(dst) == nil {
							regs[dst] = r
						} else if reMem.FindStringSubmatch(dst) != nil {
							if mm := reMem.FindStringSubmatch(dst); mm[2] == "SP" {
								if r, ok := regs[src]; ok && r.kind == "ptr" {
									spArgs = append(spArgs, r.param)
								}
							}
						} else {
							delete(regs, dst)
						}
					}
				case "CMPB":
					if strings.Contains(src, "supportAdx") {
						adxTest = true
					}
				case "CALL":
					genericCall = strings.TrimSuffix(strings.TrimPrefix(in.args[0], "·"), "(SB)")
				case "MULXQ":
					if m := reSB.FindStringSubmatch(src); m != nil && m[1] == "q" {
						off := 0
						if m[2] != "" {
							off, _ = strconv.Atoi(m[2])
						}
						mulxSeq = append(mulxSeq, off/8)
					}
				}
				// carry chains
				isStart := in.op == "ADDQ" || in.op == "SUBQ"
				isCont := (in.op == "ADCQ" && chainOp == "ADDQ") || (in.op == "SBBQ" && chainOp == "SUBQ")
				if isStart || isCont {
					if isStart {
						chainOp, chainK = in.op, 0
					} else {
						chainK++
					}
					check := func(a string) {
						want := chainK
						if m := reSB.FindStringSubmatch(a); m != nil && m[1] == "q" {
							off := 0
							if m[2] != "" {
								off, _ = strconv.Atoi(m[2])
							}
							if off/8 != want {
								bad = append(bad, fmt.Sprintf("line %d: limb %d of the chain meets q[%d]", in.line, want, off/8))
							}
							return
						}
						if _, k, ok := memLimb(a); ok {
							if k != want {
								bad = append(bad, fmt.Sprintf("line %d: limb %d of the chain meets memory limb %d", in.line, want, k))
							}
							return
						}
						if r, ok := regs[a]; ok && r.kind == "limb" {
							if r.limb != want {
								bad = append(bad, fmt.Sprintf("line %d: limb %d of the chain meets a register holding limb %d of %s", in.line, want, r.limb, r.param))
							}
						}
					}
					if len(in.args) == 2 {
						check(in.args[0])
						check(in.args[1])
						if r, ok := regs[in.args[1]]; ok && r.kind == "limb" {
							regs[in.args[1]] = regVal{kind: "limb", param: r.param, limb: chainK}
						}
					}
				} else if in.op != "MOVQ" && !strings.HasPrefix(in.op, "CMOV") && in.op != "LABEL" {
					chainOp = ""
				}
				// any other arithmetic/logic result is no longer "limb k of something"
				if !isStart && !isCont {
					switch {
					case in.op == "MOVQ", strings.HasPrefix(in.op, "CMOV"), in.op == "LABEL", in.op == "CMPB", in.op == "CMPQ", in.op == "TESTQ",
						strings.HasPrefix(in.op, "J"), in.op == "CALL", in.op == "RET", in.op == "NO_LOCAL_POINTERS":
					default:
						for _, a := range in.args[min(1, len(in.args)):] {
							if r, ok := regs[a]; ok && r.kind == "limb" {
								delete(regs, a)
							}
						}
						if len(in.args) == 1 {
							if r, ok := regs[in.args[0]]; ok && r.kind == "limb" {
								delete(regs, in.args[0])
							}
						}
					}
				}
			}
			// A3
			if firstStore >= 0 && lastLoad > firstStore && t.name != "Butterfly" {
				bad = append(bad, "a load through an operand pointer follows the first store through a result pointer")
			}
			if t.name == "Butterfly" && firstStore >= 0 && lastLoad > firstStore {
				bad = append(bad, "Butterfly: a load follows the first store")
			}
			// MULX reductions
			if len(mulxSeq) > 0 {
				for i, k := range mulxSeq {
					if k != i%4 {
						bad = append(bad, fmt.Sprintf("the %d-th MULXQ with a modulus operand uses q[%d], expected q[%d]", i, k, i%4))
					}
				}
				if len(mulxSeq)%4 != 0 {
					bad = append(bad, "incomplete Montgomery reduction round (MULXQ q<>)")
				}
			}
			c.Check(len(bad) == 0, "A1", key, 0, strings.Join(bad, "; "), fmt.Sprintf("%d instructions; chains, stores and load/store order consistent", len(t.ins)))
			// A4
			if t.name == "mul" || t.name == "fromMont" {
				isAdxOnly := strings.Contains(path, "_adx_")
				if !isAdxOnly {
					want := map[string]string{"mul": "_mulGeneric", "fromMont": "_fromMontGeneric"}[t.name]
					wantArgs := pnames
					okArgs := len(spArgs) == len(wantArgs)
					for i := range wantArgs {
						if okArgs && spArgs[i] != wantArgs[i] {
							okArgs = false
						}
					}
					c.Check(adxTest && genericCall == want && okArgs, "A4", key+":fallback", 0, fmt.Sprintf("%s must test supportAdx and otherwise call %s with its parameters forwarded in order (forwarded: %v, call: %q)", t.name, want, spArgs, genericCall), "CMPB supportAdx; CALL "+want)
				}
			}
		}
	}
	c.FloorN("A1", 11, nText, "TEXT blocks")
	c.FloorN("K3", 12, nImm, "64-bit immediates")
}
