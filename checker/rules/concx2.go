package rules

import (
	"fmt"
	"go/constant"
	"go/token"
	"go/types"
	"strings"

	"golang.org/x/tools/go/ssa"

	"verif/checker/core"
)

// ---------------------------------------------------------------------------
// counted loops

type countedLoop struct {
	loop  *core.Loop
	phi   ssa.Value // the loop variable as the body sees it: the header phi, or phi+1 of a `for i := range x` loop
	init  ssa.Value
	bound ssa.Value
	op    token.Token // comparison under which the body runs: phi op bound
	step  int64
}

// countedLoops recognises `for i := init; i op bound; i += step` loops (the phi lives in the header).
func countedLoops(fn *ssa.Function) []*countedLoop {
	var out []*countedLoop
	for _, l := range core.Loops(fn) {
		for _, cd := range core.Conds(fn) {
			if cd.Block != l.Header {
				continue
			}
			// body on which edge?
			bodyEdge := -1
			for i, s := range cd.Block.Succs {
				if l.Blocks[s] {
					bodyEdge = i
				}
			}
			if bodyEdge < 0 {
				continue
			}
			op := cd.Op
			if bodyEdge == 1 {
				op = negateTok(op)
			}
			x, y := cd.X, cd.Y
			// `for len(s) < n { s = append(s, e) }` with s empty at entry: len(s) counts 0, 1, 2, …
			if sphi := lenCounted(l, x); sphi != nil {
				out = append(out, &countedLoop{l, x, ssaConstInt(0), y, op, 1})
				continue
			}
			phi, ok := x.(*ssa.Phi)
			if !ok {
				// rangeindex form: t1 = phi + 1; if t1 < len
				if b, isBin := x.(*ssa.BinOp); isBin && b.Op == token.ADD {
					if p, isPhi := b.X.(*ssa.Phi); isPhi && p.Block() == l.Header {
						if k, isK := core.ConstInt(b.Y); isK && k == 1 {
							if init, isK := core.ConstInt(phiInit(p, l)); isK && init == -1 {
								out = append(out, &countedLoop{l, b, ssaConstInt(0), y, op, 1})
							}
						}
					}
				}
				continue
			}
			if phi.Block() != l.Header {
				continue
			}
			init := phiInit(phi, l)
			stepV := phiStep(phi, l)
			if init == nil || stepV == nil {
				continue
			}
			b, isBin := stepV.(*ssa.BinOp)
			if !isBin || b.X != ssa.Value(phi) {
				continue
			}
			k, isK := core.ConstInt(b.Y)
			if !isK {
				continue
			}
			if b.Op == token.SUB {
				k = -k
			} else if b.Op != token.ADD {
				continue
			}
			out = append(out, &countedLoop{l, phi, init, y, op, k})
		}
	}
	return out
}

// lenCounted: x is len(s) for a header phi s that is empty at loop entry and becomes append(s, one element) on
// every way around the loop; returns s.
func lenCounted(l *core.Loop, x ssa.Value) *ssa.Phi {
	sv, isLen := core.IsLenOf(x)
	if !isLen {
		return nil
	}
	s, isPhi := sv.(*ssa.Phi)
	if !isPhi || s.Block() != l.Header {
		return nil
	}
	if _, isSlice := s.Type().Underlying().(*types.Slice); !isSlice {
		return nil
	}
	for i, e := range s.Edges {
		pred := l.Header.Preds[i]
		if !l.Blocks[pred] {
			empty := false
			switch in := e.(type) {
			case *ssa.MakeSlice:
				if k, isK := core.ConstInt(in.Len); isK && k == 0 {
					empty = true
				}
			case *ssa.Slice:
				if in.High != nil {
					if k, isK := core.ConstInt(in.High); isK && k == 0 {
						empty = true
					}
				}
			case *ssa.Const:
				empty = in.IsNil()
			}
			if !empty {
				return nil
			}
			continue
		}
		app, isCall := e.(*ssa.Call)
		if !isCall || appendedElem(app) == nil || app.Call.Args[0] != ssa.Value(s) || !app.Block().Dominates(pred) {
			return nil
		}
	}
	return s
}

// constLen: the constant length of a slice/array value (make with a constant length, an array, a re-slice of one).
func constLen(v ssa.Value, d int) (int64, bool) {
	if d > 4 {
		return 0, false
	}
	t := v.Type()
	if p, ok := t.Underlying().(*types.Pointer); ok {
		t = p.Elem()
	}
	if a, ok := t.Underlying().(*types.Array); ok {
		return a.Len(), true
	}
	switch x := v.(type) {
	case *ssa.MakeSlice:
		return core.ConstInt(x.Len)
	case *ssa.Slice:
		if x.High != nil {
			hi, ok := core.ConstInt(x.High)
			if !ok {
				return 0, false
			}
			lo := int64(0)
			if x.Low != nil {
				l, ok := core.ConstInt(x.Low)
				if !ok {
					return 0, false
				}
				lo = l
			}
			return hi - lo, true
		}
		if x.Low == nil {
			return constLen(x.X, d+1)
		}
	case *ssa.Phi:
		// a slice variable that is only ever the same made slice
		n, okAll := int64(-1), true
		for _, e := range x.Edges {
			if e == ssa.Value(x) {
				continue
			}
			k, ok := constLen(e, d+1)
			if !ok || (n >= 0 && n != k) {
				okAll = false
			}
			n = k
		}
		if okAll && n >= 0 {
			return n, true
		}
	}
	return 0, false
}

// tripCount: the constant number of iterations of a counted loop.
func (cl *countedLoop) tripCount() (int64, bool) {
	a, okA := core.ConstInt(cl.init)
	if !okA || (cl.step != 1 && cl.step != -1) {
		return 0, false
	}
	b, okB := core.ConstInt(cl.bound)
	if !okB {
		if x, isLen := core.IsLenOf(cl.bound); isLen {
			b, okB = constLen(x, 0)
		}
	}
	if !okB {
		return 0, false
	}
	switch {
	case cl.step == 1 && cl.op == token.LSS:
		return max64(b-a, 0), true
	case cl.step == 1 && cl.op == token.LEQ:
		return max64(b-a+1, 0), true
	case cl.step == -1 && cl.op == token.GEQ:
		return max64(a-b+1, 0), true
	case cl.step == -1 && cl.op == token.GTR:
		return max64(a-b, 0), true
	}
	return 0, false
}

// visitsAll: the loop variable takes every value 0 .. n-1 exactly once (counting up from 0 or down from n-1).
func (cl *countedLoop) visitsAll(n int64) bool {
	trips, ok := cl.tripCount()
	a, okA := core.ConstInt(cl.init)
	if !ok || !okA || trips != n {
		return false
	}
	return (cl.step == 1 && a == 0) || (cl.step == -1 && a == n-1)
}

// aff is an integer affine form c + Σ coef·leaf over SSA values (leaves compared with core.SameExpr).
type aff struct {
	leaves []ssa.Value
	coefs  []int64
	c      int64
	ok     bool
}

func (a aff) add(b aff, sign int64) aff {
	if !a.ok || !b.ok {
		return aff{}
	}
	out := aff{append([]ssa.Value{}, a.leaves...), append([]int64{}, a.coefs...), a.c + sign*b.c, true}
	for j, l := range b.leaves {
		found := false
		for i := range out.leaves {
			if core.SameExpr(out.leaves[i], l) {
				out.coefs[i] += sign * b.coefs[j]
				found = true
				break
			}
		}
		if !found {
			out.leaves = append(out.leaves, l)
			out.coefs = append(out.coefs, sign*b.coefs[j])
		}
	}
	return out
}

func (a aff) scale(k int64) aff {
	if !a.ok {
		return a
	}
	out := aff{a.leaves, make([]int64, len(a.coefs)), a.c * k, true}
	for i, c := range a.coefs {
		out.coefs[i] = c * k
	}
	return out
}

func (a aff) isZero() bool {
	if !a.ok || a.c != 0 {
		return false
	}
	for _, c := range a.coefs {
		if c != 0 {
			return false
		}
	}
	return true
}

func affEq(a, b aff) bool { return a.add(b, -1).isZero() }

// affOf reads v as an affine form (+, -, multiplication by a constant; everything else is a leaf).
func affOf(v ssa.Value, d int) aff { return affOfStop(v, nil, d) }

// affOfStop is affOf with one value (a loop variable, possibly itself of the form phi+1) kept as a leaf.
func affOfStop(v ssa.Value, stop ssa.Value, d int) aff {
	v = core.StripConv(v)
	if stop != nil && v == stop {
		return aff{[]ssa.Value{v}, []int64{1}, 0, true}
	}
	if k, isK := core.ConstInt(v); isK {
		return aff{nil, nil, k, true}
	}
	if bo, isB := v.(*ssa.BinOp); isB && d < 12 {
		switch bo.Op {
		case token.ADD:
			return affOfStop(bo.X, stop, d+1).add(affOfStop(bo.Y, stop, d+1), 1)
		case token.SUB:
			return affOfStop(bo.X, stop, d+1).add(affOfStop(bo.Y, stop, d+1), -1)
		case token.MUL:
			if k, isK := core.ConstInt(core.StripConv(bo.X)); isK {
				return affOfStop(bo.Y, stop, d+1).scale(k)
			}
			if k, isK := core.ConstInt(core.StripConv(bo.Y)); isK {
				return affOfStop(bo.X, stop, d+1).scale(k)
			}
		}
	}
	return aff{[]ssa.Value{v}, []int64{1}, 0, true}
}

// tripsAff: the number of iterations of a unit-step loop as an affine form (meaningful when non-negative; two loops
// with equal forms run equally often).
func (cl *countedLoop) tripsAff() aff {
	i, b := affOf(cl.init, 0), affOf(cl.bound, 0)
	one := aff{nil, nil, 1, true}
	switch {
	case cl.step == 1 && cl.op == token.LSS:
		return b.add(i, -1)
	case cl.step == 1 && cl.op == token.LEQ:
		return b.add(i, -1).add(one, 1)
	case cl.step == -1 && cl.op == token.GTR:
		return i.add(b, -1)
	case cl.step == -1 && cl.op == token.GEQ:
		return i.add(b, -1).add(one, 1)
	}
	return aff{}
}

func max64(a, b int64) int64 {
	if a > b {
		return a
	}
	return b
}

func ssaConstInt(k int64) ssa.Value { return ssa.NewConst(constant.MakeInt64(k), types.Typ[types.Int]) }

func negateTok(op token.Token) token.Token {
	switch op {
	case token.LSS:
		return token.GEQ
	case token.GEQ:
		return token.LSS
	case token.GTR:
		return token.LEQ
	case token.LEQ:
		return token.GTR
	case token.EQL:
		return token.NEQ
	case token.NEQ:
		return token.EQL
	}
	return token.ILLEGAL
}

func phiInit(p *ssa.Phi, l *core.Loop) ssa.Value {
	var v ssa.Value
	for i, pred := range p.Block().Preds {
		if !l.Blocks[pred] {
			if v != nil && v != p.Edges[i] {
				return nil
			}
			v = p.Edges[i]
		}
	}
	return v
}

func phiStep(p *ssa.Phi, l *core.Loop) ssa.Value {
	var v ssa.Value
	for i, pred := range p.Block().Preds {
		if l.Blocks[pred] {
			if v != nil && v != p.Edges[i] {
				return nil
			}
			v = p.Edges[i]
		}
	}
	return v
}

// trips: constant trip count, if init, bound and step are constants.
func (cl *countedLoop) trips() (int64, bool) {
	a, ok1 := core.ConstInt(cl.init)
	b, ok2 := core.ConstInt(cl.bound)
	if !ok1 || !ok2 {
		return 0, false
	}
	n := int64(0)
	for i := a; ; i += cl.step {
		var in bool
		switch cl.op {
		case token.LSS:
			in = i < b
		case token.LEQ:
			in = i <= b
		case token.GTR:
			in = i > b
		case token.GEQ:
			in = i >= b
		case token.NEQ:
			in = i != b
		default:
			return 0, false
		}
		if !in {
			return n, true
		}
		n++
		if n > 1<<20 {
			return 0, false
		}
	}
}

// values: the constant values the induction variable takes.
func (cl *countedLoop) values() ([]int64, bool) {
	n, ok := cl.trips()
	if !ok {
		return nil, false
	}
	a, _ := core.ConstInt(cl.init)
	var out []int64
	for i := int64(0); i < n; i++ {
		out = append(out, a+i*cl.step)
	}
	return out, true
}

// valuesAt: the values of the loop variable for which block blk of the loop body is executed, as far as the guards
// that blk lies behind compare the loop variable with constants (`case j == n`, `case j > 0`): every value of the
// constant-trip loop is tried against the comparison edges blk can only be reached through.
func (cl *countedLoop) valuesAt(fn *ssa.Function, blk *ssa.BasicBlock) ([]int64, bool) {
	vals, ok := cl.values()
	if !ok || len(blk.Instrs) == 0 {
		return nil, false
	}
	type guard struct {
		cd   core.CondEdge
		edge int
	}
	var guards []guard
	for _, cd := range core.Conds(fn) {
		if !cl.loop.Blocks[cd.Block] || cd.Block == cl.loop.Header {
			continue
		}
		x, y := core.StripConv(cd.X), core.StripConv(cd.Y)
		_, xk := core.ConstInt(x)
		_, yk := core.ConstInt(y)
		if !((x == cl.phi && yk) || (y == cl.phi && xk)) {
			continue
		}
		for e := 0; e < 2; e++ {
			cut := core.NewCuts()
			cut.AddEdge(cd.Block, e)
			other := core.NewCuts()
			other.AddEdge(cd.Block, 1-e)
			// blk lies behind edge e of this comparison (and not behind the other one)
			if core.MustPass(fn, cut, blk.Instrs[0]) && !core.MustPass(fn, other, blk.Instrs[0]) {
				guards = append(guards, guard{cd, e})
			}
		}
	}
	var out []int64
	for _, v := range vals {
		in := true
		for _, g := range guards {
			abs := func(w ssa.Value) (int64, bool) {
				if core.StripConv(w) == cl.phi {
					return v, true
				}
				return 0, false
			}
			r, okR := core.EvalInt(g.cd.If.Cond, abs)
			if !okR {
				return nil, false
			}
			taken := 1
			if r != 0 {
				taken = 0
			}
			if taken != g.edge {
				in = false
			}
		}
		if in {
			out = append(out, v)
		}
	}
	return out, true
}

func loopOf(cls []*countedLoop, b *ssa.BasicBlock) *countedLoop {
	var best *countedLoop
	for _, cl := range cls {
		if cl.loop.Blocks[b] && (best == nil || len(cl.loop.Blocks) < len(best.loop.Blocks)) {
			best = cl
		}
	}
	return best
}

// ---------------------------------------------------------------------------
// G7 the executor

func RuleG7(c *Ctx) {
	c.Rule("G7", "parallel.Execute: wg.Add(1) precedes each spawn in the same iteration; exactly one `go` per loop iteration; the spawned closure calls work exactly once on every path with arguments loaded from per-iteration cells that are never stored after the spawn, and wg.Done() follows work on every path; wg.Wait() post-dominates Execute's entry; the loop bound is the (possibly reduced) task count")
	fn := c.P.Fn("common/parallel", "", "Execute")
	if fn == nil {
		c.Unresolved("G7", "common/parallel.Execute")
		return
	}
	c.Saw(core.FnName(fn))
	facts := 0
	var gos []*ssa.Go
	core.AllInstrs(fn, func(i ssa.Instruction) {
		if g, ok := i.(*ssa.Go); ok {
			gos = append(gos, g)
		}
	})
	if len(gos) == 0 {
		c.Bad("G7", "Execute:one-spawn-site", fn.Pos(), "Execute has no `go` statement")
		return
	}
	cls := countedLoops(fn)
	cl := loopOf(cls, gos[0].Block())
	facts++
	if cl == nil {
		c.Bad("G7", "Execute:spawn-in-task-loop", gos[0].Pos(), "the spawn is not inside a counted loop over the tasks")
		return
	}
	// exactly one spawn per iteration: every way round the loop passes a go statement, no go statement can be followed
	// by another one before the header is reached again, and none sits in an inner loop
	cutG := core.NewCuts()
	for _, g := range gos {
		cutG.AddInstr(g)
	}
	hdrLast := cl.loop.Header.Instrs[len(cl.loop.Header.Instrs)-1]
	oncePer := true
	for _, pred := range cl.loop.Header.Preds {
		if cl.loop.Blocks[pred] {
			last := pred.Instrs[len(pred.Instrs)-1]
			isGoBlock := false
			for _, g := range gos {
				if g.Block() == pred {
					isGoBlock = true
				}
			}
			if !isGoBlock && core.ReachableAvoiding(fn, hdrLast, cutG, last) {
				oncePer = false
			}
		}
	}
	for _, g := range gos {
		if loopOf(cls, g.Block()) != cl {
			oncePer = false
		}
		if il := core.InnermostLoop(core.Loops(fn), g.Block()); il == nil || il.Header != cl.loop.Header {
			oncePer = false
		}
		stop := core.NewCuts()
		stop.AddInstr(hdrLast)
		for _, g2 := range gos {
			if g2 != g && core.ReachableAvoiding(fn, g, stop, g2) {
				oncePer = false // two spawns in one iteration
			}
		}
	}
	c.Check(oncePer, "G7", "Execute:one-spawn-per-iteration", gos[0].Pos(), "an iteration of the task loop can complete without spawning, spawn twice, or spawns inside an inner loop", fmt.Sprintf("every path through the loop body passes exactly one of the %d go statement(s)", len(gos)))

	// the WaitGroup: one Add(1) before each spawn, one Wait
	var wgCell *ssa.Alloc
	var adds, waits []*ssa.Call
	for _, ci := range core.CallsIn(fn) {
		call, ok := ci.(*ssa.Call)
		if !ok {
			continue
		}
		f := core.Callee(call.Common())
		switch {
		case core.IsMethod(f, "sync", "WaitGroup", "Add"):
			adds = append(adds, call)
		case core.IsMethod(f, "sync", "WaitGroup", "Wait"):
			waits = append(waits, call)
		}
	}
	facts++
	if len(adds) != len(gos) || len(waits) != 1 {
		c.Bad("G7", "Execute:waitgroup-shape", fn.Pos(), fmt.Sprintf("expected one wg.Add per go statement and one wg.Wait, found %d Add, %d go, %d Wait", len(adds), len(gos), len(waits)))
		return
	}
	wgCell, _ = adds[0].Call.Args[0].(*ssa.Alloc)
	facts++
	// every return lies behind the Wait, except a return taken before anything was started and only for an empty
	// input (nbIterations <= 0 on the edge that leads to it)
	waitOK := wgCell != nil && waits[0].Call.Args[0] == ssa.Value(wgCell) && !cl.loop.Blocks[waits[0].Block()]
	waitDesc := "Wait after the loop on every path to return"
	if waitOK {
		wcut := core.NewCuts()
		wcut.AddInstr(waits[0])
		for _, r := range core.Returns(fn) {
			if core.MustPass(fn, wcut, r) {
				continue
			}
			early := emptyInputOnly(fn, r.Block())
			for _, g := range gos {
				if core.ReachableAvoiding(fn, g, wcut, r) {
					early = false
				}
			}
			for _, a := range adds {
				if core.ReachableAvoiding(fn, a, wcut, r) {
					early = false
				}
			}
			if !early {
				waitOK = false
			} else {
				waitDesc += "; an early return at " + c.P.Pos(r.Pos()) + " is taken only for nbIterations <= 0, before anything is started"
			}
		}
	}
	c.Check(waitOK, "G7", "Execute:Wait-postdominates", waits[0].Pos(), "wg.Wait() on the same WaitGroup does not lie on every path from entry to return (Execute may return before all invocations finished, or without doing the work of a non-empty input)", waitDesc)

	for gi, g := range gos {
		sfx := ""
		if len(gos) > 1 {
			sfx = fmt.Sprintf("#%d", gi+1)
		}
		// closure
		tgt, mc := closureOf(g.Call.Value)
		if tgt == nil {
			c.Und("G7", "Execute:closure"+sfx, g.Pos(), "cannot resolve the spawned closure")
			continue
		}
		// what a value of the spawned function is bound to in Execute: a captured cell, or the argument of the go statement
		boundTo := func(v ssa.Value) ssa.Value {
			switch x := v.(type) {
			case *ssa.FreeVar:
				return core.FreeVarBinding(x)
			case *ssa.Parameter:
				for pi, q := range tgt.Params {
					if q == x && pi < len(g.Call.Args) {
						return g.Call.Args[pi]
					}
				}
			}
			return nil
		}
		// the Add(1) of this spawn: on every path from the loop header to the go statement, on this WaitGroup
		var add *ssa.Call
		for _, a := range adds {
			cutA := core.NewCuts()
			cutA.AddInstr(a)
			if cl.loop.Blocks[a.Block()] && !core.ReachableAvoiding(fn, hdrLast, cutA, g) {
				add = a
			}
		}
		okAdd := add != nil
		if okAdd {
			k, isK := core.ConstInt(add.Call.Args[1])
			okAdd = isK && k == 1 && add.Call.Args[0] == ssa.Value(wgCell) && wgCell != nil
		}
		c.Check(okAdd, "G7", "Execute:Add(1)-before-spawn"+sfx, g.Pos(), "wg.Add(1) does not precede the spawn in every iteration", "Add(1) on every path from the loop header to the go statement")
		facts++
		// closure body
		var workCalls, dones []ssa.CallInstruction
		for _, ci := range core.CallsIn(tgt) {
			cc := ci.Common()
			if core.IsMethod(core.Callee(cc), "sync", "WaitGroup", "Done") {
				dones = append(dones, ci)
				continue
			}
			if cc.IsInvoke() {
				continue
			}
			if core.Callee(cc) == nil && isFuncParamValue(cc.Value) {
				workCalls = append(workCalls, ci)
			}
		}
		okWork := len(workCalls) == 1 && core.PostDominatesEntry(tgt, workCalls[0])
		if okWork {
			if _, plain := workCalls[0].(*ssa.Call); !plain {
				okWork = false
			}
			// the callee value is Execute's `work` parameter (captured, or handed over as an argument)
			isWork := func(v ssa.Value) bool {
				if p, isP := v.(*ssa.Parameter); isP && p.Parent() == fn {
					return p.Name() == "work"
				}
				if u, isLoad := v.(*ssa.UnOp); isLoad && u.Op == token.MUL {
					if al, isAl := u.X.(*ssa.Alloc); isAl && core.ParamSpill(al) != nil {
						return core.ParamSpill(al).Name() == "work"
					}
				}
				if al, isAl := v.(*ssa.Alloc); isAl && core.ParamSpill(al) != nil {
					return core.ParamSpill(al).Name() == "work"
				}
				return false
			}
			switch x := workCalls[0].Common().Value.(type) {
			case *ssa.UnOp:
				if b := boundTo(x.X); b == nil || !isWork(b) {
					okWork = false
				}
			case *ssa.Parameter:
				if b := boundTo(x); b == nil || !isWork(b) {
					okWork = false
				}
			default:
				okWork = false
			}
		}
		facts++
		c.Check(okWork, "G7", "Execute:closure-calls-work-once"+sfx, tgt.Pos(), "the spawned closure does not call the work function exactly once on every path", "one call of work, post-dominating the closure's entry")
		okDone := len(dones) == 1 && len(workCalls) == 1 && core.PostDominatesEntry(tgt, dones[0])
		if okDone {
			if b := boundTo(dones[0].Common().Args[0]); b != ssa.Value(wgCell) {
				okDone = false
			}
			if _, isDefer := dones[0].(*ssa.Defer); !isDefer {
				// a plain call must come after the work call on every path; a deferred Done runs at function exit
				okDone = okDone && core.Precedes(tgt, workCalls[0], dones[0])
			}
			if _, isGo := dones[0].(*ssa.Go); isGo {
				okDone = false
			}
		}
		facts++
		c.Check(okDone, "G7", "Execute:Done-after-work"+sfx, tgt.Pos(), "wg.Done() on Execute's WaitGroup does not follow the work call on every path of the closure", "Done after work on every path")
		// arguments: loads of per-iteration cells
		okArgs := len(workCalls) == 1
		if okArgs {
			s := &spawnSite{kind: "go", at: g, parent: fn, top: fn, target: tgt, closure: mc}
			oc := &ownCtx{site: s, loops: map[*ssa.Function][]*core.Loop{}, seen: map[ssa.Value]bool{}}
			seenCells := map[ssa.Value]bool{}
			seenVals := map[ssa.Value]bool{}
			for _, a := range workCalls[0].Common().Args {
				// by-value form: go func(from, to int) { work(from, to) }(start, end) — the values are fixed at the spawn
				if p, isParam := a.(*ssa.Parameter); isParam {
					bound := false
					for pi, q := range tgt.Params {
						if q == p && pi < len(g.Call.Args) {
							v := g.Call.Args[pi]
							if seenVals[v] {
								okArgs = false // same value passed twice (start == end)
							}
							seenVals[v] = true
							// computed in this iteration, not a value carried over from another one
							if ins, isIns := v.(ssa.Instruction); isIns && cl.loop.Blocks[ins.Block()] {
								bound = true
							}
						}
					}
					if !bound {
						okArgs = false
					}
					continue
				}
				// an arithmetic expression over such values (work(start, start+size)): every leaf is a per-iteration cell
				if bo, isBin := a.(*ssa.BinOp); isBin {
					var leaves func(v ssa.Value, d int) bool
					leaves = func(v ssa.Value, d int) bool {
						v = core.StripConv(v)
						if _, isK := core.ConstInt(v); isK {
							return true
						}
						if x, isB := v.(*ssa.BinOp); isB && d < 6 {
							return leaves(x.X, d+1) && leaves(x.Y, d+1)
						}
						if u, isLoad := v.(*ssa.UnOp); isLoad && u.Op == token.MUL {
							if fv, isFV := u.X.(*ssa.FreeVar); isFV && oc.perIterationCell(fv) {
								al, isAl := core.FreeVarBinding(fv).(*ssa.Alloc)
								return isAl && cl.loop.Blocks[al.Block()]
							}
						}
						return false
					}
					if !leaves(bo, 0) {
						okArgs = false
					}
					continue
				}
				u, isLoad := a.(*ssa.UnOp)
				if !isLoad {
					okArgs = false
					continue
				}
				fv, isFV := u.X.(*ssa.FreeVar)
				if !isFV || !oc.perIterationCell(fv) {
					okArgs = false
					continue
				}
				b := core.FreeVarBinding(fv)
				if seenCells[b] {
					okArgs = false // same cell passed twice (start == end)
				}
				seenCells[b] = true
				// allocated inside the loop
				if al, isAl := b.(*ssa.Alloc); !isAl || !cl.loop.Blocks[al.Block()] {
					okArgs = false
				}
			}
			if len(workCalls[0].Common().Args) != 2 {
				okArgs = false
			}
		}
		facts++
		c.Check(okArgs, "G7", "Execute:per-iteration-range-cells"+sfx, g.Pos(), "the range handed to work is not read from two distinct cells allocated per iteration and left untouched after the spawn (ranges of different tasks could be confused)", "start/end loaded from per-iteration cells never stored after the spawn")
	}
	// worker limit honoured: the task count is maxCpus[0] whenever a limit is given (the default NumCPU is
	// used only on the `len(maxCpus) != 1` edge), possibly reduced to nbIterations — callers size their result
	// channels by the limit they pass (rule G3)
	{
		lim := false
		var why string
		bound := core.StripConv(cl.bound)
		// peel the reduction phi(nbTasks, nbIterations)
		leafs := []ssa.Value{bound}
		if phi, isPhi := bound.(*ssa.Phi); isPhi {
			leafs = nil
			for _, e := range phi.Edges {
				leafs = append(leafs, e)
			}
		}
		for _, lf := range leafs {
			phi, isPhi := lf.(*ssa.Phi)
			if !isPhi {
				continue
			}
			okPhi := len(phi.Edges) == 2
			sawLimit := false
			for i, e := range phi.Edges {
				pred := phi.Block().Preds[i]
				if call, isCall := e.(*ssa.Call); isCall && core.IsFunc(core.Callee(call.Common()), "runtime", "NumCPU") {
					// the default may arrive only on the edge where no (single) limit was given
					ifi, isIf := pred.Instrs[len(pred.Instrs)-1].(*ssa.If)
					if !isIf {
						// … or the edge lies wholly inside the `len(maxCpus) != 1` region
						noLimit := core.NewCuts()
						for _, b := range fn.Blocks {
							bi, ok := b.Instrs[len(b.Instrs)-1].(*ssa.If)
							if !ok {
								continue
							}
							cmp, ok := bi.Cond.(*ssa.BinOp)
							if !ok || (cmp.Op != token.EQL && cmp.Op != token.NEQ) {
								continue
							}
							x, isLen := core.IsLenOf(cmp.X)
							one, isOne := core.ConstInt(cmp.Y)
							if !isLen || !isOne || one != 1 || core.PathOf(x) != "p:maxCpus" {
								continue
							}
							if cmp.Op == token.NEQ {
								noLimit.AddEdge(b, 0)
							} else {
								noLimit.AddEdge(b, 1)
							}
						}
						if !noLimit.Empty() && core.MustPass(fn, noLimit, pred.Instrs[len(pred.Instrs)-1]) {
							continue
						}
						okPhi = false
						why = "the default NumCPU reaches the task count on an edge that is not the `no limit given` edge"
						continue
					}
					cmp, isCmp := ifi.Cond.(*ssa.BinOp)
					x, isLen := ssa.Value(nil), false
					if isCmp {
						x, isLen = core.IsLenOf(cmp.X)
					}
					one, isOne := int64(0), false
					if isCmp {
						one, isOne = core.ConstInt(cmp.Y)
					}
					edgeIdx := 1
					if isCmp && cmp.Op == token.NEQ {
						edgeIdx = 0
					}
					if !isCmp || !isLen || !isOne || one != 1 || core.PathOf(x) != "p:maxCpus" || (cmp.Op != token.EQL && cmp.Op != token.NEQ) || pred.Succs[edgeIdx] != phi.Block() {
						okPhi = false
						why = "an explicit worker limit can be ignored: NumCPU is also used when len(maxCpus) == 1"
					}
					continue
				}
				if core.PathOf(e) == "*(p:maxCpus[c:0])" {
					sawLimit = true
					continue
				}
				okPhi = false
			}
			if okPhi && sawLimit {
				lim = true
			}
		}
		facts++
		c.Check(lim, "G7", "Execute:worker-limit-honoured", cl.phi.Pos(), "the number of tasks is not maxCpus[0] whenever a limit is given (only reduced to nbIterations): "+why+"; callers that size a channel by the limit they pass would block forever", "nbTasks = maxCpus[0] if given, else NumCPU; reduced to nbIterations when smaller")
	}
	// loop bound: counted from 0 by +1 below the task count
	z, isZ := core.ConstInt(cl.init)
	c.Check(isZ && z == 0 && cl.step == 1 && cl.op == token.LSS, "G7", "Execute:task-loop", cl.phi.Pos(), "the task loop does not run i = 0 .. nbTasks-1", "for i := 0; i < nbTasks; i++")
	facts++
	c.FloorN("G7", 7, facts, "executor facts")
}

// ---------------------------------------------------------------------------
// G2 join before use / before return

// chanRoot resolves a channel-typed value to a stable root: the cell or array it is kept in, or the make site.
func chanRoot(v ssa.Value) ssa.Value {
	for d := 0; d < 16; d++ {
		switch x := v.(type) {
		case *ssa.UnOp:
			if x.Op == token.MUL {
				v = x.X
				continue
			}
		case *ssa.FreeVar:
			if b := core.FreeVarBinding(x); b != nil {
				v = b
				continue
			}
		case *ssa.Parameter:
			// a parameter of a function literal that is only run at one site stands for the argument it gets there
			if b := core.LiteralParamBinding(x); b != nil {
				v = b
				continue
			}
		case *ssa.IndexAddr:
			v = x.X
			continue
		case *ssa.ChangeType:
			v = x.X
			continue
		case *ssa.Slice:
			v = x.X
			continue
		case *ssa.Alloc:
			// a cell holding one channel: look through to the make site when unique
			sts := storesInto(x)
			if len(sts) == 1 {
				if mk, ok := sts[0].Val.(*ssa.MakeChan); ok {
					return mk
				}
			}
			return x
		}
		return v
	}
	return v
}

// sendsOf: the Send instructions executed by a spawned function (through direct callees in the module),
// with the channel expressed in terms of the spawned function's parameters / free variables.
type sendInfo struct {
	send *ssa.Send
	ch   ssa.Value // channel value in the frame of the top spawned function
	last bool      // the send post-dominates the function's entry
}

func (c *Ctx) sendsOf(fn *ssa.Function, depth int) []sendInfo {
	var out []sendInfo
	if fn == nil || len(fn.Blocks) == 0 || depth > 4 {
		return out
	}
	core.AllInstrs(fn, func(i ssa.Instruction) {
		switch x := i.(type) {
		case *ssa.Send:
			out = append(out, sendInfo{x, x.Chan, core.PostDominatesEntry(fn, x)})
		case *ssa.Call:
			callee := core.Callee(x.Common())
			if callee == nil || !core.InModule(callee) {
				return
			}
			for _, si := range c.sendsOf(callee, depth+1) {
				// translate a parameter channel to the actual argument
				ch := core.StripConv(si.ch)
				if p, ok := ch.(*ssa.Parameter); ok {
					for k, q := range callee.Params {
						if q == p && k < len(x.Call.Args) {
							ch = x.Call.Args[k]
						}
					}
				}
				out = append(out, sendInfo{si.send, ch, si.last && core.PostDominatesEntry(fn, x)})
			}
		}
	})
	return out
}

func RuleG2(c *Ctx) {
	c.Rule("G2", "join before use: in every function that spawns, each return reachable after a spawn — and each read of an element the child writes — is reachable only through the join of that child: wg.Wait() with matching Add totals, the synchronous return of parallel.Execute, errgroup Wait, a receive loop with the same bound value as the spawn loop, or (msmCk) the reducer that receives once from every chunk channel")
	n := 0
	for _, s := range c.spawnSites() {
		key := s.key(c)
		if s.target == nil {
			c.Und("G2", key, s.at.Pos(), "cannot resolve the spawned function")
			continue
		}
		n++
		p := s.parent
		c.Saw(core.FnName(p))
		if core.IsFunc(p, "common/parallel", "Execute") {
			c.OK("G2", key, s.at.Pos(), "the executor itself: decided by rule G7")
			continue
		}
		var cuts *core.Cuts
		var desc string
		var joinCh ssa.Value
		switch s.kind {
		case "Execute":
			c.OK("G2", key, s.at.Pos(), "parallel.Execute is synchronous (rule G7): joined when the call returns")
			continue
		case "errgroup":
			cuts = core.NewCuts()
			grp := s.at.Common().Args[0]
			for _, ci := range core.CallsIn(p) {
				if core.IsMethod(core.Callee(ci.Common()), "x/sync/errgroup", "Group", "Wait") && ci.Common().Args[0] == grp {
					cuts.AddInstr(ci)
				}
			}
			desc = "errgroup Wait on the same group"
		case "go":
			// WaitGroup?
			var wg ssa.Value
			for _, ci := range core.CallsIn(s.target) {
				if core.IsMethod(core.Callee(ci.Common()), "sync", "WaitGroup", "Done") && core.PostDominatesEntry(s.target, ci) {
					if fv, ok := ci.Common().Args[0].(*ssa.FreeVar); ok {
						wg = core.FreeVarBinding(fv)
					}
				}
			}
			if wg != nil {
				cuts = core.NewCuts()
				for _, ci := range core.CallsIn(p) {
					if core.IsMethod(core.Callee(ci.Common()), "sync", "WaitGroup", "Wait") && ci.Common().Args[0] == wg {
						cuts.AddInstr(ci)
					}
				}
				desc = "wg.Wait() on the WaitGroup the child signals"
				c.g2AddTotals(s, wg, key)
				break
			}
			// channel completion
			sends := c.sendsOf(s.target, 0)
			var lastSend *sendInfo
			for i := range sends {
				if sends[i].last {
					lastSend = &sends[i]
				}
			}
			if lastSend == nil || len(sends) != 1 {
				c.Bad("G2", key, s.at.Pos(), fmt.Sprintf("the spawned function neither signals a WaitGroup nor sends exactly once, unconditionally, on a channel (%d sends): the parent cannot know when it has finished", len(sends)))
				continue
			}
			// channel in the parent's frame
			ch := core.StripConv(lastSend.ch)
			if par, ok := ch.(*ssa.Parameter); ok {
				for k, q := range s.target.Params {
					if q == par && k < len(s.args) {
						ch = s.args[k]
					}
				}
			}
			root := chanRoot(ch)
			joinCh = root
			cuts, desc = c.g2ChannelJoin(s, root)
		}
		if cuts == nil || cuts.Empty() {
			c.Bad("G2", key, s.at.Pos(), "no join found in "+core.FnName(p)+" for this spawn ("+desc+"): the parent may return or read results while the child still runs")
			continue
		}
		// every return reachable after the spawn passes the join
		ok := true
		var why string
		for _, r := range core.Returns(p) {
			if core.ReachableAvoiding(p, s.at, cuts, r) {
				ok = false
				why = fmt.Sprintf("return at %s is reachable from the spawn without passing the join", c.P.Pos(r.Pos()))
			}
		}
		// reads of child-written slots
		if ok {
			if rd := c.g2EarlyRead(s, cuts, joinCh); rd != nil {
				ok = false
				why = fmt.Sprintf("%s reads a slot the child writes (at %s) on a path that has not passed the join", core.FnName(p), c.P.Pos(rd.Pos()))
			}
		}
		c.Check(ok, "G2", key, s.at.Pos(), why, "join: "+desc, "all later returns and reads of child-written slots pass it")
	}
	c.FloorN("G2", 99, n, "spawn sites")
}

// g2AddTotals: Add constants on the WaitGroup equal the number of spawns signalling it.
func (c *Ctx) g2AddTotals(s *spawnSite, wg ssa.Value, key string) {
	p := s.parent
	cls := countedLoops(p)
	total := int64(0)
	okConst := true
	for _, ci := range core.CallsIn(p) {
		if core.IsMethod(core.Callee(ci.Common()), "sync", "WaitGroup", "Add") && ci.Common().Args[0] == wg {
			k, isK := core.ConstInt(ci.Common().Args[1])
			if !isK {
				okConst = false
				continue
			}
			mult := int64(1)
			if cl := loopOf(cls, ci.Block()); cl != nil {
				t, ok := cl.trips()
				if !ok {
					okConst = false
				}
				mult = t
			}
			total += k * mult
		}
	}
	spawns := int64(0)
	for _, o := range c.spawnSites() {
		if o.parent != p || o.kind != "go" || o.target == nil {
			continue
		}
		signals := false
		for _, ci := range core.CallsIn(o.target) {
			if core.IsMethod(core.Callee(ci.Common()), "sync", "WaitGroup", "Done") {
				if fv, ok := ci.Common().Args[0].(*ssa.FreeVar); ok && core.FreeVarBinding(fv) == wg {
					signals = true
				}
			}
		}
		if !signals {
			continue
		}
		mult := int64(1)
		if cl := loopOf(cls, o.at.Block()); cl != nil {
			t, ok := cl.trips()
			if !ok {
				okConst = false
			}
			mult = t
		}
		spawns += mult
	}
	if !okConst {
		c.Und("G2", key+":add-total", s.at.Pos(), "cannot evaluate the WaitGroup Add totals (non-constant count)")
		return
	}
	c.Check(total == spawns, "G2", key+":add-total", s.at.Pos(), fmt.Sprintf("WaitGroup is Add-ed %d but %d goroutines signal it: Wait returns early or blocks forever", total, spawns), fmt.Sprintf("Add total %d = %d spawns", total, spawns))
}

// g2ChannelJoin: the parent's join for a child that completes by sending on channel `root`.
func (c *Ctx) g2ChannelJoin(s *spawnSite, root ssa.Value) (*core.Cuts, string) {
	p := s.parent
	cuts := core.NewCuts()
	cls := countedLoops(p)
	// (d) receive loop with the same bound as the spawn loop
	spawnLoop := loopOf(cls, s.at.Block())
	core.AllInstrs(p, func(i ssa.Instruction) {
		u, ok := i.(*ssa.UnOp)
		if !ok || u.Op != token.ARROW || chanRoot(u.X) != root {
			return
		}
		rl := loopOf(cls, u.Block())
		if rl == nil || spawnLoop == nil {
			return
		}
		// as many receives as spawns
		if !affEq(rl.tripsAff(), spawnLoop.tripsAff()) {
			return
		}
		// the receive executes on every iteration
		hdrLast := rl.loop.Header.Instrs[len(rl.loop.Header.Instrs)-1]
		cutR := core.NewCuts()
		cutR.AddInstr(u)
		for _, pred := range rl.loop.Header.Preds {
			if rl.loop.Blocks[pred] && pred != u.Block() {
				if core.ReachableAvoiding(p, hdrLast, cutR, pred.Instrs[len(pred.Instrs)-1]) {
					return
				}
			}
		}
		// join = the exit edges of the receive loop
		for b := range rl.loop.Blocks {
			for k, succ := range b.Succs {
				if !rl.loop.Blocks[succ] {
					cuts.AddEdge(b, k)
				}
			}
		}
	})
	if !cuts.Empty() {
		return cuts, "receive loop with the same trip count as the spawn loop"
	}
	// (e) the reducer of the msmCk functions: consumes every chunk channel (rule M4 decides exact coverage)
	for _, ci := range core.CallsIn(p) {
		if core.IsFunc(core.Callee(ci.Common()), "/bandersnatch", "msmReduceChunkPointAffine") {
			if chanRoot(ci.Common().Args[2]) == root || c.feedsInto(p, root, chanRoot(ci.Common().Args[2])) {
				cuts.AddInstr(ci)
			}
		}
	}
	if !cuts.Empty() {
		return cuts, "msmReduceChunkPointAffine receives from every chunk channel (coverage: rule M4)"
	}
	return nil, fmt.Sprintf("no receive loop with the spawn loop's bound and no reducer over the channel (root %s %T)", root.Name(), root)
}

// feedsInto: some goroutine of p receives from channel `from` and then sends on a channel rooted at `to`
// (the split-merger of the msmCk functions).
func (c *Ctx) feedsInto(p *ssa.Function, from, to ssa.Value) bool {
	for _, o := range c.spawnSites() {
		if o.parent != p || o.target == nil {
			continue
		}
		recvs := 0
		core.AllInstrs(o.target, func(i ssa.Instruction) {
			if u, ok := i.(*ssa.UnOp); ok && u.Op == token.ARROW && chanRoot(u.X) == from {
				recvs++
			}
		})
		if recvs == 0 {
			continue
		}
		for _, si := range c.sendsOf(o.target, 0) {
			if si.last && chanRoot(si.ch) == to {
				return true
			}
		}
	}
	return false
}

// g2EarlyRead: an instruction of the parent that reads an element the child writes, reachable from the spawn without the join.
func (c *Ctx) g2EarlyRead(s *spawnSite, cuts *core.Cuts, joinCh ssa.Value) ssa.Instruction {
	p := s.parent
	roots := map[ssa.Value]bool{}
	for _, w := range c.writesOf(s.target) {
		ac := classifyAddr(w.addr)
		if !ac.shared || isChanType(w.addr.Type()) || isSyncType(w.addr.Type()) || w.how == "send" || w.how == "close" {
			continue
		}
		switch r := ac.rootVal.(type) {
		case *ssa.FreeVar:
			if b := core.FreeVarBinding(r); b != nil {
				roots[b] = true
			}
		case *ssa.Parameter:
			for k, q := range s.target.Params {
				if q == r && k < len(s.args) {
					if base := addrRoot(s.args[k]); base != nil {
						roots[base] = true
					}
				}
			}
		}
	}
	if len(roots) == 0 {
		return nil
	}
	var rs []ssa.Value
	for r := range roots {
		rs = append(rs, r)
	}
	derived := core.ReachFrom(rs, nil)
	var offender ssa.Instruction
	core.AllInstrs(p, func(i ssa.Instruction) {
		if offender != nil {
			return
		}
		isRead := false
		switch x := i.(type) {
		case *ssa.UnOp:
			if x.Op == token.MUL && derived[x.X] && hasIndex(x.X) {
				isRead = true
				// allowance: slot indexed by the value received from the child's completion channel
				if ia := firstIndex(x.X); ia != nil {
					if u, ok := ia.Index.(*ssa.UnOp); ok && u.Op == token.ARROW && joinCh != nil && chanRoot(u.X) == joinCh {
						isRead = false
					}
				}
			}
		case *ssa.Call:
			if _, isB := x.Call.Value.(*ssa.Builtin); isB {
				return
			}
			for _, a := range x.Call.Args {
				if derived[a] && (hasIndex(a) || isContainer(a)) {
					isRead = true
					if ia := firstIndex(a); ia != nil {
						if u, ok := ia.Index.(*ssa.UnOp); ok && u.Op == token.ARROW && joinCh != nil && chanRoot(u.X) == joinCh {
							isRead = false
						}
					}
				}
			}
		case *ssa.Return:
			for _, r := range x.Results {
				if derived[r] {
					isRead = true
				}
			}
		}
		if !isRead || i == ssa.Instruction(s.at) {
			return
		}
		if core.ReachableAvoiding(p, s.at, cuts, i) {
			offender = i
		}
	})
	return offender
}

func addrRoot(v ssa.Value) ssa.Value {
	for d := 0; d < 16; d++ {
		switch x := v.(type) {
		case *ssa.IndexAddr:
			v = x.X
		case *ssa.FieldAddr:
			v = x.X
		case *ssa.Slice:
			v = x.X
		case *ssa.UnOp:
			if x.Op != token.MUL {
				return nil
			}
			v = x.X
		case *ssa.Alloc:
			return x
		case *ssa.MakeSlice:
			return x
		case *ssa.FreeVar:
			b := core.FreeVarBinding(x)
			if b == nil {
				return nil
			}
			v = b
		default:
			return nil
		}
	}
	return nil
}

func hasIndex(v ssa.Value) bool { return firstIndex(v) != nil }

func firstIndex(v ssa.Value) *ssa.IndexAddr {
	var found *ssa.IndexAddr
	for d := 0; d < 16; d++ {
		switch x := v.(type) {
		case *ssa.IndexAddr:
			found = x
			v = x.X
		case *ssa.FieldAddr:
			v = x.X
		case *ssa.Slice:
			v = x.X
		case *ssa.UnOp:
			if x.Op != token.MUL {
				return found
			}
			v = x.X
		default:
			return found
		}
	}
	return found
}

func isContainer(v ssa.Value) bool {
	switch v.Type().Underlying().(type) {
	case *types.Slice, *types.Array:
		return true
	case *types.Pointer:
		if _, ok := v.Type().Underlying().(*types.Pointer).Elem().Underlying().(*types.Array); ok {
			return true
		}
	}
	return false
}

var _ = strings.Contains

// emptyInputOnly: block b is dominated by the arm of a comparison of Execute's iteration count with a constant that
// implies nbIterations <= 0.
func emptyInputOnly(fn *ssa.Function, b *ssa.BasicBlock) bool {
	var n ssa.Value
	for _, p := range fn.Params {
		if p.Name() == "nbIterations" {
			n = p
		}
	}
	if n == nil && len(fn.Params) > 0 {
		n = fn.Params[0]
	}
	if n == nil {
		return false
	}
	for _, t := range fn.Blocks {
		ifi, ok := t.Instrs[len(t.Instrs)-1].(*ssa.If)
		if !ok || t.Succs[0] == t.Succs[1] {
			continue
		}
		cmp, ok := ifi.Cond.(*ssa.BinOp)
		if !ok {
			continue
		}
		for si, succ := range t.Succs {
			if len(succ.Preds) != 1 || !succ.Dominates(b) {
				continue
			}
			op := cmp.Op
			var k int64
			switch {
			case core.StripConv(cmp.X) == n:
				kk, isK := core.ConstInt(cmp.Y)
				if !isK {
					continue
				}
				k = kk
			case core.StripConv(cmp.Y) == n:
				kk, isK := core.ConstInt(cmp.X)
				if !isK {
					continue
				}
				k = kk
				switch op {
				case token.LSS:
					op = token.GTR
				case token.LEQ:
					op = token.GEQ
				case token.GTR:
					op = token.LSS
				case token.GEQ:
					op = token.LEQ
				}
			default:
				continue
			}
			if si == 1 {
				op = negateCmp(op)
			}
			// n op k implies n <= 0
			switch {
			case op == token.LSS && k <= 1, op == token.LEQ && k <= 0, op == token.EQL && k <= 0:
				return true
			}
		}
	}
	return false
}
