package rules

// K11 — the guard of the final conditional subtraction.
//
// Every portable arithmetic routine of package fr ends with "if the result is not smaller than q, subtract q". The
// subtraction is a borrow chain over the four limbs and the limbs of q (aligned by K2); the guard is a cascade of
// comparisons of limb k of the result with limb k of q. The cascade touches the result only through those
// comparisons, so whether the subtraction is reached is a function of the 3^4 orderings (z[k] <, =, > q[k]): K11
// walks the control-flow graph from the first comparison of the cascade on each of the 81 and requires the
// subtraction to be reached exactly when the most significant differing limb is larger, or no limb differs. The
// assembly routines are not covered (A-rules); which inputs reach such an ordering is not decided.

import (
	"fmt"
	"go/token"
	"sort"

	"golang.org/x/tools/go/ssa"

	"verif/checker/core"
)

type k11val struct {
	kind int // 0 integer / boolean, 1 limb k of the value, 2 limb k of q
	k    int
	n    int64
}

func RuleK11(c *Ctx) {
	c.Rule("K11", "final reduction guard: in package fr, each subtraction of the modulus from a value (a bits.Sub64 chain against the limbs of q, starting from a zero borrow) is guarded by a cascade of same-limb comparisons with q; walked on all 81 orderings of the four limb pairs, the subtraction is reached exactly when the value is not smaller than q")
	q, _ := c.frModulus()
	pk := c.P.SPkgs[core.Mod+"/bandersnatch/fr"]
	if q == nil || pk == nil {
		c.Unresolved("K11", "bandersnatch/fr modulus")
		return
	}
	var ql [4]uint64
	for i, l := range limbsOf(q) {
		ql[i] = l.Uint64()
	}
	qIndex := func(v ssa.Value) (int, bool) {
		k, ok := core.ConstInt(core.StripConv(v))
		if !ok {
			return 0, false
		}
		for i := range ql {
			if uint64(k) == ql[i] {
				return i, true
			}
		}
		return 0, false
	}
	// limb k of some array or pointer-to-array: the load of &X[k]
	limbIndex := func(v ssa.Value) (ssa.Value, int, bool) {
		ld, ok := core.StripConv(v).(*ssa.UnOp)
		if !ok || ld.Op != token.MUL {
			return nil, 0, false
		}
		ia, ok := ld.X.(*ssa.IndexAddr)
		if !ok {
			return nil, 0, false
		}
		k, isK := core.ConstInt(ia.Index)
		if !isK || k < 0 || k > 3 {
			return nil, 0, false
		}
		return ia.X, int(k), true
	}
	var fns []*ssa.Function
	for _, fn := range c.P.TopFuncs() {
		if fn.Pkg == pk && len(fn.Blocks) > 0 {
			fns = append(fns, fn)
		}
	}
	sort.Slice(fns, func(i, j int) bool { return core.FnName(fns[i]) < core.FnName(fns[j]) })
	n := 0
	for _, fn := range fns {
		// the subtraction blocks: bits.Sub64(z[0], q0, 0)
		for _, b := range fn.Blocks {
			var first *ssa.Call
			var base ssa.Value
			for _, ins := range b.Instrs {
				call, ok := ins.(*ssa.Call)
				if !ok || !core.IsFunc(core.Callee(call.Common()), "math/bits", "Sub64") || len(call.Call.Args) != 3 {
					continue
				}
				x, k, isLimb := limbIndex(call.Call.Args[0])
				qi, isQ := qIndex(call.Call.Args[1])
				z, isZ := core.ConstInt(call.Call.Args[2])
				if isLimb && isQ && k == 0 && qi == 0 && isZ && z == 0 {
					// a subtraction, not a trial subtraction made for its borrow alone: the difference is used
					used := false
					for _, r := range core.Refs(call) {
						if ex, isEx := r.(*ssa.Extract); isEx && ex.Index == 0 && len(core.Refs(ex)) > 0 {
							used = true
						}
					}
					if !used {
						continue
					}
					first, base = call, x
					break
				}
			}
			if first == nil {
				continue
			}
			n++
			c.Saw(core.FnName(fn))
			key := fmt.Sprintf("%s:subtract-q#%s", core.FnName(fn), c.relInFn(fn, first.Pos()))
			// evaluation of a condition on one ordering
			var rel [4]int
			phiVals := map[ssa.Value]k11val{}
			var eval func(v ssa.Value, d int) (k11val, string)
			eval = func(v ssa.Value, d int) (k11val, string) {
				if d > 30 {
					return k11val{}, "expression too deep"
				}
				if pv, ok := phiVals[v]; ok {
					return pv, ""
				}
				if x, k, ok := limbIndex(v); ok {
					if core.PathOf(x) != core.PathOf(base) {
						return k11val{}, "a limb of another value than the one reduced takes part in the guard"
					}
					return k11val{kind: 1, k: k}, ""
				}
				if qi, ok := qIndex(v); ok {
					return k11val{kind: 2, k: qi}, ""
				}
				if b, ok := core.ConstBool(v); ok {
					if b {
						return k11val{n: 1}, ""
					}
					return k11val{}, ""
				}
				if k, isK := core.ConstInt(core.StripConv(v)); isK {
					return k11val{n: k}, ""
				}
				switch x := v.(type) {
				case *ssa.Extract:
					// the borrow out of bits.Sub64(z[k], q[k], borrowIn): z[k] < q[k], or equal with a borrow coming in
					if call, isCall := x.Tuple.(*ssa.Call); isCall && x.Index == 1 && core.IsFunc(core.Callee(call.Common()), "math/bits", "Sub64") && len(call.Call.Args) == 3 {
						a, why := eval(call.Call.Args[0], d+1)
						if why != "" {
							return k11val{}, why
						}
						bb, why := eval(call.Call.Args[1], d+1)
						if why != "" {
							return k11val{}, why
						}
						bin, why := eval(call.Call.Args[2], d+1)
						if why != "" {
							return k11val{}, why
						}
						if a.kind != 1 || bb.kind != 2 || a.k != bb.k || bin.kind != 0 || (bin.n != 0 && bin.n != 1) {
							return k11val{}, fmt.Sprintf("borrow chain at %s is not limb k of the value minus limb k of q", c.P.Pos(call.Pos()))
						}
						if int64(rel[a.k]) < bin.n {
							return k11val{n: 1}, ""
						}
						return k11val{}, ""
					}
				case *ssa.UnOp:
					if x.Op == token.NOT {
						a, why := eval(x.X, d+1)
						if why != "" || a.kind != 0 {
							return k11val{}, "negation of something that is not a truth value" + why
						}
						return k11val{n: 1 - a.n}, ""
					}
				case *ssa.BinOp:
					a, why := eval(x.X, d+1)
					if why != "" {
						return k11val{}, why
					}
					bb, why := eval(x.Y, d+1)
					if why != "" {
						return k11val{}, why
					}
					var l, r int64
					switch {
					case a.kind == 1 && bb.kind == 2 && a.k == bb.k:
						l, r = int64(rel[a.k]), 0
					case a.kind == 2 && bb.kind == 1 && a.k == bb.k:
						l, r = 0, int64(rel[bb.k])
					case a.kind == 0 && bb.kind == 0 && (x.Op == token.EQL || x.Op == token.NEQ):
						l, r = a.n, bb.n
					default:
						return k11val{}, fmt.Sprintf("comparison at %s is not limb k of the value against limb k of q", c.P.Pos(x.Pos()))
					}
					t := false
					switch x.Op {
					case token.EQL:
						t = l == r
					case token.NEQ:
						t = l != r
					case token.LSS:
						t = l < r
					case token.LEQ:
						t = l <= r
					case token.GTR:
						t = l > r
					case token.GEQ:
						t = l >= r
					default:
						return k11val{}, "operation " + x.Op.String() + " in the guard"
					}
					if t {
						return k11val{n: 1}, ""
					}
					return k11val{}, ""
				}
				return k11val{}, "value outside the ordering abstraction: " + v.String()
			}
			evaluable := func(blk *ssa.BasicBlock) bool {
				ifi, ok := blk.Instrs[len(blk.Instrs)-1].(*ssa.If)
				if !ok {
					return false
				}
				// structural: the condition is a comparison of a limb of the value with a limb of q
				bo, ok := ifi.Cond.(*ssa.BinOp)
				if !ok {
					return false
				}
				_, _, l1 := limbIndex(bo.X)
				_, q1 := qIndex(bo.Y)
				_, _, l2 := limbIndex(bo.Y)
				_, q2 := qIndex(bo.X)
				if (l1 && q1) || (l2 && q2) {
					return true
				}
				// the borrow out of a trial subtraction of q compared with 0 or 1
				for _, side := range []ssa.Value{bo.X, bo.Y} {
					if ex, isEx := core.StripConv(side).(*ssa.Extract); isEx && ex.Index == 1 {
						if call, isCall := ex.Tuple.(*ssa.Call); isCall && core.IsFunc(core.Callee(call.Common()), "math/bits", "Sub64") && len(call.Call.Args) == 3 {
							if _, isQ := qIndex(call.Call.Args[1]); isQ {
								return true
							}
						}
					}
				}
				return false
			}
			// the first comparison of the cascade: the topmost of the consecutive dominators that test a limb
			var entry *ssa.BasicBlock
			for d := b.Idom(); d != nil; d = d.Idom() {
				if !evaluable(d) {
					break
				}
				entry = d
			}
			if entry == nil {
				c.Und("K11", key, first.Pos(), "the subtraction of q is not guarded by a cascade of limb comparisons this rule recognises (no dominating test of a limb against a limb of q)")
				continue
			}
			reach := blocksReaching(b)
			var bad []string
			und := ""
			for code := 0; code < 81 && und == ""; code++ {
				t := code
				for i := 0; i < 4; i++ {
					rel[i] = t%3 - 1
					t /= 3
				}
				want := true // z >= q
				for i := 3; i >= 0; i-- {
					if rel[i] != 0 {
						want = rel[i] > 0
						break
					}
				}
				for k := range phiVals {
					delete(phiVals, k)
				}
				cur := entry
				got, decided := false, false
				for steps := 0; steps < 64; steps++ {
					if cur == b {
						got, decided = true, true
						break
					}
					if !reach[cur] {
						got, decided = false, true
						break
					}
					var next *ssa.BasicBlock
					switch x := cur.Instrs[len(cur.Instrs)-1].(type) {
					case *ssa.Jump:
						next = cur.Succs[0]
					case *ssa.If:
						v, why := eval(x.Cond, 0)
						if why != "" || v.kind != 0 {
							und = "cannot evaluate the guard: " + why
						} else if v.n != 0 {
							next = cur.Succs[0]
						} else {
							next = cur.Succs[1]
						}
					default:
						und = "unexpected terminator inside the guard"
					}
					if und != "" {
						break
					}
					idx := -1
					for i, p := range next.Preds {
						if p == cur {
							idx = i
						}
					}
					vals := map[ssa.Value]k11val{}
					for _, ins := range next.Instrs {
						phi, ok := ins.(*ssa.Phi)
						if !ok {
							break
						}
						if pv, why := eval(phi.Edges[idx], 0); why == "" {
							vals[phi] = pv
						}
					}
					for k, v := range vals {
						phiVals[k] = v
					}
					cur = next
				}
				if und != "" {
					break
				}
				if !decided {
					und = "the guard does not settle within 64 steps"
					break
				}
				if got != want {
					verb := "skipped"
					if got {
						verb = "performed"
					}
					bad = append(bad, fmt.Sprintf("limbs (3..0) %s q: subtraction %s", relString(rel), verb))
				}
			}
			switch {
			case und != "":
				c.Und("K11", key, first.Pos(), und)
			case len(bad) > 0:
				more := ""
				if len(bad) > 3 {
					more = fmt.Sprintf(" … %d orderings in all", len(bad))
					bad = bad[:3]
				}
				c.Bad("K11", key, first.Pos(), fmt.Sprintf("the subtraction of q is not performed exactly when the value is >= q: %s%s", joinStr(bad, "; "), more))
			default:
				c.OK("K11", key, first.Pos(), "81 orderings: q subtracted exactly when the most significant differing limb is larger, or none differs")
			}
		}
	}
	c.FloorN("K11", 1, n, "guarded subtractions of q")
}

func relString(rel [4]int) string {
	s := ""
	for i := 3; i >= 0; i-- {
		switch rel[i] {
		case -1:
			s += "<"
		case 0:
			s += "="
		default:
			s += ">"
		}
	}
	return s
}

func joinStr(xs []string, sep string) string {
	out := ""
	for i, x := range xs {
		if i > 0 {
			out += sep
		}
		out += x
	}
	return out
}

// blocksReaching: the blocks from which target can be reached (target included).
func blocksReaching(target *ssa.BasicBlock) map[*ssa.BasicBlock]bool {
	out := map[*ssa.BasicBlock]bool{target: true}
	work := []*ssa.BasicBlock{target}
	for len(work) > 0 {
		b := work[len(work)-1]
		work = work[:len(work)-1]
		for _, p := range b.Preds {
			if !out[p] {
				out[p] = true
				work = append(work, p)
			}
		}
	}
	return out
}
