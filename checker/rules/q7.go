package rules

// Q7 — loops over the evaluation domain cover it.
//
// The multiproof prover and verifier keep one slot per domain point in arrays of VectorLength entries (the grouped
// polynomials, the grouped evaluations, the denominators). A counted loop whose variable indexes such an array is a
// pass over the domain: it has to visit every index 0 .. VectorLength-1 (in either direction), otherwise the openings
// at the points left out silently drop out of g(X), h(X) or E. Which entries are populated is data; the range of the
// loop is not.

import (
	"fmt"
	"go/types"
	"sort"

	"golang.org/x/tools/go/ssa"

	"verif/checker/core"
)

func RuleQ7(c *Ctx) {
	c.Rule("Q7", "domain passes are complete: in CreateMultiProof and CheckMultiProof (helpers inlined), a counted loop whose variable indexes an array of VectorLength entries visits every index 0 .. VectorLength-1")
	vl := c.constOf("common", "VectorLength")
	n := 0
	for _, name := range []string{"CreateMultiProof", "CheckMultiProof"} {
		top := c.P.Fn("", "", name)
		if top == nil {
			c.Unresolved("Q7", "multiproof."+name)
			continue
		}
		c.Saw(core.FnName(top))
		for _, fn := range core.Family(top) {
			cls := countedLoops(fn)
			seen := map[*countedLoop]bool{}
			var order []*countedLoop
			core.AllInstrs(fn, func(i ssa.Instruction) {
				var base, index ssa.Value
				switch x := i.(type) {
				case *ssa.IndexAddr:
					base, index = x.X, x.Index
				case *ssa.Index:
					base, index = x.X, x.Index
				default:
					return
				}
				// an array of VectorLength entries, or a pointer to one
				t := base.Type().Underlying()
				if pt, isPtr := t.(*types.Pointer); isPtr {
					t = pt.Elem().Underlying()
				}
				at, isArr := t.(*types.Array)
				if !isArr || at.Len() != vl {
					return
				}
				cl := loopOf(cls, i.Block())
				for cl != nil && core.StripConv(index) != cl.phi {
					// an enclosing loop whose variable is the index
					var outer *countedLoop
					for _, o := range cls {
						if o != cl && o.loop.Blocks[cl.loop.Header] && (outer == nil || len(o.loop.Blocks) < len(outer.loop.Blocks)) {
							outer = o
						}
					}
					cl = outer
				}
				if cl == nil || seen[cl] {
					return
				}
				seen[cl] = true
				order = append(order, cl)
			})
			sort.Slice(order, func(i, j int) bool { return order[i].loop.Header.Index < order[j].loop.Header.Index })
			for k, cl := range order {
				n++
				pos := cl.loop.Header.Instrs[0].Pos()
				key := fmt.Sprintf("%s:domain-pass#%d", core.FnName(fn), k+1)
				if cl.visitsAll(vl) {
					c.OK("Q7", key, pos, fmt.Sprintf("visits 0 .. %d", vl-1))
				} else {
					trips, _ := cl.tripCount()
					c.Bad("Q7", key, pos, fmt.Sprintf("a loop whose variable indexes a %d-entry domain array does not visit every index 0 .. %d (it makes %d iterations, or its bounds are not constants): the openings at the points left out are dropped", vl, vl-1, trips))
				}
			}
		}
	}
	c.FloorN("Q7", 1, n, "passes over the domain")
}
