package rules

// fsx — Fiat–Shamir schedule extraction, agreement and binding (DESIGN §3.2).

import (
	"fmt"
	"go/ast"
	"go/constant"
	"go/token"
	"go/types"
	"strings"

	"golang.org/x/tools/go/ssa"
	"golang.org/x/tools/go/types/typeutil"

	"verif/checker/core"
)

// ---------------------------------------------------------------------------
// label resolution: package-level []byte variable -> string literal of its initialiser

func (c *Ctx) labelOf(info *types.Info, e ast.Expr) (string, bool) {
	e = ast.Unparen(e)
	id, ok := e.(*ast.Ident)
	if !ok {
		return "", false
	}
	v, ok := info.Uses[id].(*types.Var)
	if !ok || v.Pkg() == nil || v.Parent() != v.Pkg().Scope() {
		return "", false
	}
	pk := c.P.Pkgs[v.Pkg().Path()]
	if pk == nil {
		return "", false
	}
	for _, f := range pk.Syntax {
		for _, d := range f.Decls {
			gd, ok := d.(*ast.GenDecl)
			if !ok || gd.Tok != token.VAR {
				continue
			}
			for _, sp := range gd.Specs {
				vs := sp.(*ast.ValueSpec)
				for i, n := range vs.Names {
					if pk.TypesInfo.Defs[n] != v || i >= len(vs.Values) {
						continue
					}
					// []byte("literal")
					call, ok := ast.Unparen(vs.Values[i]).(*ast.CallExpr)
					if !ok || len(call.Args) != 1 {
						return "", false
					}
					tv, ok := pk.TypesInfo.Types[call.Args[0]]
					if !ok || tv.Value == nil || tv.Value.Kind() != constant.String {
						return "", false
					}
					return constant.StringVal(tv.Value), true
				}
			}
		}
	}
	return "", false
}

// ---------------------------------------------------------------------------
// trace extraction

type fsTrace struct {
	items []string
	bad   []string // reasons the trace is not a regular Seq/Loop trace
	sites map[string][]token.Pos
}

func (t *fsTrace) String() string { return strings.Join(t.items, " ") }

var transcriptEvents = map[string]string{"DomainSep": "DS", "AppendPoint": "P", "AppendScalar": "S", "AppendMessage": "M", "ChallengeScalar": "Ch"}

func (c *Ctx) isTranscriptType(t types.Type) bool {
	if p, ok := t.(*types.Pointer); ok {
		t = p.Elem()
	}
	n, ok := t.(*types.Named)
	return ok && n.Obj().Name() == "Transcript" && n.Obj().Pkg() != nil && n.Obj().Pkg().Path() == core.Mod+"/common"
}

// transcriptParam returns the object of fn's parameter of type *common.Transcript.
func (c *Ctx) transcriptParam(info *types.Info, fd *ast.FuncDecl) types.Object {
	for _, f := range fd.Type.Params.List {
		for _, n := range f.Names {
			if o := info.Defs[n]; o != nil && c.isTranscriptType(o.Type()) {
				return o
			}
		}
	}
	return nil
}

// extractTrace walks fd's body in source order.
func (c *Ctx) extractTrace(fn *ssa.Function, depth int) *fsTrace {
	t := &fsTrace{sites: map[string][]token.Pos{}}
	fd := c.P.Decl(fn)
	info := c.P.Info(fn)
	if fd == nil || info == nil || fd.Body == nil {
		t.bad = append(t.bad, "no syntax for "+core.FnName(fn))
		return t
	}
	tp := c.transcriptParam(info, fd)
	if tp == nil {
		t.bad = append(t.bad, "no *common.Transcript parameter in "+core.FnName(fn))
		return t
	}
	c.Saw(core.FnName(fn))
	c.traceBlock(t, info, fd, tp, fd.Body.List, depth)
	return t
}

// sameObj: o is tp or a local bound exactly once to (an alias of) tp — `transcript := transcript` in a spliced helper body.
func sameObj(info *types.Info, fd *ast.FuncDecl, o, tp types.Object) bool {
	for i := 0; i < 8 && o != nil; i++ {
		if o == tp {
			return true
		}
		id, ok := ast.Unparen(singleDefOrNil(info, fd, o)).(*ast.Ident)
		if !ok {
			return false
		}
		o = info.Uses[id]
	}
	return false
}

func singleDefOrNil(info *types.Info, fd *ast.FuncDecl, o types.Object) ast.Expr {
	if e := singleDef(info, fd, o); e != nil {
		return e
	}
	return &ast.BadExpr{}
}

func (c *Ctx) usesTP(info *types.Info, fd *ast.FuncDecl, n ast.Node, tp types.Object) bool {
	found := false
	ast.Inspect(n, func(x ast.Node) bool {
		if id, ok := x.(*ast.Ident); ok && info.Uses[id] != nil && sameObj(info, fd, info.Uses[id], tp) {
			found = true
		}
		return !found
	})
	return found
}

func (c *Ctx) usesObj(info *types.Info, n ast.Node, o types.Object) bool {
	found := false
	ast.Inspect(n, func(x ast.Node) bool {
		if id, ok := x.(*ast.Ident); ok && info.Uses[id] == o {
			found = true
		}
		return !found
	})
	return found
}

// endsInReturn: the statement list always leaves the function (return / panic) at its end.
func endsInReturn(list []ast.Stmt) bool {
	if len(list) == 0 {
		return false
	}
	switch s := list[len(list)-1].(type) {
	case *ast.ReturnStmt:
		return true
	case *ast.ExprStmt:
		if call, ok := s.X.(*ast.CallExpr); ok {
			if id, ok := call.Fun.(*ast.Ident); ok && id.Name == "panic" {
				return true
			}
		}
	case *ast.BlockStmt:
		return endsInReturn(s.List)
	}
	return false
}

func (c *Ctx) traceBlock(t *fsTrace, info *types.Info, fd *ast.FuncDecl, tp types.Object, list []ast.Stmt, depth int) {
	for _, s := range list {
		c.traceStmt(t, info, fd, tp, s, depth)
	}
}

func (c *Ctx) traceStmt(t *fsTrace, info *types.Info, fd *ast.FuncDecl, tp types.Object, s ast.Stmt, depth int) {
	switch x := s.(type) {
	case *ast.BlockStmt:
		c.traceBlock(t, info, fd, tp, x.List, depth)
	case *ast.LabeledStmt:
		c.traceStmt(t, info, fd, tp, x.Stmt, depth)
	case *ast.ForStmt:
		// the one-trip labelled scope the normaliser splices a helper into: `for { ...; break L }` is a block
		if x.Init == nil && x.Cond == nil && x.Post == nil && len(x.Body.List) > 0 {
			if br, isBr := x.Body.List[len(x.Body.List)-1].(*ast.BranchStmt); isBr && br.Tok == token.BREAK && br.Label != nil && strings.HasPrefix(br.Label.Name, "_inl") {
				c.traceBlock(t, info, fd, tp, x.Body.List, depth)
				return
			}
		}
		if x.Init != nil {
			c.traceExprs(t, info, fd, tp, x.Init, depth)
		}
		sub := &fsTrace{sites: t.sites}
		c.traceBlock(sub, info, fd, tp, x.Body.List, depth)
		t.bad = append(t.bad, sub.bad...)
		if len(sub.items) > 0 {
			t.items = append(t.items, "Loop/"+c.boundClass(info, fd, x.Cond, nil)+"[", strings.Join(sub.items, " "), "]")
		}
	case *ast.RangeStmt:
		sub := &fsTrace{sites: t.sites}
		c.traceBlock(sub, info, fd, tp, x.Body.List, depth)
		t.bad = append(t.bad, sub.bad...)
		if len(sub.items) > 0 {
			t.items = append(t.items, "Loop/"+c.boundClass(info, fd, nil, x.X)+"[", strings.Join(sub.items, " "), "]")
		}
	case *ast.IfStmt:
		if x.Init != nil {
			c.traceExprs(t, info, fd, tp, x.Init, depth)
		}
		c.traceExprs(t, info, fd, tp, &ast.ExprStmt{X: x.Cond}, depth)
		// single-exit style: the schedule is the sequence of events on the way on which nothing fails. A branch
		// without events that only raises the function's error (or returns) is off that way, and a guard on the
		// error itself (`if err == nil { ... }`) is on it.
		if evIdx, sub := c.successBranch(info, fd, tp, x, t, depth); evIdx >= 0 {
			t.bad = append(t.bad, sub.bad...)
			t.items = append(t.items, sub.items...)
			return
		}
		for _, br := range []ast.Stmt{x.Body, x.Else} {
			if br == nil {
				continue
			}
			sub := &fsTrace{sites: t.sites}
			c.traceStmt(sub, info, fd, tp, br, depth)
			t.bad = append(t.bad, sub.bad...)
			if len(sub.items) > 0 {
				// transcript events under a condition: never a regular trace
				t.items = append(t.items, "Alt(", strings.Join(sub.items, " "), ")")
				t.bad = append(t.bad, fmt.Sprintf("transcript events under a condition at %s", c.P.Pos(br.Pos())))
			}
		}
	case *ast.SwitchStmt, *ast.TypeSwitchStmt, *ast.SelectStmt:
		sub := &fsTrace{sites: t.sites}
		c.traceExprs(sub, info, fd, tp, s, depth)
		if len(sub.items) > 0 {
			t.items = append(t.items, "Alt(", strings.Join(sub.items, " "), ")")
			t.bad = append(t.bad, fmt.Sprintf("transcript events inside switch/select at %s", c.P.Pos(s.Pos())))
		}
	case *ast.GoStmt, *ast.DeferStmt:
		sub := &fsTrace{sites: t.sites}
		c.traceExprs(sub, info, fd, tp, s, depth)
		if len(sub.items) > 0 {
			t.items = append(t.items, "Async(", strings.Join(sub.items, " "), ")")
			t.bad = append(t.bad, fmt.Sprintf("transcript events in go/defer at %s", c.P.Pos(s.Pos())))
		}
	default:
		c.traceExprs(t, info, fd, tp, s, depth)
	}
}

// traceExprs finds transcript events in evaluation order inside one simple statement.
func (c *Ctx) traceExprs(t *fsTrace, info *types.Info, fd *ast.FuncDecl, tp types.Object, n ast.Node, depth int) {
	var visit func(n ast.Node)
	visit = func(n ast.Node) {
		ast.Inspect(n, func(x ast.Node) bool {
			switch e := x.(type) {
			case *ast.FuncLit:
				if c.usesTP(info, fd, e, tp) {
					t.bad = append(t.bad, fmt.Sprintf("transcript captured by a function literal at %s", c.P.Pos(e.Pos())))
				}
				return false
			case *ast.CallExpr:
				// arguments are evaluated before the call
				for _, a := range e.Args {
					visit(a)
				}
				if sel, ok := e.Fun.(*ast.SelectorExpr); ok {
					visit(sel.X)
				}
				c.traceCall(t, info, fd, tp, e, depth)
				return false
			}
			return true
		})
	}
	visit(n)
}

func (c *Ctx) traceCall(t *fsTrace, info *types.Info, fd *ast.FuncDecl, tp types.Object, call *ast.CallExpr, depth int) {
	callee := typeutil.Callee(info, call)
	fobj, _ := callee.(*types.Func)
	// method of *Transcript on our transcript
	if sel, ok := call.Fun.(*ast.SelectorExpr); ok && fobj != nil {
		if id, ok := ast.Unparen(sel.X).(*ast.Ident); ok && sameObj(info, fd, info.Uses[id], tp) {
			kind, isEv := transcriptEvents[fobj.Name()]
			if !isEv {
				t.bad = append(t.bad, fmt.Sprintf("unknown transcript method %s at %s", fobj.Name(), c.P.Pos(call.Pos())))
				return
			}
			li := len(call.Args) - 1
			lab, ok := c.labelOf(info, call.Args[li])
			if !ok {
				t.bad = append(t.bad, fmt.Sprintf("label of %s at %s is not a package-level []byte initialised from a string literal", fobj.Name(), c.P.Pos(call.Pos())))
				lab = "?"
			}
			ev := fmt.Sprintf("%s%q", kind, lab)
			t.items = append(t.items, ev)
			t.sites[ev] = append(t.sites[ev], call.Pos())
			return
		}
	}
	// transcript passed on
	passes := false
	for _, a := range call.Args {
		if id, ok := ast.Unparen(a).(*ast.Ident); ok && sameObj(info, fd, info.Uses[id], tp) {
			passes = true
		}
	}
	if !passes {
		// nested calls were traced on their own (arguments are visited first): only this call's own operands count
		direct := false
		for _, a := range append([]ast.Expr{call.Fun}, call.Args...) {
			ast.Inspect(a, func(x ast.Node) bool {
				if _, isCall := x.(*ast.CallExpr); isCall {
					return false
				}
				if id, ok := x.(*ast.Ident); ok && info.Uses[id] != nil && sameObj(info, fd, info.Uses[id], tp) {
					direct = true
				}
				return !direct
			})
		}
		if direct {
			t.bad = append(t.bad, fmt.Sprintf("transcript used in an unrecognised way at %s", c.P.Pos(call.Pos())))
		}
		return
	}
	if fobj == nil || depth > 6 {
		t.bad = append(t.bad, fmt.Sprintf("transcript passed to an unresolved callee at %s", c.P.Pos(call.Pos())))
		return
	}
	sfn := c.P.SSA.FuncValue(fobj)
	if sfn == nil || !core.InModule(sfn) {
		t.bad = append(t.bad, fmt.Sprintf("transcript passed outside the module to %s at %s", fobj.FullName(), c.P.Pos(call.Pos())))
		return
	}
	sub := c.extractTrace(sfn, depth+1)
	t.bad = append(t.bad, sub.bad...)
	t.items = append(t.items, sub.items...)
	for k, v := range sub.sites {
		t.sites[k] = append(t.sites[k], v...)
	}
}

// boundClass classifies a loop bound: "opening" (len of the commitments parameter),
// "round" (ic.numRounds / len(proof.L|R)), else "other:<expr>".
func (c *Ctx) boundClass(info *types.Info, fd *ast.FuncDecl, cond ast.Expr, rangeX ast.Expr) string {
	var bound ast.Expr
	// `err == nil && i < n` (or the other way round): the loop of a single-exit function stops early on failure;
	// on the way on which nothing fails its bound is the other conjunct
	if be, ok := cond.(*ast.BinaryExpr); ok && be.Op == token.LAND {
		if fv := failVarOf(info, fd); fv != nil {
			isGuard := func(e ast.Expr) bool {
				g, ok := ast.Unparen(e).(*ast.BinaryExpr)
				if !ok || g.Op != token.EQL {
					return false
				}
				x, xok := g.X.(*ast.Ident)
				y, yok := g.Y.(*ast.Ident)
				return xok && yok && ((info.Uses[x] == fv && y.Name == "nil") || (info.Uses[y] == fv && x.Name == "nil"))
			}
			switch {
			case isGuard(be.X):
				cond = ast.Unparen(be.Y)
			case isGuard(be.Y):
				cond = ast.Unparen(be.X)
			}
		}
	}
	if rangeX != nil {
		bound = &ast.CallExpr{Fun: ast.NewIdent("len"), Args: []ast.Expr{rangeX}}
	} else if be, ok := cond.(*ast.BinaryExpr); ok && (be.Op == token.LSS || be.Op == token.NEQ) {
		bound = be.Y
	} else {
		return "other"
	}
	return c.classifyBound(info, fd, bound, 0)
}

func (c *Ctx) classifyBound(info *types.Info, fd *ast.FuncDecl, e ast.Expr, depth int) string {
	e = ast.Unparen(e)
	if depth > 5 {
		return "other"
	}
	switch x := e.(type) {
	case *ast.CallExpr:
		if len(x.Args) == 1 {
			if id, ok := x.Fun.(*ast.Ident); ok && id.Name == "len" {
				arg := ast.Unparen(x.Args[0])
				switch a := arg.(type) {
				case *ast.Ident:
					if v, ok := info.Uses[a].(*types.Var); ok && isParamOf(info, fd, v) {
						if isSliceOfPtrTo(v.Type(), "banderwagon", "Element") {
							return "opening"
						}
						// a parameter whose length a leading guard pins to the commitments' length
						for _, other := range lenEqualParams(info, fd, v, a.Pos()) {
							if isSliceOfPtrTo(other.Type(), "banderwagon", "Element") {
								return "opening"
							}
						}
						return "other:len(" + a.Name + ")"
					}
					// local variable: follow single definition
					if def := singleDef(info, fd, info.Uses[a]); def != nil {
						return c.classifyBound(info, fd, &ast.CallExpr{Fun: ast.NewIdent("len"), Args: []ast.Expr{def}}, depth+1)
					}
				case *ast.SelectorExpr:
					if s, ok := info.Selections[a]; ok && s.Kind() == types.FieldVal {
						if (s.Obj().Name() == "L" || s.Obj().Name() == "R") && namedIs(s.Recv(), "ipa", "IPAProof") {
							return "round"
						}
					}
				case *ast.CallExpr:
					// len(make([]T, n)) is n
					if mk, ok := a.Fun.(*ast.Ident); ok && mk.Name == "make" && info.Uses[mk] == types.Universe.Lookup("make") && len(a.Args) >= 2 {
						return c.classifyBound(info, fd, a.Args[1], depth+1)
					}
				}
				return "other"
			}
			// conversion int(x)
			if tv, ok := info.Types[x.Fun]; ok && tv.IsType() {
				return c.classifyBound(info, fd, x.Args[0], depth+1)
			}
		}
	case *ast.Ident:
		if def := singleDef(info, fd, info.Uses[x]); def != nil {
			return c.classifyBound(info, fd, def, depth+1)
		}
	case *ast.SelectorExpr:
		if s, ok := info.Selections[x]; ok && s.Kind() == types.FieldVal && s.Obj().Name() == "numRounds" && namedIs(s.Recv(), "ipa", "IPAConfig") {
			return "round"
		}
	}
	return "other"
}

// lenEqualParams: parameters q for which a top-level guard `if len(p) != len(q) [|| ...] { return ... }` of fd
// makes len(p) == len(q) hold in the rest of the function.
func lenEqualParams(info *types.Info, fd *ast.FuncDecl, p *types.Var, at token.Pos) []*types.Var {
	var out []*types.Var
	lenArg := func(e ast.Expr) *types.Var {
		call, ok := ast.Unparen(e).(*ast.CallExpr)
		if !ok || len(call.Args) != 1 {
			return nil
		}
		if id, ok := call.Fun.(*ast.Ident); !ok || id.Name != "len" || info.Uses[id] != types.Universe.Lookup("len") {
			return nil
		}
		id, ok := ast.Unparen(call.Args[0]).(*ast.Ident)
		if !ok {
			return nil
		}
		v, _ := info.Uses[id].(*types.Var)
		if v == nil || !isParamOf(info, fd, v) {
			return nil
		}
		return v
	}
	var terms func(e ast.Expr)
	terms = func(e ast.Expr) {
		be, ok := ast.Unparen(e).(*ast.BinaryExpr)
		if !ok {
			return
		}
		if be.Op == token.LOR {
			terms(be.X)
			terms(be.Y)
			return
		}
		if be.Op != token.NEQ {
			return
		}
		a, b := lenArg(be.X), lenArg(be.Y)
		if a == nil || b == nil {
			return
		}
		if a == p {
			out = append(out, b)
		} else if b == p {
			out = append(out, a)
		}
	}
	for _, st := range fd.Body.List {
		// top-level guards that end before the use: once passed, the equality holds (no reassignment, checked below)
		is, ok := st.(*ast.IfStmt)
		if !ok || is.End() >= at {
			continue
		}
		if is.Init != nil || is.Else != nil || len(is.Body.List) == 0 {
			continue
		}
		if _, isRet := is.Body.List[len(is.Body.List)-1].(*ast.ReturnStmt); !isRet {
			continue
		}
		terms(is.Cond)
	}
	// the equality only lasts if neither side is ever reassigned
	reassigned := map[*types.Var]bool{}
	ast.Inspect(fd.Body, func(n ast.Node) bool {
		if as, ok := n.(*ast.AssignStmt); ok {
			for _, l := range as.Lhs {
				if id, ok := ast.Unparen(l).(*ast.Ident); ok {
					if v, _ := info.Uses[id].(*types.Var); v != nil {
						reassigned[v] = true
					}
				}
			}
		}
		return true
	})
	if reassigned[p] {
		return nil
	}
	kept := out[:0]
	for _, q := range out {
		if !reassigned[q] {
			kept = append(kept, q)
		}
	}
	return kept
}

func namedIs(t types.Type, pkgRel, name string) bool {
	if p, ok := t.(*types.Pointer); ok {
		t = p.Elem()
	}
	n, ok := t.(*types.Named)
	if !ok || n.Obj().Pkg() == nil {
		return false
	}
	want := core.Mod
	if pkgRel != "" {
		want += "/" + pkgRel
	}
	return n.Obj().Name() == name && n.Obj().Pkg().Path() == want
}

func isSliceOfPtrTo(t types.Type, pkgRel, name string) bool {
	s, ok := t.Underlying().(*types.Slice)
	if !ok {
		return false
	}
	return namedIs(s.Elem(), pkgRel, name)
}

func isParamOf(info *types.Info, fd *ast.FuncDecl, v *types.Var) bool {
	for _, f := range fd.Type.Params.List {
		for _, n := range f.Names {
			if info.Defs[n] == v {
				return true
			}
		}
	}
	return false
}

// singleDef returns the RHS of the only assignment/definition of a local variable in fd.
func singleDef(info *types.Info, fd *ast.FuncDecl, o types.Object) ast.Expr {
	if o == nil {
		return nil
	}
	var rhs ast.Expr
	n := 0
	ast.Inspect(fd.Body, func(x ast.Node) bool {
		switch s := x.(type) {
		case *ast.AssignStmt:
			for i, l := range s.Lhs {
				id, ok := l.(*ast.Ident)
				if !ok {
					continue
				}
				if info.Defs[id] == o || info.Uses[id] == o {
					n++
					if len(s.Rhs) == len(s.Lhs) {
						rhs = s.Rhs[i]
					} else {
						rhs = nil
					}
				}
			}
		case *ast.ValueSpec:
			for i, id := range s.Names {
				if info.Defs[id] == o {
					if i < len(s.Values) {
						n++
						rhs = s.Values[i]
					}
					// a bare `var x T` only declares; the one assignment that follows defines
				}
			}
		case *ast.IncDecStmt:
			if id, ok := s.X.(*ast.Ident); ok && info.Uses[id] == o {
				n++
			}
		}
		return true
	})
	if n == 1 {
		return rhs
	}
	return nil
}

// ---------------------------------------------------------------------------
// F1 / F2

func (c *Ctx) specSchedules() map[string]string {
	out := map[string]string{}
	for _, row := range c.ReadTable("schedule.txt") {
		line := strings.Join(row, " ")
		i := strings.Index(line, ":")
		if i < 0 {
			continue
		}
		out[strings.TrimSpace(line[:i])] = strings.Join(strings.Fields(line[i+1:]), " ")
	}
	return out
}

func normTrace(s string) string {
	s = strings.ReplaceAll(s, "[ ", "[")
	s = strings.ReplaceAll(s, " ]", "]")
	return strings.Join(strings.Fields(s), " ")
}

// RuleF1F2 — prover and verifier schedules agree with each other and with the specification.
func RuleF1F2(which ...string) Rule {
	return func(c *Ctx) {
		c.Rule("F1", "the Fiat-Shamir trace (domain separators, absorbs, challenges; labels resolved to their string literals; loop structure) extracted from the prover equals the one extracted from the verifier")
		c.Rule("F2", "both traces equal the schedule of the Verkle specification frozen in tables/schedule.txt")
		spec := c.specSchedules()
		type pair struct {
			name               string
			prel, pn, vrel, vn string
		}
		pairs := []pair{{"multiproof", "", "CreateMultiProof", "", "CheckMultiProof"}, {"ipa", "ipa", "CreateIPAProof", "ipa", "CheckIPAProof"}}
		events := 0
		for _, pr := range pairs {
			if len(which) > 0 && !contains(which, pr.name) {
				continue
			}
			pf, vf := c.P.Fn(pr.prel, "", pr.pn), c.P.Fn(pr.vrel, "", pr.vn)
			if pf == nil || vf == nil {
				c.Unresolved("F1", pr.pn+"/"+pr.vn)
				continue
			}
			pt, vt := c.extractTrace(pf, 0), c.extractTrace(vf, 0)
			ps, vs := normTrace(pt.String()), normTrace(vt.String())
			events += len(strings.Fields(ps)) + len(strings.Fields(vs))
			for _, side := range []struct {
				t  *fsTrace
				fn *ssa.Function
			}{{pt, pf}, {vt, vf}} {
				for _, b := range uniq(side.t.bad) {
					c.Und("F1", pr.name+":regular:"+core.FnName(side.fn), side.fn.Pos(), "trace is not a regular Seq/Loop trace: "+b)
				}
			}
			c.Check(ps == vs, "F1", pr.name+":prover=verifier", vf.Pos(),
				fmt.Sprintf("prover and verifier replay different Fiat-Shamir schedules: prover %s | verifier %s", ps, vs), "prover: "+ps, "verifier: "+vs)
			want, ok := spec[pr.name]
			if !ok {
				c.Und("F2", pr.name+":spec", 0, "no schedule for "+pr.name+" in tables/schedule.txt")
				continue
			}
			if ipaSpec, ok := spec["ipa"]; ok {
				want = strings.ReplaceAll(want, "->ipa", ipaSpec)
			}
			want = normTrace(want)
			c.Check(ps == want, "F2", pr.name+":prover=spec", pf.Pos(), fmt.Sprintf("prover schedule deviates from the specification: got %s | want %s", ps, want), "spec: "+want)
			c.Check(vs == want, "F2", pr.name+":verifier=spec", vf.Pos(), fmt.Sprintf("verifier schedule deviates from the specification: got %s | want %s", vs, want), "spec: "+want)
		}
		c.FloorN("F2", 18*len(pairs)/2, events, "transcript events extracted")
	}
}

func contains(s []string, x string) bool {
	for _, y := range s {
		if y == x {
			return true
		}
	}
	return false
}

// failVarOf: the error variable a single-exit function returns at its end — the identifier at an error-typed
// position of the final return (or the named error result of a bare return) — provided the function never assigns
// nil to it (once raised it stays raised).
func failVarOf(info *types.Info, fd *ast.FuncDecl) types.Object {
	if fd == nil || fd.Body == nil || len(fd.Body.List) == 0 {
		return nil
	}
	ret, ok := fd.Body.List[len(fd.Body.List)-1].(*ast.ReturnStmt)
	if !ok {
		return nil
	}
	var fv types.Object
	isErr := func(t types.Type) bool { return t != nil && t.String() == "error" }
	if len(ret.Results) == 0 {
		if fd.Type.Results != nil {
			for _, f := range fd.Type.Results.List {
				for _, n := range f.Names {
					if o := info.Defs[n]; o != nil && isErr(o.Type()) {
						fv = o
					}
				}
			}
		}
	} else {
		for _, r := range ret.Results {
			if id, isId := r.(*ast.Ident); isId {
				if o := info.Uses[id]; o != nil && isErr(o.Type()) {
					if _, isVar := o.(*types.Var); isVar {
						fv = o
					}
				}
			}
		}
	}
	if fv == nil {
		return nil
	}
	reset := false
	ast.Inspect(fd.Body, func(n ast.Node) bool {
		as, ok := n.(*ast.AssignStmt)
		if !ok {
			return true
		}
		for i, l := range as.Lhs {
			id, isId := l.(*ast.Ident)
			if !isId || (info.Uses[id] != fv && info.Defs[id] != fv) || i >= len(as.Rhs) || len(as.Lhs) != len(as.Rhs) {
				continue
			}
			if rid, isRid := as.Rhs[i].(*ast.Ident); isRid && rid.Name == "nil" {
				reset = true
			}
		}
		return true
	})
	if reset {
		return nil
	}
	return fv
}

// raisesOnly: the statement (a branch without transcript events) ends by leaving the function or by raising fv
// with a freshly constructed error; an if/else chain does when all its branches do.
func raisesOnly(info *types.Info, s ast.Stmt, fv types.Object) bool {
	switch x := s.(type) {
	case *ast.BlockStmt:
		if len(x.List) == 0 {
			return false
		}
		return raisesOnly(info, x.List[len(x.List)-1], fv)
	case *ast.ReturnStmt:
		return true
	case *ast.ExprStmt:
		if call, ok := x.X.(*ast.CallExpr); ok {
			if id, ok := call.Fun.(*ast.Ident); ok && id.Name == "panic" {
				return true
			}
		}
	case *ast.AssignStmt:
		if fv == nil || len(x.Lhs) != 1 || len(x.Rhs) != 1 || x.Tok != token.ASSIGN {
			return false
		}
		id, isId := x.Lhs[0].(*ast.Ident)
		if !isId || info.Uses[id] != fv {
			return false
		}
		call, isCall := x.Rhs[0].(*ast.CallExpr)
		if !isCall {
			return false
		}
		if sel, isSel := call.Fun.(*ast.SelectorExpr); isSel {
			if pk, isPk := sel.X.(*ast.Ident); isPk {
				return (pk.Name == "errors" && sel.Sel.Name == "New") || (pk.Name == "fmt" && sel.Sel.Name == "Errorf")
			}
		}
	case *ast.IfStmt:
		return x.Else != nil && raisesOnly(info, x.Body, fv) && raisesOnly(info, x.Else, fv)
	}
	return false
}

// successBranch: when exactly one branch of the if has transcript events and the other cannot lie on a successful
// run, returns that branch's trace (index 0 = body, 1 = else); otherwise -1.
func (c *Ctx) successBranch(info *types.Info, fd *ast.FuncDecl, tp types.Object, x *ast.IfStmt, t *fsTrace, depth int) (int, *fsTrace) {
	brs := []ast.Stmt{x.Body, x.Else}
	var subs [2]*fsTrace
	for i, br := range brs {
		subs[i] = &fsTrace{sites: t.sites}
		if br != nil {
			c.traceStmt(subs[i], info, fd, tp, br, depth)
		}
	}
	ev0, ev1 := len(subs[0].items) > 0, len(subs[1].items) > 0
	if ev0 == ev1 {
		return -1, nil
	}
	evIdx := 1
	if ev0 {
		evIdx = 0
	}
	fv := failVarOf(info, fd)
	// guard on the error itself
	if fv != nil && x.Init == nil {
		if be, ok := x.Cond.(*ast.BinaryExpr); ok && (be.Op == token.EQL || be.Op == token.NEQ) {
			var other ast.Expr
			if id, isId := be.X.(*ast.Ident); isId && info.Uses[id] == fv {
				other = be.Y
			} else if id, isId := be.Y.(*ast.Ident); isId && info.Uses[id] == fv {
				other = be.X
			}
			if oid, isId := other.(*ast.Ident); isId && oid.Name == "nil" {
				if (be.Op == token.EQL) == (evIdx == 0) {
					return evIdx, subs[evIdx]
				}
			}
		}
	}
	// the other branch only raises or returns
	if other := brs[1-evIdx]; other != nil && raisesOnly(info, other, fv) {
		return evIdx, subs[evIdx]
	}
	return -1, nil
}
