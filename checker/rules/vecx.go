package rules

// V1–V4 — the IPA vector helpers of ipa/config.go (MultiScalar, commit, InnerProd, foldScalars, foldPoints,
// splitScalars, splitPoints): every term of every vector takes part, halves are complementary, operands pair by index.

import (
	"fmt"
	"go/token"
	"go/types"
	"strings"

	"golang.org/x/tools/go/ssa"

	"verif/checker/core"
)

// wholeOf: v is the parameter p itself or `p[:]`.
func wholeOf(v ssa.Value, p *ssa.Parameter) bool {
	if v == ssa.Value(p) {
		return true
	}
	if sl, ok := v.(*ssa.Slice); ok && wholeSlice(sl) {
		return wholeOf(sl.X, p)
	}
	return false
}

func describeArg(v ssa.Value) string {
	if sl, ok := v.(*ssa.Slice); ok {
		return fmt.Sprintf("%s[%s:%s]", describeArg(sl.X), optP(sl.Low), optP(sl.High))
	}
	return core.PathOf(v)
}

// RuleV — vector helpers.
func RuleV(c *Ctx) {
	c.Rule("V1", "whole-vector hand-off: ipa.commit passes its (groupElements, polynomial) to MultiScalar, MultiScalar its (points, scalars) to Element.MultiExp, IPAConfig.Commit its polynomial to the precomputed MSM — the parameters themselves, in that order, not re-sliced (a sub-range silently drops terms of the sum)")
	c.Rule("V2", "full traversal: InnerProd, foldScalars and foldPoints run i from 0 while i < len(a) in steps of one, index every operand and the result with i, and size the result by len(a)")
	c.Rule("V3", "complementary halves: splitScalars/splitPoints return x[:mid], x[mid:] for the same mid = len(x)/2")
	c.Rule("V4", "fold formula: result[i] = a[i] + x*b[i] (scalars: Mul then Add; points: ScalarMul then Add), the challenge multiplying the second vector's entry")
	facts := 0

	// V1
	handoff := func(rel, recv, name string, calleeOK func(f *ssa.Function) bool, calleeDesc string, pairs [][2]interface{}) {
		fn := c.P.Fn(rel, recv, name)
		if fn == nil {
			c.Unresolved("V1", rel+"."+name)
			return
		}
		c.Saw(core.FnName(fn))
		var sites []ssa.CallInstruction
		for _, ci := range core.CallsIn(fn) {
			if f := core.Callee(ci.Common()); f != nil && calleeOK(f) {
				sites = append(sites, ci)
			}
		}
		key := name + "->" + calleeDesc
		if len(sites) != 1 {
			c.Bad("V1", key, fn.Pos(), fmt.Sprintf("%s calls %s %d times; expected exactly one hand-off of the whole vectors", core.FnName(fn), calleeDesc, len(sites)))
			return
		}
		facts++
		site := sites[0]
		ok := true
		var why []string
		args := site.Common().Args
		for _, pr := range pairs {
			pname, ai := pr[0].(string), pr[1].(int)
			p := paramNamed(fn, pname)
			if p == nil || ai >= len(args) {
				ok = false
				why = append(why, "parameter "+pname+" not found")
				continue
			}
			if !wholeOf(args[ai], p) {
				ok = false
				why = append(why, fmt.Sprintf("%s receives %s instead of the whole parameter %s: terms outside that range are dropped from the sum (or foreign terms enter it)", calleeDesc, describeArg(args[ai]), pname))
			}
		}
		c.Check(ok, "V1", key, site.Pos(), strings.Join(why, "; "), "whole parameters handed on")
	}
	handoff("ipa", "", "commit", func(f *ssa.Function) bool { return core.IsFunc(f, "/ipa", "MultiScalar") }, "MultiScalar", [][2]interface{}{{"groupElements", 0}, {"polynomial", 1}})
	handoff("ipa", "", "MultiScalar", func(f *ssa.Function) bool { return core.IsMethod(f, "/banderwagon", "Element", "MultiExp") }, "Element.MultiExp", [][2]interface{}{{"points", 1}, {"scalars", 2}})
	handoff("ipa", "IPAConfig", "Commit", func(f *ssa.Function) bool { return core.IsMethod(f, "/banderwagon", "MSMPrecomp", "MSM") }, "MSMPrecomp.MSM", [][2]interface{}{{"polynomial", 1}})

	// V2 / V4
	for _, name := range []string{"InnerProd", "foldScalars", "foldPoints"} {
		fn := c.P.Fn("ipa", "", name)
		if fn == nil {
			c.Unresolved("V2", "ipa."+name)
			continue
		}
		c.Saw(core.FnName(fn))
		a, b := paramNamed(fn, "a"), paramNamed(fn, "b")
		if a == nil || b == nil {
			c.Unresolved("V2", "ipa."+name+" parameters a, b")
			continue
		}
		// the vectors: a, b, and a result made with len(a) / len(b) entries
		vecName := func(v ssa.Value) string {
			switch {
			case v == ssa.Value(a):
				return "a"
			case v == ssa.Value(b):
				return "b"
			}
			if mk, isMk := v.(*ssa.MakeSlice); isMk {
				if lx, isL := core.IsLenOf(mk.Len); isL && (lx == ssa.Value(a) || lx == ssa.Value(b)) {
					return "result"
				}
				return "result?"
			}
			return ""
		}
		cls := countedLoops(fn)
		ok := len(cls) == 1
		var why []string
		if !ok {
			why = append(why, fmt.Sprintf("%d counted loops, expected one", len(cls)))
		}
		var cl *countedLoop
		if ok {
			cl = cls[0]
			z, isZ := core.ConstInt(cl.init)
			x, isLen := core.IsLenOf(cl.bound)
			up := isZ && z == 0 && cl.step == 1 && cl.op == token.LSS && isLen && vecName(x) != "" && vecName(x) != "result?"
			// counting down: i = len(v)-1; i >= 0; i--
			down := false
			if sub, isSub := core.StripConv(cl.init).(*ssa.BinOp); isSub && sub.Op == token.SUB && cl.step == -1 {
				one, isOne := core.ConstInt(sub.Y)
				lx, isL := core.IsLenOf(sub.X)
				b0, isB := core.ConstInt(cl.bound)
				if isOne && one == 1 && isL && vecName(lx) != "" && vecName(lx) != "result?" && isB && ((cl.op == token.GEQ && b0 == 0) || (cl.op == token.GTR && b0 == -1)) {
					down = true
				}
			}
			if !up && !down {
				ok = false
				why = append(why, "the loop does not run i = 0; i < len(a); i++ over the whole vectors")
			}
			nIdx := 0
			core.AllInstrs(fn, func(i ssa.Instruction) {
				ia, isIA := i.(*ssa.IndexAddr)
				if !isIA {
					return
				}
				vn := vecName(ia.X)
				if vn == "" {
					return
				}
				if vn == "result?" {
					ok = false
					why = append(why, "the result is not made with len(a) entries")
				}
				nIdx++
				if core.StripConv(ia.Index) != cl.phi {
					ok = false
					why = append(why, fmt.Sprintf("%s is indexed by something other than the loop variable at %s", vn, c.P.Pos(ia.Pos())))
				}
			})
			if nIdx < 2 {
				ok = false
				why = append(why, "the operands are not read element by element")
			}
			guard := false
			for _, cd := range core.Conds(fn) {
				xa, okA := core.IsLenOf(cd.X)
				xb, okB := core.IsLenOf(cd.Y)
				if okA && okB && (cd.Op == token.NEQ || cd.Op == token.EQL) && ((xa == ssa.Value(a) && xb == ssa.Value(b)) || (xa == ssa.Value(b) && xb == ssa.Value(a))) {
					guard = true
				}
			}
			if !guard {
				ok = false
				why = append(why, "no len(a) != len(b) guard")
			}
		}
		facts++
		c.Check(ok, "V2", name+":full-traversal", fn.Pos(), name+": "+strings.Join(uniqStrings(why), "; ")+" — some terms would not take part, or be paired with the wrong index", "i in [0,len(a)), all operands and the result at [i], lengths guarded equal")

		// V4: what one iteration computes, as a term over a[i], b[i], x and the value carried into the iteration
		if cl == nil {
			continue
		}
		facts++
		key4 := name + ":formula"
		var body []*ssa.BasicBlock
		for _, blk := range fn.Blocks {
			if cl.loop.Blocks[blk] && blk != cl.loop.Header {
				body = append(body, blk)
			}
		}
		straight := true
		for _, blk := range body {
			if _, isIf := blk.Instrs[len(blk.Instrs)-1].(*ssa.If); isIf {
				straight = false
			}
		}
		if !straight {
			c.Und("V4", key4, fn.Pos(), name+": the loop body branches; the per-iteration formula is not evaluated")
			continue
		}
		alias := map[ssa.Value]ssa.Value{}
		var cellKey func(v ssa.Value, d int) string
		cellKey = func(v ssa.Value, d int) string {
			if d > 6 {
				return "?"
			}
			if al, ok := alias[v]; ok {
				return cellKey(al, d+1)
			}
			switch x := v.(type) {
			case *ssa.IndexAddr:
				if vn := vecName(x.X); vn != "" && core.StripConv(x.Index) == cl.phi {
					return vn + "[i]"
				}
				return "?index"
			case *ssa.Alloc:
				if p := core.ParamSpill(x); p != nil {
					return p.Name()
				}
				if cl.loop.Blocks[x.Block()] {
					return fmt.Sprintf("tmp:%s@%p", x.Comment, x) // fresh in every iteration
				}
				return fmt.Sprintf("carried:%s@%p", x.Comment, x)
			}
			return "?" + v.Name()
		}
		state := map[string]string{}
		leaf := func(k string) string {
			switch {
			case k == "a[i]" || k == "b[i]" || k == "x":
				return k
			case k == "result[i]" || strings.HasPrefix(k, "tmp:"):
				return "0" // freshly made / declared: the zero value
			case strings.HasPrefix(k, "carried:"):
				return "acc"
			}
			return "?" + k
		}
		get := func(v ssa.Value) string {
			k := cellKey(v, 0)
			if t, ok := state[k]; ok {
				return t
			}
			return leaf(k)
		}
		comm := func(op, x, y string) string {
			if y < x {
				x, y = y, x
			}
			return op + "(" + x + "," + y + ")"
		}
		var accKey string
		undec := ""
		for _, blk := range body {
			for _, ins := range blk.Instrs {
				// plain copies: result[i] = tmp
				if st, isSt := ins.(*ssa.Store); isSt {
					if u, isLoad := st.Val.(*ssa.UnOp); isLoad && u.Op == token.MUL {
						if k := cellKey(st.Addr, 0); !strings.HasPrefix(k, "?") {
							state[k] = get(u.X)
							if strings.HasPrefix(k, "carried:") {
								accKey = k
							}
						}
					}
					continue
				}
				call, isCall := ins.(*ssa.Call)
				if !isCall {
					continue
				}
				f := core.Callee(call.Common())
				if f == nil || f.Signature.Recv() == nil || len(call.Call.Args) == 0 {
					continue
				}
				dst := cellKey(call.Call.Args[0], 0)
				var t string
				switch {
				case (f.Name() == "Mul" || f.Name() == "ScalarMul") && len(call.Call.Args) == 3:
					t = comm("mul", get(call.Call.Args[1]), get(call.Call.Args[2]))
				case f.Name() == "Add" && len(call.Call.Args) == 3:
					t = comm("add", get(call.Call.Args[1]), get(call.Call.Args[2]))
				case f.Name() == "Set" && len(call.Call.Args) == 2:
					t = get(call.Call.Args[1])
				default:
					if gnarkObservers[f.Name()] {
						continue
					}
					undec = "operation " + f.Name() + " in the loop body"
					continue
				}
				state[dst] = t
				alias[call] = call.Call.Args[0]
				if strings.HasPrefix(dst, "carried:") {
					accKey = dst
				}
			}
		}
		var got, want string
		if name == "InnerProd" {
			got, want = state[accKey], "add(acc,mul(a[i],b[i]))"
		} else {
			got, want = state["result[i]"], "add(a[i],mul(b[i],x))"
			if _, has := state["result[i]"]; !has {
				// result grown by one append per iteration from empty: element i is what iteration i appends
				for _, in := range cl.loop.Header.Instrs {
					phi, isPhi := in.(*ssa.Phi)
					if !isPhi {
						continue
					}
					elem, acl, okFill := appendFill(phi)
					if !okFill || acl.loop.Header != cl.loop.Header {
						continue
					}
					returned := false
					for _, r := range successReturns(fn) {
						if len(r.Results) > 0 && r.Results[0] == ssa.Value(phi) {
							returned = true
						}
					}
					if ld, isLd := elem.(*ssa.UnOp); isLd && ld.Op == token.MUL && returned {
						got = get(ld.X)
					}
				}
			}
		}
		switch {
		case undec != "":
			c.Und("V4", key4, fn.Pos(), name+": cannot evaluate the loop body: "+undec)
		default:
			c.Check(got == want, "V4", key4, fn.Pos(), fmt.Sprintf("%s: one iteration computes %q, the specification is %q", name, got, want), "per iteration: "+want)
		}
	}

	// V3
	for _, name := range []string{"splitScalars", "splitPoints"} {
		fn := c.P.Fn("ipa", "", name)
		if fn == nil {
			c.Unresolved("V3", "ipa."+name)
			continue
		}
		c.Saw(core.FnName(fn))
		x := paramNamed(fn, "x")
		ok := x != nil
		var why []string
		nSucc := 0
		for _, rt := range core.ReturnTuples(fn) {
			if len(rt.Vals) != 3 || !core.IsNilConst(rt.Vals[2]) {
				continue
			}
			nSucc++
			lo, okLo := rt.Vals[0].(*ssa.Slice)
			hi, okHi := rt.Vals[1].(*ssa.Slice)
			if !okLo || !okHi || lo.X != ssa.Value(x) || hi.X != ssa.Value(x) {
				ok = false
				why = append(why, "the halves are not slices of x")
				continue
			}
			if lo.Low != nil || lo.High == nil || hi.Low == nil || hi.High != nil || lo.High != hi.Low {
				ok = false
				why = append(why, fmt.Sprintf("the halves are x[%s:%s] and x[%s:%s], not x[:mid] and x[mid:] for one mid", optP(lo.Low), optP(lo.High), optP(hi.Low), optP(hi.High)))
				continue
			}
			mid, isQuo := lo.High.(*ssa.BinOp)
			if !isQuo || mid.Op != token.QUO {
				ok = false
				why = append(why, "mid is not len(x)/2")
				continue
			}
			lx, isLen := core.IsLenOf(mid.X)
			k, isK := core.ConstInt(mid.Y)
			if !isLen || lx != ssa.Value(x) || !isK || k != 2 {
				ok = false
				why = append(why, "mid is not len(x)/2")
			}
		}
		if nSucc != 1 {
			ok = false
			why = append(why, fmt.Sprintf("%d successful returns", nSucc))
		}
		facts++
		c.Check(ok, "V3", name+":complementary-halves", fn.Pos(), name+": "+strings.Join(why, "; ")+" — an entry would be in both halves or in neither", "x[:len(x)/2], x[len(x)/2:]")
	}
	c.FloorN("V1", 11, facts, "vector-helper facts")
}

// loopHeaderCut: cuts that keep a search inside one iteration of the loop (no passage through the header).
func loopHeaderCut(cl *countedLoop) *core.Cuts {
	cut := core.NewCuts()
	for _, i := range cl.loop.Header.Instrs {
		cut.AddInstr(i)
	}
	return cut
}

// RuleV5 — what a round of the IPA prover commits to and absorbs is computed in that round.
func RuleV5(c *Ctx) {
	c.Rule("V5", "round-local values of the IPA prover: in CreateIPAProof's round loop, a value carried over from an earlier round can reach the arguments of a commitment, an inner product or a transcript absorb only if it is one of the vectors the round splits (a, b, the basis); counters, error values and accumulators that never reach such an argument (the L/R lists being filled) are free. A partial commitment or scalar left over from an earlier round that a later round can still use is reported")
	fn := c.P.Fn("ipa", "", "CreateIPAProof")
	if fn == nil {
		c.Unresolved("V5", "ipa.CreateIPAProof")
		return
	}
	c.Saw(core.FnName(fn))
	var splits []*ssa.Call
	for _, name := range []string{"splitScalars", "splitPoints"} {
		splits = append(splits, callsTo(fn, "/ipa", "", name)...)
	}
	loops := core.Loops(fn)
	var round *core.Loop
	for _, sp := range splits {
		if l := core.OutermostLoop(loops, sp.Block()); l != nil {
			round = l
		}
	}
	if round == nil {
		// the splits may have been inlined: the loop that calls commit
		for _, cm := range callsTo(fn, "/ipa", "", "commit") {
			if l := core.OutermostLoop(loops, cm.Block()); l != nil {
				round = l
			}
		}
	}
	if round == nil {
		c.Und("V5", "CreateIPAProof:round-loop", fn.Pos(), "the round loop (the loop that splits a, b and the basis) is not recognised")
		return
	}
	// sinks: arguments of the group/field computations and of the transcript inside the loop
	type sink struct {
		call ssa.CallInstruction
		arg  ssa.Value
	}
	var sinks []sink
	for _, ci := range core.CallsIn(fn) {
		if !round.Blocks[ci.Block()] {
			continue
		}
		f := core.Callee(ci.Common())
		if f == nil {
			continue
		}
		isSink := core.IsFunc(f, "/ipa", "commit") || core.IsFunc(f, "/ipa", "MultiScalar") || core.IsFunc(f, "/ipa", "InnerProd") ||
			core.IsMethod(f, "/common", "Transcript", "AppendPoint") || core.IsMethod(f, "/common", "Transcript", "AppendScalar")
		if !isSink {
			continue
		}
		for _, a := range ci.Common().Args {
			sinks = append(sinks, sink{ci, a})
		}
	}
	if len(sinks) == 0 {
		c.Und("V5", "CreateIPAProof:round-loop", fn.Pos(), "no commitment or absorb found in the round loop")
		return
	}
	// the vectors a round splits: values whose halves (x[:m], x[m:]) are taken in the loop, directly or by splitScalars/splitPoints
	splitVec := map[ssa.Value]bool{}
	for _, sp := range splits {
		if round.Blocks[sp.Block()] && len(sp.Call.Args) > 0 {
			splitVec[core.StripConv(sp.Call.Args[0])] = true
		}
	}
	core.AllInstrs(fn, func(i ssa.Instruction) {
		if sl, ok := i.(*ssa.Slice); ok && round.Blocks[sl.Block()] && (sl.Low != nil || sl.High != nil) {
			splitVec[core.StripConv(sl.X)] = true
		}
	})
	n := 0
	for _, in := range round.Header.Instrs {
		phi, ok := in.(*ssa.Phi)
		if !ok {
			continue
		}
		n++
		name := phi.Comment
		if name == "" {
			name = phi.Name()
		}
		key := "CreateIPAProof:carried:" + name
		if b, isBasic := phi.Type().Underlying().(*types.Basic); isBasic && b.Info()&(types.IsInteger|types.IsBoolean) != 0 {
			c.OK("V5", key, phi.Pos(), "a counter")
			continue
		}
		if isErrorType(phi.Type()) {
			c.OK("V5", key, phi.Pos(), "an error value")
			continue
		}
		if splitVec[phi] {
			c.OK("V5", key, phi.Pos(), "one of the vectors the round splits")
			continue
		}
		reach := core.ReachFrom([]ssa.Value{phi}, func(*ssa.Call, int) bool { return true })
		var hit *sink
		for k := range sinks {
			if reach[sinks[k].arg] {
				hit = &sinks[k]
				break
			}
		}
		if hit == nil {
			c.OK("V5", key, phi.Pos(), "carried, but never reaches a commitment, inner product or absorb (an accumulator)")
			continue
		}
		c.Bad("V5", key, phi.Pos(), fmt.Sprintf("%s is carried over from earlier rounds of the IPA prover and reaches %s at %s without being one of the vectors the round splits: a later round can use what an earlier round computed (e.g. a partial commitment that should have been recomputed or reset)", name, core.CalleeName(hit.call.Common()), c.P.Pos(hit.call.Pos())))
	}
	c.FloorN("V5", 3, n, "loop-carried values of the round loop")
}
