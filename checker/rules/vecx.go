package rules

// V1–V4 — the IPA vector helpers of ipa/config.go (MultiScalar, commit, InnerProd, foldScalars, foldPoints,
// splitScalars, splitPoints): every term of every vector takes part, halves are complementary, operands pair by index.

import (
	"fmt"
	"go/token"
	"strings"

	"golang.org/x/tools/go/ssa"

	"verif/checker/core"
)

// wholeOf: v is the parameter p itself or `p[:]`.
func wholeOf(v ssa.Value, p *ssa.Parameter) bool {
	if v == ssa.Value(p) {
		return true
	}
	if sl, ok := v.(*ssa.Slice); ok && wholeSlice(sl) {
		return wholeOf(sl.X, p)
	}
	return false
}

func describeArg(v ssa.Value) string {
	if sl, ok := v.(*ssa.Slice); ok {
		return fmt.Sprintf("%s[%s:%s]", describeArg(sl.X), optP(sl.Low), optP(sl.High))
	}
	return core.PathOf(v)
}

// RuleV — vector helpers.
func RuleV(c *Ctx) {
	c.Rule("V1", "whole-vector hand-off: ipa.commit passes its (groupElements, polynomial) to MultiScalar, MultiScalar its (points, scalars) to Element.MultiExp, IPAConfig.Commit its polynomial to the precomputed MSM — the parameters themselves, in that order, not re-sliced (a sub-range silently drops terms of the sum)")
	c.Rule("V2", "full traversal: InnerProd, foldScalars and foldPoints run i from 0 while i < len(a) in steps of one, index every operand and the result with i, and size the result by len(a)")
	c.Rule("V3", "complementary halves: splitScalars/splitPoints return x[:mid], x[mid:] for the same mid = len(x)/2")
	c.Rule("V4", "fold formula: result[i] = a[i] + x*b[i] (scalars: Mul then Add; points: ScalarMul then Add), the challenge multiplying the second vector's entry")
	facts := 0

	// V1
	handoff := func(rel, recv, name string, calleeOK func(f *ssa.Function) bool, calleeDesc string, pairs [][2]interface{}) {
		fn := c.P.Fn(rel, recv, name)
		if fn == nil {
			c.Unresolved("V1", rel+"."+name)
			return
		}
		c.Saw(core.FnName(fn))
		var sites []ssa.CallInstruction
		for _, ci := range core.CallsIn(fn) {
			if f := core.Callee(ci.Common()); f != nil && calleeOK(f) {
				sites = append(sites, ci)
			}
		}
		key := name + "->" + calleeDesc
		if len(sites) != 1 {
			c.Bad("V1", key, fn.Pos(), fmt.Sprintf("%s calls %s %d times; expected exactly one hand-off of the whole vectors", core.FnName(fn), calleeDesc, len(sites)))
			return
		}
		facts++
		site := sites[0]
		ok := true
		var why []string
		args := site.Common().Args
		for _, pr := range pairs {
			pname, ai := pr[0].(string), pr[1].(int)
			p := paramNamed(fn, pname)
			if p == nil || ai >= len(args) {
				ok = false
				why = append(why, "parameter "+pname+" not found")
				continue
			}
			if !wholeOf(args[ai], p) {
				ok = false
				why = append(why, fmt.Sprintf("%s receives %s instead of the whole parameter %s: terms outside that range are dropped from the sum (or foreign terms enter it)", calleeDesc, describeArg(args[ai]), pname))
			}
		}
		c.Check(ok, "V1", key, site.Pos(), strings.Join(why, "; "), "whole parameters handed on")
	}
	handoff("ipa", "", "commit", func(f *ssa.Function) bool { return core.IsFunc(f, "/ipa", "MultiScalar") }, "MultiScalar", [][2]interface{}{{"groupElements", 0}, {"polynomial", 1}})
	handoff("ipa", "", "MultiScalar", func(f *ssa.Function) bool { return core.IsMethod(f, "/banderwagon", "Element", "MultiExp") }, "Element.MultiExp", [][2]interface{}{{"points", 1}, {"scalars", 2}})
	handoff("ipa", "IPAConfig", "Commit", func(f *ssa.Function) bool { return core.IsMethod(f, "/banderwagon", "MSMPrecomp", "MSM") }, "MSMPrecomp.MSM", [][2]interface{}{{"polynomial", 1}})

	// V2 / V4
	type foldSpec struct {
		name       string
		mulName    string
		resultMade bool
	}
	for _, fs := range []foldSpec{{"InnerProd", "Mul", false}, {"foldScalars", "Mul", true}, {"foldPoints", "ScalarMul", true}} {
		fn := c.P.Fn("ipa", "", fs.name)
		if fn == nil {
			c.Unresolved("V2", "ipa."+fs.name)
			continue
		}
		c.Saw(core.FnName(fn))
		a, b := paramNamed(fn, "a"), paramNamed(fn, "b")
		if a == nil || b == nil {
			c.Unresolved("V2", "ipa."+fs.name+" parameters a, b")
			continue
		}
		cls := countedLoops(fn)
		ok := len(cls) == 1
		var why []string
		if !ok {
			why = append(why, fmt.Sprintf("%d counted loops, expected one", len(cls)))
		}
		var cl *countedLoop
		if ok {
			cl = cls[0]
			z, isZ := core.ConstInt(cl.init)
			x, isLen := core.IsLenOf(cl.bound)
			if !isZ || z != 0 || cl.step != 1 || cl.op != token.LSS || !isLen || (x != ssa.Value(a) && x != ssa.Value(b)) {
				ok = false
				why = append(why, "the loop does not run i = 0; i < len(a); i++ over the whole vectors")
			}
			// every element access is at the induction variable
			nIdx := 0
			core.AllInstrs(fn, func(i ssa.Instruction) {
				ia, isIA := i.(*ssa.IndexAddr)
				if !isIA {
					return
				}
				base := ia.X
				isVec := base == ssa.Value(a) || base == ssa.Value(b)
				if mk, isMk := base.(*ssa.MakeSlice); isMk && fs.resultMade {
					isVec = true
					if lx, isL := core.IsLenOf(mk.Len); !isL || (lx != ssa.Value(a) && lx != ssa.Value(b)) {
						ok = false
						why = append(why, "the result is not made with len(a) entries")
					}
				}
				if !isVec {
					return
				}
				nIdx++
				if core.StripConv(ia.Index) != ssa.Value(cl.phi) {
					ok = false
					why = append(why, fmt.Sprintf("%s is indexed by something other than the loop variable at %s", core.PathOf(base), c.P.Pos(ia.Pos())))
				}
			})
			if nIdx < 2 {
				ok = false
				why = append(why, "the operands are not read element by element")
			}
			// the length guard len(a) != len(b) dominates the loop
			guard := false
			for _, cd := range core.Conds(fn) {
				xa, okA := core.IsLenOf(cd.X)
				xb, okB := core.IsLenOf(cd.Y)
				if okA && okB && (cd.Op == token.NEQ || cd.Op == token.EQL) && ((xa == ssa.Value(a) && xb == ssa.Value(b)) || (xa == ssa.Value(b) && xb == ssa.Value(a))) {
					guard = true
				}
			}
			if !guard {
				ok = false
				why = append(why, "no len(a) != len(b) guard")
			}
		}
		facts++
		c.Check(ok, "V2", fs.name+":full-traversal", fn.Pos(), fs.name+": "+strings.Join(uniqStrings(why), "; ")+" — some terms would not take part, or be paired with the wrong index", "i in [0,len(a)), all operands and the result at [i], lengths guarded equal")

		// V4: dataflow of one iteration
		if cl == nil {
			continue
		}
		elemOf := func(v ssa.Value) string {
			if ia, isIA := v.(*ssa.IndexAddr); isIA && core.StripConv(ia.Index) == ssa.Value(cl.phi) {
				switch {
				case ia.X == ssa.Value(a):
					return "a[i]"
				case ia.X == ssa.Value(b):
					return "b[i]"
				}
				if _, isMk := ia.X.(*ssa.MakeSlice); isMk {
					return "result[i]"
				}
			}
			if al, isAl := v.(*ssa.Alloc); isAl {
				if p := core.ParamSpill(al); p != nil {
					return p.Name()
				}
				return "tmp:" + al.Comment
			}
			return "?"
		}
		var muls, adds []*ssa.Call
		core.AllInstrs(fn, func(i ssa.Instruction) {
			call, isCall := i.(*ssa.Call)
			if !isCall || !cl.loop.Blocks[call.Block()] {
				return
			}
			f := core.Callee(call.Common())
			if f == nil || f.Signature.Recv() == nil {
				return
			}
			switch f.Name() {
			case fs.mulName:
				muls = append(muls, call)
			case "Add":
				adds = append(adds, call)
			}
		})
		ok4 := len(muls) == 1 && len(adds) == 1
		var why4 []string
		if !ok4 {
			why4 = append(why4, fmt.Sprintf("%d %s and %d Add calls per iteration, expected one each", len(muls), fs.mulName, len(adds)))
		} else {
			m, ad := muls[0], adds[0]
			mo := []string{elemOf(m.Call.Args[1]), elemOf(m.Call.Args[2])}
			ao := []string{elemOf(ad.Call.Args[1]), elemOf(ad.Call.Args[2])}
			has := func(xs []string, s string) bool { return xs[0] == s || xs[1] == s }
			prod := elemOf(m.Call.Args[0])
			if fs.name == "InnerProd" {
				if !(has(mo, "a[i]") && has(mo, "b[i]")) {
					ok4 = false
					why4 = append(why4, fmt.Sprintf("the product is %s*%s, not a[i]*b[i]", mo[0], mo[1]))
				}
				acc := elemOf(ad.Call.Args[0])
				if !(has(ao, prod) && has(ao, acc)) || !strings.HasPrefix(prod, "tmp:") {
					ok4 = false
					why4 = append(why4, "the product is not added to the running sum")
				}
			} else {
				if !(has(mo, "b[i]") && has(mo, "x")) {
					ok4 = false
					why4 = append(why4, fmt.Sprintf("the challenge product is %s*%s, not x*b[i]", mo[0], mo[1]))
				}
				if !(has(ao, prod) && has(ao, "a[i]")) || elemOf(ad.Call.Args[0]) != "result[i]" || !strings.HasPrefix(prod, "tmp:") {
					ok4 = false
					why4 = append(why4, fmt.Sprintf("result[i] is not a[i] + (x*b[i]): %s = %s + %s", elemOf(ad.Call.Args[0]), ao[0], ao[1]))
				}
			}
			if !core.ReachableAvoiding(fn, m, loopHeaderCut(cl), ad) {
				ok4 = false
				why4 = append(why4, "the product is not computed before the sum in the same iteration")
			}
		}
		facts++
		c.Check(ok4, "V4", fs.name+":formula", fn.Pos(), fs.name+": "+strings.Join(why4, "; "), "per iteration: one product of the i-th entries, one sum")
	}

	// V3
	for _, name := range []string{"splitScalars", "splitPoints"} {
		fn := c.P.Fn("ipa", "", name)
		if fn == nil {
			c.Unresolved("V3", "ipa."+name)
			continue
		}
		c.Saw(core.FnName(fn))
		x := paramNamed(fn, "x")
		ok := x != nil
		var why []string
		nSucc := 0
		for _, r := range core.Returns(fn) {
			if len(r.Results) != 3 || !core.IsNilConst(r.Results[2]) {
				continue
			}
			nSucc++
			lo, okLo := r.Results[0].(*ssa.Slice)
			hi, okHi := r.Results[1].(*ssa.Slice)
			if !okLo || !okHi || lo.X != ssa.Value(x) || hi.X != ssa.Value(x) {
				ok = false
				why = append(why, "the halves are not slices of x")
				continue
			}
			if lo.Low != nil || lo.High == nil || hi.Low == nil || hi.High != nil || lo.High != hi.Low {
				ok = false
				why = append(why, fmt.Sprintf("the halves are x[%s:%s] and x[%s:%s], not x[:mid] and x[mid:] for one mid", optP(lo.Low), optP(lo.High), optP(hi.Low), optP(hi.High)))
				continue
			}
			mid, isQuo := lo.High.(*ssa.BinOp)
			if !isQuo || mid.Op != token.QUO {
				ok = false
				why = append(why, "mid is not len(x)/2")
				continue
			}
			lx, isLen := core.IsLenOf(mid.X)
			k, isK := core.ConstInt(mid.Y)
			if !isLen || lx != ssa.Value(x) || !isK || k != 2 {
				ok = false
				why = append(why, "mid is not len(x)/2")
			}
		}
		if nSucc != 1 {
			ok = false
			why = append(why, fmt.Sprintf("%d successful returns", nSucc))
		}
		facts++
		c.Check(ok, "V3", name+":complementary-halves", fn.Pos(), name+": "+strings.Join(why, "; ")+" — an entry would be in both halves or in neither", "x[:len(x)/2], x[len(x)/2:]")
	}
	c.FloorN("V1", 11, facts, "vector-helper facts")
}

// loopHeaderCut: cuts that keep a search inside one iteration of the loop (no passage through the header).
func loopHeaderCut(cl *countedLoop) *core.Cuts {
	cut := core.NewCuts()
	for _, i := range cl.loop.Header.Instrs {
		cut.AddInstr(i)
	}
	return cut
}
