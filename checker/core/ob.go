package core

import (
	"bufio"
	"crypto/sha1"
	"encoding/json"
	"fmt"
	"go/token"
	"os"
	"path/filepath"
	"regexp"
	"sort"
	"strings"
	"time"
)

// Status of an obligation.
const (
	Discharged = "discharged"
	Violated   = "violated"
	Undecided  = "undecided"
)

// Ob is one proof obligation produced by a rule, keyed by rule + construct.
type Ob struct {
	Rule      string   `json:"rule"`
	Construct string   `json:"construct"`
	Pos       string   `json:"pos"`
	Status    string   `json:"status"`
	Detail    string   `json:"detail,omitempty"`
	Facts     []string `json:"facts,omitempty"`
	Config    string   `json:"config,omitempty"`
}

func (o *Ob) Key() string { return o.Rule + ":" + o.Construct }

// Floor is the minimal number of instances a rule must range over.
type Floor struct {
	Rule string `json:"rule"`
	Min  int    `json:"min"`
	Got  int    `json:"got"`
	What string `json:"what"`
}

// Run collects the obligations of one property check under one configuration.
type Run struct {
	P        *Prog
	Prop     string
	Tier     string
	Obs      []*Ob
	Floors   []Floor
	Rules    map[string]string // rule -> one-line statement of the rule
	RuleList []string
	Analysed map[string]bool // functions inspected
	Notes    []string
}

func NewRun(p *Prog, prop, tier string) *Run {
	return &Run{P: p, Prop: prop, Tier: tier, Rules: map[string]string{}, Analysed: map[string]bool{}}
}

// Rule declares a rule (idempotent) so evidence can state what was applied.
func (r *Run) Rule(id, text string) {
	if _, ok := r.Rules[id]; !ok {
		r.Rules[id] = text
		r.RuleList = append(r.RuleList, id)
	}
}

func (r *Run) add(rule, construct string, pos token.Pos, status, detail string, facts []string) *Ob {
	o := &Ob{Rule: rule, Construct: construct, Status: status, Detail: detail, Facts: facts}
	if r.P != nil {
		o.Pos = r.P.Pos(pos)
		o.Config = r.P.Config.Name
	}
	r.Obs = append(r.Obs, o)
	return o
}

// OK records a discharged obligation; facts are the things inspected to decide it.
func (r *Run) OK(rule, construct string, pos token.Pos, facts ...string) {
	r.add(rule, construct, pos, Discharged, "", facts)
}

// Bad records a violated obligation.
func (r *Run) Bad(rule, construct string, pos token.Pos, detail string, facts ...string) {
	r.add(rule, construct, pos, Violated, detail, facts)
}

// Und records an undecided obligation (fails the check, flagged as undecided).
func (r *Run) Und(rule, construct string, pos token.Pos, detail string, facts ...string) {
	r.add(rule, construct, pos, Undecided, detail, facts)
}

// Check is OK/Bad depending on cond.
func (r *Run) Check(cond bool, rule, construct string, pos token.Pos, detail string, facts ...string) bool {
	if cond {
		r.OK(rule, construct, pos, facts...)
	} else {
		r.Bad(rule, construct, pos, detail, facts...)
	}
	return cond
}

// Unresolved records a vanished anchor.
func (r *Run) Unresolved(rule, anchor string) {
	r.add(rule, "anchor:"+anchor, token.NoPos, Undecided, "UNRESOLVED anchor "+anchor+": the rule has nothing to check", nil)
}

// Floor asserts that rule ranged over at least min instances.
func (r *Run) Floor(rule string, min int, what string) {
	n := 0
	for _, o := range r.Obs {
		if o.Rule == rule {
			n++
		}
	}
	r.FloorN(rule, min, n, what)
}

// FloorN asserts got >= min for an explicitly counted quantity.
func (r *Run) FloorN(rule string, min, got int, what string) {
	r.Floors = append(r.Floors, Floor{rule, min, got, what})
	if got < min {
		r.add(rule, "floor:"+what, token.NoPos, Undecided, fmt.Sprintf("FLOOR: rule ranged over %d instances (%s), fewer than the %d confirmed by hand; the rule may be passing vacuously", got, what, min), nil)
	}
}

func (r *Run) Saw(fn string) { r.Analysed[fn] = true }

// ---------------------------------------------------------------------------
// known findings

type Finding struct {
	Kind      string // "known" or "fixed"
	Prop      string
	Rule      string
	Construct string
	Text      string
}

var kvRe = regexp.MustCompile(`(property|rule|construct)=(\S+)`)

func LoadFindings(path string) ([]Finding, error) {
	f, err := os.Open(path)
	if err != nil {
		if os.IsNotExist(err) {
			return nil, nil
		}
		return nil, err
	}
	defer f.Close()
	var out []Finding
	sc := bufio.NewScanner(f)
	for sc.Scan() {
		line := strings.TrimSpace(sc.Text())
		if line == "" || strings.HasPrefix(line, "#") {
			continue
		}
		var fd Finding
		switch {
		case strings.HasPrefix(line, "known:"):
			fd.Kind = "known"
		case strings.HasPrefix(line, "fixed:"):
			fd.Kind = "fixed"
		default:
			continue
		}
		for _, m := range kvRe.FindAllStringSubmatch(line, -1) {
			switch m[1] {
			case "property":
				fd.Prop = m[2]
			case "rule":
				fd.Rule = m[2]
			case "construct":
				fd.Construct = m[2]
			}
		}
		fd.Text = line
		out = append(out, fd)
	}
	return out, sc.Err()
}

// ---------------------------------------------------------------------------
// result + evidence

type Result struct {
	Prop       string
	Tier       string
	Obs        []*Ob
	Floors     []Floor
	Rules      map[string]string
	RuleList   []string
	Analysed   []string
	Configs    []string
	Notes      []string
	Extra      map[string]any
	LoadErrors []string
}

func (r *Run) Result() *Result {
	var fns []string
	for f := range r.Analysed {
		fns = append(fns, f)
	}
	sort.Strings(fns)
	notes := r.Notes
	if len(ThreadNotes) > 0 {
		seen := map[string]bool{}
		var xs []string
		for _, n := range ThreadNotes {
			if !seen[n] {
				seen[n] = true
				xs = append(xs, n)
			}
		}
		sort.Strings(xs)
		if len(xs) > 12 {
			xs = append(xs[:12], fmt.Sprintf("... and %d more", len(xs)-12))
		}
		notes = append(append([]string{}, notes...), "guards on an error or boolean flag were threaded before lifting (core/thread.go): "+strings.Join(xs, "; "))
	}
	if len(ExitNotes) > 0 {
		seen := map[string]bool{}
		var xs []string
		for _, n := range ExitNotes {
			if !seen[n] {
				seen[n] = true
				xs = append(xs, n)
			}
		}
		sort.Strings(xs)
		if len(xs) > 12 {
			xs = append(xs[:12], fmt.Sprintf("... and %d more", len(xs)-12))
		}
		notes = append(append([]string{}, notes...), "return blocks with merged results were split into one return per incoming edge (core/exits.go): "+strings.Join(xs, "; "))
	}
	return &Result{Prop: r.Prop, Tier: r.Tier, Obs: r.Obs, Floors: r.Floors, Rules: r.Rules, RuleList: r.RuleList,
		Analysed: fns, Configs: []string{r.P.Config.Name}, Notes: notes, Extra: map[string]any{}}
}

// Merge adds another configuration's result.
func (res *Result) Merge(o *Result) {
	res.Obs = append(res.Obs, o.Obs...)
	res.Floors = append(res.Floors, o.Floors...)
	for _, id := range o.RuleList {
		if _, ok := res.Rules[id]; !ok {
			res.Rules[id] = o.Rules[id]
			res.RuleList = append(res.RuleList, id)
		}
	}
	seen := map[string]bool{}
	for _, f := range res.Analysed {
		seen[f] = true
	}
	for _, f := range o.Analysed {
		if !seen[f] {
			res.Analysed = append(res.Analysed, f)
		}
	}
	sort.Strings(res.Analysed)
	res.Configs = append(res.Configs, o.Configs...)
	res.Notes = append(res.Notes, o.Notes...)
	res.LoadErrors = append(res.LoadErrors, o.LoadErrors...)
}

// Finish prints VIOLATION / KNOWN-FINDING lines, writes replay files and the
// evidence file, and returns the process exit code.
func (res *Result) Finish(verif string, seed int64, started time.Time, level, explanation string, trusted, assumptions []string) int {
	findings, ferr := LoadFindings(filepath.Join(verif, "known_findings.txt"))
	if ferr != nil {
		fmt.Fprintln(os.Stderr, "cannot read known_findings.txt:", ferr)
	}
	replayDir := filepath.Join(verif, "evidence", "replay")
	os.MkdirAll(replayDir, 0o755)

	sort.SliceStable(res.Obs, func(i, j int) bool {
		a, b := res.Obs[i], res.Obs[j]
		if a.Rule != b.Rule {
			return a.Rule < b.Rule
		}
		if a.Construct != b.Construct {
			return a.Construct < b.Construct
		}
		return a.Config < b.Config
	})

	violations := 0
	known := 0
	discharged := 0
	distinct := map[string]bool{}
	nontrivial := map[string]bool{}
	reported := map[string]bool{}
	for _, o := range res.Obs {
		distinct[o.Key()] = true
		if len(o.Facts) > 0 {
			nontrivial[o.Key()] = true
		}
		if o.Status == Discharged {
			discharged++
			continue
		}
		isKnown := false
		for _, f := range findings {
			if f.Kind == "known" && f.Prop == res.Prop && f.Rule == o.Rule && f.Construct == o.Construct {
				isKnown = true
				if !reported["K"+o.Key()] {
					fmt.Printf("KNOWN-FINDING: property=%s rule=%s construct=%s %s\n", res.Prop, o.Rule, o.Construct, o.Detail)
					reported["K"+o.Key()] = true
				}
			}
		}
		if isKnown {
			known++
			continue
		}
		violations++
		if reported[o.Key()] {
			continue
		}
		reported[o.Key()] = true
		h := sha1.Sum([]byte(o.Key()))
		rp := filepath.Join(replayDir, fmt.Sprintf("%s-%s-%x.json", res.Prop, sanitize(o.Rule), h[:5]))
		b, _ := json.MarshalIndent(map[string]any{"property": res.Prop, "obligation": o, "rule_text": res.Rules[o.Rule]}, "", " ")
		os.WriteFile(rp, b, 0o644)
		tag := "violated"
		if o.Status == Undecided {
			tag = "UNDECIDED (structure outside the accepted idioms, anchor vanished, or floor not met)"
		}
		fmt.Fprintf(os.Stderr, "%s [%s] %s %s at %s (%s): %s\n", res.Prop, tag, o.Rule, o.Construct, o.Pos, o.Config, o.Detail)
		fmt.Printf("VIOLATION property=%s replay=%s\n", res.Prop, rp)
	}
	for _, e := range res.LoadErrors {
		violations++
		fmt.Fprintf(os.Stderr, "%s LOAD-ERROR %s\n", res.Prop, e)
		rp := filepath.Join(replayDir, fmt.Sprintf("%s-load.json", res.Prop))
		b, _ := json.MarshalIndent(map[string]any{"property": res.Prop, "load_error": e}, "", " ")
		os.WriteFile(rp, b, 0o644)
		fmt.Printf("VIOLATION property=%s replay=%s\n", res.Prop, rp)
	}

	// evidence
	perRule := map[string][3]int{}
	for _, o := range res.Obs {
		c := perRule[o.Rule]
		c[0]++
		if o.Status == Discharged {
			c[1]++
		} else {
			c[2]++
		}
		perRule[o.Rule] = c
	}
	var rules []map[string]any
	for _, id := range res.RuleList {
		c := perRule[id]
		rules = append(rules, map[string]any{"rule": id, "statement": res.Rules[id], "obligations": c[0], "discharged": c[1], "open": c[2]})
	}
	// samples: one discharged obligation per rule (first), plus every open one
	var samples []any
	seenRule := map[string]int{}
	for _, o := range res.Obs {
		if o.Status != Discharged || seenRule[o.Rule] < 2 {
			samples = append(samples, o)
			seenRule[o.Rule]++
		}
		if len(samples) > 120 {
			break
		}
	}
	if len(samples) == 0 {
		samples = append(samples, map[string]string{"note": "no obligations produced"})
	}
	cov := map[string]any{
		"explanation":          explanation,
		"obligations":          len(res.Obs),
		"discharged":           discharged,
		"evaluations":          len(res.Obs),
		"distinct_nontrivial":  len(nontrivial),
		"distinct_obligations": len(distinct),
		"rule":                 "one obligation per (rule, construct, build configuration); distinct = distinct rule+construct keys; non-trivial = the decision inspected at least one instruction/AST node beyond resolving the anchor (facts recorded)",
		"samples":              samples,
		"rules_applied":        rules,
		"floors":               res.Floors,
		"functions_analysed":   res.Analysed,
		"configurations":       res.Configs,
		"known_findings":       known,
		"checker_cmd":          fmt.Sprintf("./run.sh %s %s", res.Prop, res.Tier),
		"trusted_base":         trusted,
		"exhaustive":           false,
	}
	for k, v := range res.Extra {
		cov[k] = v
	}
	if len(res.Notes) > 0 {
		cov["notes"] = res.Notes
	}
	ev := map[string]any{
		"property_id": res.Prop,
		"tier":        res.Tier,
		"seed":        seed,
		"level":       level,
		"coverage":    cov,
		"assumptions": assumptions,
		"wall_s":      time.Since(started).Seconds(),
		"violations":  violations,
	}
	b, _ := json.MarshalIndent(ev, "", " ")
	os.MkdirAll(filepath.Join(verif, "evidence"), 0o755)
	if err := os.WriteFile(filepath.Join(verif, "evidence", res.Prop+".json"), b, 0o644); err != nil {
		fmt.Fprintln(os.Stderr, "cannot write evidence:", err)
		return 2
	}
	fmt.Fprintf(os.Stderr, "%s %s: %d obligations, %d discharged, %d open, %d known findings, %d rules, configs=%v, %.1fs\n",
		res.Prop, res.Tier, len(res.Obs), discharged, violations, known, len(res.RuleList), res.Configs, time.Since(started).Seconds())
	if violations > 0 {
		return 1
	}
	return 0
}

func sanitize(s string) string {
	return strings.Map(func(r rune) rune {
		if r >= 'a' && r <= 'z' || r >= 'A' && r <= 'Z' || r >= '0' && r <= '9' {
			return r
		}
		return '_'
	}, s)
}
