package core

// Exit materialisation. A function written with one `return err` at the end (a named result, nested if/else, every
// step guarded by `err == nil`) has, in go/ssa, a single return block whose results are phis; "the success return"
// and "the error returns" that the decoder, serialisation and verifier rules reason about are then edges, not
// places. After the program is built, each such return block is duplicated into one return per incoming edge (and
// joins that only merge values on the way to it are duplicated likewise), and a returned value that a dominating
// `v == nil` / `v != nil` test decides on that edge is replaced by the nil constant. The function computes the same
// thing; the rules see it in early-return form whichever way it was written.

import (
	"fmt"
	"go/token"
	"go/types"
	"os"

	"golang.org/x/tools/go/ssa"
)

// ExitNotes collects, per function, what materialiseExits did (reported in the evidence).
var ExitNotes []string

// ExitErrors collects consistency failures after restructuring (they fail the run).
var ExitErrors []string

func retOf(b *ssa.BasicBlock) *ssa.Return {
	if b == nil || len(b.Instrs) == 0 {
		return nil
	}
	r, _ := b.Instrs[len(b.Instrs)-1].(*ssa.Return)
	return r
}

// shapeOf classifies a block: number of leading phis, whether the rest is only DebugRef/RunDefers before the
// terminator, and whether a RunDefers is among them.
func shapeOf(b *ssa.BasicBlock) (nphi int, quiet, runDefers bool) {
	quiet = true
	for i, in := range b.Instrs {
		if i == len(b.Instrs)-1 {
			break
		}
		switch in.(type) {
		case *ssa.Phi:
			if i != nphi {
				quiet = false
			}
			nphi++
		case *ssa.DebugRef:
		case *ssa.RunDefers:
			runDefers = true
		default:
			quiet = false
		}
	}
	return
}

// usedOnlyIn: every referrer of the phis of b lies in one of the given blocks.
func phisUsedOnlyIn(b *ssa.BasicBlock, in ...*ssa.BasicBlock) bool {
	for _, ins := range b.Instrs {
		phi, ok := ins.(*ssa.Phi)
		if !ok {
			continue
		}
		for _, r := range Refs(phi) {
			ok := false
			for _, blk := range in {
				if r.Block() == blk {
					ok = true
				}
			}
			if !ok {
				return false
			}
		}
	}
	return true
}

func materialiseExits(fn *ssa.Function) {
	if len(fn.Blocks) < 2 {
		return
	}
	var made []*ssa.BasicBlock
	steps := 0
	for iter := 0; iter < 64; iter++ {
		applied := false
		for _, b := range fn.Blocks {
			if b == nil || b.Index == 0 || b == fn.Recover {
				continue
			}
			nphi, quiet, rd := shapeOf(b)
			if nphi == 0 || !quiet {
				continue
			}
			// T2: a join that only merges values and jumps to a return-only block of its own: fold the two
			if _, isJump := b.Instrs[len(b.Instrs)-1].(*ssa.Jump); isJump && !rd && len(b.Succs) == 1 {
				s := b.Succs[0]
				if s == b || s == fn.Recover || len(s.Preds) != 1 || retOf(s) == nil {
					continue
				}
				if sn, sq, _ := shapeOf(s); sn != 0 || !sq {
					continue
				}
				if !phisUsedOnlyIn(b, b, s) {
					continue
				}
				b.Instrs = b.Instrs[:len(b.Instrs)-1] // the Jump has no operands
				for _, in := range s.Instrs {
					ssa.VerifMoveInstr(in, b)
				}
				s.Instrs = nil
				b.Succs = nil
				fn.Blocks[s.Index] = nil
				applied = true
				steps++
				break
			}
			// T1: a return block whose results are merged from its predecessors: one return per incoming edge
			ret := retOf(b)
			if ret == nil || len(b.Preds) < 2 || !phisUsedOnlyIn(b, b) {
				continue
			}
			dupPred := false
			for i, p := range b.Preds {
				for _, q := range b.Preds[:i] {
					if p == q {
						dupPred = true
					}
				}
			}
			if dupPred {
				continue
			}
			anyPhi := false
			for _, v := range ret.Results {
				if p, ok := v.(*ssa.Phi); ok && p.Block() == b {
					anyPhi = true
				}
			}
			if !anyPhi {
				continue
			}
			for i, pred := range b.Preds {
				nb := ssa.VerifNewBlock(fn, "exit")
				if rd {
					ssa.VerifEmitRunDefers(nb)
				}
				vals := make([]ssa.Value, len(ret.Results))
				for k, v := range ret.Results {
					if p, ok := v.(*ssa.Phi); ok && p.Block() == b {
						vals[k] = p.Edges[i]
					} else {
						vals[k] = v
					}
				}
				ssa.VerifEmitReturn(nb, vals, ret)
				for si, s := range pred.Succs {
					if s == b {
						pred.Succs[si] = nb
						break
					}
				}
				nb.Preds = []*ssa.BasicBlock{pred}
				made = append(made, nb)
			}
			for _, in := range b.Instrs {
				ssa.VerifDropInstr(in)
			}
			b.Instrs = nil
			b.Preds = nil
			fn.Blocks[b.Index] = nil
			applied = true
			steps++
			break
		}
		if !applied {
			break
		}
		// keep indices valid for the next round
		ssa.VerifFinish(fn)
	}
	if steps == 0 {
		return
	}
	ssa.VerifFinish(fn)
	// a result decided by a dominating nil test on this way out is the nil constant
	refined := 0
	for _, nb := range made {
		if nb.Instrs == nil {
			continue // duplicated again in a later round
		}
		ret := retOf(nb)
		if ret == nil {
			continue
		}
		for k, v := range ret.Results {
			if v == nil {
				continue
			}
			if _, isConst := v.(*ssa.Const); isConst || !nillable(v.Type()) {
				continue
			}
			if knownNilAt(v, nb, 0) {
				if refs := v.Referrers(); refs != nil {
					for i, r := range *refs {
						if r == ssa.Instruction(ret) {
							*refs = append((*refs)[:i:i], (*refs)[i+1:]...)
							break
						}
					}
				}
				ret.Results[k] = ssa.NewConst(nil, v.Type())
				refined++
			}
		}
	}
	live := 0
	for _, nb := range made {
		if nb.Instrs != nil {
			live++
		}
	}
	ExitNotes = append(ExitNotes, fmt.Sprintf("%s: %d exit(s) materialised, %d result(s) decided nil by a dominating test", fn.String(), live, refined))
	if os.Getenv("VERIF_DEBUG_EXITS") != "" {
		fmt.Fprintln(os.Stderr, "exits:", ExitNotes[len(ExitNotes)-1])
	}
	if err := ssa.VerifSanity(fn); err != nil {
		ExitErrors = append(ExitErrors, fmt.Sprintf("%s: %v", fn.String(), err))
		fmt.Fprintf(os.Stderr, "exit materialisation left %s inconsistent: %v\n", fn.String(), err)
	}
}

func nillable(t types.Type) bool {
	switch t.Underlying().(type) {
	case *types.Interface, *types.Pointer, *types.Slice, *types.Map, *types.Chan, *types.Signature:
		return true
	}
	return false
}

// knownNilAt: v is nil whenever control is in block at: the nil constant; a value a dominating test decides; or a phi
// each of whose incoming values is nil on its edge (by the same reasoning in the predecessor, or because the edge is
// the nil arm of a test of that value at the end of the predecessor).
func knownNilAt(v ssa.Value, at *ssa.BasicBlock, d int) bool {
	if d > 4 {
		return false
	}
	if IsNilConst(v) {
		return true
	}
	if isNil, known := nilnessAt(v, at); known && isNil {
		return true
	}
	phi, ok := v.(*ssa.Phi)
	if !ok {
		return false
	}
	b := phi.Block()
	for i, e := range phi.Edges {
		pred := b.Preds[i]
		if knownNilAt(e, pred, d+1) {
			continue
		}
		// the edge pred -> b is the nil arm of `e == nil` / `e != nil` tested at the end of pred
		okEdge := false
		if ifi, isIf := pred.Instrs[len(pred.Instrs)-1].(*ssa.If); isIf && len(pred.Succs) == 2 && pred.Succs[0] != pred.Succs[1] {
			if cmp, isCmp := ifi.Cond.(*ssa.BinOp); isCmp && (cmp.Op == token.EQL || cmp.Op == token.NEQ) {
				var other ssa.Value
				if cmp.X == e {
					other = cmp.Y
				} else if cmp.Y == e {
					other = cmp.X
				}
				if other != nil && IsNilConst(other) {
					nilArm := 0
					if cmp.Op == token.NEQ {
						nilArm = 1
					}
					if pred.Succs[nilArm] == b {
						okEdge = true
					}
				}
			}
		}
		if !okEdge {
			return false
		}
	}
	return true
}
