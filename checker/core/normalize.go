package core

// Normalisation of "extract function" rewrites.
//
// The rule tables name the functions that existed when they were frozen (tables/functions.txt). A function
// that is not in that inventory has no rule of its own: it is analysed as part of its callers. Concretely, every
// call to a new unexported, non-recursive function or method of the module is replaced by the callee's body on a
// scratch copy of the tree (golang.org/x/tools' source-level inliner, copied into xinline/), and the rules then
// run on that copy. On a tree without new functions nothing is copied and nothing changes.

import (
	"bufio"
	"fmt"
	"go/ast"
	"go/token"
	"go/types"
	"os"
	"os/exec"
	"path/filepath"
	"sort"
	"strings"

	"golang.org/x/tools/go/packages"

	inline "verif/checker/xinline"
)

// FuncKey names a declared function: pkgpath.[Recv.]Name
func FuncKey(pkgPath string, fd *ast.FuncDecl) string {
	recv := ""
	if fd.Recv != nil && len(fd.Recv.List) == 1 {
		t := fd.Recv.List[0].Type
		for {
			switch x := t.(type) {
			case *ast.StarExpr:
				t = x.X
				continue
			case *ast.IndexExpr:
				t = x.X
				continue
			case *ast.ParenExpr:
				t = x.X
				continue
			}
			break
		}
		if id, ok := t.(*ast.Ident); ok {
			recv = id.Name + "."
		}
	}
	return pkgPath + "." + recv + fd.Name.Name
}

func loadSyntax(dir string) ([]*packages.Package, error) {
	env := append(os.Environ(), "GOFLAGS=-mod=mod", "GOPROXY=off", "GOSUMDB=off", "GOTOOLCHAIN=local", "GOWORK=off", "CGO_ENABLED=0", "GOOS=linux", "GOARCH=amd64")
	pc := &packages.Config{
		Mode: packages.NeedName | packages.NeedFiles | packages.NeedCompiledGoFiles | packages.NeedSyntax | packages.NeedTypes | packages.NeedTypesInfo | packages.NeedImports | packages.NeedDeps,
		Dir:  dir,
		Env:  env,
	}
	roots, err := packages.Load(pc, "./...")
	if err != nil {
		return nil, err
	}
	var out []*packages.Package
	for _, p := range roots {
		if len(p.Errors) > 0 {
			return nil, fmt.Errorf("%s: %v", p.PkgPath, p.Errors[0])
		}
		if p.PkgPath == Mod || strings.HasPrefix(p.PkgPath, Mod+"/") {
			out = append(out, p)
		}
	}
	return out, nil
}

// Inventory lists the function keys of the tree at dir (non-test files of the default configuration).
func Inventory(dir string) ([]string, error) {
	pkgs, err := loadSyntax(dir)
	if err != nil {
		return nil, err
	}
	var keys []string
	for _, p := range pkgs {
		for _, f := range p.Syntax {
			for _, d := range f.Decls {
				if fd, ok := d.(*ast.FuncDecl); ok {
					keys = append(keys, FuncKey(p.PkgPath, fd)+"\t"+sigText(p, fd))
					for _, cd := range closureDefs(p, fd) {
						keys = append(keys, cd.key)
					}
				}
				// package-level types (a struct type that is not listed is a new grouping of values)
				if gd, ok := d.(*ast.GenDecl); ok && gd.Tok == token.TYPE {
					for _, sp := range gd.Specs {
						keys = append(keys, "type:"+p.PkgPath+"."+sp.(*ast.TypeSpec).Name.Name)
					}
				}
			}
		}
	}
	sort.Strings(keys)
	return keys, nil
}

// sigText: parameter names and types, result types (what the rules' anchors rely on).
func sigText(p *packages.Package, fd *ast.FuncDecl) string {
	var b strings.Builder
	field := func(fl *ast.FieldList) {
		if fl == nil {
			return
		}
		for _, f := range fl.List {
			t := types.ExprString(f.Type)
			if len(f.Names) == 0 {
				b.WriteString("_ " + t + ",")
			}
			for _, n := range f.Names {
				b.WriteString(n.Name + " " + t + ",")
			}
		}
	}
	b.WriteString("(")
	field(fd.Type.Params)
	b.WriteString(")(")
	// the names of results are the function's own business (a single-exit rewrite names them); the rules look
	// parameters up by name, results never
	if fd.Type.Results != nil {
		for _, f := range fd.Type.Results.List {
			t := types.ExprString(f.Type)
			k := len(f.Names)
			if k == 0 {
				k = 1
			}
			for i := 0; i < k; i++ {
				b.WriteString("_ " + t + ",")
			}
		}
	}
	b.WriteString(")")
	return b.String()
}

// invSig: function key -> signature text recorded in the inventory ("" when the inventory has none).
var invSig = map[string]string{}

// invKeys: the inventory read by the last Normalize (functions, closures, "type:" entries).
var invKeys = map[string]bool{}

func readInventory(path string) (map[string]bool, error) {
	f, err := os.Open(path)
	if err != nil {
		return nil, err
	}
	defer f.Close()
	inv := map[string]bool{}
	sc := bufio.NewScanner(f)
	for sc.Scan() {
		l := strings.TrimSpace(sc.Text())
		if l != "" && !strings.HasPrefix(l, "#") {
			if k, sig, has := strings.Cut(l, "\t"); has {
				inv[k] = true
				invSig[k] = sig
			} else {
				inv[l] = true
			}
		}
	}
	return inv, sc.Err()
}

type newFunc struct {
	key     string
	pkg     *packages.Package
	decl    *ast.FuncDecl // for a closure: synthetic (Name = the variable's identifier, Type/Body = the literal's)
	obj     types.Object
	closure bool
	defStmt ast.Stmt // closure: the statement that defines the variable
}

// closureDefs: `name := func(...) {...}` statements of fd whose variable is only ever called.
func closureDefs(p *packages.Package, fd *ast.FuncDecl) []*newFunc {
	var out []*newFunc
	if fd.Body == nil {
		return nil
	}
	type cdef struct {
		id   *ast.Ident
		lit  *ast.FuncLit
		stmt ast.Stmt
	}
	var defs []cdef
	ast.Inspect(fd.Body, func(n ast.Node) bool {
		switch x := n.(type) {
		case *ast.AssignStmt:
			if x.Tok != token.DEFINE || len(x.Lhs) != len(x.Rhs) {
				return true
			}
			for li := range x.Lhs {
				id, ok := x.Lhs[li].(*ast.Ident)
				lit, ok2 := x.Rhs[li].(*ast.FuncLit)
				if ok && ok2 {
					defs = append(defs, cdef{id, lit, x})
				}
			}
		case *ast.DeclStmt:
			// var name T = func(...) {...} (the form the x/tools inliner binds function-typed arguments in)
			if gd, isGD := x.Decl.(*ast.GenDecl); isGD && gd.Tok == token.VAR {
				for _, sp := range gd.Specs {
					vs := sp.(*ast.ValueSpec)
					if len(vs.Names) == len(vs.Values) {
						for li := range vs.Names {
							if lit, isLit := vs.Values[li].(*ast.FuncLit); isLit {
								defs = append(defs, cdef{vs.Names[li], lit, x})
							}
						}
					}
				}
			}
		}
		return true
	})
	for _, d := range defs {
		{
			id, lit, as := d.id, d.lit, d.stmt
			if id.Name == "_" {
				continue
			}
			obj := p.TypesInfo.Defs[id]
			if obj == nil {
				continue
			}
			// every use is the function of a direct call; no reassignment; not recursive
			onlyCalled := true
			uses := 0
			var stack []ast.Node
			ast.Inspect(fd.Body, func(m ast.Node) bool {
				if m == nil {
					stack = stack[:len(stack)-1]
					return true
				}
				stack = append(stack, m)
				u, isId := m.(*ast.Ident)
				if !isId || p.TypesInfo.Uses[u] != obj {
					return true
				}
				pi := len(stack) - 2
				for pi > 0 {
					if _, isParen := stack[pi].(*ast.ParenExpr); !isParen {
						break
					}
					pi--
				}
				parent := stack[pi]
				if as2, isAs := parent.(*ast.AssignStmt); isAs && len(as2.Lhs) == 1 && len(as2.Rhs) == 1 {
					if b, isB := as2.Lhs[0].(*ast.Ident); isB && b.Name == "_" {
						return true // `_ = name`: the keep-alive the normaliser itself inserts
					}
				}
				uses++
				call, isCall := parent.(*ast.CallExpr)
				if !isCall || ast.Unparen(call.Fun) != ast.Expr(u) {
					onlyCalled = false
				}
				if u.Pos() >= lit.Pos() && u.End() <= lit.End() {
					onlyCalled = false // recursive
				}
				return true
			})
			if !onlyCalled || uses == 0 {
				continue
			}
			out = append(out, &newFunc{key: FuncKey(p.PkgPath, fd) + "$" + id.Name, pkg: p, decl: &ast.FuncDecl{Name: id, Type: lit.Type, Body: lit.Body}, obj: obj, closure: true, defStmt: as})
		}
	}
	return out
}

// findNew: unexported functions with bodies that the inventory does not know and that do not call themselves.
func findNew(pkgs []*packages.Package, inv map[string]bool) []*newFunc {
	var out []*newFunc
	for _, p := range pkgs {
		for _, f := range p.Syntax {
			for _, d := range f.Decls {
				fd, ok := d.(*ast.FuncDecl)
				if ok && fd.Body != nil {
					for _, cd := range closureDefs(p, fd) {
						if !inv[cd.key] {
							out = append(out, cd)
						}
					}
				}
				if !ok || fd.Body == nil || fd.Name.IsExported() || fd.Name.Name == "init" || fd.Name.Name == "_" {
					continue
				}
				key := FuncKey(p.PkgPath, fd)
				if inv[key] && (invSig[key] == "" || invSig[key] == sigText(p, fd)) {
					continue
				}
				obj, _ := p.TypesInfo.Defs[fd.Name].(*types.Func)
				if obj == nil {
					continue
				}
				recursive := false
				ast.Inspect(fd.Body, func(n ast.Node) bool {
					if id, ok := n.(*ast.Ident); ok && p.TypesInfo.Uses[id] == types.Object(obj) {
						recursive = true
					}
					return true
				})
				if recursive {
					continue
				}
				out = append(out, &newFunc{key: key, pkg: p, decl: fd, obj: obj})
			}
		}
	}
	return out
}

// InlinedAway lists the keys of new functions all of whose calls were inlined by the last Normalize: their bodies are
// analysed as part of their callers, and rules that range over every function skip them.
var InlinedAway = map[string]bool{}

// Normalize returns the directory to analyse: dir itself when it has no new functions, otherwise a scratch copy
// in which calls to new functions have been inlined. notes describes what was done; cleanup removes the copy.
func Normalize(dir, inventoryPath string) (out string, notes []string, cleanup func(), err error) {
	cleanup = func() {}
	inv, err := readInventory(inventoryPath)
	if err != nil {
		return dir, nil, cleanup, fmt.Errorf("function inventory: %w", err)
	}
	invKeys = inv
	pkgs, err := loadSyntax(dir)
	if err != nil {
		// let the main load report the error
		return dir, nil, cleanup, nil
	}
	if len(findNew(pkgs, inv)) == 0 && !hasTableLoops(pkgs) {
		return dir, nil, cleanup, nil
	}
	tmp, err := os.MkdirTemp("", "vnorm-")
	if err != nil {
		return dir, nil, cleanup, err
	}
	cleanup = func() { os.RemoveAll(tmp) }
	if b, err := exec.Command("rsync", "-a", "--exclude", ".git", dir+"/", tmp+"/").CombinedOutput(); err != nil {
		return dir, nil, cleanup, fmt.Errorf("copy for normalisation: %v: %s", err, b)
	}
	inlined := map[string]int{}
	var failed []string
	gaveUp := map[string]bool{} // call sites (file:callee name:ordinal) that could not be inlined
	type undo struct {
		file    string
		content []byte
		site    string
		key     string
		method  string
	}
	forceSplice := map[string]bool{} // sites where the x/tools inliner's output did not type-check
	var last *undo
	seq := 0
	for round := 0; round < 80; round++ {
		pkgs, err := loadSyntax(tmp)
		if err != nil {
			if last == nil {
				return dir, nil, cleanup, fmt.Errorf("normalised copy does not type-check: %w", err)
			}
			// the last edit broke the build: take it back and leave that call alone
			if werr := os.WriteFile(last.file, last.content, 0o644); werr != nil {
				return dir, nil, cleanup, werr
			}
			inlined[last.key]--
			if last.method == "table" {
				gaveUp[last.site] = true
				failed = append(failed, fmt.Sprintf("table loop %s (rewritten form did not type-check: %v)", strings.TrimPrefix(last.site, Mod), err))
			} else if last.method == "xtools" && !forceSplice[last.site] {
				forceSplice[last.site] = true // try the statement-level splice instead
			} else {
				gaveUp[last.site] = true
				failed = append(failed, fmt.Sprintf("%s (inlined form did not type-check: %v)", last.key, err))
			}
			last = nil
			continue
		}
		last = nil
		news := findNew(pkgs, inv)
		byObj := map[types.Object]*newFunc{}
		for _, nf := range news {
			byObj[nf.obj] = nf
		}
		progress := false
	search:
		for _, p := range pkgs {
			for i, f := range p.Syntax {
				filename := p.CompiledGoFiles[i]
				if strings.HasSuffix(filename, "_test.go") {
					continue
				}
				var target *ast.CallExpr
				var tnf *newFunc
				var tsite string
				var iifeSig *types.Signature
				inGo := false
				ordinal := map[string]int{}
				var stack []ast.Node
				ast.Inspect(f, func(n ast.Node) bool {
					if n == nil {
						stack = stack[:len(stack)-1]
						return true
					}
					stack = append(stack, n)
					call, ok := n.(*ast.CallExpr)
					if !ok {
						return true
					}
					// an immediately-invoked function literal in statement position (what is left when a callback
					// helper has been inlined): its body is spliced in place
					if lit, isLit := ast.Unparen(call.Fun).(*ast.FuncLit); isLit && target == nil && len(stack) >= 2 {
						_, inGoStmt := stack[len(stack)-2].(*ast.GoStmt)
						_, inDefer := stack[len(stack)-2].(*ast.DeferStmt)
						if _, isExprStmt := stack[len(stack)-2].(*ast.ExprStmt); !isExprStmt {
							return true // only a literal called for its effects (the pinned tree has none of those)
						}
						encl := ""
						for _, anc := range stack {
							if fd, isFD := anc.(*ast.FuncDecl); isFD {
								encl = FuncKey(p.PkgPath, fd)
							}
						}
						if !inGoStmt && !inDefer && encl != "" {
							ordinal[encl+">iife"]++
							site := fmt.Sprintf("%s>iife#%d", encl, ordinal[encl+">iife"])
							if !gaveUp[site] {
								sig, _ := p.TypesInfo.TypeOf(lit).(*types.Signature)
								target, tsite = call, site
								tnf = &newFunc{key: encl + "$iife", pkg: p, decl: &ast.FuncDecl{Name: ast.NewIdent("_iife"), Type: lit.Type, Body: lit.Body}, closure: true}
								iifeSig = sig
								inGo = false
							}
						}
						return true
					}
					id := calleeIdent(call)
					if id == nil || !id.Pos().IsValid() {
						return true
					}
					nf := byObj[p.TypesInfo.Uses[id]]
					if nf == nil {
						return true
					}
					// calls inside the new functions themselves are handled once those are inlined into known code
					for _, anc := range stack {
						if fd, isFD := anc.(*ast.FuncDecl); isFD {
							if o := p.TypesInfo.Defs[fd.Name]; o != nil && byObj[o] != nil {
								return true
							}
						}
					}
					encl := ""
					for _, anc := range stack {
						if fd, isFD := anc.(*ast.FuncDecl); isFD {
							encl = FuncKey(p.PkgPath, fd)
						}
					}
					ordinal[encl+">"+nf.key]++
					site := fmt.Sprintf("%s>%s#%d", encl, nf.key, ordinal[encl+">"+nf.key])
					if gaveUp[site] || target != nil {
						return true // first candidate in source order
					}
					target, tnf, tsite = call, nf, site
					inGo = false
					if len(stack) >= 2 {
						switch st := stack[len(stack)-2].(type) {
						case *ast.GoStmt:
							inGo = st.Call == call
						case *ast.DeferStmt:
							inGo = st.Call == call
						}
					}
					return true
				})
				if target == nil {
					continue
				}
				content, err := os.ReadFile(filename)
				if err != nil {
					return dir, nil, cleanup, err
				}
				calleeFileName := tnf.pkg.Fset.File(tnf.decl.Body.Pos()).Name()
				calleeContent, err := os.ReadFile(calleeFileName)
				if err != nil {
					return dir, nil, cleanup, err
				}
				var calleeFile *ast.File
				for _, cf := range tnf.pkg.Syntax {
					if cf.Pos() <= tnf.decl.Body.Pos() && tnf.decl.Body.End() <= cf.End() {
						calleeFile = cf
					}
				}
				logf := func(string, ...any) {}
				var newContent []byte
				why := ""
				method := "splice"
				if inGo {
					seq++
					sc := &spliceCtx{fset: p.Fset, callerPkg: p.Types, callerInfo: p.TypesInfo, callerFile: f, callerSrc: content,
						calleeDecl: tnf.decl, calleeInfo: tnf.pkg.TypesInfo, calleeSrc: calleeContent, calleeFile: calleeFile, seq: seq, closure: tnf.closure, sig: iifeSig}
					if out, err := sc.spliceGo(target); err != nil {
						why = err.Error()
					} else {
						newContent = out
					}
				}
				if newContent != nil {
					// done
				} else if tnf.closure {
					why = "local closure"
				} else if forceSplice[tsite] {
					why = "x/tools output did not type-check"
				} else if callee, err := inline.AnalyzeCallee(logf, tnf.pkg.Fset, tnf.pkg.Types, tnf.pkg.TypesInfo, tnf.decl, calleeContent); err != nil {
					why = err.Error()
				} else if res, err := inline.Inline(&inline.Caller{Fset: p.Fset, Types: p.Types, Info: p.TypesInfo, File: f, Call: target, Content: content}, callee, &inline.Options{Logf: logf}); err != nil {
					why = err.Error()
				} else if res.Literalized && !inGo {
					why = "needs a function literal"
				} else {
					newContent = res.Content
					method = "xtools"
				}
				if newContent == nil {
					seq++
					sc := &spliceCtx{fset: p.Fset, callerPkg: p.Types, callerInfo: p.TypesInfo, callerFile: f, callerSrc: content,
						calleeDecl: tnf.decl, calleeInfo: tnf.pkg.TypesInfo, calleeSrc: calleeContent, calleeFile: calleeFile, seq: seq, closure: tnf.closure, sig: iifeSig}
					if out, err := sc.splice(target); err != nil {
						why += "; " + err.Error()
					} else {
						newContent = out
					}
				}
				if newContent == nil {
					gaveUp[tsite] = true
					failed = append(failed, fmt.Sprintf("%s in %s (%s)", strings.TrimPrefix(tnf.key, Mod), strings.TrimPrefix(tsite[:strings.Index(tsite, ">")], Mod), why))
					progress = true // look for the next site
					break search
				}
				if tnf.closure && tnf.defStmt != nil {
					// the variable may lose its last use: keep it referenced (inserted after the edit point is computed,
					// at the end of the defining statement, which precedes every call)
					off := p.Fset.Position(tnf.defStmt.End()).Offset
					marker := "; _ = " + tnf.decl.Name.Name
					if off <= len(content) && !strings.Contains(string(newContent[:min(len(newContent), off+len(marker)+2)]), marker) {
						newContent = []byte(string(newContent[:off]) + marker + string(newContent[off:]))
					}
				}
				if err := os.WriteFile(filename, newContent, 0o644); err != nil {
					return dir, nil, cleanup, err
				}
				last = &undo{filename, content, tsite, tnf.key, method}
				inlined[tnf.key]++
				progress = true
				break search
			}
		}
		if !progress {
			// no call left to inline: loops over constant local tables
			st, err := findTableStep(pkgs, gaveUp, &seq)
			if err != nil {
				return dir, nil, cleanup, err
			}
			if st == nil {
				break
			}
			old, err := os.ReadFile(st.file)
			if err != nil {
				return dir, nil, cleanup, err
			}
			if err := os.WriteFile(st.file, st.content, 0o644); err != nil {
				return dir, nil, cleanup, err
			}
			k := "table:" + st.what
			last = &undo{st.file, old, st.site, k, "table"}
			inlined[k]++
		}
	}
	for k, n := range inlined {
		if n <= 0 {
			delete(inlined, k)
		}
	}
	if len(inlined) > 0 {
		for pass := 0; pass < 6; pass++ {
			changed, err := dropDeadClosures(tmp)
			if err != nil {
				return dir, nil, cleanup, err
			}
			if !changed {
				break
			}
		}
	}
	for k := range inlined {
		kept := false
		for site := range gaveUp {
			if strings.Contains(site, ">"+k+"#") {
				kept = true
			}
		}
		if !kept && !strings.Contains(k, "$") && !strings.HasPrefix(k, "table:") {
			InlinedAway[k] = true
		}
	}
	var keys, tkeys []string
	for k, n := range inlined {
		if strings.HasPrefix(k, "table:") {
			tkeys = append(tkeys, fmt.Sprintf("%s x%d", strings.TrimPrefix(k, "table:"), n))
			continue
		}
		keys = append(keys, fmt.Sprintf("%s x%d", strings.TrimPrefix(k, Mod), n))
	}
	sort.Strings(keys)
	sort.Strings(tkeys)
	if len(keys) > 0 {
		notes = append(notes, "functions not in the frozen inventory were inlined into their callers before analysis: "+strings.Join(keys, ", "))
	}
	if len(tkeys) > 0 {
		notes = append(notes, "local operand tables and grouping structs were normalised before analysis: "+strings.Join(tkeys, ", "))
	}
	if len(failed) > 0 {
		sort.Strings(failed)
		notes = append(notes, "could not inline: "+strings.Join(failed, "; "))
	}
	if len(inlined) == 0 {
		cleanup()
		return dir, notes, func() {}, nil
	}
	return tmp, notes, cleanup, nil
}

// closureDead: the closure variable o of fd is used by nothing but `_ = o` markers.
func closureDead(p *packages.Package, fd *ast.FuncDecl, o types.Object) bool {
	dead := true
	var stack []ast.Node
	ast.Inspect(fd.Body, func(m ast.Node) bool {
		if m == nil {
			stack = stack[:len(stack)-1]
			return true
		}
		stack = append(stack, m)
		u, isId := m.(*ast.Ident)
		if !isId || p.TypesInfo.Uses[u] != o {
			return true
		}
		if as2, isAs := stack[len(stack)-2].(*ast.AssignStmt); isAs && len(as2.Lhs) == 1 && len(as2.Rhs) == 1 && as2.Rhs[0] == ast.Expr(u) {
			if b, isB := as2.Lhs[0].(*ast.Ident); isB && b.Name == "_" {
				return true
			}
		}
		dead = false
		return true
	})
	return dead
}

// dropDeadClosures removes `name := func(...) {...}` definitions (and the `_ = name` markers) of closure variables
// that nothing uses any more once their calls have been inlined: a literal that is never called has no effect, but
// it still captures variables, which would keep them in memory cells instead of registers for the analysis.
func dropDeadClosures(tmp string) (bool, error) {
	pkgs, err := loadSyntax(tmp)
	if err != nil {
		return false, nil // the rounds left the tree as the main load will see it
	}
	saved := map[string][]byte{}
	for _, p := range pkgs {
		for i, f := range p.Syntax {
			filename := p.CompiledGoFiles[i]
			if strings.HasSuffix(filename, "_test.go") {
				continue
			}
			var edits []textEdit
			for _, d := range f.Decls {
				fd, ok := d.(*ast.FuncDecl)
				if !ok || fd.Body == nil {
					continue
				}
				ast.Inspect(fd.Body, func(n ast.Node) bool {
					var id *ast.Ident
					var as ast.Node
					var litOnly *ast.FuncLit // set when only the literal (one of several right-hand sides) is to go
					switch x := n.(type) {
					case *ast.AssignStmt:
						if x.Tok != token.DEFINE || len(x.Lhs) != len(x.Rhs) {
							return true
						}
						if len(x.Lhs) > 1 {
							// a, f, g := v, func…, func…: a dead literal is replaced by a typed nil
							for k := range x.Lhs {
								i, ok := x.Lhs[k].(*ast.Ident)
								lit, isLit := x.Rhs[k].(*ast.FuncLit)
								if !ok || !isLit || i.Name == "_" || id != nil {
									continue
								}
								if o := p.TypesInfo.Defs[i]; o != nil && closureDead(p, fd, o) {
									id, as, litOnly = i, x, lit
								}
							}
							if id == nil {
								return true
							}
							off := func(pos token.Pos) int { return p.Fset.Position(pos).Offset }
							content, err := os.ReadFile(filename)
							if err != nil {
								return true
							}
							sig := string(content[off(litOnly.Type.Pos()):off(litOnly.Type.End())])
							edits = append(edits, textEdit{off(litOnly.Pos()), off(litOnly.End()), "(" + sig + ")(nil)"})
							return false
						}
						i, ok := x.Lhs[0].(*ast.Ident)
						if _, isLit := x.Rhs[0].(*ast.FuncLit); !ok || !isLit {
							return true
						}
						id, as = i, x
					case *ast.DeclStmt:
						gd, isGD := x.Decl.(*ast.GenDecl)
						if !isGD || gd.Tok != token.VAR {
							return true
						}
						for _, sp := range gd.Specs {
							vs := sp.(*ast.ValueSpec)
							if len(vs.Names) == 1 && len(vs.Values) == 1 {
								if _, isLit := vs.Values[0].(*ast.FuncLit); isLit && id == nil {
									id, as = vs.Names[0], vs
									if !gd.Lparen.IsValid() {
										as = x
									}
								}
							}
						}
						if id == nil {
							return true
						}
					default:
						return true
					}
					if id.Name == "_" {
						return true
					}
					obj := p.TypesInfo.Defs[id]
					if obj == nil {
						return true
					}
					var markers []*ast.AssignStmt
					dead := true
					var stack []ast.Node
					ast.Inspect(fd.Body, func(m ast.Node) bool {
						if m == nil {
							stack = stack[:len(stack)-1]
							return true
						}
						stack = append(stack, m)
						u, isId := m.(*ast.Ident)
						if !isId || p.TypesInfo.Uses[u] != obj {
							return true
						}
						if as2, isAs := stack[len(stack)-2].(*ast.AssignStmt); isAs && len(as2.Lhs) == 1 && len(as2.Rhs) == 1 && as2.Rhs[0] == ast.Expr(u) {
							if b, isB := as2.Lhs[0].(*ast.Ident); isB && b.Name == "_" {
								markers = append(markers, as2)
								return true
							}
						}
						dead = false
						return true
					})
					if !dead || len(markers) == 0 {
						return true // still used, or not one of ours (an unused variable would not compile anyway)
					}
					off := func(pos token.Pos) int { return p.Fset.Position(pos).Offset }
					edits = append(edits, textEdit{off(as.Pos()), off(as.End()), ""})
					for _, mk := range markers {
						edits = append(edits, textEdit{off(mk.Pos()), off(mk.End()), ""})
					}
					return false
				})
			}
			if len(edits) == 0 {
				continue
			}
			content, err := os.ReadFile(filename)
			if err != nil {
				return false, err
			}
			saved[filename] = content
			if err := os.WriteFile(filename, []byte(applyEdits(content, 0, edits)), 0o644); err != nil {
				return false, err
			}
		}
	}
	if len(saved) == 0 {
		return false, nil
	}
	if _, err := loadSyntax(tmp); err != nil {
		for fn, c := range saved {
			if werr := os.WriteFile(fn, c, 0o644); werr != nil {
				return false, werr
			}
		}
		return false, nil
	}
	return true, nil
}

func calleeIdent(call *ast.CallExpr) *ast.Ident {
	f := ast.Unparen(call.Fun)
	// explicit instantiation f[T](…)
	switch ix := f.(type) {
	case *ast.IndexExpr:
		f = ast.Unparen(ix.X)
	case *ast.IndexListExpr:
		f = ast.Unparen(ix.X)
	}
	switch fun := f.(type) {
	case *ast.Ident:
		return fun
	case *ast.SelectorExpr:
		return fun.Sel
	}
	return nil
}

var _ = token.NoPos

var _ = filepath.Join
